"""Per-property configuration of ./check (what is generated, what is trusted)."""

CRYPTO_NOTE = "cryptographic primitives are parameters of the model; assumptions about them are explicit theorem hypotheses"

PROPS = {
    "C20": {
        "rule": "requested ages 0..99 x every absent/true/false assignment over a fixed age universe (exhaustive), "
                "random larger honest/dishonest claim sets, and out-of-domain spellings (+NN, 0NN, non-boolean values, "
                "malformed identifiers); a case is distinct by its full operation line (request + ordered holdings)",
        "exhaustive": True,
        "xlate_items": [],
        "trusted_base": ["hand-written model IsoMdl/Model/Age.lean of nearest_age_attestation / AgeOver::try_from, tied by "
                         "correspondence (real function called in-process on every generated case)",
                         "Rust std: BTreeMap iteration order, Iterator::min_by_key (first minimum) / max_by_key (last maximum), u8::from_str"],
        "level_text": "Lean theorems for every requested age and every finite list of held claims (no size bound): the selection equals the property's 'nearest' sentence, answers the request, returns a held item unchanged, rejects malformed requests; tied to the Rust function by in-process correspondence incl. an exhaustive absent/true/false sweep.",
        "level_note": "Trusted: Lean kernel; hand model of nearest_age_attestation validated by correspondence (not translation); Rust std iterator/BTreeMap/u8 parsing semantics as modelled.",
        "technique": "Lean 4 proof (induction over claim lists) + model/implementation correspondence",
        "assumptions": ["holdings are well-formed for the Spec(real) predicate: every identifier containing 'age_over' is age_over_NN with a boolean value (forced by the code; theorem C20_malformed_holding_fails)"],
    },
}

ALL = ["C%02d" % i for i in range(1, 21)]
NOT_APPLICABLE = [{"property_id": p, "reason": "not yet claimed: machinery for this property is still being built (work in progress, see DESIGN.md section 8)"}
                  for p in ALL if p not in PROPS]
