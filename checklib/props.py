"""Per-property configuration of ./check (what is generated, what is trusted)."""

CRYPTO_NOTE = "cryptographic primitives are parameters of the model; assumptions about them are explicit theorem hypotheses"

PROPS = {
    "C01": {
        "rule": "honest end-to-end sessions on the real library: documents issued from random sub-records of the WHOLE mDL and AAMVA data models (through FromJson/to_ns_map, every value type: Latin-1 text, full dates, date-times, byte strings, integers, booleans, code tables, privilege structures), SHA-256/384/512 digests, decoys on/off, a second unrelated document held or not, every retrieval configuration of C18, "
                "1..4 rounds per session with random requested and permitted sets per round (including elements that are not held, AAMVA-only agreements and empty agreements), the holder signing with the issued device key, the reader configured with / without the issuer's root as trust anchor. "
                "Per session: both roles' session keys against the Lean key derivation, both BLE idents; per round: the request decrypts at the device, the reader's reported element set = requested ∩ permitted ∩ held (Lean set predicate), every reported value = the issued value under the documented CBOR->JSON view (independent converter), both statuses and the error map. Distinct by (session, round)",
        "xlate_items": [],
        "trusted_base": ["composition of the models of C02 (disclosure), C03-C05 (authentication logic), C06/C07/C13 (session), C08 (key derivation) - each tied to the code by its own correspondence",
                         "the harness's own CBOR->JSON view of issued values (text, tagged text, integers, booleans, byte strings as number arrays, arrays, text-keyed maps)",
                         "ECDH symmetry is observed (both roles' keys compared on every session), not proved"],
        "level_text": "Lean theorems: for ANY number of rounds, each with any non-empty set of prepared documents, starting from the state right after establishment, every request is accepted by the device and every response by the reader, with status 0 and each document paired with its own signature (induction over rounds over the session model); the response of a round discloses an item iff it was requested, permitted and held, as the issued item (from C02 soundness + completeness, with the held-and-signable case analysed); "
                      "when the response reaches validation, the chain validates against a configured anchor, the issuer signature and digests check and the holder's signature verifies, BOTH statuses are Valid with an empty error map; both roles' keys are the same function of the same inputs and equal the ISO formula (C08). The harness evaluates the same statements on what the real reader reports for generated sessions.",
        "level_note": "A composition: the theorems are about the composed models; that the real reader's report equals the model's is checked on generated sessions (all value types, digest algorithms, retrieval methods, 1..4 rounds), not proved.",
        "technique": "Lean 4 proof (induction over rounds; composition of the C02/C03-05/C08 theorems) + end-to-end correspondence on real sessions",
        "assumptions": ["round counts in real sessions are sampled 1..4 (the theorem covers every count)"],
    },
    "C02": {
        "rule": "(a) exhaustive small scope: 2 document types x 1 namespace x 2 elements, every held/requested/permitted subset; (b) random cases with up to 3 held documents x 3 namespaces x 4 elements, requests naming unheld documents/namespaces/elements and "
                "repeating a document type, permissions that are supersets, contain duplicates, are shuffled, name unrequested documents; a non-signing device key; through the real default DeviceSession::prepare_response (public trait) and filter_permitted; "
                "(c) wire level: real sessions with 1-5 request rounds, each decrypted DeviceResponse checked against the request being answered only. Distinct by operation line",
        "exhaustive": True,
        "xlate_items": [],
        "trusted_base": ["hand model of filter_permitted / prepare_response over association lists (Model/Disclosure.lean), tied by correspondence on the PreparedDeviceResponse and on decrypted wire responses",
                         "harness abstraction: string keys -> numbers preserving BTreeMap order; item identity by byte equality with the held Tag24"],
        "level_text": "Lean theorems for all held sets, requests and permissions (no size bound): filter_permitted is an intersection; every disclosed item is requested, permitted and the exact held item; element and document errors concern only requested+permitted data; every requested (by the first request for its docType) and permitted element is disclosed, listed with an error, or its document is a document error; unheld documents are document errors. Tied by exhaustive small-scope and random correspondence incl. the wire level across request sequences.",
        "level_note": "Trusted: Lean kernel; model validated by correspondence; completeness is stated for the first document request per docType (the code ignores later ones: theorem C02_second_request_for_same_doctype_ignored, DESIGN O-C02).",
        "technique": "Lean 4 proof (induction over association lists / folds) + exhaustive small-scope and random correspondence",
        "assumptions": [],
    },
    "C03": {
        "rule": "five trust-anchor registries (right root, empty, unrelated root, right root registered for the reader purpose, mixed) x authentic response + single-point alterations of issuerAuth: payload bytes (sampled; thorough: all), signature bytes, truncation, detached payload, alg ES384 / removed / extra protected label, "
                "x5chain removed / wrong type / truncated DER / moved to the protected header / arrays in both orders, extra unprotected label, certificate substitutions (other DS under the same IACA, DS of another IACA, self-signed and expired certificates carrying the genuine key, the IACA itself as leaf). Distinct by delivered bytes",
        "xlate_items": [],
        "trusted_base": ["Model/ReaderAuth.lean: hand model of handle_response / validate_response / issuer_authentication / device_authentication over 'facts' of the delivered message", "harness abstraction function (auth.rs::facts): independent Sig_structure, p256 and sha2 used directly, x509-cert; chain validation result and DER/COSE parsing are taken from the library (C12/C16/C17 cover them)", "ECDSA unforgeability / hash collision resistance are not part of the theorems: they relate verdicts to what the primitive accepts"],
        "level_text": "Lean theorems (decision logic stated outright, all fact combinations): issuer authentication is Valid iff the response decrypts/decodes/carries an mDL document with decodable x5chain and core namespace, chain validation has no error, and COSE verification under the leaf key succeeds over the attached payload and protected header; every non-Valid status has an error entry; each listed alteration gives not-Valid. Tied by adversarial correspondence over registries x alterations, with the predicate evaluated on the real verdicts.",
        "level_note": "Trusted: Lean kernel; fact extraction; crypto facts observed with RustCrypto crates directly; chain validation itself is C12.",
        "technique": "Lean 4 proof (decision logic, case analysis) + adversarial alteration correspondence",
        "assumptions": ["signature unforgeability (only to conclude that an altered message is not accepted by the primitive)"],
    },
    "C04": {
        "rule": "authentic responses (2 and 5 disclosed elements) altered by a holder who re-signs device authentication and re-encrypts: per element value / identifier / random / digestID changed, item copied to another namespace, item injected, issuerAuth of another docType from the same issuer, items reordered; "
                "digests recomputed by the harness with sha2 from the item bytes on the wire. Distinct by delivered bytes",
        "xlate_items": [],
        "trusted_base": ["Model/ReaderAuth.lean: hand model of handle_response / validate_response / issuer_authentication / device_authentication over 'facts' of the delivered message", "harness abstraction function (auth.rs::facts): independent Sig_structure, p256 and sha2 used directly, x509-cert; chain validation result and DER/COSE parsing are taken from the library (C12/C16/C17 cover them)", "ECDSA unforgeability / hash collision resistance are not part of the theorems: they relate verdicts to what the primitive accepts"],
        "level_text": "The full-strength statement (Valid implies digests and docType bound to the MSO) is proved FALSE of the code as modelled (witness theorems C04_full_fails, C04_full_fails_doctype); partial theorems state what holds (the MSO signature is checked; the outcome is independent of the binding facts). The check evaluates the C04 predicate on real verdicts and reproduces the defect with concrete replays.",
        "level_note": "Trusted: as C03. Known finding F-C04 unless repaired.",
        "technique": "Lean 4 proof of the negation by witness + partial theorems + holder-alteration correspondence",
        "assumptions": ["hash collision resistance"],
    },
    "C05": {
        "rule": "pairs of concurrent sessions: authentic response; cross-session replay both ways (re-encrypted for the other reader); re-signed with a fresh key / with the issuer key; signature byte flips and truncation; device namespaces altered with and without re-signing, re-encoded; deviceMac; attached payload; protected alg ES384 / absent re-signed; issuerAuth payload detached; "
                "plus the library's to-be-signed bytes vs an independent computation from wire bytes only (QR payload, eReaderKey bytes) and vs Lean's Sig_structure. Distinct by delivered bytes",
        "xlate_items": [],
        "trusted_base": ["Model/ReaderAuth.lean: hand model of handle_response / validate_response / issuer_authentication / device_authentication over 'facts' of the delivered message", "harness abstraction function (auth.rs::facts): independent Sig_structure, p256 and sha2 used directly, x509-cert; chain validation result and DER/COSE parsing are taken from the library (C12/C16/C17 cover them)", "ECDSA unforgeability / hash collision resistance are not part of the theorems: they relate verdicts to what the primitive accepts"],
        "level_text": "Lean theorems: device authentication is Valid iff the response reaches validation and the device signature verifies under the P-256 device key from the MSO over Sig_structure(DeviceAuthenticationBytes(reader's transcript, docType, device namespaces)); listed alterations give not-Valid; DeviceAuthenticationBytes is injective in transcript, docType and device namespaces (enc injectivity), so a signature from another session/docType is over different bytes. Tied by two-session adversarial correspondence and an independent to-be-signed computation.",
        "level_note": "Trusted: as C03; non-P-256 device keys with explicit coordinates make the reader panic (C15 finding), modelled as `panics`.",
        "technique": "Lean 4 proof (decision logic + injectivity of the CBOR encoder) + cross-session adversarial correspondence",
        "assumptions": ["signature unforgeability"],
    },
    "C06": {
        "rule": "two concurrent real sessions; from every synchronised state (saved and reloaded through stringify/parse) each fresh honest message of either direction is delivered as: single-bit flips of the ciphertext "
                "(boundary + sampled positions; thorough: every bit), truncations and extension re-wrapped as SessionData, every earlier message of the direction (replay/reorder), every message of the other direction (reflection), "
                "the other session's messages with the same counters, mutated/truncated SessionData wrappers, and finally the honest message. Distinct by operation line text",
        "xlate_items": ["get_initialization_vector"],
        "trusted_base": ["hand-written session model (symbolic ciphertexts) tied by correspondence", "AEAD integrity of AES-256-GCM: `accepts` in Model/Session.lean is the assumption Crypto.Ideal"],
        "level_text": "Lean theorems: a ciphertext is accepted iff it is the peer's next message of this session, unmodified (given AEAD integrity, stated as the symbolic `accepts`); every other ciphertext - tampered, other session, reflected, any counter but the next - gives a decryption error; a rejection leaves state, encryption counter and prepared responses untouched and yields no payload; the receive counter only moves forward. Tied by correspondence on adversarial deliveries in both directions plus the Spec predicate on the real outcomes.",
        "level_note": "Trusted: Lean kernel; AEAD integrity (hypothesis built into the symbolic message model); model validated on real sessions incl. outcome, state and counters after every delivery.",
        "technique": "Lean 4 proof (decision logic) over symbolic AEAD + adversarial correspondence",
        "assumptions": ["AES-256-GCM integrity (no forgery, key/IV binding)"],
    },
    "C07": {
        "rule": "(a) get_initialization_vector on boundary counters + random counters, both directions, against the regenerated Lean definition and the ISO predicate; "
                "(b) random interleavings of new_request / handle_request (honest, replayed, tampered, garbage, no-data, malformed plaintext) / prepare / get_next / submit / response_ready / "
                "retrieve / handle_response / stringify+parse of either role, some started near counter byte-carries, 4000 below u32::MAX and 1-3 steps before exhaustion (where the reader must produce no request, the device a bare status-10 message and every decryption must be refused without moving a counter); the IV of every real ciphertext is identified by trial AES-256-GCM "
                "decryption with the keys read from the stringified state. A case is one operation line in its history; distinct by line text",
        "xlate_items": ["get_initialization_vector"],
        "trusted_base": ["Generated.getInitializationVector is translated from src/definitions/session.rs by rust/xlate on every run",
                         "hand-written session model IsoMdl/Model/Session.lean (counter side effects of both SessionManagers), tied by correspondence",
                         "aes-gcm crate used directly for trial decryption; AEAD integrity (symbolic ciphertexts in the model)"],
        "level_text": "Lean theorems: the regenerated IV function equals the ISO 9.1.1.5 format for every non-overflowing counter; by induction over arbitrary operation lists of both roles (incl. failed decryptions and restores) the k-th encryption of a direction uses the ISO IV with counter k, and a direction never performs 2^32 encryptions because the guarded encrypt refuses at u32::MAX (C07_never_wraps), hence no IV reuse in ANY history - the bound of the property is enforced by the modelled code, not assumed; tied to the code by translation (leaf function) and correspondence (counter discipline, IV identified by trial decryption).",
        "level_note": "Trusted: Lean kernel; xlate; session model validated by correspondence; restore = identity is C14's correspondence; the refusal at u32::MAX (fix commit aa94dbf) is part of the hand model (atMax) and is exercised by correspondence at the boundary; the overflow point of the translated leaf function is pinned by C07_overflow_point.",
        "technique": "Lean 4 proof (invariant by induction over operation lists) + source translation + correspondence",
        "assumptions": ["fewer than 2^32 messages per direction (as in the property statement)", "AEAD integrity for identifying IVs by trial decryption"],
    },
    "C08": {
        "rule": "whole sessions for every retrieval configuration of C18 (no / BLE / NFC / Wi-Fi / combinations; fresh ephemeral keys; thorough: 6 repetitions): the Lean model recomputes SKReader, SKDevice (from the engagement bytes of the QR code, the EReaderKey bytes of the SessionEstablishment, the handover and the device's ephemeral scalar read from the stored engaged state: own P-256 scalar multiplication, SHA-256, HMAC, HKDF) and the BLE ident, "
                "compared with sk_reader / sk_device in the stringified state of BOTH roles and with both ble idents; engagements re-encoded non-canonically (non-minimal heads, reversed map order, indefinite lengths, unknown and RFU entries) handed to the reader, with a device restored from a stored state carrying those bytes; stored NFC / OID4VP handovers on the device; derive_session_key on random secrets and transcripts with every handover kind; "
                "peer keys (valid explicit / compressed both roots / negated; off-curve by one bit in x or y; valid point under another curve id; zero pair; x = p; all-ff; OKP; wrong lengths) through get_shared_secret, process_session_establishment and establish_session: refused exactly when the model refuses, and the shared secret equals the model's ECDH. Distinct by input bytes",
        "xlate_items": [],
        "trusted_base": ["Model/Sha2.lean and Model/P256.lean are executable Lean implementations validated (not proved) against FIPS 180-4 / RFC 4231 / RFC 5869 / RFC 6979 vectors and against sha2 / hkdf / p256 on every generated case (public keys, shared secrets, session keys)",
                         "Model/KeyDerivation.lean (hand-written) tied by correspondence on every generated session", "ECDH symmetry (both roles compute the same Z) is observed on every session, not proved",
                         "the device's ephemeral scalar is read from the stringified engaged state (serde view of the real struct)"],
        "level_text": "Lean theorems: for EVERY shared secret, transcript and role the model's session key is HKDF-SHA-256 in RFC 5869 one-block form with IKM = Z, salt = SHA-256(#6.24(bstr transcript)), info = the bytes of \"SKReader\" / \"SKDevice\", L = 32; the BLE ident likewise with IKM = #6.24(bstr EDeviceKey), empty salt (= HashLen zeros, proved), \"BLEIdent\", L = 16; the two labels differ; the transcript bytes determine engagement bytes, EReaderKey bytes and handover (encoder injectivity); "
                      "every peer key the model accepts is a valid P-256 point (coordinates in the field and on the curve - including the decompression branch, by a modular-arithmetic proof), every key of another curve id or key type is refused whatever its coordinates, a refused key yields no session keys, and the conversion never panics. The independent implementation is run against the real keys of both roles on every case.",
        "level_note": "Trusted: Lean kernel; that the Lean SHA-256 and P-256 arithmetic implement the standards is validated by vectors and by agreement with the Rust crates on every run, not proved; group-law facts (ECDH symmetry) are observed, not proved.",
        "technique": "Lean 4 proof (algebraic unfolding of HKDF, modular arithmetic for point decompression, encoder injectivity) + an independent executable Lean implementation of SHA-256/HMAC/HKDF/P-256 run against the real session keys",
        "assumptions": ["SHA-256 / P-256 model = the standards (validated by vectors)"],
    },
    "C09": {
        "rule": "(a) DigestId::new on the boundary set of its 2^32 inputs + random draws, against the regenerated Lean definition and the range predicate; (b) issuances over generated namespace maps "
                "(1-4 namespaces, 1-40 elements, arbitrary nested CBOR values), three digest algorithms, decoys on/off, direct and prepare/complete signing, non-UTC sub-second validity; every element digest is recomputed "
                "by the Lean model (own SHA-2) and the namespace / issuerAuth / MSO predicates of Spec/Issuance.lean are evaluated on the real output; signatures verified with p256 directly; (c) refusal cases. Distinct by operation line",
        "xlate_items": ["DigestId::new"],
        "trusted_base": ["Generated.digestIdNew translated from src/definitions/mso.rs on every run", "hand model of item/id/decoy generation over an explicit randomness tape (Model/Issuance.lean)",
                         "Lean SHA-256/384/512 (executable instance, validated against the sha2 crate on every item of every run and on FIPS vectors)", "p256 ECDSA verification used directly by the harness"],
        "level_text": "Lean theorems: digest-id range for every non-overflowing input (regenerated definition); for every element list and randomness tape the generated ids are fresh and pairwise distinct, each supplied element appears exactly once in order with its own salt, decoy ids are fresh; digest preimage is #6.24(bstr item) and is injective; refusals. Real issuances are tied by recomputing every digest in Lean and evaluating the full C09 predicate (namespace, MSO, issuerAuth, Sig_structure) on the real output.",
        "level_note": "Trusted: Lean kernel; xlate; hand model vs real code by correspondence; entropy of salts and termination of id generation are not modelled (tape); signature validity is observed through p256.",
        "technique": "Lean 4 proof (induction over element lists and tapes) + source translation + correspondence with independent digest recomputation",
        "assumptions": ["the randomness tape eventually yields a fresh id (loop termination is probabilistic in the code)"],
    },
    "C10": {
        "rule": "a non-canonical CBOR emitter (non-minimal integer and length heads, indefinite-length byte strings / arrays / maps, permuted map keys, unknown extra map entries; each form alone, then mixed) produces IssuerSignedItemBytes wrapped in a shortest-head tag 24; "
                "each goes through Tag24 decode/encode and from_bytes, repeated cycles, then whole documents with such items and a non-canonically encoded protected header go through device::Document stringify/parse cycles, SessionManagerInit/SessionManager stringify/parse, prepare_response, retrieve_response; "
                "the decrypted DeviceResponse must carry the identical item bytes, protected bytes, payload, signature and x5chain bytes. Distinct by wire bytes",
        "xlate_items": [],
        "trusted_base": ["Model/Wire.lean Tag24 and CoseSign1 (hand-written from tag24.rs / cose.rs), validated per item against the real decoder incl. the typed view of non-canonical bytes",
                         "Model/Cbor.lean decoder accepts the same non-canonical forms as ciborium (validated on the generated population, not proved about ciborium)"],
        "level_text": "Lean theorems (any payload type, any bytes): an accepted embedded item is re-emitted as the identical CBOR item; its typed view is the decoding of the kept bytes; with a shortest outer head the wire bytes are reproduced; any number of store/load cycles returns the same item (induction); COSE protected bytes, payload, signature and unprotected entries (x5chain) survive parse/emit. Tied by a non-canonical emitter driven through decode, storage cycles and real transfer.",
        "level_note": "Trusted: Lean kernel; ciborium/coset behaviour on non-canonical input as modelled and validated; floats and bignum tags excluded from the non-canonical generator (ciborium normalises them, the typed view would differ although the kept bytes do not).",
        "technique": "Lean 4 proof (case analysis + induction over cycles) + non-canonical-encoding correspondence",
        "assumptions": ["outer tag-24 byte-string head in shortest form (as the property states)"],
    },
    "C11": {
        "rule": "the harness plays the reader with the session keys of a real established session and sends DeviceRequests with 1-3 document requests, each absent / authentic / signature flipped / ItemsRequestBytes re-encoded after signing / signed for another session's transcript / signed over other items / "
                "self-signed, expired, DS-role or wrong-key reader certificate / attached payload / alg ES384 / x5chain missing or only in the protected header; all patterns of one request, most of two, sampled triples; four device-side registries (right reader CA, empty, IACA-purpose only, unrelated reader CA). Distinct by plaintext bytes",
        "xlate_items": [],
        "trusted_base": ["Model/DeviceAuthReq.lean: hand model of validate_request / reader_authentication over per-request facts", "facts computed by the harness: own ReaderAuthentication Sig_structure from wire bytes, p256 directly; chain validation (MdlReaderOneStep) result taken from the library (C12)",
                         "AEAD/ECDSA primitives as in C03"],
        "level_text": "Lean theorems: a document request's reader authentication is ok iff readerAuth is present with a decodable x5chain in the unprotected header, chain validation against reader-CA anchors has no error, and COSE verification succeeds over the detached ReaderAuthenticationBytes of this session; the status is Valid iff that holds for EVERY document request; nothing is Valid for undecodable messages. Tied by pattern correspondence over registries with the predicate evaluated on real verdicts.",
        "level_note": "Trusted: Lean kernel; fact extraction; chain validation is C12.",
        "technique": "Lean 4 proof (decision logic) + pattern-exhaustive adversarial correspondence",
        "assumptions": ["signature unforgeability"],
    },
    "C12": {
        "rule": "for the document-signer and the reader role: the conformant leaf/anchor pair, ~50 single deviations of the leaf (validity, every required extension removed / wrong / duplicated / undecodable / criticality, each prohibited extension, unknown critical and non-critical extensions, AKI variants, issuer name, country and state variants, signature by another key), "
                "17 single deviations of the anchor, sampled (thorough: all) pairs of deviations, registries mixing purposes with 0-2 candidates incl. a deviating first candidate; each under the three rule sets; DER certificates are abstracted by the harness (x509-cert, p256, sha1 directly) and the model's verdict and error kinds are compared with the library's. Distinct by (case, rule set)",
        "xlate_items": [],
        "trusted_base": ["Model/X509.lean: hand model of validation/mod.rs + extensions/*.rs + names.rs + validity.rs over an abstract certificate", "harness abstraction DER -> abstract certificate (c12.rs::abstract_cert): x509-cert decoding, SHA-1 key ids, ECDSA verification with p256",
                         "error kinds are read from stable substrings of the library's error strings"],
        "level_text": "Lean theorems, for every abstract certificate and registry: each rule set succeeds iff the leaf is within validity and satisfies its role's profile (declarative: no prohibited extension, no critical extension outside the required set, every required extension present and every occurrence carrying the role's value) and an anchor of the matching purpose anchors it (issuer name, AKI = SKI, signature, validity) - for issuer chains with the FIRST such anchor satisfying the IACA profile and matching country / state; anchors of the other purpose never contribute; any leaf deviation or missing anchor yields an error. The implementation-shaped loop is related to the quantified profile in Lemmas/X509.lean.",
        "level_note": "Trusted: Lean kernel; the DER->abstract abstraction; 'some anchor' in the property vs 'first candidate' in the code for the IACA profile is stated exactly (C12_mdl_ok_iff) and exercised (first-candidate-deviating registries).",
        "technique": "Lean 4 proof (loop-to-quantifier refinement over abstract certificates) + single/pair deviation correspondence",
        "assumptions": ["DER decoding, SHA-1 and ECDSA are external (x509-cert, sha1, p256)"],
    },
    "C13": {
        "rule": "every call sequence up to length 3 (quick) / 4 (thorough) over {handle_request(valid | not-CBOR plaintext | non-request plaintext | undecryptable | garbage), "
                "prepare_response(0,1,2 documents), get_next_signature_payload, submit_next_signature(real | invented bytes), response_ready, retrieve_response} from a fresh established session, "
                "plus random histories of 4..40 calls mixed with replays, tampering and restores; after every call the return value and the state read from the stringified session are compared with the model, "
                "and the specification predicates are evaluated on the real observations. Distinct by operation line text",
        "exhaustive": True,
        "xlate_items": [],
        "trusted_base": ["hand-written device state machine IsoMdl/Model/Session.lean, tied by correspondence after every call",
                         "harness abstraction of the stringified state (document ids, signature ids, status, counters)"],
        "level_text": "Lean theorems over the device model for arbitrary states and operation lists: payload offered iff unsigned documents remain; submit pairs signature and document; ready iff nothing unsigned after a submit; retrieved exactly once; no-ops are no-ops; malformed plaintext gives status 11/12; every transition is documented. The full 'retrievable without inventing a signature' clause is proved FALSE of the code (witness theorem C13_full_fails) and reported as a known finding; the partial theorem states what holds.",
        "level_note": "Trusted: Lean kernel; model validated against the real SessionManager after every call of exhaustive short and random long histories; symbolic ciphertexts.",
        "technique": "Lean 4 proof (case analysis + induction over operation lists) + exhaustive/random correspondence",
        "assumptions": ["AEAD integrity (symbolic ciphertexts) for which requests decrypt"],
    },
    "C14": {
        "rule": "twin runs on real objects: for random scripts (6..30 calls over new_request, deliveries incl. replays/tampering/malformed plaintext, prepare 0-2 documents, get_next, submit real/invented, "
                "response_ready, retrieve, handle_response) and EVERY step boundary, an untouched clone and a copy restored through stringify/parse of device, reader or both (thorough: plus a random subset of later boundaries) "
                "execute the remaining script; all outputs and final stringified states must be byte-identical. Also Init and Engaged states restored before their successor call (same QR, BLE ident, same established manager and outcome) and stringify fixed points. "
                "Three digest algorithms, decoys on/off, with/without trust anchors. Codec correspondence at every boundary: the real stringified device and reader managers are read by the MODEL's base64 and CBOR decoders "
                "(field names in order, both counters, State variant with the field names of a prepared response must equal what ciborium sees), the model's own stored form of the corresponding abstract state must have the same shape, "
                "base64 both ways on the real bytes, on all lengths 0..40 and on refused strings (foreign symbol, padding inside, trailing bits). Distinct by (history, boundary, restored role, output digest) / operation line",
        "xlate_items": ["state-structs"],
        "trusted_base": ["Model/StateCodec.lean: the serde layer of the ABSTRACT session state (field names, order and enum variants proved equal to the source's by C14_state_fields_match_source against Generated/StateStructs.lean, re-extracted on every run); "
                         "the CONTENT of the real fields (keys, transcript, documents, prepared COSE structures) is abstract in the model and validated by the twin-run correspondence, not proved from the serde derives",
                         "ciborium/serde derive/base64 as used by Stringify (the model's base64 and CBOR codecs are tied to them by correspondence on the real stored states)"],
        "level_text": "Lean theorems: (1) stringify followed by parse gives back EVERY abstract device and reader state - base64 layer for all byte strings, CBOR layer for all well-formed items, serde layer for all states (counters, state variant, documents still to sign, attached signatures, staged response) - and the stored form has exactly the fields, order and State variants the source declares (translator); (2) the model's restore operation IS that composition, so restores at any subset of boundaries of any history leave the whole world and every later observation unchanged (induction over the operation list). Tied to the code by the translator (struct fields, enum variants, serde attributes) and by a differential twin run on the real session objects at every boundary, plus restore operations inside the C07/C13 model-correspondence histories.",
        "level_note": "Trusted: Lean kernel; xlate; that the real field CONTENTS survive parse(stringify s) is established by correspondence (byte-identical continuation + fixed point); the theorem covers the bookkeeping the session logic depends on.",
        "technique": "Lean 4 proof (codec round trips; induction over operation lists) + translator (state structs) + twin-run differential correspondence",
        "assumptions": ["holder signatures are deterministic (RFC 6979), so twin runs are comparable byte for byte"],
    },
    "C15": {
        "rule": "every call under catch_unwind with a wall-clock bound (5 s): all 508 hostile COSE keys (EC2 P-256 with every x / y length 0..70, sign-bit form, the four OKP curves with every length, other curves, zero / all-ff / non-map / unknown kty) through EncodedPoint::try_from, get_shared_secret, "
                "the QR engagement (from_qr_code_uri + establish_session), the session establishment (process_session_establishment) and the MSO device key of a correctly encrypted response (handle_response); structure-aware mutants (field deletion / duplication, type swap, every byte-string length 0..70, bit flips, boundary integers, 300-deep nesting, tag wrapping, also INSIDE Tag24-embedded items) of valid engagements, establishments, "
                "correctly encrypted requests (followed by prepare/sign/retrieve) and responses, raw random bytes at every entry point, mutated stored states of both roles followed by calls, stored ephemeral keys of wrong length, counters at u32::MAX-1 and u32::MAX on both roles, and the decoders of DeviceEngagement / SessionEstablishment / DeviceRequest / DeviceResponse / SessionData. Distinct by (entry point, input bytes)",
        "xlate_items": ["panic-sites"],
        "trusted_base": ["rust/xlate/src/panics.rs: syntactic inventory of the crate's own panic-capable operations (unwrap/expect, from_slice/clone_from_slice/copy_from_slice/split_at, indexing, panic!/unreachable!/assert*!, integer arithmetic, negation) in non-test library code",
                         "Spec/PanicJustify.lean: the per-site justifications are reasoned arguments recorded as data (checked for totality against the regenerated inventory, not proved from the Rust semantics)",
                         "dependencies (ciborium incl. its recursion limit, coset, p256, x509-cert, serde, time, base64) are NOT modelled: panics, aborts and non-termination inside them are searched for, not excluded"],
        "level_text": "Lean theorems: for EVERY COSE key (any curve, key type, coordinate lengths, explicit y or sign bit) the crate's own conversions (EncodedPoint::try_from, device-key coordinates in device_authentication), for every stored ephemeral key and for every counter value the modelled operations return a value or a refusal and never the panic outcome; accepted points are well-formed SEC1 strings; encrypt/decrypt hand get_initialization_vector (translated from session.rs) only counters at which it does not overflow. "
                      "The inventory of the crate's own panic-capable sites is regenerated from the source on every run and must be totally covered by the justification table (a new unwrap / index / from_slice / arithmetic on any path breaks the build). The pinned commit's panics are kept as checked witness theorems. Everything inside dependencies is covered by the mutation search only.",
        "level_note": "Partial by nature: a theorem about this crate's own operations plus a syntactic inventory; absence of panics / aborts / hangs inside dependencies on arbitrary input is NOT proved - it is a bounded search under catch_unwind with a time limit (stated in the evidence as search, not proof). Allocation failure aborts cannot be caught.",
        "technique": "Lean 4 proof over a model of the crate's partial operations + regenerated panic-site inventory (translator) + systematic and mutation-based correspondence",
        "assumptions": ["a process abort (allocation failure, stack overflow in a dependency) kills the harness and is reported as a harness failure, not as a replayable input"],
    },
    "C16": {
        "rule": "type-directed generators for every wire type (SessionData, SessionEstablishment, COSE_Key of every curve/key type and odd coordinate lengths, Handover variants, SessionTranscript, ItemsRequest/DocRequest/DeviceRequest, DeviceResponse with application-specific error codes and every status, "
                "ValidityInfo with non-UTC offsets and sub-second parts, DeviceKeyInfo/KeyAuthorizations/key info, BLE/NFC/Wi-Fi/server retrieval options, DeviceEngagement, Mso, IssuerSigned, IssuerSignedItemBytes, Mdoc, device::Document, DigestId, DigestAlgorithm, both status tables over 0..39, error codes at boundaries, NFC length bounds, out-of-domain rejects); "
                "per value: Rust to_vec/from_slice/to_vec (same value, byte fixed point), Lean CBOR-layer re-encoding and typed-model re-encoding must reproduce the bytes; JWK conversion and UTC/second-precision time emission checked by Lean predicates. Distinct by encoded bytes",
        "xlate_items": ["session.rs::Status", "device_response.rs::Status", "wire-structs", "signature_algorithm", "EC2Curve", "OKPCurve"],
        "trusted_base": ["Model/Cbor.lean as model of ciborium's Value codec (validated on every generated encoding)", "Model/Wire.lean typed codecs (hand-written; status tables generated) validated by re-encoding real bytes",
                         "Spec/Time.lean civil-date arithmetic validated against the `time` crate", "ssi-jwk JSON view used by the harness to read JWK fields"],
        "level_text": "Lean theorems: dec(enc v) = v, byte fixed point and injectivity for EVERY well-formed CBOR value (structural induction, no size bound); typed round trips for SessionData, COSE_Key, Tag24 (bytes preserved), SessionEstablishment, both status tables (regenerated), error codes incl. rejection of RFU codes; generic lift from tree-level to byte-level round trip. Generic schema layer (Model/Schema.lean, WireSchemas.lean): ONE typed decode-and-re-encode function for serde structs (any input field order, unknown entries, explicit nulls), BTreeMaps (re-sorted, last value wins), Tag24 (bytes preserved), tuples, arrays and untagged alternatives, with a theorem by mutual structural induction over schemas that re-encoding is a fixed point for EVERY item of EVERY one of 16 named wire structures (DeviceRequest/Response with documents, items, MSO, validity and key info, COSE keys, session messages, handover; DeviceEngagement is outside the theorem's side condition and covered by correspondence). The field names, order and optionality of the 13 serde-derived structs are re-extracted from the source on every run and proved equal to the schema instances' (C16_wire_fields_match_source). Every instance is validated against the real library's re-encoding of every generated message and of foreign presentations of it (reversed maps, unknown entries, null options). The remaining types are correspondence-only and named in the evidence.",
        "level_note": "Trusted: Lean kernel; CBOR model = ciborium as used (validated, not proved about ciborium); RFC 3339 formatting/parsing is the time crate's.",
        "technique": "Lean 4 proof (mutual structural induction over the CBOR tree; case analysis over generated tables) + type-directed differential correspondence",
        "assumptions": [],
    },
    "C17": {
        "rule": "generated protected headers (alg absent / ES256 / ES384 / private-use / text; HMAC 256-256 / 256-64; kid, content format, extra integer and text labels), payloads of boundary and random sizes up to 66 kB attached or detached, AAD absent / empty / non-empty, tagged / untagged, P-256 and HMAC keys; "
                "the payload-presence cube for PreparedCose*::new; signature_payload() vs the harness's own ciborium Sig_structure and vs Lean's; finalize; verify on the honest message and on every single-field alteration (payload, AAD, protected header, signature bit flip / truncation / zero, wrong key, both / no payload, unprotected header). "
                "For Mac0 the Lean model recomputes HMAC-SHA-256 itself. Distinct by operation line",
        "xlate_items": [],
        "trusted_base": ["Model/Cose.lean (hand model of src/cose/sign1.rs, mac0.rs)", "for Sign1 the ECDSA primitive is a parameter: the harness observes parse/accept of the signature with p256 directly over its own independent Sig_structure and the model predicts the verdict from that",
                         "Lean HMAC-SHA-256 (validated on every Mac0 case of every run)", "coset's classification of the protected alg (assigned / private use / text)"],
        "level_text": "Lean theorems: preparation succeeds iff exactly one payload is present and then the to-be-signed bytes are the RFC 8152 structure; finalize inserts the signature and changes nothing else; verification succeeds iff (registered alg = verifier's) and exactly one payload and the primitive accepts the signature over the rebuilt structure; algorithm mismatch and payload errors as stated; the structure is injective in protected bytes, AAD and payload (via enc injectivity); Mac0 success iff tag = HMAC(MAC_structure). Tied by correspondence over generated headers/payloads and all single-field alterations.",
        "level_note": "Trusted: Lean kernel; ECDSA unforgeability is not claimed by the theorems (they are stated relative to the primitive); coset header parsing.",
        "technique": "Lean 4 proof (decision logic stated outright + injectivity of the CBOR encoder) + alteration correspondence with an independent Sig_structure",
        "assumptions": ["the signature primitive is a parameter of the model"],
    },
    "C18": {
        "rule": "every message emitted in generated sessions is fed as raw bytes to the Lean CDDL validator: device engagements for 37 retrieval configurations (no / BLE central, peripheral, both, with address, neither / NFC at boundary lengths / Wi-Fi with every subset of its optional fields / combinations / server retrieval), "
                "session establishment, every request (decrypted) and response (decrypted: normal single- and multi-document, unheld-document errors, status 11/12 error responses), status-carrying SessionData, and issued MSOs for six device-key kinds (P-256, P-384, P-521, secp256k1, Ed25519, Ed448) x three digest algorithms with key authorisations, key info, expected update, non-UTC sub-second validity; "
                "plus the device-signature algorithm vs device-key curve check on every returned document. Distinct by message bytes",
        "xlate_items": ["session.rs::Status", "device_response.rs::Status", "wire-structs", "signature_algorithm", "EC2Curve", "OKPCurve"],
        "trusted_base": ["Spec/Cddl.lean: the validator, transcribed by hand from the ISO 18013-5 CDDL as recalled in DESIGN.md Appendix A (no copy of the standard in the sandbox)",
                         "Generated/Tables.lean: status tables and the CoseKey::signature_algorithm table translated from the source on every run", "Model/Wire.lean typed encoders for the modelled subset, tied by the C16 correspondence",
                         "harness decrypts request/response ciphertexts with the session keys read from the stringified state"],
        "level_text": "Lean theorems: for every value of the modelled message types (SessionData incl. status-only, SessionEstablishment, COSE_Key, both status tables as regenerated from the source) the emitted CBOR satisfies the ISO CDDL validator; the validator itself is executable Lean and is applied to the raw bytes of every message kind the real library emits in the generated sessions and to every issued MSO (this covers the message types whose typed model is not yet proved). Generic schema layer: for all 17 named wire structures and every item the typed decoder accepts, the re-emitted item satisfies the structure's validator (exact keys in declared order, required fields, sorted maps without repeated keys, decodable embedded items, non-empty arrays) - theorem C18_wire_conforms by mutual structural induction; every real emitted message is also run through that validator.",
        "level_note": "Trusted: Lean kernel; CDDL transcription; for DeviceRequest/DeviceResponse/MSO/DeviceEngagement the 'for all' is the validator run over generated emissions (typed Lean encoders for them are future work, named in evidence), i.e. correspondence, not yet theorem.",
        "technique": "Lean 4 proof (case analysis over generated tables and typed encoders) + independent Lean CDDL validator on real emissions",
        "assumptions": ["CDDL as recalled (DESIGN.md Appendix A)"],
    },
    "C19": {
        "rule": "JSON records for both namespaces through the real FromJson::from_json + ToNamespaceMap::to_ns_map (JSON travels to the Lean side as CBOR): the full record, every optional field absent alone / null alone, mandatory-only, random subsets of the optional fields, every mandatory field missing / null, every field with nine wrong JSON types, unknown entries, non-object records; "
                "EVERY code of EVERY table (regenerated literal lists: 249 alpha-2, 181 UN signs, colours, sex, suffixes, truncation, race, weight range, EDL, DHS, vehicle categories) in every field that uses it, with near misses (case variants, blanks, suffixes, Kelvin sign / dotless i look-alikes, neighbouring integers) and integer sweeps; Latin-1 boundary strings (150 / 151 characters in 1- and 2-byte characters, range edges, control characters, non-Latin-1); full dates (leap years, year padding, signs, bad months / days, blanks, full-width digits); "
                "date-times (offsets, fractions, separators, leap seconds where they can and cannot occur, range edges that leave years 0000..9999 in UTC, random well-formed values around month / year ends); base64 (padding variants, URL alphabet, non-canonical trailing bits, random bytes); u32 boundaries; all hundred age_over_NN keys one by one and together, near-miss keys, non-boolean values; biometric_template_* keys; issuing_jurisdiction against issuing_country; privilege structures; random mixes. Distinct by record bytes",
        "xlate_items": ["namespaces"],
        "trusted_base": ["rust/xlate/src/schema.rs: syntactic extraction of the namespace structs (field names after rename, types, Option, many / dynamic_parse), newtypes, enums and of every single-`match` method as a (pattern, result) table, including the scrutinee text (to_lowercase etc.)",
                         "Model/Namespaces.lean: hand-written interpreter of those schemas (the derive macros' semantics) and leaf semantics (Latin-1, full-date and RFC 3339 parsing as the `time` crate does it, base64 0.13 padding rules, u32, county code, dynamic fields) - tied by correspondence only",
                         "Spec/Namespaces.lean: the two data models restated by hand from ISO/IEC 18013-5 Table 5 and the AAMVA guidelines (identifiers, types, mandatory/optional); the two large code lists (ISO 3166-1 alpha-2, UN signs) are not restated independently",
                         "Unicode case mapping is modelled for ASCII plus the two code points that map into ASCII (KELVIN SIGN, dotted capital I); serde_json's number representation (as_u64)"],
        "level_text": "Lean theorems: the source's data models (re-extracted every run) are ISO 18013-5 Table 5 / the AAMVA model - identifiers, order, mandatory/optional, types (kernel-decided); EVERY code table of both namespaces maps each code back to itself in both directions (kernel-decided over all ~500 entries); for ANY schema and ANY record the accepted output has exactly the identifiers of the supplied non-null plain fields plus one per age_over_DD / biometric_template_* entry (+ issuing_jurisdiction), each once, nothing else; a missing or null mandatory field and a value its type rejects each reject the whole record; "
                      "full dates come out as tag 1004 around exactly the supplied text (parse/print inverse proved), date-times as tag 0 around a 20-character UTC text, Latin-1 accepted iff at most 150 characters all in range and emitted unchanged, u32 / bytes / wrong JSON types as stated. The declarative Spec (hand-written standard tables, date-times compared as instants by independent civil-date arithmetic, base64 by re-encoding) is evaluated on the REAL output of every generated record.",
        "level_note": "Trusted: Lean kernel; the interpreter = the derive macros and leaf impls is established by correspondence, not by translating the macros; model and Spec are shown equal only on the generated records, not for all inputs (both are evaluated against the real library on every case).",
        "technique": "Lean 4 proof (kernel-decided table and schema theorems over regenerated data, induction over field lists, digit arithmetic) + schema/table translator + correspondence and declarative Spec on the real output",
        "assumptions": [],
    },
    "C20": {
        "rule": "requested ages 0..99 x every absent/true/false assignment over a fixed age universe (exhaustive), "
                "random larger honest/dishonest claim sets, and out-of-domain spellings (+NN, 0NN, non-boolean values, "
                "malformed identifiers); a case is distinct by its full operation line (request + ordered holdings)",
        "exhaustive": True,
        "xlate_items": [],
        "trusted_base": ["hand-written model IsoMdl/Model/Age.lean of nearest_age_attestation / AgeOver::try_from, tied by "
                         "correspondence (real function called in-process on every generated case)",
                         "Rust std: BTreeMap iteration order, Iterator::min_by_key (first minimum) / max_by_key (last maximum), u8::from_str"],
        "level_text": "Lean theorems for every requested age and every finite list of held claims (no size bound): the selection equals the property's 'nearest' sentence, answers the request, returns a held item unchanged, rejects malformed requests; tied to the Rust function by in-process correspondence incl. an exhaustive absent/true/false sweep.",
        "level_note": "Trusted: Lean kernel; hand model of nearest_age_attestation validated by correspondence (not translation); Rust std iterator/BTreeMap/u8 parsing semantics as modelled.",
        "technique": "Lean 4 proof (induction over claim lists) + model/implementation correspondence",
        "assumptions": ["holdings are well-formed for the Spec(real) predicate: every identifier containing 'age_over' is age_over_NN with a boolean value (forced by the code; theorem C20_malformed_holding_fails)"],
    },
}

ALL = ["C%02d" % i for i in range(1, 21)]
NOT_APPLICABLE = [{"property_id": p, "reason": "not yet claimed: machinery for this property is still being built (work in progress, see DESIGN.md section 8)"}
                  for p in ALL if p not in PROPS]
