#!/usr/bin/env python3
"""Writes MANIFEST.json from checklib/props.py (kept valid at all times)."""
import json, os, sys
sys.path.insert(0, os.path.dirname(os.path.abspath(__file__)))
from props import PROPS, NOT_APPLICABLE

ROOT = os.path.dirname(os.path.dirname(os.path.abspath(__file__)))
BASE = "cd /repo && cargo nextest run --workspace --no-fail-fast --offline || cargo test --workspace --no-fail-fast --offline"
m = {
    "version": 1,
    "setup_cmd": "./check --setup",
    "hooks": {"guard": "isomdl_verif", "enable": "RUSTFLAGS=\"--cfg isomdl_verif\" (no guarded source changes exist; checks use only public API)",
              "baseline_off_cmd": BASE, "source_commits": [], "add_only": True},
    "engines": [{"name": "lean-proof+correspondence", "path": "check",
                 "serves_properties": sorted(PROPS), "kind_free_text":
                 "Lean 4 theorems over an executable model (lean/IsoMdl), tied to /repo by a syn-based translator (rust/xlate) and an in-process correspondence harness (rust/harness) driving a compiled Lean model driver"}],
    "checks": [],
    "not_applicable": NOT_APPLICABLE,
    "notes": "See DESIGN.md. Every check regenerates Generated/*.lean from /repo, rebuilds harness against /repo, re-checks the theorems, audits axioms and pinned statements, then runs model-vs-implementation correspondence and Spec(real).",
}
for pid in sorted(PROPS):
    c = PROPS[pid]
    m["checks"].append({
        "property_id": pid,
        "quick_cmd": f"./check {pid} --tier quick",
        "thorough_cmd": f"./check {pid} --tier thorough",
        "evidence_file": f"/verif/evidence/{pid}.json",
        "replay_cmd_template": "./check --replay {path}",
        "engine": "lean-proof+correspondence",
        "level_claimed": {"category": "proof", "text": c["level_text"], "design_ref": c.get("design_ref", "DESIGN.md section 5 " + pid)},
        "level_note": c["level_note"],
        "technique": c["technique"],
    })
json.dump(m, open(os.path.join(ROOT, "MANIFEST.json"), "w"), indent=1)
print("MANIFEST.json:", len(m["checks"]), "checks,", len(NOT_APPLICABLE), "not applicable")
