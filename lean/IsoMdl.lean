import IsoMdl.Model.Util
import IsoMdl.Model.Age
