import IsoMdl.Driver.Age
/-
Line-protocol driver of the executable model: one operation per input line, one observation per
output line.  Unknown or malformed operations print `bad-op` (never a default value).
-/
open IsoMdl.Driver

def handlers : List (List String → Option String) := [ageOp]

def step (line : String) : String :=
  let toks := (line.trimAscii.toString.splitOn " ").filter (· ≠ "")
  match handlers.findSome? (fun h => h toks) with
  | some out => out
  | none => "bad-op"

partial def loop (h : IO.FS.Stream) (out : IO.FS.Stream) : IO Unit := do
  let line ← h.getLine
  if line.isEmpty then return ()
  out.putStrLn (step line)
  loop h out

def main : IO Unit := do
  let stdout ← IO.getStdout
  loop (← IO.getStdin) stdout
  stdout.flush
