import IsoMdl.Driver.Age
import IsoMdl.Driver.Session
import IsoMdl.Driver.Issuance
import IsoMdl.Driver.Disclosure
import IsoMdl.Driver.Wire
import IsoMdl.Driver.Cose
import IsoMdl.Driver.ReaderAuth
import IsoMdl.Driver.DeviceAuthReq
import IsoMdl.Driver.X509
import IsoMdl.Driver.Partial
import IsoMdl.Driver.KeyDerivation
import IsoMdl.Driver.Namespaces
import IsoMdl.Driver.Honest
import IsoMdl.Driver.Schema
import IsoMdl.Driver.StateCodec
import IsoMdl.Driver.Report
import IsoMdl.Driver.ResponseFacts
/-
Line-protocol driver of the executable model: one operation per input line, one observation per
output line.  Unknown or malformed operations print `bad-op` (never a default value).
-/
open IsoMdl.Driver

structure DState where
  world : Option IsoMdl.Session.World := none
  saved : List (String × IsoMdl.Session.World) := []

def stateless : List (List String → Option String) := [ageOp, ivOp, c13Op, c06Op, eqOp, issuanceOp, discOp, cddlOp, wireOp, tag24Op, coseOp, readerAuthOp, deviceAuthReqOp, x509Op, partialOp, kdOp, nsOp, honestOp, schemaOp, stateCodecOp, reportOp, responseFactsOp]

def step (st : DState) (line : String) : DState × String :=
  let toks := (line.trimAscii.toString.splitOn " ").filter (· ≠ "")
  match stateless.findSome? (fun h => h toks) with
  | some out => (st, out)
  | none =>
    -- `spec.eqmodel <expected> <stateless op ...>`: the model's observation (blanks as `_`) equals the expected one
    if toks.head? == some "spec.eqmodel" && toks.length ≥ 3 then
      match stateless.findSome? (fun h => h (toks.drop 2)) with
      | some out => (st, toString (out.replace " " "_" == toks[1]!))
      | none => (st, "bad-op")
    else
    if toks.head? == some "sess.save" && toks.length == 2 then
      match st.world with
      | some w => ({ st with saved := (toks[1]!, w) :: st.saved }, "saved")
      | none => (st, "bad-op")
    else if toks.head? == some "sess.load" && toks.length == 2 then
      match st.saved.find? (fun e => e.1 == toks[1]!) with
      | some (_, w) => ({ st with world := some w }, summary w)
      | none => (st, "bad-op")
    else
    match sessOp st.world toks with
    | some (w, out) => ({ st with world := w }, out)
    | none => (st, "bad-op")

partial def loop (h : IO.FS.Stream) (out : IO.FS.Stream) (st : DState) : IO Unit := do
  let line ← h.getLine
  if line.isEmpty then return ()
  let (st', o) := step st line
  out.putStrLn o
  loop h out st'

def main : IO Unit := do
  let stdout ← IO.getStdout
  loop (← IO.getStdin) stdout {}
  stdout.flush
