import IsoMdl.Spec.Namespaces
/-
Lemmas for C19: digit/pad inverses, sorted insertion (BTreeMap) keys and uniqueness, the per-field
step of the derived conversion and its lift to a whole struct.
-/
namespace IsoMdl.Ns
open IsoMdl IsoMdl.Cbor IsoMdl.Generated.Ns IsoMdl.Spec.Ns


theorem digitOf_some (c v : Nat) (h : digitOf c = some v) : 48 ≤ c ∧ c ≤ 57 ∧ v = c - 48 := by
  unfold digitOf at h
  split at h
  · injection h with h; omega
  · cases h

theorem digitsN4 (s : Str) (v : Nat) (r : Str) (h : digitsN 4 s = some (v, r)) : pad4 v ++ r = s ∧ v < 10000 := by
  unfold digitsN at h
  rcases s with _ | ⟨a, _ | ⟨b, _ | ⟨c, _ | ⟨d, rest⟩⟩⟩⟩ <;> try (simp at h)
  cases ha : digitOf a with
  | none => simp [List.foldlM, ha] at h
  | some a' =>
    cases hb : digitOf b with
    | none => simp [List.foldlM, ha, hb] at h
    | some b' =>
      cases hc : digitOf c with
      | none => simp [List.foldlM, ha, hb, hc] at h
      | some c' =>
        cases hd : digitOf d with
        | none => simp [List.foldlM, ha, hb, hc, hd] at h
        | some d' =>
          simp [List.foldlM, ha, hb, hc, hd] at h
          obtain ⟨hv, hr⟩ := h
          have := digitOf_some _ _ ha; have := digitOf_some _ _ hb
          have := digitOf_some _ _ hc; have := digitOf_some _ _ hd
          subst hr
          simp only [pad4, List.cons_append, List.nil_append, List.cons.injEq, and_true]
          refine ⟨⟨?_, ?_, ?_, ?_⟩, ?_⟩ <;> omega

theorem digitsN2 (s : Str) (v : Nat) (r : Str) (h : digitsN 2 s = some (v, r)) : pad2 v ++ r = s ∧ v < 100 := by
  unfold digitsN at h
  rcases s with _ | ⟨a, _ | ⟨b, rest⟩⟩ <;> try (simp at h)
  cases ha : digitOf a with
  | none => simp [List.foldlM, ha] at h
  | some a' =>
    cases hb : digitOf b with
    | none => simp [List.foldlM, ha, hb] at h
    | some b' =>
      simp [List.foldlM, ha, hb] at h
      obtain ⟨hv, hr⟩ := h
      have := digitOf_some _ _ ha; have := digitOf_some _ _ hb
      subst hr
      simp only [pad2, List.cons_append, List.nil_append, List.cons.injEq, and_true]
      refine ⟨⟨?_, ?_⟩, ?_⟩ <;> omega

theorem lit_some (c : Nat) (s r : Str) (h : lit c s = some r) : s = c :: r := by
  unfold lit at h
  cases s with
  | nil => cases h
  | cons x t =>
    simp only at h
    split at h
    · rename_i hx; injection h with h; simp at hx; subst hx; subst h; rfl
    · cases h

/-- the text form of a parsed full date is the supplied text, character for character -/
theorem parse_show_fullDate (s : Str) (y m d : Nat) (h : parseFullDate s = some (y, m, d)) :
    showFullDate y m d = s := by
  unfold parseFullDate at h
  simp only [Option.bind_eq_bind, bind] at h
  cases h1 : digitsN 4 s with
  | none => simp [h1, Option.bind] at h
  | some p1 =>
    obtain ⟨y', r1⟩ := p1
    simp only [h1, Option.bind] at h
    cases h2 : lit 45 r1 with
    | none => simp [h2] at h
    | some r2 =>
      simp only [h2] at h
      cases h3 : digitsN 2 r2 with
      | none => simp [h3] at h
      | some p3 =>
        obtain ⟨m', r3⟩ := p3
        simp only [h3] at h
        cases h4 : lit 45 r3 with
        | none => simp [h4] at h
        | some r4 =>
          simp only [h4] at h
          cases h5 : digitsN 2 r4 with
          | none => simp [h5] at h
          | some p5 =>
            obtain ⟨d', r5⟩ := p5
            simp only [h5] at h
            split at h
            · cases h
            · rename_i hr
              split at h
              · cases h
              · split at h
                · cases h
                · injection h with h
                  injection h with hy h
                  injection h with hm hd
                  subst hy; subst hm; subst hd
                  have hr5 : r5 = [] := by simpa using hr
                  subst hr5
                  have e1 := (digitsN4 _ _ _ h1).1
                  have e2 := lit_some _ _ _ h2
                  have e3 := (digitsN2 _ _ _ h3).1
                  have e4 := lit_some _ _ _ h4
                  have e5 := (digitsN2 _ _ _ h5).1
                  unfold showFullDate
                  rw [← e1, e2, ← e3, e4, ← e5]
                  simp


def keysOf (l : List (Bytes × Cbor)) : List Bytes := l.map (·.1)

theorem keys_sortedInsert (k : Bytes) (v : Cbor) (l : List (Bytes × Cbor)) (x : Bytes) :
    x ∈ keysOf (sortedInsert k v l) ↔ x = k ∨ x ∈ keysOf l := by
  induction l with
  | nil => simp [sortedInsert, keysOf]
  | cons e rest ih =>
    obtain ⟨k', v'⟩ := e
    unfold sortedInsert
    split
    · simp [keysOf]
    · simp only [keysOf, List.map_cons, List.mem_cons] at ih ⊢
      rw [ih]; constructor
      · rintro (h | h | h) <;> simp [h]
      · rintro (h | h | h) <;> simp [h]

theorem nodup_sortedInsert (k : Bytes) (v : Cbor) (l : List (Bytes × Cbor)) (hk : k ∉ keysOf l) (hn : (keysOf l).Nodup) :
    (keysOf (sortedInsert k v l)).Nodup := by
  induction l with
  | nil => simp [sortedInsert, keysOf]
  | cons e rest ih =>
    obtain ⟨k', v'⟩ := e
    simp only [keysOf, List.map_cons, List.mem_cons, not_or, List.nodup_cons] at hk hn
    unfold sortedInsert
    split
    · simp only [keysOf, List.map_cons, List.nodup_cons, List.mem_cons, not_or]
      exact ⟨⟨hk.1, hk.2⟩, hn.1, hn.2⟩
    · have := ih hk.2 hn.2
      simp only [keysOf, List.map_cons, List.nodup_cons]
      refine ⟨?_, this⟩
      intro hmem
      have := (keys_sortedInsert k v rest k').mp hmem
      rcases this with h | h
      · exact hk.1 h.symm
      · exact hn.1 h

theorem keys_filter_ne (k : Bytes) (l : List (Bytes × Cbor)) (x : Bytes) :
    x ∈ keysOf (l.filter fun e => e.1 != k) ↔ x ≠ k ∧ x ∈ keysOf l := by
  simp only [keysOf, List.mem_map, List.mem_filter, bne_iff_ne, ne_eq]
  constructor
  · rintro ⟨e, ⟨he, hne⟩, rfl⟩; exact ⟨hne, e, he, rfl⟩
  · rintro ⟨hne, e, he, rfl⟩; exact ⟨e, ⟨he, hne⟩, rfl⟩

/-- inserting gives exactly the old keys plus the new one … -/
theorem keys_insertSorted (k : Bytes) (v : Cbor) (l : List (Bytes × Cbor)) (x : Bytes) :
    x ∈ keysOf (insertSorted k v l) ↔ x = k ∨ x ∈ keysOf l := by
  unfold insertSorted
  rw [keys_sortedInsert, keys_filter_ne]
  by_cases h : x = k <;> simp [h]

/-- … each exactly once -/
theorem nodup_insertSorted (k : Bytes) (v : Cbor) (l : List (Bytes × Cbor)) (hn : (keysOf l).Nodup) :
    (keysOf (insertSorted k v l)).Nodup := by
  unfold insertSorted
  apply nodup_sortedInsert
  · rw [keys_filter_ne]; simp
  · simp only [keysOf] at hn ⊢
    exact (List.Sublist.map _ List.filter_sublist).nodup hn

theorem nodup_foldl_insert (es : List (Bytes × Cbor)) (acc : List (Bytes × Cbor)) (hn : (keysOf acc).Nodup) :
    (keysOf (es.foldl (fun m (kc : Bytes × Cbor) => insertSorted kc.1 kc.2 m) acc)).Nodup := by
  induction es generalizing acc with
  | nil => simpa
  | cons e es ih => exact ih _ (nodup_insertSorted _ _ _ hn)

theorem keys_foldl_insert (es : List (Bytes × Cbor)) (acc : List (Bytes × Cbor)) (x : Bytes) :
    x ∈ keysOf (es.foldl (fun m (kc : Bytes × Cbor) => insertSorted kc.1 kc.2 m) acc) ↔ x ∈ keysOf es ∨ x ∈ keysOf acc := by
  induction es generalizing acc with
  | nil => simp [keysOf]
  | cons e es ih =>
    simp only [List.foldl_cons]
    rw [ih, keys_insertSorted]
    simp only [keysOf, List.map_cons, List.mem_cons]
    constructor
    · rintro (h | h | h) <;> simp [h]
    · rintro ((h | h) | h) <;> simp [h]




/-- a value was supplied for the plain field -/
def Supplied (kvs : List (Str × Json)) (f : Field) : Prop :=
  ∃ v, jget kvs (ofAscii f.name) = some v ∧ v ≠ .null

/-- keys a `many` / `dynamic` field may contribute -/
def dynamicKey (kvs : List (Str × Json)) (f : Field) (x : Bytes) : Prop :=
  (f.mode = .many ∧ f.ty = "AgeOver" ∧ ∃ es, ageOverEntries kvs = some es ∧ x ∈ keysOf es) ∨
  (f.mode = .many ∧ f.ty = "BiometricTemplate" ∧ ∃ es, biometricEntries kvs = some es ∧ x ∈ keysOf es) ∨
  (f.mode = .dynamic ∧ x = f.name ∧ ∃ js cs, jget kvs (strOfLit "issuing_jurisdiction") = some (.str js) ∧
      jget kvs (strOfLit "issuing_country") = some (.str cs))

theorem stepField_keys (m : String) (fuel : Nat) (f : Field) (kvs : List (Str × Json)) (acc acc' : List (Bytes × Cbor))
    (h : stepField m fuel f kvs acc = some acc') (x : Bytes) :
    x ∈ keysOf acc' ↔ x ∈ keysOf acc ∨ (f.mode = .plain ∧ x = f.name ∧ Supplied kvs f) ∨ dynamicKey kvs f x := by
  unfold stepField at h
  unfold dynamicKey Supplied
  cases hm : f.mode with
  | plain =>
    simp only [hm] at h
    cases hj : jget kvs (ofAscii f.name) with
    | none =>
      simp only [hj] at h
      split at h
      · injection h with h; subst h; simp
      · cases h
    | some v =>
      cases v with
      | null =>
        simp only [hj] at h
        split at h
        · injection h with h; subst h; simp
        · cases h
      | _ =>
        simp only [hj] at h
        split at h
        · injection h with h; subst h
          rw [keys_insertSorted]; simp
          constructor
          · rintro (h | h) <;> simp [h]
          · rintro (h | h) <;> simp [h]
        · cases h
  | many =>
    simp only [hm] at h
    split at h
    · rename_i hty
      have hty' : f.ty = "AgeOver" := by simpa using hty
      cases he : ageOverEntries kvs with
      | none => simp [he] at h
      | some es =>
        simp only [he, Option.map] at h
        injection h with h; subst h
        rw [keys_foldl_insert]
        simp [hty', he]
        constructor
        · rintro (h | h) <;> simp [h]
        · rintro (h | h) <;> simp [h]
    · split at h
      · rename_i hty1 hty
        have hty' : f.ty = "BiometricTemplate" := by simpa using hty
        cases he : biometricEntries kvs with
        | none => simp [he] at h
        | some es =>
          simp only [he, Option.map] at h
          injection h with h; subst h
          rw [keys_foldl_insert]
          simp [hty', he]
          constructor
          · rintro (h | h) <;> simp [h]
          · rintro (h | h) <;> simp [h]
      · cases h
  | dynamic =>
    simp only [hm] at h
    split at h
    · cases hj : jget kvs (strOfLit "issuing_jurisdiction") with
      | none => simp only [hj] at h; injection h with h; subst h; simp
      | some v =>
        cases v with
        | str js =>
          simp only [hj] at h
          cases hc : jget kvs (strOfLit "issuing_country") with
          | none => simp only [hc] at h; injection h with h; subst h; simp
          | some cv =>
            cases cv with
            | str cs =>
              simp only [hc] at h
              split at h
              · split at h
                · injection h with h; subst h
                  rw [keys_insertSorted]; simp
                  constructor
                  · rintro (h | h) <;> simp [h]
                  · rintro (h | h) <;> simp [h]
                · cases h
              · cases h
            | _ => simp [hc] at h
        | _ => simp [hj] at h
    · cases h



theorem stepField_nodup (m : String) (fuel : Nat) (f : Field) (kvs : List (Str × Json)) (acc acc' : List (Bytes × Cbor))
    (h : stepField m fuel f kvs acc = some acc') (hn : (keysOf acc).Nodup) : (keysOf acc').Nodup := by
  unfold stepField at h
  cases hm : f.mode with
  | plain =>
    simp only [hm] at h
    split at h
    · split at h
      · injection h with h; subst h; exact hn
      · cases h
    · split at h
      · injection h with h; subst h; exact hn
      · cases h
    · split at h
      · injection h with h; subst h; exact nodup_insertSorted _ _ _ hn
      · cases h
  | many =>
    simp only [hm] at h
    split at h
    · cases he : ageOverEntries kvs with
      | none => simp [he] at h
      | some es => simp only [he, Option.map] at h; injection h with h; subst h; exact nodup_foldl_insert _ _ hn
    · split at h
      · cases he : biometricEntries kvs with
        | none => simp [he] at h
        | some es => simp only [he, Option.map] at h; injection h with h; subst h; exact nodup_foldl_insert _ _ hn
      · cases h
  | dynamic =>
    simp only [hm] at h
    split at h
    · split at h
      · injection h with h; subst h; exact hn
      · split at h
        · injection h with h; subst h; exact hn
        · split at h
          · split at h
            · injection h with h; subst h; exact nodup_insertSorted _ _ _ hn
            · cases h
          · cases h
        · cases h
      · cases h
    · cases h

theorem stepField_mandatory (m : String) (fuel : Nat) (f : Field) (kvs : List (Str × Json)) (acc acc' : List (Bytes × Cbor))
    (h : stepField m fuel f kvs acc = some acc') (hp : f.mode = .plain) (ho : f.optional = false) : Supplied kvs f := by
  unfold stepField at h
  simp only [hp, ho] at h
  unfold Supplied
  cases hj : jget kvs (ofAscii f.name) with
  | none => simp [hj] at h
  | some v =>
    cases v with
    | null => simp [hj] at h
    | _ => exact ⟨_, rfl, by simp⟩

/-- a supplied plain value appears converted by the leaf conversion of the field's type -/
theorem stepField_value (m : String) (fuel : Nat) (f : Field) (kvs : List (Str × Json)) (acc acc' : List (Bytes × Cbor))
    (h : stepField m fuel f kvs acc = some acc') (hp : f.mode = .plain) (v : Json) (hv : jget kvs (ofAscii f.name) = some v) (hnn : v ≠ .null) :
    ∃ c, leaf m fuel f.ty v = some c ∧ acc' = insertSorted f.name c acc := by
  unfold stepField at h
  simp only [hp, hv] at h
  cases v with
  | null => exact absurd rfl hnn
  | _ =>
    split at h
    · rename_i c hc; injection h with h; exact ⟨c, hc, h.symm⟩
    · cases h

theorem structFields_keys (m : String) (fuel : Nat) (fields : List Field) (kvs : List (Str × Json)) (acc out : List (Bytes × Cbor))
    (h : structFields m fuel fields kvs acc = some out) (x : Bytes) :
    x ∈ keysOf out ↔ x ∈ keysOf acc ∨ (∃ f ∈ fields, f.mode = .plain ∧ x = f.name ∧ Supplied kvs f) ∨ (∃ f ∈ fields, dynamicKey kvs f x) := by
  induction fields generalizing fuel acc with
  | nil => simp [structFields] at h; subst h; simp
  | cons f fs ih =>
    unfold structFields at h
    cases fuel with
    | zero => simp at h
    | succ fuel' =>
      simp only at h
      cases hs : stepField m fuel' f kvs acc with
      | none => simp [hs] at h
      | some acc' =>
        simp only [hs] at h
        rw [ih fuel' acc' h, stepField_keys m fuel' f kvs acc acc' hs]
        simp only [List.mem_cons, exists_eq_or_imp]
        constructor
        · rintro ((h | h | h) | h | h)
          · exact Or.inl h
          · exact Or.inr (Or.inl (Or.inl h))
          · exact Or.inr (Or.inr (Or.inl h))
          · exact Or.inr (Or.inl (Or.inr h))
          · exact Or.inr (Or.inr (Or.inr h))
        · rintro (h | (h | h) | (h | h))
          · exact Or.inl (Or.inl h)
          · exact Or.inl (Or.inr (Or.inl h))
          · exact Or.inr (Or.inl h)
          · exact Or.inl (Or.inr (Or.inr h))
          · exact Or.inr (Or.inr h)

theorem structFields_nodup (m : String) (fuel : Nat) (fields : List Field) (kvs : List (Str × Json)) (acc out : List (Bytes × Cbor))
    (h : structFields m fuel fields kvs acc = some out) (hn : (keysOf acc).Nodup) : (keysOf out).Nodup := by
  induction fields generalizing fuel acc with
  | nil => simp [structFields] at h; subst h; exact hn
  | cons f fs ih =>
    unfold structFields at h
    cases fuel with
    | zero => simp at h
    | succ fuel' =>
      simp only at h
      cases hs : stepField m fuel' f kvs acc with
      | none => simp [hs] at h
      | some acc' => simp only [hs] at h; exact ih fuel' acc' h (stepField_nodup m fuel' f kvs acc acc' hs hn)

theorem structFields_mandatory (m : String) (fuel : Nat) (fields : List Field) (kvs : List (Str × Json)) (acc out : List (Bytes × Cbor))
    (h : structFields m fuel fields kvs acc = some out) (f : Field) (hf : f ∈ fields) (hp : f.mode = .plain) (ho : f.optional = false) :
    Supplied kvs f := by
  induction fields generalizing fuel acc with
  | nil => cases hf
  | cons g fs ih =>
    unfold structFields at h
    cases fuel with
    | zero => simp at h
    | succ fuel' =>
      simp only at h
      cases hs : stepField m fuel' g kvs acc with
      | none => simp [hs] at h
      | some acc' =>
        simp only [hs] at h
        rcases List.mem_cons.mp hf with rfl | hf'
        · exact stepField_mandatory m fuel' f kvs acc acc' hs hp ho
        · exact ih fuel' acc' h hf'

/-- every supplied plain value passed its type's conversion (so a value outside the domain of its
type rejects the whole record) -/
theorem structFields_converted (m : String) (fuel : Nat) (fields : List Field) (kvs : List (Str × Json)) (acc out : List (Bytes × Cbor))
    (h : structFields m fuel fields kvs acc = some out) (f : Field) (hf : f ∈ fields) (hp : f.mode = .plain)
    (v : Json) (hv : jget kvs (ofAscii f.name) = some v) (hnn : v ≠ .null) :
    ∃ fuel' c, leaf m fuel' f.ty v = some c := by
  induction fields generalizing fuel acc with
  | nil => cases hf
  | cons g fs ih =>
    unfold structFields at h
    cases fuel with
    | zero => simp at h
    | succ fuel' =>
      simp only at h
      cases hs : stepField m fuel' g kvs acc with
      | none => simp [hs] at h
      | some acc' =>
        simp only [hs] at h
        rcases List.mem_cons.mp hf with rfl | hf'
        · obtain ⟨c, hc, _⟩ := stepField_value m fuel' f kvs acc acc' hs hp v hv hnn
          exact ⟨fuel', c, hc⟩
        · exact ih fuel' acc' h hf'

/-! ### civil-date steps and the UTC normalisation of date-times -/
section Dates
open IsoMdl.Spec


theorem dfc_next_in_month (y m d : Nat) : daysFromCivil y m (d + 1 : Nat) = daysFromCivil y m d + 1 := by
  simp only [daysFromCivil]; push_cast; omega

theorem isLeap_iff (y : Nat) : isLeap y = true ↔ (y % 4 = 0 ∧ y % 100 ≠ 0) ∨ y % 400 = 0 := by
  simp [isLeap]

/-- the first of the next month is the day after the last of this month -/
theorem dfc_month_rollover (y m : Nat) (h1 : 1 ≤ m) (h2 : m < 12) :
    daysFromCivil y (m + 1 : Nat) 1 = daysFromCivil y m (daysInMonth y m) + 1 := by
  have hl := isLeap_iff y
  have hm : m = 1 ∨ m = 2 ∨ m = 3 ∨ m = 4 ∨ m = 5 ∨ m = 6 ∨ m = 7 ∨ m = 8 ∨ m = 9 ∨ m = 10 ∨ m = 11 := by omega
  rcases hm with rfl | rfl | rfl | rfl | rfl | rfl | rfl | rfl | rfl | rfl | rfl <;>
    simp only [daysFromCivil, daysInMonth] <;> (try cases hleap : isLeap y) <;> simp <;> (try (rw [hleap] at hl; simp at hl)) <;> omega


theorem dfc_year_rollover (y : Nat) : daysFromCivil (y + 1 : Nat) 1 1 = daysFromCivil y 12 31 + 1 := by
  simp only [daysFromCivil]; push_cast; omega

theorem daysInMonth_ge (y m : Nat) : 28 ≤ daysInMonth y m := by
  unfold daysInMonth; split
  · split <;> omega
  · split <;> omega

def ValidDate (y m d : Nat) : Prop := 1 ≤ m ∧ m ≤ 12 ∧ 1 ≤ d ∧ d ≤ daysInMonth y m

theorem nextDay_dfc (y m d y' m' d' : Nat) (hv : ValidDate y m d) (h : nextDay y m d = some (y', m', d')) :
    daysFromCivil y' m' d' = daysFromCivil y m d + 1 ∧ ValidDate y' m' d' := by
  obtain ⟨h1, h2, h3, h4⟩ := hv
  unfold nextDay at h
  split at h
  · injection h with h; injection h with hy h; injection h with hm hd; subst hy; subst hm; subst hd
    exact ⟨dfc_next_in_month y m d, h1, h2, by omega, by omega⟩
  · split at h
    · injection h with h; injection h with hy h; injection h with hm hd; subst hy; subst hm; subst hd
      have hd : d = daysInMonth y m := by omega
      subst hd
      have := daysInMonth_ge y (m + 1)
      exact ⟨dfc_month_rollover y m h1 (by omega), by omega, by omega, by omega, by omega⟩
    · split at h
      · cases h
      · injection h with h; injection h with hy h; injection h with hm hd; subst hy; subst hm; subst hd
        push_cast
        have hm12 : m = 12 := by omega
        subst hm12
        have h31 : daysInMonth y 12 = 31 := by simp [daysInMonth]
        have hd : d = 31 := by omega
        subst hd
        exact ⟨dfc_year_rollover y, by omega, by omega, by omega, by simp [daysInMonth]⟩

theorem prevDay_dfc (y m d y' m' d' : Nat) (hv : ValidDate y m d) (h : prevDay y m d = some (y', m', d')) :
    daysFromCivil y' m' d' = daysFromCivil y m d - 1 ∧ ValidDate y' m' d' := by
  obtain ⟨h1, h2, h3, h4⟩ := hv
  unfold prevDay at h
  split at h
  · injection h with h; injection h with hy h; injection h with hm hd; subst hy; subst hm; subst hd
    have := dfc_next_in_month y m (d - 1)
    have hd : d - 1 + 1 = d := by omega
    rw [hd] at this
    exact ⟨by omega, h1, h2, by omega, by omega⟩
  · split at h
    · injection h with h; injection h with hy h; injection h with hm hd; subst hy; subst hm; subst hd
      have hd1 : d = 1 := by omega
      subst hd1
      have := dfc_month_rollover y (m - 1) (by omega) (by omega)
      have hmm : m - 1 + 1 = m := by omega
      rw [hmm] at this
      have hge := daysInMonth_ge y (m - 1)
      push_cast at this ⊢
      exact ⟨by omega, by omega, by omega, by omega, by omega⟩
    · split at h
      · cases h
      · injection h with h; injection h with hy h; injection h with hm hd; subst hy; subst hm; subst hd
        have hm1 : m = 1 := by omega
        have hd1 : d = 1 := by omega
        subst hm1; subst hd1
        rename_i hy0
        have := dfc_year_rollover (y - 1)
        have hyy : y - 1 + 1 = y := by omega
        rw [hyy] at this
        push_cast at this ⊢
        exact ⟨by omega, by omega, by omega, by omega, by simp [daysInMonth]⟩


def rfcValidP (p : Rfc3339) : Prop :=
  ValidDate p.y p.mo p.d ∧ p.h ≤ 23 ∧ p.mi ≤ 59 ∧ p.sec ≤ 60 ∧ -1440 < p.offMin ∧ p.offMin < 1440

theorem rfcValid_iff (p : Rfc3339) : rfcValid p = true ↔ rfcValidP p := by
  simp [rfcValid, rfcValidP, ValidDate, and_assoc]

theorem parseRfc3339_valid (s : Str) (p : Rfc3339) (h : parseRfc3339 s = some p) : rfcValidP p := by
  unfold parseRfc3339 at h
  obtain ⟨q, _, hq⟩ := Option.bind_eq_some_iff.mp h
  split at hq
  · rename_i hv; injection hq with hq; subst hq; exact (rfcValid_iff q).mp hv
  · cases hq

/-- the instant a UTC civil date-time denotes (seconds since 1970-01-01T00:00:00Z) -/
def dtInstant (t : DT) : Int := daysFromCivil t.y t.mo t.d * 86400 + ((t.h * 3600 + t.mi * 60 + t.s : Nat) : Int)

theorem hms_decompose (secs : Nat) (h : secs < 86400) :
    secs / 3600 * 3600 + secs / 60 % 60 * 60 + secs % 60 = secs ∧ secs / 3600 < 24 ∧ secs / 60 % 60 < 60 ∧ secs % 60 < 60 := by omega

/-- UTC NORMALISATION KEEPS THE INSTANT: whatever `toUtc` returns denotes exactly the instant of the
supplied date-time (its local time minus its offset; a leap second counted as the second before),
and is a valid calendar date-time -/
theorem toUtc_instant (p : Rfc3339) (t : DT) (hv : rfcValidP p) (h : toUtc p = some t) :
    dtInstant t = instantOf p ∧ ValidDate t.y t.mo t.d ∧ t.h < 24 ∧ t.mi < 60 ∧ t.s < 60 := by
  obtain ⟨hd, hh, hm, hs, ho1, ho2⟩ := hv
  unfold toUtc at h
  simp only at h
  generalize hsec : (if (p.sec == 60) = true then 59 else p.sec) = sec' at h
  have hsec' : sec' ≤ 59 := by
    rw [← hsec]; split
    · omega
    · rename_i hne; simp at hne; omega
  have hinst : instantOf p = daysFromCivil p.y p.mo p.d * 86400 + ((p.h * 3600 + p.mi * 60 + sec' : Nat) : Int) - p.offMin * 60 := by
    unfold instantOf; rw [← hsec]
  generalize hloc : ((p.h * 3600 + p.mi * 60 + sec' : Nat) : Int) - p.offMin * 60 = loc at h
  have hlb : -86400 < loc := by rw [← hloc]; omega
  have hub : loc < 2 * 86400 := by rw [← hloc]; omega
  have hinst' : instantOf p = daysFromCivil p.y p.mo p.d * 86400 + loc := by rw [hinst, ← hloc]; omega
  by_cases c1 : loc < 0
  · simp only [c1, if_true] at h
    cases hp : prevDay p.y p.mo p.d with
    | none => simp [hp] at h
    | some dd =>
      obtain ⟨y', m', d'⟩ := dd
      obtain ⟨hdfc, hvd⟩ := prevDay_dfc _ _ _ _ _ _ hd hp
      simp only [hp, Option.map] at h
      have hsecs : (loc + 86400).toNat < 86400 := by omega
      obtain ⟨e1, e2, e3, e4⟩ := hms_decompose _ hsecs
      split at h
      · cases h
      · injection h with h; subst h
        refine ⟨?_, hvd, e2, e3, e4⟩
        simp only [dtInstant]
        rw [e1, hdfc, hinst']
        have : ((loc + 86400).toNat : Int) = loc + 86400 := by omega
        omega
  · simp only [c1, if_false] at h
    by_cases c2 : loc ≥ 86400
    · simp only [c2, if_true] at h
      cases hp : nextDay p.y p.mo p.d with
      | none => simp [hp] at h
      | some dd =>
        obtain ⟨y', m', d'⟩ := dd
        obtain ⟨hdfc, hvd⟩ := nextDay_dfc _ _ _ _ _ _ hd hp
        simp only [hp, Option.map] at h
        have hsecs : (loc - 86400).toNat < 86400 := by omega
        obtain ⟨e1, e2, e3, e4⟩ := hms_decompose _ hsecs
        split at h
        · cases h
        · injection h with h; subst h
          refine ⟨?_, hvd, e2, e3, e4⟩
          simp only [dtInstant]
          rw [e1, hdfc, hinst']
          have : ((loc - 86400).toNat : Int) = loc - 86400 := by omega
          omega
    · simp only [c2, if_false] at h
      have hsecs : loc.toNat < 86400 := by omega
      obtain ⟨e1, e2, e3, e4⟩ := hms_decompose _ hsecs
      split at h
      · cases h
      · injection h with h; subst h
        refine ⟨?_, hd, e2, e3, e4⟩
        simp only [dtInstant]
        rw [e1, hinst']
        have : (loc.toNat : Int) = loc := by omega
        omega

end Dates
end IsoMdl.Ns
