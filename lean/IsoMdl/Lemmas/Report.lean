import IsoMdl.Model.Report
/- Lemmas about the reader's report (Model/Report.lean): the map insertion and the namespace fold. -/
namespace IsoMdl.Report
open IsoMdl

theorem bytesLt_irrefl (a : Bytes) : bytesLt a a = false := by
  induction a with
  | nil => rfl
  | cons x xs ih => simp [bytesLt, ih]

theorem eq_of_not_bytesLt : ∀ (a b : Bytes), bytesLt a b = false → bytesLt b a = false → a = b
  | [], [], _, _ => rfl
  | [], _ :: _, h, _ => by simp [bytesLt] at h
  | _ :: _, [], _, h => by simp [bytesLt] at h
  | x :: xs, y :: ys, h1, h2 => by
    simp only [bytesLt] at h1 h2
    by_cases hxy : x.toNat < y.toNat
    · simp [hxy] at h1
    · by_cases hyx : y.toNat < x.toNat
      · simp [hyx] at h2
      · simp only [hxy, hyx, if_false] at h1 h2
        have : x = y := UInt8.toNat_inj.mp (by omega)
        subst this
        rw [eq_of_not_bytesLt xs ys h1 h2]

/-- the order is total: of two different keys one is below the other -/
theorem bytesLt_total (a b : Bytes) (h : bytesLt a b = false) (hne : a ≠ b) : bytesLt b a = true := by
  cases hb : bytesLt b a with
  | true => rfl
  | false => exact absurd (eq_of_not_bytesLt a b h hb) hne

theorem mem_place {α : Type} (k : Bytes) (v : α) (l : List (Bytes × α)) (e : Bytes × α) :
    e ∈ place k v l ↔ e = (k, v) ∨ e ∈ l := by
  induction l with
  | nil => simp [place]
  | cons hd tl ih =>
    obtain ⟨hk, hv⟩ := hd
    simp only [place]
    split
    · simp
    · simp only [List.mem_cons, ih]
      constructor
      · rintro (h | h | h)
        · exact Or.inr (Or.inl h)
        · exact Or.inl h
        · exact Or.inr (Or.inr h)
      · rintro (h | h | h)
        · exact Or.inr (Or.inl h)
        · exact Or.inl h
        · exact Or.inr (Or.inr h)

/-- membership after `BTreeMap::insert`: the new entry, and every old entry with another key -/
theorem mem_insertKey {α : Type} (k : Bytes) (v : α) (l : List (Bytes × α)) (k' : Bytes) (v' : α) :
    (k', v') ∈ insertKey k v l ↔ (k' = k ∧ v' = v) ∨ ((k', v') ∈ l ∧ k' ≠ k) := by
  simp only [insertKey, mem_place, List.mem_filter, Prod.mk.injEq, bne_iff_ne, ne_eq]

/-- strictly increasing keys, stated on neighbours -/
def Sorted {α : Type} : List (Bytes × α) → Prop
  | [] => True
  | [_] => True
  | a :: b :: rest => bytesLt a.1 b.1 = true ∧ Sorted (b :: rest)

theorem Sorted.tail {α : Type} {a : Bytes × α} {l : List (Bytes × α)} (h : Sorted (a :: l)) : Sorted l := by
  cases l with
  | nil => trivial
  | cons b rest => exact h.2

/-- placing a key that does not occur keeps the list strictly increasing -/
theorem sorted_place {α : Type} (k : Bytes) (v : α) :
    ∀ (l : List (Bytes × α)), Sorted l → (∀ e ∈ l, e.1 ≠ k) → Sorted (place k v l)
  | [], _, _ => trivial
  | [a], _, hne => by
    simp only [place]
    split
    · rename_i h; exact ⟨h, trivial⟩
    · rename_i h
      have : bytesLt a.1 k = true := bytesLt_total k a.1 (by simpa using h) (fun e => hne a (by simp) e.symm)
      exact ⟨this, trivial⟩
  | a :: b :: rest, hs, hne => by
    simp only [place]
    split
    · rename_i h; exact ⟨h, hs⟩
    · rename_i h
      have hak : bytesLt a.1 k = true := bytesLt_total k a.1 (by simpa using h) (fun e => hne a (by simp) e.symm)
      have ih := sorted_place k v (b :: rest) hs.2 (fun e he => hne e (List.mem_cons_of_mem _ he))
      simp only [place] at ih ⊢
      split
      · rename_i h2
        exact ⟨hak, by simpa [h2] using ih⟩
      · rename_i h2
        exact ⟨hs.1, by simpa [h2] using ih⟩

/-- a sublist obtained by filtering a strictly increasing list is strictly increasing (needs transitivity) -/
theorem bytesLt_trans : ∀ (a b c : Bytes), bytesLt a b = true → bytesLt b c = true → bytesLt a c = true
  | [], [], _, h, _ => by simp [bytesLt] at h
  | [], _ :: _, [], _, h => by simp [bytesLt] at h
  | [], _ :: _, _ :: _, _, _ => by simp [bytesLt]
  | _ :: _, [], _, h, _ => by simp [bytesLt] at h
  | _ :: _, _ :: _, [], _, h => by simp [bytesLt] at h
  | x :: xs, y :: ys, z :: zs, h1, h2 => by
    simp only [bytesLt] at h1 h2 ⊢
    by_cases hxy : x.toNat < y.toNat
    · by_cases hyz : y.toNat < z.toNat
      · rw [if_pos (by omega)]
      · by_cases hzy : z.toNat < y.toNat
        · simp [hyz, hzy] at h2
        · rw [if_pos (by omega)]
    · by_cases hyx : y.toNat < x.toNat
      · simp [hxy, hyx] at h1
      · simp only [hxy, hyx, if_false] at h1
        by_cases hyz : y.toNat < z.toNat
        · rw [if_pos (by omega)]
        · by_cases hzy : z.toNat < y.toNat
          · simp [hyz, hzy] at h2
          · simp only [hyz, hzy, if_false] at h2
            rw [if_neg (by omega), if_neg (by omega)]
            exact bytesLt_trans xs ys zs h1 h2

theorem sorted_head_lt {α : Type} (a : Bytes × α) : ∀ (l : List (Bytes × α)), Sorted (a :: l) → ∀ e ∈ l, bytesLt a.1 e.1 = true
  | [], _, e, he => by cases he
  | b :: rest, hs, e, he => by
    rcases List.mem_cons.mp he with rfl | h
    · exact hs.1
    · have := sorted_head_lt b rest hs.2 e h
      exact bytesLt_trans _ _ _ hs.1 this

theorem sorted_cons_of {α : Type} (a : Bytes × α) : ∀ (l : List (Bytes × α)), Sorted l → (∀ e ∈ l, bytesLt a.1 e.1 = true) → Sorted (a :: l)
  | [], _, _ => trivial
  | b :: rest, hs, h => ⟨h b (by simp), hs⟩

theorem sorted_filter {α : Type} (p : Bytes × α → Bool) : ∀ (l : List (Bytes × α)), Sorted l → Sorted (l.filter p)
  | [], _ => trivial
  | a :: rest, hs => by
    have ih := sorted_filter p rest hs.tail
    simp only [List.filter_cons]
    split
    · exact sorted_cons_of a _ ih (fun e he => sorted_head_lt a rest hs e (List.mem_filter.mp he).1)
    · exact ih

/-- `BTreeMap::insert` keeps the keys strictly increasing (so they are unique) -/
theorem sorted_insertKey {α : Type} (k : Bytes) (v : α) (l : List (Bytes × α)) (h : Sorted l) : Sorted (insertKey k v l) := by
  unfold insertKey
  apply sorted_place k v _ (sorted_filter _ l h)
  intro e he
  have := (List.mem_filter.mp he).2
  simpa using this

/-! ### the namespace fold -/

def foldStep (acc : List (Bytes × RJson)) (it : Bytes × Cbor) : List (Bytes × RJson) :=
  match reportValue it.2 with
  | some j => insertKey it.1 j acc
  | none => acc

theorem namespaceObject_eq (items : List (Bytes × Cbor)) : namespaceObject items = items.foldl foldStep [] := rfl

theorem fold_sound (items : List (Bytes × Cbor)) : ∀ (acc : List (Bytes × RJson)) (seen : List (Bytes × Cbor)),
    (∀ id j, (id, j) ∈ acc → ∃ v, (id, v) ∈ seen ∧ reportValue v = some j) →
    ∀ id j, (id, j) ∈ items.foldl foldStep acc → ∃ v, (id, v) ∈ seen ++ items ∧ reportValue v = some j := by
  induction items with
  | nil => intro acc seen h id j hm; simpa using h id j hm
  | cons it rest ih =>
    intro acc seen h id j hm
    simp only [List.foldl_cons] at hm
    have := ih (foldStep acc it) (seen ++ [it]) (by
      intro id' j' hm'
      unfold foldStep at hm'
      cases hv : reportValue it.2 with
      | none =>
        simp only [hv] at hm'
        obtain ⟨v, hv1, hv2⟩ := h id' j' hm'
        exact ⟨v, by simp [hv1], hv2⟩
      | some jj =>
        simp only [hv] at hm'
        rcases (mem_insertKey it.1 jj acc id' j').mp hm' with ⟨rfl, rfl⟩ | ⟨hold, _⟩
        · exact ⟨it.2, by simp, hv⟩
        · obtain ⟨v, hv1, hv2⟩ := h id' j' hold
          exact ⟨v, by simp [hv1], hv2⟩) id j hm
    simpa [List.append_assoc] using this

theorem fold_sorted (items : List (Bytes × Cbor)) : ∀ (acc : List (Bytes × RJson)), Sorted acc → Sorted (items.foldl foldStep acc) := by
  induction items with
  | nil => intro acc h; exact h
  | cons it rest ih =>
    intro acc h
    simp only [List.foldl_cons]
    apply ih
    unfold foldStep
    cases reportValue it.2 with
    | none => exact h
    | some j => exact sorted_insertKey _ _ _ h

/-- an entry is not touched by later items with other identifiers or without a JSON form -/
theorem fold_keeps (items : List (Bytes × Cbor)) : ∀ (acc : List (Bytes × RJson)) (id : Bytes) (j : RJson),
    (id, j) ∈ acc → (∀ it ∈ items, it.1 = id → reportValue it.2 = none) → (id, j) ∈ items.foldl foldStep acc := by
  induction items with
  | nil => intro acc id j h _; exact h
  | cons it rest ih =>
    intro acc id j h hno
    simp only [List.foldl_cons]
    apply ih _ id j _ (fun it' h' => hno it' (List.mem_cons_of_mem _ h'))
    unfold foldStep
    cases hv : reportValue it.2 with
    | none => exact h
    | some jj =>
      simp only
      apply (mem_insertKey it.1 jj acc id j).mpr
      right
      refine ⟨h, ?_⟩
      intro he
      have := hno it (by simp) he.symm
      rw [hv] at this; cases this

end IsoMdl.Report
