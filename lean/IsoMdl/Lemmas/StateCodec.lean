import IsoMdl.Model.StateCodec
import IsoMdl.Lemmas.CborEq
import IsoMdl.Lemmas.Cbor
/- Round trips of the three layers of `Stringify` (Model/StateCodec.lean). -/
namespace IsoMdl.StateCodec
open IsoMdl IsoMdl.Session

/-! ### base64 -/

theorem b64val_char (v : Nat) (h : v < 64) : b64val (b64char v) = some v := by
  unfold b64char
  split
  · simp only [b64val]; rw [if_pos (by omega)]; exact congrArg some (by omega)
  · split
    · simp only [b64val]; rw [if_neg (by omega), if_pos (by omega)]; exact congrArg some (by omega)
    · split
      · simp only [b64val]; rw [if_neg (by omega), if_neg (by omega), if_pos (by omega)]; exact congrArg some (by omega)
      · split
        · rename_i h62; subst h62; rfl
        · have : v = 63 := by omega
          subst this; rfl

theorem b64char_ne_pad (v : Nat) : b64char v ≠ 61 := by
  unfold b64char
  repeat' split
  all_goals omega

theorem dec_quad (x y z w : Nat) (rest : List Nat) (hx : x < 64) (hy : y < 64) (hz : z < 64) (hw : w < 64) :
    b64Decode (b64char x :: b64char y :: b64char z :: b64char w :: rest) =
      (b64Decode rest).map fun r =>
        UInt8.ofNat ((x * 262144 + y * 4096 + z * 64 + w) / 65536) ::
        UInt8.ofNat ((x * 262144 + y * 4096 + z * 64 + w) / 256 % 256) ::
        UInt8.ofNat ((x * 262144 + y * 4096 + z * 64 + w) % 256) :: r := by
  rw [b64Decode]
  rw [if_neg (b64char_ne_pad w), b64val_char x hx, b64val_char y hy, b64val_char z hz, b64val_char w hw]
  cases b64Decode rest <;> rfl

theorem dec_tri (x y z : Nat) (hx : x < 64) (hy : y < 64) (hz : z < 64) (hz4 : z % 4 = 0) :
    b64Decode [b64char x, b64char y, b64char z, 61] =
      some [UInt8.ofNat (x * 4 + y / 16), UInt8.ofNat (y % 16 * 16 + z / 4)] := by
  rw [b64Decode]
  rw [if_pos rfl, if_neg (by simp), if_neg (b64char_ne_pad z), b64val_char x hx, b64val_char y hy, b64val_char z hz]
  simp only
  rw [if_neg (by omega)]

theorem dec_duo (x y : Nat) (hx : x < 64) (hy : y < 64) (hy16 : y % 16 = 0) :
    b64Decode [b64char x, b64char y, 61, 61] = some [UInt8.ofNat (x * 4 + y / 16)] := by
  rw [b64Decode]
  rw [if_pos rfl, if_neg (by simp), if_pos rfl, b64val_char x hx, b64val_char y hy]
  simp only
  rw [if_neg (by omega)]

theorem b64_roundtrip : ∀ (bs : Bytes), b64Decode (b64Encode bs) = some bs
  | [] => rfl
  | [a] => by
    have ha := a.toNat_lt
    simp only [b64Encode]
    generalize hn : a.toNat * 65536 = n
    rw [dec_duo _ _ (by omega) (by omega) (by omega)]
    have e1 : n / 262144 * 4 + n / 4096 % 64 / 16 = a.toNat := by omega
    rw [e1]; simp
  | [a, b] => by
    have ha := a.toNat_lt; have hb := b.toNat_lt
    simp only [b64Encode]
    generalize hn : a.toNat * 65536 + b.toNat * 256 = n
    rw [dec_tri _ _ _ (by omega) (by omega) (by omega) (by omega)]
    have e1 : n / 262144 * 4 + n / 4096 % 64 / 16 = a.toNat := by omega
    have e2 : n / 4096 % 64 % 16 * 16 + n / 64 % 64 / 4 = b.toNat := by omega
    rw [e1, e2]; simp
  | a :: b :: c :: rest => by
    have ih := b64_roundtrip rest
    have ha := a.toNat_lt; have hb := b.toNat_lt; have hc := c.toNat_lt
    simp only [b64Encode]
    generalize hn : a.toNat * 65536 + b.toNat * 256 + c.toNat = n
    rw [dec_quad (n / 262144) (n / 4096 % 64) (n / 64 % 64) (n % 64) (b64Encode rest) (by omega) (Nat.mod_lt _ (by decide)) (Nat.mod_lt _ (by decide)) (Nat.mod_lt _ (by decide)), ih]
    have e : n / 262144 * 262144 + n / 4096 % 64 * 4096 + n / 64 % 64 * 64 + n % 64 = n := by clear hn ih; omega
    rw [e]
    have e1 : n / 65536 = a.toNat := by omega
    have e2 : n / 256 % 256 = b.toNat := by omega
    have e3 : n % 256 = c.toNat := by omega
    rw [e1, e2, e3]
    simp

/-! ### serde layer -/

theorem decList_map {α : Type} (enc : α → Cbor) (dec : Cbor → Option α) (h : ∀ a, dec (enc a) = some a)
    (xs : List α) : decList dec (xs.map enc) = some xs := by
  induction xs with
  | nil => rfl
  | cons x xs ih => simp [decList, h, ih]

theorem decPair_enc (p : Nat × Nat) : decPair (encPair p) = some p := rfl
theorem decNat_enc (n : Nat) : decNat (.uint n) = some n := rfl

theorem ofBool_cbool (b : Bool) : ofBool (cbool b) = some b := by cases b <;> rfl

theorem decPayload_enc (p : Payload) : decPayload (encPayload p) = some p := by
  cases p with
  | request => rfl
  | notCbor => rfl
  | notRequest => rfl
  | response st signed =>
    simp only [encPayload, decPayload, decList_map encPair decPair decPair_enc, Option.map_some]

theorem decMsg_enc (m : Msg) : decMsg (encMsg m) = some m := by
  cases m with
  | garbage => rfl
  | noData => simp [encMsg, decMsg]
  | ct fr s n p t => simp [encMsg, decMsg, ofBool_cbool, decPayload_enc]

theorem decState_enc (st : DevState) : decState (encState st) = some st := by
  cases st with
  | awaiting => simp [encState, decState, tx]
  | signing p s status =>
    simp only [encState, encPrepared, decState, beq_self_eq_true, Bool.and_self, if_true,
      decList_map Cbor.uint decNat decNat_enc, decList_map encPair decPair decPair_enc]
  | ready m =>
    cases m with
    | garbage => simp [encState, encMsg, decState, decMsg]
    | noData => simp [encState, encMsg, decState, decMsg]
    | ct fr s n p t => simp [encState, encMsg, decState, decMsg, ofBool_cbool, decPayload_enc]

theorem UInt32.ofNat_toNat' (c : UInt32) : UInt32.ofNat c.toNat = c := by simp

/-- SERDE LAYER: every abstract device state is read back exactly -/
theorem devOfCbor_toCbor (d : Device) : devOfCbor (devToCbor d) = some d := by
  have h1 := d.encCtr.toNat_lt
  have h2 := d.decCtr.toNat_lt
  simp only [devToCbor, devOfCbor, beq_self_eq_true, Bool.and_self, Bool.true_and, decState_enc,
    Option.map_some]
  rw [if_pos (by simp; omega)]
  simp

theorem rdrOfCbor_toCbor (r : Reader) : rdrOfCbor (rdrToCbor r) = some r := by
  have h1 := r.encCtr.toNat_lt
  have h2 := r.decCtr.toNat_lt
  simp only [rdrToCbor, rdrOfCbor, beq_self_eq_true, Bool.and_self, Bool.true_and]
  rw [if_pos (by simp; omega)]
  simp

/-- ALL LAYERS: `parse (stringify d) = d` whenever the CBOR item is encodable (every number below
2^64 — in the real state they are u32 counters, u64 statuses, 16-byte ids) -/
theorem devParse_stringify (d : Device) (hw : Cbor.wf (devToCbor d)) : devParse (devStringify d) = some d := by
  simp [devParse, devStringify, b64_roundtrip, Cbor.decodeAll_enc _ hw, devOfCbor_toCbor]

theorem rdrParse_stringify (r : Reader) (hw : Cbor.wf (rdrToCbor r)) : rdrParse (rdrStringify r) = some r := by
  simp [rdrParse, rdrStringify, b64_roundtrip, Cbor.decodeAll_enc _ hw, rdrOfCbor_toCbor]

end IsoMdl.StateCodec

namespace IsoMdl.StateCodec
open IsoMdl IsoMdl.Session

/-! ### encodability: every number of the state fits a CBOR head -/

def PairsB (l : List (Nat × Nat)) : Prop := l.length < 2^64 ∧ ∀ p ∈ l, p.1 < 2^64 ∧ p.2 < 2^64
def NatsB (l : List Nat) : Prop := l.length < 2^64 ∧ ∀ n ∈ l, n < 2^64

def PayloadB : Payload → Prop
  | .response st signed => st < 2^64 ∧ PairsB signed
  | _ => True
def MsgB : Msg → Prop
  | .ct _ s n p _ => s < 2^64 ∧ n < 2^64 ∧ PayloadB p
  | _ => True
def StateB : DevState → Prop
  | .awaiting => True
  | .signing p s st => NatsB p ∧ PairsB s ∧ st < 2^64
  | .ready m => MsgB m
def DeviceB (d : Device) : Prop := d.sess < 2^64 ∧ StateB d.st
def ReaderB (r : Reader) : Prop := r.sess < 2^64

theorem wf_tx (s : String) (h : s.toList.length < 2^64) : Cbor.wf (tx s) := by
  simp [tx, Cbor.wf, h]

theorem wfList_pairs (l : List (Nat × Nat)) (h : ∀ p ∈ l, p.1 < 2^64 ∧ p.2 < 2^64) : Cbor.wfList (l.map encPair) := by
  induction l with
  | nil => simp [Cbor.wfList]
  | cons x xs ih =>
    have hx := h x List.mem_cons_self
    simp only [List.map_cons, Cbor.wfList, encPair, Cbor.wf, List.length_cons, List.length_nil]
    exact ⟨⟨by omega, hx.1, hx.2, trivial⟩, ih (fun p hp => h p (List.mem_cons_of_mem _ hp))⟩

theorem wfList_nats (l : List Nat) (h : ∀ n ∈ l, n < 2^64) : Cbor.wfList (l.map Cbor.uint) := by
  induction l with
  | nil => simp [Cbor.wfList]
  | cons x xs ih =>
    simp only [List.map_cons, Cbor.wfList, Cbor.wf]
    exact ⟨h x List.mem_cons_self, ih (fun p hp => h p (List.mem_cons_of_mem _ hp))⟩

theorem wf_cbool (b : Bool) : Cbor.wf (cbool b) := by cases b <;> simp [cbool, Cbor.wf]

theorem wf_payload (p : Payload) (h : PayloadB p) : Cbor.wf (encPayload p) := by
  cases p with
  | request => simp [encPayload, Cbor.wf]
  | notCbor => simp [encPayload, Cbor.wf]
  | notRequest => simp [encPayload, Cbor.wf]
  | response st signed =>
    obtain ⟨h1, h2, h3⟩ := h
    simp only [encPayload, Cbor.wf, Cbor.wfList, List.length_cons, List.length_nil, List.length_map]
    exact ⟨by omega, h1, ⟨h2, wfList_pairs signed h3⟩, trivial⟩

theorem wf_msg (m : Msg) (h : MsgB m) : Cbor.wf (encMsg m) := by
  cases m with
  | garbage => simp [encMsg, Cbor.wf]
  | noData => simp [encMsg, Cbor.wf, Cbor.wfPairs, tx]
  | ct fr s n p t =>
    obtain ⟨h1, h2, h3⟩ := h
    simp only [encMsg, Cbor.wf, Cbor.wfPairs, Cbor.wfList, List.length_cons, List.length_nil]
    exact ⟨by omega, wf_tx _ (by decide), ⟨by omega, wf_cbool _, h1, h2, wf_payload p h3, wf_cbool _, trivial⟩, trivial⟩

theorem wf_state (st : DevState) (h : StateB st) : Cbor.wf (encState st) := by
  cases st with
  | awaiting => exact wf_tx _ (by decide)
  | signing p s status =>
    obtain ⟨⟨hp1, hp2⟩, ⟨hs1, hs2⟩, hst⟩ := h
    simp only [encState, encPrepared, Cbor.wf, Cbor.wfPairs, List.length_cons, List.length_nil, List.length_map]
    refine ⟨by omega, wf_tx _ (by decide), ⟨by omega, wf_tx _ (by decide), ⟨hp1, wfList_nats p hp2⟩,
      wf_tx _ (by decide), ⟨hs1, wfList_pairs s hs2⟩, wf_tx _ (by decide), by simp, wf_tx _ (by decide), hst, trivial⟩, trivial⟩
  | ready m =>
    simp only [encState, Cbor.wf, Cbor.wfPairs, List.length_cons, List.length_nil]
    exact ⟨by omega, wf_tx _ (by decide), wf_msg m h, trivial⟩

theorem wf_device (d : Device) (h : DeviceB d) : Cbor.wf (devToCbor d) := by
  obtain ⟨hs, hst⟩ := h
  have h1 := d.encCtr.toNat_lt
  have h2 := d.decCtr.toNat_lt
  simp only [devToCbor, Cbor.wf, Cbor.wfPairs, List.length_cons, List.length_nil]
  refine ⟨by omega, wf_tx _ (by decide), hs, wf_tx _ (by decide), hs, wf_tx _ (by decide), hs, wf_tx _ (by decide), by omega,
    wf_tx _ (by decide), hs, wf_tx _ (by decide), by omega, wf_tx _ (by decide), wf_state _ hst, wf_tx _ (by decide), hs,
    wf_tx _ (by decide), hs, trivial⟩

theorem wf_reader (r : Reader) (h : ReaderB r) : Cbor.wf (rdrToCbor r) := by
  have h1 := r.encCtr.toNat_lt
  have h2 := r.decCtr.toNat_lt
  have hs : r.sess < 2^64 := h
  simp only [rdrToCbor, Cbor.wf, Cbor.wfPairs, List.length_cons, List.length_nil]
  refine ⟨by omega, wf_tx _ (by decide), hs, wf_tx _ (by decide), hs, wf_tx _ (by decide), by omega,
    wf_tx _ (by decide), hs, wf_tx _ (by decide), by omega, wf_tx _ (by decide), hs, trivial⟩

end IsoMdl.StateCodec
