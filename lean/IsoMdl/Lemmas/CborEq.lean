import IsoMdl.Model.Cbor
/- `==` on the CBOR data model is propositional equality (the hand-written structural `beq` is lawful). -/
namespace IsoMdl.Cbor
open IsoMdl

mutual
theorem beq_iff : ∀ (a b : Cbor), beq a b = true ↔ a = b
  | .uint a, b => by cases b <;> simp [beq]
  | .nint a, b => by cases b <;> simp [beq]
  | .bytes a, b => by cases b <;> simp [beq]
  | .text a, b => by cases b <;> simp [beq]
  | .array a, b => by
    cases b <;> simp [beq]
    exact beqList_iff a _
  | .map a, b => by
    cases b <;> simp [beq]
    exact beqPairs_iff a _
  | .tag s a, b => by
    cases b <;> simp [beq]
    rename_i t b'
    rw [beq_iff a b']
    intro _; exact Iff.rfl
  | .simple a, b => by cases b <;> simp [beq]
  | .float w a, b => by cases b <;> simp [beq]
theorem beqList_iff : ∀ (a b : List Cbor), beqList a b = true ↔ a = b
  | [], b => by cases b <;> simp [beqList]
  | x :: xs, b => by
    cases b with
    | nil => simp [beqList]
    | cons y ys => simp [beqList, beq_iff x y, beqList_iff xs ys]
theorem beqPairs_iff : ∀ (a b : List (Cbor × Cbor)), beqPairs a b = true ↔ a = b
  | [], b => by cases b <;> simp [beqPairs]
  | (k, v) :: xs, b => by
    cases b with
    | nil => simp [beqPairs]
    | cons y ys =>
      obtain ⟨k', v'⟩ := y
      simp [beqPairs, beq_iff k k', beq_iff v v', beqPairs_iff xs ys, and_assoc]
end

instance : LawfulBEq Cbor where
  eq_of_beq := fun h => (beq_iff _ _).mp h
  rfl := (beq_iff _ _).mpr rfl

end IsoMdl.Cbor
