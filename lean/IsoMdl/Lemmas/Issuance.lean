import IsoMdl.Model.Issuance
namespace IsoMdl.Issuance
open IsoMdl

theorem nodup_map_inj {α β : Type} (f : α → β) (hf : ∀ a b, f a = f b → a = b) (l : List α)
    (h : l.Nodup) : (l.map f).Nodup := by
  induction l with
  | nil => simp
  | cons a l ih =>
    obtain ⟨h1, h2⟩ := List.nodup_cons.mp h
    simp only [List.map_cons]
    refine List.nodup_cons.mpr ⟨?_, ih h2⟩
    intro hm
    obtain ⟨b, hb, hfb⟩ := List.mem_map.mp hm
    have := hf b a hfb
    subst this
    exact h1 hb

theorem genId_spec (used tape : List Int32) (id : Int32) (t : List Int32)
    (h : genId used tape = some (id, t)) : id ∉ used ∧ ∃ d ∈ tape, id = Generated.digestIdNew d := by
  induction tape with
  | nil => simp [genId] at h
  | cons d tape ih =>
    simp only [genId] at h
    split at h
    · obtain ⟨h1, d', hd', h2⟩ := ih h
      exact ⟨h1, d', List.mem_cons_of_mem _ hd', h2⟩
    · rename_i hc
      simp only [Option.some.injEq, Prod.mk.injEq] at h
      obtain ⟨rfl, rfl⟩ := h
      exact ⟨by simpa using hc, d, List.mem_cons_self, rfl⟩

theorem toItems_spec (elems : List (Bytes × Cbor)) (used tape : List Int32) (salts : List Bytes)
    (items : List Item) (t : List Int32) (h : toItems elems used tape salts = some (items, t)) :
    items.map (fun it => (it.ident, it.value)) = elems ∧
    items.map (·.random) = salts.take elems.length ∧
    ∃ ids : List Int32, items.map (·.digestId) = ids.map (·.toInt) ∧ ids.Nodup ∧ ∀ i ∈ ids, i ∉ used := by
  induction elems generalizing used tape salts items t with
  | nil =>
    simp only [toItems, Option.some.injEq, Prod.mk.injEq] at h
    obtain ⟨rfl, _⟩ := h
    exact ⟨rfl, by simp, [], rfl, List.nodup_nil, by simp⟩
  | cons e rest ih =>
    obtain ⟨k, v⟩ := e
    cases salts with
    | nil => simp [toItems] at h
    | cons salt salts =>
      simp only [toItems] at h
      cases hg : genId used tape with
      | none => simp [hg] at h
      | some r =>
        obtain ⟨id, tape'⟩ := r
        simp only [hg] at h
        cases hr : toItems rest (id :: used) tape' salts with
        | none => simp [hr] at h
        | some r2 =>
          obtain ⟨items', t'⟩ := r2
          simp only [hr, Option.some.injEq, Prod.mk.injEq] at h
          obtain ⟨rfl, rfl⟩ := h
          obtain ⟨h1, h2, ids, h3, h4, h5⟩ := ih _ _ _ _ _ hr
          obtain ⟨hfresh, _⟩ := genId_spec _ _ _ _ hg
          refine ⟨by simp [h1], by simp [h2], id :: ids, by simp [h3], ?_, ?_⟩
          · refine List.nodup_cons.mpr ⟨?_, h4⟩
            intro hmem
            exact (h5 id hmem) List.mem_cons_self
          · intro i hi
            rcases List.mem_cons.mp hi with rfl | hi
            · exact hfresh
            · intro hu; exact (h5 i hi) (List.mem_cons_of_mem _ hu)

theorem genDecoys_spec (n : Nat) (used tape ids t : List Int32)
    (h : genDecoys n used tape = some (ids, t)) :
    ids.length = n ∧ ids.Nodup ∧ ∀ i ∈ ids, i ∉ used := by
  induction n generalizing used tape ids t with
  | zero =>
    simp only [genDecoys, Option.some.injEq, Prod.mk.injEq] at h
    obtain ⟨rfl, _⟩ := h
    simp
  | succ n ih =>
    simp only [genDecoys] at h
    cases hg : genId used tape with
    | none => simp [hg] at h
    | some r =>
      obtain ⟨id, tape'⟩ := r
      simp only [hg] at h
      cases hr : genDecoys n (id :: used) tape' with
      | none => simp [hr] at h
      | some r2 =>
        obtain ⟨ids', t'⟩ := r2
        simp only [hr, Option.some.injEq, Prod.mk.injEq] at h
        obtain ⟨rfl, rfl⟩ := h
        obtain ⟨h1, h2, h3⟩ := ih _ _ _ _ hr
        obtain ⟨hfresh, _⟩ := genId_spec _ _ _ _ hg
        refine ⟨by simp [h1], List.nodup_cons.mpr ⟨fun hm => (h3 id hm) List.mem_cons_self, h2⟩, ?_⟩
        intro i hi
        rcases List.mem_cons.mp hi with rfl | hi
        · exact hfresh
        · intro hu; exact (h3 i hi) (List.mem_cons_of_mem _ hu)

end IsoMdl.Issuance
