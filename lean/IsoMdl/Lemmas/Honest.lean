import IsoMdl.Model.Honest
import IsoMdl.Lemmas.Session
/- Lemmas for C01: the holder's signing loop and one honest round. -/
namespace IsoMdl.Honest
open IsoMdl IsoMdl.Session

theorem submit_last (d : Device) (init : List Nat) (x s : Nat) (signed : List (Nat × Nat)) (st : Nat)
    (hd : d.st = .signing (init ++ [x]) signed st) :
    d.submit s = ({ d with st := .signing init (signed ++ [(x, s)]) st } : Device).finalizeIfComplete := by
  unfold Device.submit
  simp [hd, attach, List.getLast?_concat, List.dropLast_concat]

theorem signAll_signing (n : Nat) : ∀ (docs sigs : List Nat) (d : Device) (signed : List (Nat × Nat)) (st : Nat),
    docs.length = n + 1 → sigs.length = docs.length → d.st = .signing docs signed st →
    atMax d.encCtr = false →
    signAll docs.length d sigs =
      { d with encCtr := bump d.encCtr,
               st := .ready (.ct false d.sess (bump d.encCtr).toNat (.response st (signed ++ pairsOf docs sigs)) false) } := by
  induction n with
  | zero =>
    intro docs sigs d signed st hn hl hd hm
    match docs, sigs, hn, hl with
    | [x], [s], _, _ =>
      simp only [List.length_singleton, signAll]
      rw [submit_last d [] x s signed st (by simpa using hd)]
      simp [Device.finalizeIfComplete, pairsOf, hm]
  | succ n ih =>
    intro docs sigs d signed st hn hl hd hm
    rcases List.eq_nil_or_concat docs with h | ⟨init, x, h⟩
    · subst h; simp at hn
    · rw [List.concat_eq_append] at h; subst h
      cases sigs with
      | nil => simp at hl
      | cons s sigs' =>
        have hlen : init.length = n + 1 := by simp at hn; omega
        have hl' : sigs'.length = init.length := by simp at hl; omega
        have hne : init ≠ [] := by intro h; subst h; simp at hlen
        have hsub := submit_last d init x s signed st hd
        have hfin : ({ d with st := .signing init (signed ++ [(x, s)]) st } : Device).finalizeIfComplete =
            { d with st := .signing init (signed ++ [(x, s)]) st } := by
          unfold Device.finalizeIfComplete
          cases init with
          | nil => exact absurd rfl hne
          | cons a t => rfl
        have : (init ++ [x]).length = init.length + 1 := by simp
        rw [this]
        simp only [signAll]
        rw [hsub, hfin, ih init sigs' ({ d with st := .signing init (signed ++ [(x, s)]) st } : Device) (signed ++ [(x, s)]) st hlen hl' rfl hm]
        simp [pairsOf, List.reverse_append, List.append_assoc]

theorem bump_toNat_eq (a b : UInt32) (h : a = b) : (bump a).toNat = (bump b).toNat := by rw [h]

theorem answer_ok (n : Nat) (d : Device) (r : Reader) (docs sigs : List Nat) (hn : docs.length = n + 1) (hl : sigs.length = docs.length)
    (hsess : d.sess = r.sess) (henc : d.encCtr = r.decCtr) (hm : atMax d.encCtr = false) :
    answer d r docs sigs =
      ({ d with encCtr := bump d.encCtr, st := .awaiting }, { r with decCtr := bump r.decCtr },
       some (.accepted (.response 0 (pairsOf docs sigs)))) := by
  have hne : docs ≠ [] := by intro h; subst h; simp at hn
  have hprep : d.prepare docs = { d with st := .signing docs [] 0 } := by
    unfold Device.prepare Device.finalizeIfComplete
    cases docs with
    | nil => exact absurd rfl hne
    | cons a t => rfl
  have hsig := signAll_signing n docs sigs ({ d with st := .signing docs [] 0 } : Device) [] 0 hn hl rfl hm
  have hm' : atMax r.decCtr = false := by rw [← henc]; exact hm
  unfold answer
  simp only [hprep, hsig]
  simp [Device.retrieve, Reader.handleResponse, accepts, hsess, henc, hm']

/-- ONE ROUND: from any in-step pair of roles, an honest round with any non-empty list of prepared
documents and as many signatures is accepted at both ends, delivers status 0 with each document
paired with its own signature, and leaves the roles in step. -/
theorem atMax_false_of_lt (c : UInt32) (h : c.toNat + 1 < 2^32) : atMax c = false := by
  cases hm : atMax c
  · rfl
  · have := (atMax_iff c).mp hm; omega

theorem round_ok (d : Device) (r : Reader) (docs sigs : List Nat) (hs : InStep d r) (k : Nat) (hroom : Room d r (k + 1))
    (hne : docs ≠ []) (hl : sigs.length = docs.length) :
    ∃ d' r', round d r docs sigs = (d', r', some (.accepted .request), some (.accepted (.response 0 (pairsOf docs sigs)))) ∧
      InStep d' r' ∧ Room d' r' k := by
  obtain ⟨hsess, hdec, henc, hst⟩ := hs
  obtain ⟨hr1, hr2⟩ := hroom
  have hmr : atMax r.encCtr = false := atMax_false_of_lt _ (by omega)
  have hmd : atMax d.encCtr = false := atMax_false_of_lt _ (by omega)
  have hmdd : atMax d.decCtr = false := by rw [hdec]; exact hmr
  obtain ⟨n, hn⟩ : ∃ n, docs.length = n + 1 := by
    cases docs with
    | nil => exact absurd rfl hne
    | cons a t => exact ⟨t.length, by simp⟩
  have hreq : d.handleRequest (.ct true r.sess (bump r.encCtr).toNat .request false) =
      ({ d with decCtr := bump d.decCtr }, .accepted .request) := by
    simp [Device.handleRequest, accepts, hsess, hdec, hmr]
  unfold round Reader.newRequest
  simp only [hmr, Bool.false_eq_true, if_false, hreq]
  rw [answer_ok n _ _ docs sigs hn hl (by simpa using hsess) (by simpa using henc) (by simpa using hmd)]
  refine ⟨_, _, rfl, ?_, ?_⟩
  · simp [InStep, hsess, hdec, henc]
  · have h1 := bump_toNat r.encCtr (by omega)
    have h2 := bump_toNat d.encCtr (by omega)
    simp only [Room, h1, h2]
    omega


end IsoMdl.Honest
