import IsoMdl.Model.Disclosure
namespace IsoMdl.Disclosure

theorem lookup_mem {β} (k : Key) (l : List (Key × β)) (v : β) (h : lookup k l = some v) : (k, v) ∈ l := by
  induction l with
  | nil => simp [lookup] at h
  | cons p rest ih =>
    obtain ⟨k', v'⟩ := p
    simp only [lookup] at h
    split at h
    · rename_i heq; cases h; subst heq; exact List.mem_cons_self
    · exact List.mem_cons_of_mem _ (ih h)

/-- membership of an element in the value list stored under a key -/
def In {β} (k : Key) (x : β) (l : List (Key × List β)) : Prop := ∃ xs, (k, xs) ∈ l ∧ x ∈ xs

theorem In_pushAt_iff (ns : Key) (x : Nat) (l : List (Key × List Nat)) (k : Key) (y : Nat) :
    In k y (pushAt ns x l) ↔ (k = ns ∧ y = x) ∨ In k y l := by
  induction l with
  | nil =>
    simp only [pushAt, In, List.mem_singleton, Prod.mk.injEq]
    constructor
    · rintro ⟨xs, ⟨rfl, rfl⟩, hy⟩; exact Or.inl ⟨rfl, by simpa using hy⟩
    · rintro (⟨rfl, rfl⟩ | ⟨xs, hm, _⟩)
      · exact ⟨[y], ⟨rfl, rfl⟩, by simp⟩
      · cases hm
  | cons p rest ih =>
    obtain ⟨k', xs'⟩ := p
    simp only [pushAt]
    split
    · rename_i heq
      subst heq
      constructor
      · rintro ⟨xs, hm, hy⟩
        rcases List.mem_cons.mp hm with h | h
        · cases h
          rcases List.mem_append.mp hy with h | h
          · exact Or.inr ⟨xs', List.mem_cons_self, h⟩
          · simp at h; exact Or.inl ⟨rfl, h⟩
        · exact Or.inr ⟨xs, List.mem_cons_of_mem _ h, hy⟩
      · rintro (⟨rfl, rfl⟩ | ⟨xs, hm, hy⟩)
        · exact ⟨xs' ++ [y], List.mem_cons_self, by simp⟩
        · rcases List.mem_cons.mp hm with h | h
          · cases h; exact ⟨xs' ++ [x], List.mem_cons_self, by simp [hy]⟩
          · exact ⟨xs, List.mem_cons_of_mem _ h, hy⟩
    · constructor
      · rintro ⟨xs, hm, hy⟩
        rcases List.mem_cons.mp hm with h | h
        · cases h; exact Or.inr ⟨_, List.mem_cons_self, hy⟩
        · rcases (ih.mp ⟨xs, h, hy⟩) with h' | ⟨xs2, h2, hy2⟩
          · exact Or.inl h'
          · exact Or.inr ⟨xs2, List.mem_cons_of_mem _ h2, hy2⟩
      · rintro (h | ⟨xs, hm, hy⟩)
        · obtain ⟨xs, h1, h2⟩ := ih.mpr (Or.inl h)
          exact ⟨xs, List.mem_cons_of_mem _ h1, h2⟩
        · rcases List.mem_cons.mp hm with h | h
          · cases h; exact ⟨_, List.mem_cons_self, hy⟩
          · obtain ⟨xs2, h1, h2⟩ := ih.mpr (Or.inr ⟨xs, h, hy⟩)
            exact ⟨xs2, List.mem_cons_of_mem _ h1, h2⟩

theorem mem_insertSorted (e y : Key) (l : List Key) : y ∈ insertSorted e l ↔ y = e ∨ y ∈ l := by
  induction l with
  | nil => simp [insertSorted]
  | cons x xs ih =>
    simp only [insertSorted]
    split
    · simp
    · split
      · rename_i h; subst h; simp
      · simp only [List.mem_cons, ih]
        constructor
        · rintro (h | h | h)
          · exact Or.inr (Or.inl h)
          · exact Or.inl h
          · exact Or.inr (Or.inr h)
        · rintro (h | h | h)
          · exact Or.inr (Or.inl h)
          · exact Or.inl h
          · exact Or.inr (Or.inr h)

theorem In_insertErr_iff (ns e : Key) (l : List (Key × List Key)) (k y : Key) :
    In k y (insertErr ns e l) ↔ (k = ns ∧ y = e) ∨ In k y l := by
  induction l with
  | nil =>
    simp only [insertErr, In, List.mem_singleton, Prod.mk.injEq]
    constructor
    · rintro ⟨xs, ⟨rfl, rfl⟩, hy⟩; exact Or.inl ⟨rfl, by simpa using hy⟩
    · rintro (⟨rfl, rfl⟩ | ⟨xs, hm, _⟩)
      · exact ⟨[y], ⟨rfl, rfl⟩, by simp⟩
      · cases hm
  | cons p rest ih =>
    obtain ⟨k', es'⟩ := p
    simp only [insertErr]
    split
    · rename_i heq
      subst heq
      constructor
      · rintro ⟨xs, hm, hy⟩
        rcases List.mem_cons.mp hm with h | h
        · cases h
          rcases (mem_insertSorted e y es').mp hy with h | h
          · exact Or.inl ⟨rfl, h⟩
          · exact Or.inr ⟨es', List.mem_cons_self, h⟩
        · exact Or.inr ⟨xs, List.mem_cons_of_mem _ h, hy⟩
      · rintro (⟨rfl, rfl⟩ | ⟨xs, hm, hy⟩)
        · exact ⟨_, List.mem_cons_self, (mem_insertSorted y y es').mpr (Or.inl rfl)⟩
        · rcases List.mem_cons.mp hm with h | h
          · cases h
            exact ⟨_, List.mem_cons_self, (mem_insertSorted e y _).mpr (Or.inr hy)⟩
          · exact ⟨xs, List.mem_cons_of_mem _ h, hy⟩
    · constructor
      · rintro ⟨xs, hm, hy⟩
        rcases List.mem_cons.mp hm with h | h
        · cases h; exact Or.inr ⟨_, List.mem_cons_self, hy⟩
        · rcases (ih.mp ⟨xs, h, hy⟩) with h' | ⟨xs2, h2, hy2⟩
          · exact Or.inl h'
          · exact Or.inr ⟨xs2, List.mem_cons_of_mem _ h2, hy2⟩
      · rintro (h | ⟨xs, hm, hy⟩)
        · obtain ⟨xs, h1, h2⟩ := ih.mpr (Or.inl h)
          exact ⟨xs, List.mem_cons_of_mem _ h1, h2⟩
        · rcases List.mem_cons.mp hm with h | h
          · cases h; exact ⟨_, List.mem_cons_self, hy⟩
          · obtain ⟨xs2, h1, h2⟩ := ih.mpr (Or.inr ⟨xs, h, hy⟩)
            exact ⟨xs2, List.mem_cons_of_mem _ h1, h2⟩

/-- what one namespace's element loop does to the accumulators, as a characterisation of
membership afterwards -/
def stepNs (doc : Doc) (ns : Key) (elems : List Key)
    (acc : List (Key × List Nat) × List (Key × List Key)) : List (Key × List Nat) × List (Key × List Key) :=
  match lookup ns doc.namespaces with
  | some items =>
    elems.foldl (fun (acc : List (Key × List Nat) × List (Key × List Key)) e =>
      match lookup e items with
      | some it => (pushAt ns it acc.1, acc.2)
      | none => (acc.1, insertErr ns e acc.2)) acc
  | none => elems.foldl (fun acc e => (acc.1, insertErr ns e acc.2)) acc

theorem collect_cons (doc : Doc) (ns : Key) (elems : List Key) (rest : List (Key × List Key))
    (acc : List (Key × List Nat) × List (Key × List Key)) :
    collect doc ((ns, elems) :: rest) acc = collect doc rest (stepNs doc ns elems acc) := by
  obtain ⟨dis, errs⟩ := acc
  simp only [collect, stepNs]
  cases lookup ns doc.namespaces <;> rfl

/-- the held item for (ns, e), if any -/
def heldItem (doc : Doc) (ns e : Key) : Option Nat :=
  match lookup ns doc.namespaces with
  | some items => lookup e items
  | none => none

theorem stepNs_dis (doc : Doc) (ns : Key) (elems : List Key)
    (acc : List (Key × List Nat) × List (Key × List Key)) (k : Key) (y : Nat) :
    In k y (stepNs doc ns elems acc).1 ↔
      In k y acc.1 ∨ (k = ns ∧ ∃ e ∈ elems, heldItem doc ns e = some y) := by
  unfold stepNs heldItem
  cases hl : lookup ns doc.namespaces with
  | none =>
    simp only
    have : ∀ (es : List Key) (a : List (Key × List Nat) × List (Key × List Key)),
        (es.foldl (fun acc e => (acc.1, insertErr ns e acc.2)) a).1 = a.1 := by
      intro es; induction es with
      | nil => intro a; rfl
      | cons e es ih => intro a; simp only [List.foldl_cons]; rw [ih]
    rw [this]; simp
  | some items =>
    simp only
    induction elems generalizing acc with
    | nil => simp
    | cons e es ih =>
      simp only [List.foldl_cons]
      rw [ih]
      cases he : lookup e items with
      | none =>
        simp only
        constructor
        · rintro (h | ⟨rfl, e', he', hy⟩)
          · exact Or.inl h
          · exact Or.inr ⟨rfl, e', List.mem_cons_of_mem _ he', hy⟩
        · rintro (h | ⟨rfl, e', he', hy⟩)
          · exact Or.inl h
          · rcases List.mem_cons.mp he' with rfl | h'
            · rw [he] at hy; cases hy
            · exact Or.inr ⟨rfl, e', h', hy⟩
      | some it =>
        simp only
        rw [In_pushAt_iff]
        constructor
        · rintro ((⟨rfl, rfl⟩ | h) | ⟨rfl, e', he', hy⟩)
          · exact Or.inr ⟨rfl, e, List.mem_cons_self, he⟩
          · exact Or.inl h
          · exact Or.inr ⟨rfl, e', List.mem_cons_of_mem _ he', hy⟩
        · rintro (h | ⟨rfl, e', he', hy⟩)
          · exact Or.inl (Or.inr h)
          · rcases List.mem_cons.mp he' with rfl | h'
            · rw [he] at hy; cases hy; exact Or.inl (Or.inl ⟨rfl, rfl⟩)
            · exact Or.inr ⟨rfl, e', h', hy⟩

theorem stepNs_err (doc : Doc) (ns : Key) (elems : List Key)
    (acc : List (Key × List Nat) × List (Key × List Key)) (k y : Key) :
    In k y (stepNs doc ns elems acc).2 ↔
      In k y acc.2 ∨ (k = ns ∧ y ∈ elems ∧ heldItem doc ns y = none) := by
  unfold stepNs heldItem
  cases hl : lookup ns doc.namespaces with
  | none =>
    simp only
    induction elems generalizing acc with
    | nil => simp
    | cons e es ih =>
      simp only [List.foldl_cons]
      rw [ih, In_insertErr_iff]
      constructor
      · rintro ((⟨rfl, rfl⟩ | h) | ⟨rfl, h1, h2⟩)
        · exact Or.inr ⟨rfl, List.mem_cons_self, trivial⟩
        · exact Or.inl h
        · exact Or.inr ⟨rfl, List.mem_cons_of_mem _ h1, trivial⟩
      · rintro (h | ⟨rfl, h1, _⟩)
        · exact Or.inl (Or.inr h)
        · rcases List.mem_cons.mp h1 with rfl | h'
          · exact Or.inl (Or.inl ⟨rfl, rfl⟩)
          · exact Or.inr ⟨rfl, h', trivial⟩
  | some items =>
    simp only
    induction elems generalizing acc with
    | nil => simp
    | cons e es ih =>
      simp only [List.foldl_cons]
      rw [ih]
      cases he : lookup e items with
      | some it =>
        simp only
        constructor
        · rintro (h | ⟨rfl, h1, h2⟩)
          · exact Or.inl h
          · exact Or.inr ⟨rfl, List.mem_cons_of_mem _ h1, h2⟩
        · rintro (h | ⟨rfl, h1, h2⟩)
          · exact Or.inl h
          · rcases List.mem_cons.mp h1 with rfl | h'
            · rw [he] at h2; cases h2
            · exact Or.inr ⟨rfl, h', h2⟩
      | none =>
        simp only
        rw [In_insertErr_iff]
        constructor
        · rintro ((⟨rfl, rfl⟩ | h) | ⟨rfl, h1, h2⟩)
          · exact Or.inr ⟨rfl, List.mem_cons_self, he⟩
          · exact Or.inl h
          · exact Or.inr ⟨rfl, List.mem_cons_of_mem _ h1, h2⟩
        · rintro (h | ⟨rfl, h1, h2⟩)
          · exact Or.inl (Or.inr h)
          · rcases List.mem_cons.mp h1 with rfl | h'
            · exact Or.inl (Or.inl ⟨rfl, rfl⟩)
            · exact Or.inr ⟨rfl, h', h2⟩

/-- `collect` characterised: afterwards an item sits under `k` iff it did before or it is the
held item of some (k, e) of the processed list; an identifier is listed as error iff it was
before or it is a processed (k, e) that is not held. -/
theorem collect_dis (doc : Doc) (nss : List (Key × List Key))
    (acc : List (Key × List Nat) × List (Key × List Key)) (k : Key) (y : Nat) :
    In k y (collect doc nss acc).1 ↔
      In k y acc.1 ∨ ∃ es, (k, es) ∈ nss ∧ ∃ e ∈ es, heldItem doc k e = some y := by
  induction nss generalizing acc with
  | nil => simp [collect]
  | cons p rest ih =>
    obtain ⟨ns, elems⟩ := p
    rw [collect_cons, ih, stepNs_dis]
    constructor
    · rintro ((h | ⟨rfl, e, he, hy⟩) | ⟨es, hm, e, he, hy⟩)
      · exact Or.inl h
      · exact Or.inr ⟨elems, List.mem_cons_self, e, he, hy⟩
      · exact Or.inr ⟨es, List.mem_cons_of_mem _ hm, e, he, hy⟩
    · rintro (h | ⟨es, hm, e, he, hy⟩)
      · exact Or.inl (Or.inl h)
      · rcases List.mem_cons.mp hm with h | h
        · cases h; exact Or.inl (Or.inr ⟨rfl, e, he, hy⟩)
        · exact Or.inr ⟨es, h, e, he, hy⟩

theorem collect_err (doc : Doc) (nss : List (Key × List Key))
    (acc : List (Key × List Nat) × List (Key × List Key)) (k y : Key) :
    In k y (collect doc nss acc).2 ↔
      In k y acc.2 ∨ ∃ es, (k, es) ∈ nss ∧ y ∈ es ∧ heldItem doc k y = none := by
  induction nss generalizing acc with
  | nil => simp [collect]
  | cons p rest ih =>
    obtain ⟨ns, elems⟩ := p
    rw [collect_cons, ih, stepNs_err]
    constructor
    · rintro ((h | ⟨rfl, he, hy⟩) | ⟨es, hm, he, hy⟩)
      · exact Or.inl h
      · exact Or.inr ⟨elems, List.mem_cons_self, he, hy⟩
      · exact Or.inr ⟨es, List.mem_cons_of_mem _ hm, he, hy⟩
    · rintro (h | ⟨es, hm, he, hy⟩)
      · exact Or.inl (Or.inl h)
      · rcases List.mem_cons.mp hm with h | h
        · cases h; exact Or.inl (Or.inr ⟨rfl, he, hy⟩)
        · exact Or.inr ⟨es, h, he, hy⟩

end IsoMdl.Disclosure

namespace IsoMdl.Disclosure

/-- the per-document step of `prepare`, as two `filterMap`s -/
def prepDoc (held : Held) (p : Key × List (Key × List Key)) : Option PreparedDoc :=
  match lookup p.1 held with
  | none => none
  | some doc =>
    if !doc.canSign then none
    else some { docType := p.1, disclosed := (collect doc p.2 ([], [])).1, errors := (collect doc p.2 ([], [])).2 }

def prepErr (held : Held) (p : Key × List (Key × List Key)) : Option Key :=
  match lookup p.1 held with
  | none => some p.1
  | some doc => if !doc.canSign then some p.1 else none

theorem prepare_eq (held : Held) (req : Request) (perm : Permitted) :
    prepare held req perm =
      ((filterPermitted req perm).filterMap (prepDoc held), (filterPermitted req perm).filterMap (prepErr held)) := by
  unfold prepare
  generalize filterPermitted req perm = F
  suffices h : ∀ (acc : List PreparedDoc × List Key),
      F.foldl (prepareStep held) acc
      = (acc.1 ++ F.filterMap (prepDoc held), acc.2 ++ F.filterMap (prepErr held)) by
    have := h ([], [])
    simpa using this
  induction F with
  | nil => intro acc; simp
  | cons p F ih =>
    intro acc
    simp only [List.foldl_cons]
    rw [ih]
    simp only [List.filterMap_cons, prepDoc, prepErr, prepareStep]
    cases hl : lookup p.1 held with
    | none => simp
    | some doc =>
      cases hc : doc.canSign <;> simp [hc]

theorem mem_filterPermitted (req : Request) (perm : Permitted) (d : Key) (nss' : List (Key × List Key)) :
    (d, nss') ∈ filterPermitted req perm ↔
      ∃ nss rns, (d, nss) ∈ perm ∧ firstRequest req d = some rns ∧
        nss' = nss.filterMap fun (ns, elems) =>
          (lookup ns rns).map fun relems => (ns, elems.filter fun e => relems.contains e) := by
  unfold filterPermitted
  simp only [List.mem_filterMap, Option.map_eq_some_iff, Prod.mk.injEq]
  constructor
  · rintro ⟨⟨d', nss⟩, hm, rns, hr, rfl, rfl⟩
    exact ⟨nss, rns, hm, hr, rfl⟩
  · rintro ⟨nss, rns, hm, hr, rfl⟩
    exact ⟨(d, nss), hm, rns, hr, rfl, rfl⟩

theorem mem_filtered_ns (rns : List (Key × List Key)) (nss : List (Key × List Key)) (ns : Key) (es' : List Key) :
    (ns, es') ∈ (nss.filterMap fun (ns, elems) =>
          (lookup ns rns).map fun relems => (ns, elems.filter fun e => relems.contains e)) ↔
      ∃ es res, (ns, es) ∈ nss ∧ lookup ns rns = some res ∧ es' = es.filter (fun e => res.contains e) := by
  simp only [List.mem_filterMap, Option.map_eq_some_iff, Prod.mk.injEq]
  constructor
  · rintro ⟨⟨ns', es⟩, hm, res, hr, rfl, rfl⟩
    exact ⟨es, res, hm, hr, rfl⟩
  · rintro ⟨es, res, hm, hr, rfl⟩
    exact ⟨(ns, es), hm, res, hr, rfl, rfl⟩

end IsoMdl.Disclosure
