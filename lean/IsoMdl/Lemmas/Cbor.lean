import IsoMdl.Model.Cbor
import IsoMdl.Lemmas.Iv
namespace IsoMdl.Cbor
open IsoMdl

theorem hb (mt ai : Nat) (hmt : mt < 8) (h : ai < 32) :
    (UInt8.ofNat (mt * 32 + ai)).toNat = mt * 32 + ai := by
  simp [UInt8.toNat_ofNat']; omega

theorem decHead_big (mt n ai k : Nat) (rest : Bytes) (hmt : mt < 8) (hai : 24 ≤ ai ∧ ai < 28)
    (hk : k = (if ai = 24 then 1 else if ai = 25 then 2 else if ai = 26 then 4 else if ai = 27 then 8 else 0))
    (hn : n < 256 ^ k) :
    decHead ((UInt8.ofNat (mt * 32 + ai) :: beBytes k n) ++ rest) = some (mt, ai, n, rest) := by
  simp only [List.cons_append, decHead]
  rw [hb mt ai hmt (by omega)]
  have e1 : (mt * 32 + ai) % 32 = ai := by omega
  have e2 : (mt * 32 + ai) / 32 = mt := by omega
  rw [e1, e2]
  have hk0 : k ≠ 0 := by rw [hk]; split <;> (try split) <;> (try split) <;> (try split) <;> omega
  have hlen : (beBytes k n ++ rest).length ≥ k := by simp [beBytes_length]
  simp only [← hk]
  rw [if_neg (by omega), if_neg (by omega), if_neg hk0, if_neg (by omega)]
  have t : List.take k (beBytes k n ++ rest) = beBytes k n := by
    rw [List.take_append_of_le_length (by simp [beBytes_length])]
    exact List.take_of_length_le (by simp [beBytes_length])
  have d : List.drop k (beBytes k n ++ rest) = rest := by
    have := beBytes_length k n
    rw [List.drop_append_of_le_length (by omega), List.drop_of_length_le (by omega)]; simp
  rw [t, d, fromBe_beBytes k n hn]

/-- the additional-information value `head` chooses -/
def aiOf (n : Nat) : Nat :=
  if n < 24 then n else if n < 256 then 24 else if n < 65536 then 25 else if n < 4294967296 then 26 else 27

theorem aiOf_ne_31 (n : Nat) : aiOf n ≠ 31 := by
  unfold aiOf; split <;> (try split) <;> (try split) <;> (try split) <;> omega

theorem decHead_head (mt n : Nat) (rest : Bytes) (hmt : mt < 8) (hn : n < 2^64) :
    decHead (head mt n ++ rest) = some (mt, aiOf n, n, rest) := by
  unfold head aiOf
  split
  · rename_i h
    simp only [List.cons_append, List.nil_append, decHead]
    rw [hb mt n hmt (by omega)]
    have e1 : (mt * 32 + n) % 32 = n := by omega
    have e2 : (mt * 32 + n) / 32 = mt := by omega
    simp [e1, e2, h]
  · split
    · exact decHead_big mt n 24 1 rest hmt (by omega) (by simp) (by omega)
    · split
      · exact decHead_big mt n 25 2 rest hmt (by omega) (by simp) (by omega)
      · split
        · exact decHead_big mt n 26 4 rest hmt (by omega) (by simp) (by omega)
        · exact decHead_big mt n 27 8 rest hmt (by omega) (by simp) (by omega)

theorem aiOf_simple (n : Nat) (h : n < 24 ∨ (32 ≤ n ∧ n < 256)) : aiOf n < 24 ∨ aiOf n = 24 := by
  unfold aiOf
  rcases h with h | h
  · left; simp [h]
  · right; rw [if_neg (by omega), if_pos (by omega)]

mutual
theorem dec_enc (v : Cbor) (rest : Bytes) (fuel : Nat) (hw : wf v) (hf : size v ≤ fuel) :
    dec fuel (enc v ++ rest) = some (v, rest) := by
  cases fuel with
  | zero => cases v <;> simp [size] at hf <;> omega
  | succ fuel =>
    cases v with
    | uint n => simp [enc, dec, decHead_head 0 n rest (by omega) hw, aiOf_ne_31]
    | nint n => simp [enc, dec, decHead_head 1 n rest (by omega) hw, aiOf_ne_31]
    | bytes b =>
      simp only [enc, dec, List.append_assoc, decHead_head 2 b.length (b ++ rest) (by omega) hw]
      simp [aiOf_ne_31]
    | text b =>
      simp only [enc, dec, List.append_assoc, decHead_head 3 b.length (b ++ rest) (by omega) hw]
      simp [aiOf_ne_31]
    | array xs =>
      simp only [enc, dec, List.append_assoc, decHead_head 4 xs.length (encList xs ++ rest) (by omega) hw.1]
      rw [if_neg (aiOf_ne_31 _), decList_enc xs rest fuel hw.2 (by simp [size] at hf; omega)]
      simp
    | map kvs =>
      simp only [enc, dec, List.append_assoc, decHead_head 5 kvs.length (encPairs kvs ++ rest) (by omega) hw.1]
      rw [if_neg (aiOf_ne_31 _), decPairs_enc kvs rest fuel hw.2 (by simp [size] at hf; omega)]
      simp
    | tag t v =>
      simp only [enc, dec, List.append_assoc, decHead_head 6 t (enc v ++ rest) (by omega) hw.1]
      rw [if_neg (aiOf_ne_31 _), dec_enc v rest fuel hw.2 (by simp [size] at hf; omega)]
      simp
    | simple n =>
      have hn : n < 2^64 := by simp only [wf] at hw; omega
      simp only [enc, dec, decHead_head 7 n rest (by omega) hn]
      rcases aiOf_simple n hw with h | h
      · simp [h]
      · simp [h]
    | float w bits =>
      obtain ⟨hw1, hb'⟩ := hw
      simp only [enc, dec]
      rcases hw1 with rfl | rfl | rfl
      · have := decHead_big 7 bits 25 2 rest (by omega) (by omega) (by simp) hb'
        simp only [List.cons_append] at this
        rw [show floatAi 2 = 25 from rfl, List.cons_append, this]; simp
      · have := decHead_big 7 bits 26 4 rest (by omega) (by omega) (by simp) hb'
        simp only [List.cons_append] at this
        rw [show floatAi 4 = 26 from rfl, List.cons_append, this]; simp
      · have := decHead_big 7 bits 27 8 rest (by omega) (by omega) (by simp) hb'
        simp only [List.cons_append] at this
        rw [show floatAi 8 = 27 from rfl, List.cons_append, this]; simp
theorem decList_enc (xs : List Cbor) (rest : Bytes) (fuel : Nat) (hw : wfList xs) (hf : sizeList xs ≤ fuel) :
    decList fuel xs.length (encList xs ++ rest) = some (xs, rest) := by
  cases xs with
  | nil => cases fuel <;> simp [encList, decList]
  | cons x xs =>
    cases fuel with
    | zero => simp [sizeList] at hf
    | succ fuel =>
      simp only [encList, List.length_cons, decList, List.append_assoc]
      rw [dec_enc x (encList xs ++ rest) fuel hw.1 (by simp [sizeList] at hf; omega)]
      simp only
      rw [decList_enc xs rest fuel hw.2 (by simp [sizeList] at hf; omega)]
      simp
theorem decPairs_enc (kvs : List (Cbor × Cbor)) (rest : Bytes) (fuel : Nat) (hw : wfPairs kvs)
    (hf : sizePairs kvs ≤ fuel) :
    decPairs fuel kvs.length (encPairs kvs ++ rest) = some (kvs, rest) := by
  cases kvs with
  | nil => cases fuel <;> simp [encPairs, decPairs]
  | cons kv kvs =>
    obtain ⟨k, v⟩ := kv
    cases fuel with
    | zero => simp [sizePairs] at hf
    | succ fuel =>
      simp only [encPairs, List.length_cons, decPairs, List.append_assoc]
      rw [dec_enc k (enc v ++ (encPairs kvs ++ rest)) fuel hw.1 (by simp [sizePairs] at hf; omega)]
      simp only
      rw [dec_enc v (encPairs kvs ++ rest) fuel hw.2.1 (by simp [sizePairs] at hf; omega)]
      simp only
      rw [decPairs_enc kvs rest fuel hw.2.2 (by simp [sizePairs] at hf; omega)]
      simp
end

/-- every encoded item is long enough that `decode`'s fuel (2·length + 1) suffices -/
theorem head_length_pos (mt n : Nat) : 0 < (head mt n).length := by
  unfold head; split <;> (try split) <;> (try split) <;> (try split) <;> simp

mutual
theorem size_le_length (v : Cbor) : size v + 1 ≤ 2 * (enc v).length := by
  cases v with
  | uint n => simp only [size, enc]; have := head_length_pos 0 n; omega
  | nint n => simp only [size, enc]; have := head_length_pos 1 n; omega
  | bytes b => simp only [size, enc, List.length_append]; have := head_length_pos 2 b.length; omega
  | text b => simp only [size, enc, List.length_append]; have := head_length_pos 3 b.length; omega
  | array xs =>
    simp only [size, enc, List.length_append]
    have := head_length_pos 4 xs.length; have := sizeList_le_length xs; omega
  | map kvs =>
    simp only [size, enc, List.length_append]
    have := head_length_pos 5 kvs.length; have := sizePairs_le_length kvs; omega
  | tag t v =>
    simp only [size, enc, List.length_append]
    have := head_length_pos 6 t; have := size_le_length v; omega
  | simple n => simp only [size, enc]; have := head_length_pos 7 n; omega
  | float w bits => simp only [size, enc, List.length_cons]; omega
theorem sizeList_le_length (xs : List Cbor) : sizeList xs ≤ 2 * (encList xs).length := by
  cases xs with
  | nil => simp [sizeList, encList]
  | cons x xs =>
    simp only [sizeList, encList, List.length_append]
    have := size_le_length x; have := sizeList_le_length xs
    omega
theorem sizePairs_le_length (kvs : List (Cbor × Cbor)) : sizePairs kvs ≤ 2 * (encPairs kvs).length := by
  cases kvs with
  | nil => simp [sizePairs, encPairs]
  | cons kv kvs =>
    obtain ⟨k, v⟩ := kv
    simp only [sizePairs, encPairs, List.length_append]
    have := size_le_length k; have := size_le_length v; have := sizePairs_le_length kvs
    omega
end

/-- Decoding an encoding gives the value back (whole input, no fuel visible). -/
theorem decodeAll_enc (v : Cbor) (hw : wf v) : decodeAll (enc v) = some v := by
  unfold decodeAll
  have h := dec_enc v [] (2 * (enc v).length + 1) hw (by have := size_le_length v; omega)
  simp only [List.append_nil] at h
  rw [h]

theorem decode_enc_append (v : Cbor) (rest : Bytes) (hw : wf v) : decode (enc v ++ rest) = some v := by
  unfold decode
  have h := dec_enc v rest (2 * (enc v ++ rest).length + 1) hw
    (by have := size_le_length v; simp only [List.length_append]; omega)
  rw [h]; rfl

/-- `enc` is injective on well-formed values. -/
theorem enc_injective (a b : Cbor) (ha : wf a) (hb : wf b) (h : enc a = enc b) : a = b := by
  have h1 := decodeAll_enc a ha
  have h2 := decodeAll_enc b hb
  rw [h] at h1
  rw [h1] at h2
  exact Option.some.inj h2

end IsoMdl.Cbor
