import IsoMdl.Spec.X509
namespace IsoMdl.X509

theorem sum_eq_zero (l : List Nat) : l.sum = 0 ↔ ∀ x ∈ l, x = 0 := by
  induction l with
  | nil => simp
  | cons a l ih => simp [List.sum_cons, ih]

theorem checkValidity_nil (c : Cert) : checkValidity c = [] ↔ WithinValidity c := by
  unfold checkValidity WithinValidity
  by_cases h1 : c.notAfter < 0 <;> by_cases h2 : c.notBefore > 0 <;> simp [h1, h2] <;> omega

theorem extErrors_zero (role : Role) (c : Cert) (e : Ext) (hreq : e.id ∈ requiredIds role) :
    extErrors role c e = 0 ↔ ExtGood role c e := by
  unfold extErrors ExtGood
  obtain ⟨id, crit, pl⟩ := e
  cases id with
  | ski => cases pl <;> simp
  | ku => cases pl <;> cases role <;> simp [roleKu]
  | eku =>
    cases pl <;> simp
    rename_i oids
    cases role
    · by_cases hall : ∀ x ∈ oids, x = 2 <;> by_cases he : oids = [] <;> simp_all [roleOid]
    · by_cases hall : ∀ x ∈ oids, x = 6 <;> by_cases he : oids = [] <;> simp_all [roleOid]
    · by_cases hall : ∀ x ∈ oids, x = 2 <;> by_cases he : oids = [] <;> simp_all [roleOid]
  | bc =>
    cases pl <;> simp
    rename_i ca pl
    cases ca <;> cases pl <;> simp
    rename_i n
    cases n <;> simp
  | crldp =>
    cases pl <;> simp
    rename_i pts
    by_cases he : pts = []
    · simp [he]
    · simp only [he, if_false, List.isEmpty_iff]
      rw [sum_eq_zero]
      simp only [List.mem_map, forall_exists_index, and_imp, forall_apply_eq_imp_iff₂, not_false_eq_true, true_and]
      constructor
      · intro h p hp
        have := h p hp
        cases h1 : p.crlIssuer <;> cases h2 : p.reasons <;> cases h3 : p.uriFullName <;> simp_all
      · intro h p hp
        obtain ⟨a, b, c⟩ := h p hp
        simp [a, b, c]
  | ian => cases pl <;> simp
  | aki => cases role <;> simp [requiredIds] at hreq
  | disallowed n => cases role <;> simp [requiredIds] at hreq
  | other n => cases role <;> simp [requiredIds] at hreq

theorem roleErrors_nil (role : Role) (c : Cert) : roleErrors role c = [] ↔ ProfileOk role c := by
  unfold roleErrors ProfileOk disallowedErrors validateExtensions
  simp only [List.append_eq_nil_iff, List.filterMap_eq_nil_iff, List.flatMap_eq_nil_iff]
  constructor
  · rintro ⟨h1, h2, h3⟩
    refine ⟨?_, ?_, ?_, ?_⟩
    · intro e he n hn
      have := h1 e he; simp [hn] at this
    · intro e he hnr
      have := h2 e he
      have hc : (requiredIds role).contains e.id = false := by simpa using hnr
      simp only [hc, Bool.false_eq_true, if_false] at this
      cases hcrit : e.critical <;> simp_all
    · intro id hid
      have := h3 id hid
      by_cases hany : c.exts.any (·.id == id) = true
      · obtain ⟨e, he, heq⟩ := List.any_eq_true.mp hany
        exact ⟨e, he, by simpa using heq⟩
      · simp [hany] at this
    · intro e he hr
      have := h2 e he
      have hc : (requiredIds role).contains e.id = true := by simpa using hr
      simp only [hc, if_true] at this
      have hz : extErrors role c e = 0 := by
        cases hn : extErrors role c e with
        | zero => rfl
        | succ n => simp [hn, List.replicate] at this
      exact (extErrors_zero role c e hr).mp hz
  · rintro ⟨h1, h2, h3, h4⟩
    refine ⟨?_, ?_, ?_⟩
    · intro e he
      cases hid : e.id with
      | disallowed n => exact absurd hid (h1 e he n)
      | _ => rfl
    · intro e he
      by_cases hr : e.id ∈ requiredIds role
      · have hc : (requiredIds role).contains e.id = true := by simpa using hr
        simp only [hc, if_true]
        rw [(extErrors_zero role c e hr).mpr (h4 e he hr)]; rfl
      · have hc : (requiredIds role).contains e.id = false := by simpa using hr
        simp only [hc, Bool.false_eq_true, if_false]
        simp [h2 e he hr]
    · intro id hid
      obtain ⟨e, he, heq⟩ := h3 id hid
      have : c.exts.any (·.id == id) = true := List.any_eq_true.mpr ⟨e, he, by simp [heq]⟩
      simp [this]

theorem mem_candidates (leaf : Cert) (anchors : List Anchor) (p : Purpose) (c : Cert) :
    c ∈ candidates leaf anchors p ↔ ∃ a ∈ anchors, a.cert = c ∧ Anchors leaf p a := by
  unfold candidates Anchors
  simp only [List.mem_filter, List.mem_filterMap, List.isEmpty_iff, decide_eq_true_eq, checkValidity_nil]
  constructor
  · rintro ⟨⟨⟨⟨⟨a, ha, hp⟩, hs⟩, hk⟩, hsig⟩, hv⟩
    by_cases hpp : a.purpose = p
    · simp only [hpp, if_true, Option.some.injEq] at hp
      subst hp
      exact ⟨a, ha, rfl, hpp, hs, hk, hsig, hv⟩
    · simp [hpp] at hp
  · rintro ⟨a, ha, rfl, hp, hs, hk, hsig, hv⟩
    exact ⟨⟨⟨⟨⟨a, ha, by simp [hp]⟩, hs⟩, hk⟩, hsig⟩, hv⟩

theorem nameMatches_none (a b : List Nat) : nameMatches a b = none ↔ SingleEqual a b := by
  unfold nameMatches SingleEqual
  cases a with
  | nil => simp
  | cons x xs =>
    cases b with
    | nil => simp
    | cons y ys =>
      cases xs <;> cases ys <;> simp
      by_cases h : x = y
      · simp [h]
      · have : ¬ y = x := fun e => h e.symm
        simp [h, this]

/-! bridging the executable spec (`conformsB`) and the propositional one -/

theorem withinValidityB_iff (c : Cert) : withinValidityB c = true ↔ WithinValidity c := by
  simp [withinValidityB, WithinValidity]

theorem singleEqualB_iff (a b : List Nat) : singleEqualB a b = true ↔ SingleEqual a b := by
  unfold singleEqualB SingleEqual
  split
  · rename_i v w
    simp only [beq_iff_eq]
    constructor
    · rintro rfl; exact ⟨v, rfl, rfl⟩
    · rintro ⟨u, h1, h2⟩; injection h1 with h1; injection h2 with h2; omega
  · rename_i h
    simp only [Bool.false_eq_true, false_iff]
    rintro ⟨u, rfl, rfl⟩
    exact h u u rfl rfl

theorem extGoodB_iff (role : Role) (c : Cert) (e : Ext) : extGoodB role c e = true ↔ ExtGood role c e := by
  unfold extGoodB ExtGood
  cases hid : e.id <;> simp only [beq_iff_eq]
  · -- eku
    cases hp : e.payload <;> simp
  · -- crldp
    cases hp : e.payload <;> simp
    intro _
    constructor
    · intro h p hp; have := h p hp; simp_all
    · intro h p hp; have := h p hp; simp_all

theorem isDisallowed_iff (i : ExtId) : isDisallowed i = false ↔ ∀ n, i ≠ .disallowed n := by
  cases i <;> simp [isDisallowed]

theorem profileOkB_iff (role : Role) (c : Cert) : profileOkB role c = true ↔ ProfileOk role c := by
  unfold profileOkB ProfileOk
  simp only [Bool.and_eq_true, List.all_eq_true, Bool.not_eq_true', isDisallowed_iff, Bool.or_eq_true,
    List.contains_iff_mem, List.any_eq_true, beq_iff_eq, ← extGoodB_iff]
  constructor
  · rintro ⟨⟨⟨h1, h2⟩, h3⟩, h4⟩
    refine ⟨h1, fun e he hn => ?_, h3, fun e he hr => ?_⟩
    · rcases h2 e he with h | h; exact absurd h hn; exact h
    · rcases h4 e he with h | h
      · simp [hr] at h
      · exact h
  · rintro ⟨h1, h2, h3, h4⟩
    refine ⟨⟨⟨h1, fun e he => ?_⟩, h3⟩, fun e he => ?_⟩
    · by_cases hr : e.id ∈ requiredIds role
      · exact Or.inl hr
      · exact Or.inr (h2 e he hr)
    · by_cases hr : e.id ∈ requiredIds role
      · exact Or.inr (h4 e he hr)
      · left; simpa using hr

theorem anchorsB_iff (leaf : Cert) (p : Purpose) (a : Anchor) : anchorsB leaf p a = true ↔ Anchors leaf p a := by
  simp [anchorsB, Anchors, withinValidityB_iff, and_assoc]

theorem checkValidity_isEmpty (c : Cert) : (checkValidity c).isEmpty = withinValidityB c := by
  unfold checkValidity withinValidityB
  by_cases h1 : c.notAfter < 0 <;> by_cases h2 : c.notBefore > 0 <;> simp [h1, h2] <;> omega

theorem candidates_eq (leaf : Cert) (anchors : List Anchor) (p : Purpose) :
    candidates leaf anchors p = (anchors.filter (anchorsB leaf p)).map (·.cert) := by
  unfold candidates
  simp only [List.filter_filter]
  induction anchors with
  | nil => rfl
  | cons a l ih =>
    simp only [List.filterMap_cons, List.filter_cons]
    by_cases hp : a.purpose = p
    · simp only [hp, if_true, List.filter_cons]
      by_cases hc : anchorsB leaf p a = true
      · have hc' := hc
        simp only [anchorsB, Bool.and_eq_true, beq_iff_eq] at hc'
        obtain ⟨⟨⟨⟨_, h1⟩, h2⟩, h3⟩, h4⟩ := hc'
        have h4' : (checkValidity a.cert).isEmpty = true := by rw [checkValidity_isEmpty]; exact h4
        simp [hc, h1, h2, h3, h4', ih]
      · have hc' : ((checkValidity a.cert).isEmpty && (issuerSigned leaf a.cert && (keyIdentifierCheck a.cert leaf && decide (a.cert.subject = leaf.issuer)))) = false := by
          rw [checkValidity_isEmpty]
          simp only [anchorsB, hp, beq_self_eq_true, Bool.true_and, Bool.not_eq_true] at hc
          cases h1 : decide (a.cert.subject = leaf.issuer) <;> cases h2 : keyIdentifierCheck a.cert leaf <;>
            cases h3 : issuerSigned leaf a.cert <;> cases h4 : withinValidityB a.cert <;> simp_all
        simp [hc, hc', ih]
    · have : anchorsB leaf p a = false := by simp [anchorsB, hp]
      simp [hp, this, ih]

theorem candidates_cons_iff (leaf : Cert) (anchors : List Anchor) (p : Purpose) (P : Cert → Prop) :
    (∃ i r, candidates leaf anchors p = i :: r ∧ P i) ↔
    ∃ a, anchors.find? (anchorsB leaf p) = some a ∧ P a.cert := by
  rw [candidates_eq]
  induction anchors with
  | nil => simp
  | cons a l ih =>
    by_cases h : anchorsB leaf p a = true
    · simp [List.filter_cons, h]
    · simp only [List.filter_cons, List.find?_cons, h]
      simpa using ih


end IsoMdl.X509
