import IsoMdl.Model.KeyDerivation
import IsoMdl.Spec.KeyDerivation
import IsoMdl.Lemmas.Cbor
/- Lemmas for C08: HKDF unfolding, the square of a negated residue, point decompression. -/
namespace IsoMdl.KeyDerivation
open IsoMdl IsoMdl.Cbor IsoMdl.Wire IsoMdl.Sha2 IsoMdl.Spec.KeyDerivation

theorem xorPad_nil (c : UInt8) : xorPad [] c = xorPad (List.replicate 32 0) c := rfl

/-- "no salt" and "a salt of HashLen zeros" (RFC 5869 2.2) are the same HMAC key -/
theorem hkdfExtract_eq_hmac (salt ikm : Bytes) : hkdfExtract salt ikm = hmac256 salt ikm := by
  unfold hkdfExtract
  cases salt with
  | nil =>
    show hmac256 (List.replicate 32 0) ikm = hmac256 [] ikm
    unfold hmac256
    simp only [List.length_replicate, List.length_nil]
    rw [if_neg (by omega), if_neg (by omega), xorPad_nil, xorPad_nil]
  | cons a l => simp

theorem hkdf_one_block (salt ikm info : Bytes) (len : Nat) (h0 : 0 < len) (h : len ≤ 32) :
    hkdf256 salt ikm info len = hkdfOneBlock salt ikm info len := by
  unfold hkdf256 hkdfExpand hkdfOneBlock
  have : (len + 31) / 32 = 1 := by omega
  rw [this, hkdfExtract_eq_hmac]
  simp [hkdfExpandAux]

theorem labels (r : Bool) : (if r then skReaderLabel else skDeviceLabel) = skLabel r := by
  cases r <;> decide

theorem sq_neg_mod (p y : Nat) (hy : y ≤ p) : ((p - y) * (p - y)) % p = (y * y) % p := by
  have hd : p - y + y = p := by omega
  generalize p - y = d at hd
  subst hd
  have key : d * d + y * (d + y) = d * (d + y) + y * y := by
    simp only [Nat.mul_add, Nat.mul_comm y d]; omega
  have h1 : (d * d + y * (d + y)) % (d + y) = (d * d) % (d + y) := Nat.add_mul_mod_self_right _ _ _
  have h2 : (d * (d + y) + y * y) % (d + y) = (y * y) % (d + y) := by
    rw [Nat.add_comm]; exact Nat.add_mul_mod_self_right _ _ _
  rw [← h1, key, h2]

theorem decompress_core (p rhs y0 x y : Nat) (odd : Bool) (hp : 0 < p) (hx : x < p) (hy0 : y0 < p)
    (hsq : y0 * y0 % p = rhs) (h : (if (y0 % 2 == 1) == odd then y0 else (p - y0) % p) = y) :
    x < p ∧ y < p ∧ (y * y) % p = rhs := by
  refine ⟨hx, ?_, ?_⟩
  · rw [← h]; split
    · exact hy0
    · exact Nat.mod_lt _ hp
  · rw [← h]; split
    · exact hsq
    · rw [← hsq, ← Nat.mul_mod]
      exact sq_neg_mod p y0 (Nat.le_of_lt hy0)

theorem decompress_onCurve (x : Nat) (odd : Bool) (y : Nat) (h : P256.decompress x odd = some y) :
    P256.onCurve x y = true := by
  have hp : 0 < P256.p := by unfold P256.p; omega
  unfold P256.decompress at h
  split at h
  · cases h
  · rename_i hx
    simp only at h
    split at h
    · cases h
    · rename_i hsq
      simp only [bne_iff_ne, ne_eq, Decidable.not_not] at hsq
      injection h with h
      have := decompress_core P256.p _ _ x y odd hp (by omega) (Nat.mod_lt _ hp) hsq h
      unfold P256.onCurve
      simp only [Bool.and_eq_true, decide_eq_true_eq, beq_iff_eq]
      exact ⟨⟨this.1, this.2.1⟩, this.2.2⟩


end IsoMdl.KeyDerivation
