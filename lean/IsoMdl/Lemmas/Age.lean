import IsoMdl.Model.Age
namespace IsoMdl.Age

variable {α : Type}

theorem foldl_min_spec (rest : List (Claim α)) (c : Claim α) :
    let r := rest.foldl (fun best x => if x.age < best.age then x else best) c
    (r = c ∨ r ∈ rest) ∧ r.age ≤ c.age ∧ ∀ x ∈ rest, r.age ≤ x.age := by
  induction rest generalizing c with
  | nil => simp
  | cons y ys ih =>
    simp only [List.foldl_cons]
    by_cases h : y.age < c.age
    · simp only [h, if_true]
      have := ih y
      simp only at this
      obtain ⟨h1, h2, h3⟩ := this
      refine ⟨?_, by omega, ?_⟩
      · rcases h1 with h1 | h1
        · right; rw [h1]; exact List.mem_cons_self
        · right; exact List.mem_cons_of_mem _ h1
      · intro x hx
        rcases List.mem_cons.mp hx with rfl | hx
        · exact h2
        · exact h3 x hx
    · simp only [h, if_false]
      have := ih c
      simp only at this
      obtain ⟨h1, h2, h3⟩ := this
      refine ⟨?_, h2, ?_⟩
      · rcases h1 with h1 | h1
        · left; exact h1
        · right; exact List.mem_cons_of_mem _ h1
      · intro x hx
        rcases List.mem_cons.mp hx with rfl | hx
        · omega
        · exact h3 x hx

theorem foldl_max_spec (rest : List (Claim α)) (c : Claim α) :
    let r := rest.foldl (fun best x => if x.age ≥ best.age then x else best) c
    (r = c ∨ r ∈ rest) ∧ c.age ≤ r.age ∧ ∀ x ∈ rest, x.age ≤ r.age := by
  induction rest generalizing c with
  | nil => simp
  | cons y ys ih =>
    simp only [List.foldl_cons]
    by_cases h : y.age ≥ c.age
    · simp only [h, if_true]
      have := ih y
      simp only at this
      obtain ⟨h1, h2, h3⟩ := this
      refine ⟨?_, by omega, ?_⟩
      · rcases h1 with h1 | h1
        · right; rw [h1]; exact List.mem_cons_self
        · right; exact List.mem_cons_of_mem _ h1
      · intro x hx
        rcases List.mem_cons.mp hx with rfl | hx
        · exact h2
        · exact h3 x hx
    · simp only [h, if_false]
      have := ih c
      simp only at this
      obtain ⟨h1, h2, h3⟩ := this
      refine ⟨?_, h2, ?_⟩
      · rcases h1 with h1 | h1
        · left; exact h1
        · right; exact List.mem_cons_of_mem _ h1
      · intro x hx
        rcases List.mem_cons.mp hx with rfl | hx
        · omega
        · exact h3 x hx

theorem minByAge_none (l : List (Claim α)) : minByAge l = none ↔ l = [] := by
  cases l <;> simp [minByAge]

theorem maxByAge_none (l : List (Claim α)) : maxByAge l = none ↔ l = [] := by
  cases l <;> simp [maxByAge]

theorem minByAge_some (l : List (Claim α)) (r : Claim α) (h : minByAge l = some r) :
    r ∈ l ∧ ∀ x ∈ l, r.age ≤ x.age := by
  cases l with
  | nil => simp [minByAge] at h
  | cons c rest =>
    simp only [minByAge, Option.some.injEq] at h
    have := foldl_min_spec rest c
    simp only [h] at this
    obtain ⟨h1, h2, h3⟩ := this
    refine ⟨?_, ?_⟩
    · rcases h1 with h1 | h1
      · rw [h1]; exact List.mem_cons_self
      · exact List.mem_cons_of_mem _ h1
    · intro x hx
      rcases List.mem_cons.mp hx with rfl | hx
      · exact h2
      · exact h3 x hx

theorem maxByAge_some (l : List (Claim α)) (r : Claim α) (h : maxByAge l = some r) :
    r ∈ l ∧ ∀ x ∈ l, x.age ≤ r.age := by
  cases l with
  | nil => simp [maxByAge] at h
  | cons c rest =>
    simp only [maxByAge, Option.some.injEq] at h
    have := foldl_max_spec rest c
    simp only [h] at this
    obtain ⟨h1, h2, h3⟩ := this
    refine ⟨?_, ?_⟩
    · rcases h1 with h1 | h1
      · rw [h1]; exact List.mem_cons_self
      · exact List.mem_cons_of_mem _ h1
    · intro x hx
      rcases List.mem_cons.mp hx with rfl | hx
      · exact h2
      · exact h3 x hx

/-- `numerical` succeeds iff every identifier parses; then it is a `map`. -/
theorem numerical_ok (items : List (Bytes × Bool × α)) (cs : List (Claim α))
    (h : numerical items = .ok cs) :
    cs.map (fun c => (c.isTrue, c.item)) = items.map (fun e => (e.2.1, e.2.2)) ∧
    List.length cs = List.length items ∧
    ∀ c ∈ cs, ∃ e ∈ items, ageOf e.1 = .ok c.age ∧ c.isTrue = e.2.1 ∧ c.item = e.2.2 := by
  induction items generalizing cs with
  | nil => simp [numerical] at h; subst h; simp
  | cons e rest ih =>
    obtain ⟨id, t, it⟩ := e
    simp only [numerical] at h
    cases ha : ageOf id with
    | error e => simp [ha] at h
    | ok a =>
      simp only [ha] at h
      cases hr : numerical rest with
      | error e => simp [hr] at h
      | ok cs' =>
        simp only [hr, Except.ok.injEq] at h
        subst h
        obtain ⟨i1, i2, i3⟩ := ih cs' hr
        refine ⟨by simp [i1], by simp [i2], ?_⟩
        intro c hc
        rcases List.mem_cons.mp hc with rfl | hc
        · exact ⟨(id, t, it), List.mem_cons_self, by simp [ha], rfl, rfl⟩
        · obtain ⟨e, he, h⟩ := i3 c hc
          exact ⟨e, List.mem_cons_of_mem _ he, h⟩

theorem numerical_err (items : List (Bytes × Bool × α)) :
    (∃ e, numerical items = .error e) ↔ ∃ x ∈ items, ∃ e, ageOf x.1 = .error e := by
  induction items with
  | nil => simp [numerical]
  | cons x rest ih =>
    obtain ⟨id, t, it⟩ := x
    simp only [numerical]
    cases ha : ageOf id with
    | error e => simp [ha]
    | ok a =>
      cases hr : numerical rest with
      | error e =>
        have := ih.mp ⟨e, hr⟩
        obtain ⟨x, hx, e', he'⟩ := this
        exact ⟨fun _ => ⟨x, List.mem_cons_of_mem _ hx, e', he'⟩, fun _ => ⟨e, rfl⟩⟩
      | ok cs =>
        simp only [false_iff, reduceCtorEq, exists_false]
        intro ⟨x, hx, e, he⟩
        rcases List.mem_cons.mp hx with rfl | hx
        · simp [ha] at he
        · have := ih.mpr ⟨x, hx, e, he⟩
          simp [hr] at this

end IsoMdl.Age
