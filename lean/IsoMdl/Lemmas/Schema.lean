import IsoMdl.Model.Schema
import IsoMdl.Lemmas.CborEq
namespace IsoMdl.Schema
open IsoMdl IsoMdl.Cbor

/-! ### the key order -/
theorem bytesLt_irrefl (a : Bytes) : bytesLt a a = false := by
  induction a with
  | nil => rfl
  | cons x xs ih => simp [bytesLt, ih]

theorem bytesLt_trans (a b c : Bytes) (h1 : bytesLt a b = true) (h2 : bytesLt b c = true) : bytesLt a c = true := by
  induction a generalizing b c with
  | nil => cases b <;> cases c <;> simp_all [bytesLt]
  | cons x xs ih =>
    cases b with
    | nil => simp [bytesLt] at h1
    | cons y ys =>
      cases c with
      | nil => simp [bytesLt] at h2
      | cons z zs =>
        simp only [bytesLt] at h1 h2 ⊢
        have hx := UInt8.lt_iff_toNat_lt (a := x) (b := y)
        have hy := UInt8.lt_iff_toNat_lt (a := y) (b := z)
        have hz := UInt8.lt_iff_toNat_lt (a := x) (b := z)
        have hx' := UInt8.lt_iff_toNat_lt (a := y) (b := x)
        have hy' := UInt8.lt_iff_toNat_lt (a := z) (b := y)
        have hz' := UInt8.lt_iff_toNat_lt (a := z) (b := x)
        by_cases c1 : x < y
        · by_cases c2 : y < z
          · have : x < z := by rw [hz]; rw [hx] at c1; rw [hy] at c2; omega
            simp [this]
          · by_cases c3 : z < y
            · simp [c2, c3] at h2
            · have : y = z := UInt8.toNat_inj.mp (by rw [hy] at c2; rw [hy'] at c3; omega)
              subst this; simp [c1]
        · by_cases c1' : y < x
          · simp [c1, c1'] at h1
          · have hxy : x = y := UInt8.toNat_inj.mp (by rw [hx] at c1; rw [hx'] at c1'; omega)
            subst hxy
            simp only [c1, if_false] at h1
            by_cases c2 : x < z
            · simp [c2]
            · by_cases c3 : z < x
              · simp [c2, c3] at h2
              · simp only [c2, c3, if_false] at h2 ⊢
                exact ih ys zs h1 h2

theorem bytesLt_total (a b : Bytes) : bytesLt a b = true ∨ a = b ∨ bytesLt b a = true := by
  induction a generalizing b with
  | nil => cases b <;> simp [bytesLt]
  | cons x xs ih =>
    cases b with
    | nil => simp [bytesLt]
    | cons y ys =>
      simp only [bytesLt]
      have hx := UInt8.lt_iff_toNat_lt (a := x) (b := y)
      have hx' := UInt8.lt_iff_toNat_lt (a := y) (b := x)
      by_cases c1 : x < y
      · simp [c1]
      · by_cases c2 : y < x
        · simp [c1, c2]
        · have hxy : x = y := UInt8.toNat_inj.mp (by rw [hx] at c1; rw [hx'] at c2; omega)
          subst hxy
          simp only [c1, if_false]
          rcases ih ys with h | h | h
          · exact Or.inl h
          · exact Or.inr (Or.inl (by rw [h]))
          · exact Or.inr (Or.inr h)
end IsoMdl.Schema
namespace IsoMdl.Schema
open IsoMdl IsoMdl.Cbor

theorem keyLt_irrefl (a : Cbor) : keyLt a a = false := by
  cases a <;> simp [keyLt, bytesLt_irrefl]

theorem keyLt_trans (a b c : Cbor) (h1 : keyLt a b = true) (h2 : keyLt b c = true) : keyLt a c = true := by
  cases a <;> cases b <;> simp [keyLt] at h1 <;> cases c <;> simp [keyLt] at h2 ⊢
  · omega
  · omega
  · exact bytesLt_trans _ _ _ h1 h2

theorem keyLt_asymm (a b : Cbor) (h : keyLt a b = true) : keyLt b a = false := by
  cases hb : keyLt b a with
  | false => rfl
  | true => have := keyLt_trans a b a h hb; rw [keyLt_irrefl] at this; cases this

theorem keyLt_total (kk : KeyKind) (a b : Cbor) (ha : keyOk kk a = true) (hb : keyOk kk b = true) :
    keyLt a b = true ∨ a = b ∨ keyLt b a = true := by
  cases kk <;> cases a <;> simp [keyOk] at ha <;> cases b <;> simp [keyOk] at hb <;> simp [keyLt]
  · rename_i x y; rcases bytesLt_total x y with h | h | h <;> simp [h]
  · omega
  · omega

def keysOk (kk : KeyKind) (l : List (Cbor × Cbor)) : Prop := ∀ e ∈ l, keyOk kk e.1 = true

theorem mem_sortedInsert (k v : Cbor) (l : List (Cbor × Cbor)) (e : Cbor × Cbor) :
    e ∈ sortedInsert k v l ↔ e = (k, v) ∨ e ∈ l := by
  induction l with
  | nil => simp [sortedInsert]
  | cons x rest ih =>
    obtain ⟨k', v'⟩ := x
    unfold sortedInsert
    split
    · simp
    · simp only [List.mem_cons, ih]
      constructor
      · rintro (h | h | h) <;> simp [h]
      · rintro (h | h | h) <;> simp [h]

theorem sorted_sortedInsert (kk : KeyKind) (k v : Cbor) (l : List (Cbor × Cbor)) (hs : sortedKeys l = true)
    (hne : ∀ e ∈ l, e.1 ≠ k) (hk : keyOk kk k = true) (hl : keysOk kk l) :
    sortedKeys (sortedInsert k v l) = true := by
  induction l with
  | nil => simp [sortedInsert, sortedKeys]
  | cons x rest ih =>
    obtain ⟨k', v'⟩ := x
    simp only [sortedKeys, Bool.and_eq_true, List.all_eq_true] at hs
    unfold sortedInsert
    split
    · rename_i hlt
      simp only [sortedKeys, Bool.and_eq_true, List.all_eq_true, List.mem_cons]
      refine ⟨?_, hs.1, hs.2⟩
      rintro e (rfl | he)
      · exact hlt
      · exact keyLt_trans _ _ _ hlt (hs.1 e he)
    · rename_i hnlt
      have hk' : keyOk kk k' = true := hl (k', v') List.mem_cons_self
      have hgt : keyLt k' k = true := by
        rcases keyLt_total kk k k' hk hk' with h | h | h
        · exact absurd h hnlt
        · exact absurd h.symm (hne (k', v') List.mem_cons_self)
        · exact h
      simp only [sortedKeys, Bool.and_eq_true, List.all_eq_true]
      refine ⟨?_, ih hs.2 (fun e he => hne e (List.mem_cons_of_mem _ he)) (fun e he => hl e (List.mem_cons_of_mem _ he))⟩
      intro e he
      rcases (mem_sortedInsert k v rest e).mp he with rfl | he'
      · exact hgt
      · exact hs.1 e he'

theorem sorted_filter (p : Cbor × Cbor → Bool) (l : List (Cbor × Cbor)) (hs : sortedKeys l = true) :
    sortedKeys (l.filter p) = true := by
  induction l with
  | nil => rfl
  | cons x rest ih =>
    simp only [sortedKeys, Bool.and_eq_true, List.all_eq_true] at hs
    simp only [List.filter_cons]
    split
    · simp only [sortedKeys, Bool.and_eq_true, List.all_eq_true]
      exact ⟨fun e he => hs.1 e (List.mem_filter.mp he).1, ih hs.2⟩
    · exact ih hs.2

theorem sorted_insertKey (kk : KeyKind) (k v : Cbor) (l : List (Cbor × Cbor)) (hs : sortedKeys l = true)
    (hk : keyOk kk k = true) (hl : keysOk kk l) : sortedKeys (insertKey k v l) = true := by
  unfold insertKey
  apply sorted_sortedInsert kk
  · exact sorted_filter _ _ hs
  · intro e he; have := (List.mem_filter.mp he).2; exact bne_iff_ne.mp this
  · exact hk
  · intro e he; exact hl e (List.mem_filter.mp he).1

theorem mem_insertKey (k v : Cbor) (l : List (Cbor × Cbor)) (e : Cbor × Cbor) (h : e ∈ insertKey k v l) :
    e = (k, v) ∨ e ∈ l := by
  unfold insertKey at h
  rcases (mem_sortedInsert _ _ _ _).mp h with h | h
  · exact Or.inl h
  · exact Or.inr (List.mem_filter.mp h).1

theorem foldl_insert_inv (kk : KeyKind) (kvs acc : List (Cbor × Cbor)) (hs : sortedKeys acc = true) (ha : keysOk kk acc) (hk : keysOk kk kvs) :
    sortedKeys (kvs.foldl (fun acc kv => insertKey kv.1 kv.2 acc) acc) = true ∧
    (∀ e ∈ kvs.foldl (fun acc kv => insertKey kv.1 kv.2 acc) acc, e ∈ acc ∨ e ∈ kvs) := by
  induction kvs generalizing acc with
  | nil => exact ⟨hs, fun e he => Or.inl he⟩
  | cons x rest ih =>
    simp only [List.foldl_cons]
    have hx : keyOk kk x.1 = true := hk x List.mem_cons_self
    have hs' := sorted_insertKey kk x.1 x.2 acc hs hx ha
    have ha' : keysOk kk (insertKey x.1 x.2 acc) := by
      intro e he
      rcases mem_insertKey _ _ _ _ he with rfl | he
      · exact hx
      · exact ha e he
    obtain ⟨h1, h2⟩ := ih (insertKey x.1 x.2 acc) hs' ha' (fun e he => hk e (List.mem_cons_of_mem _ he))
    refine ⟨h1, fun e he => ?_⟩
    rcases h2 e he with h | h
    · rcases mem_insertKey _ _ _ _ h with rfl | h
      · exact Or.inr List.mem_cons_self
      · exact Or.inl h
    · exact Or.inr (List.mem_cons_of_mem _ h)

theorem sorted_build (kk : KeyKind) (kvs : List (Cbor × Cbor)) (hk : keysOk kk kvs) : sortedKeys (build kvs) = true :=
  (foldl_insert_inv kk kvs [] rfl (fun _ h => by cases h) hk).1

theorem mem_build (kk : KeyKind) (kvs : List (Cbor × Cbor)) (hk : keysOk kk kvs) (e : Cbor × Cbor) (h : e ∈ build kvs) : e ∈ kvs := by
  rcases (foldl_insert_inv kk kvs [] rfl (fun _ h => by cases h) hk).2 e h with h | h
  · cases h
  · exact h

end IsoMdl.Schema
namespace IsoMdl.Schema
open IsoMdl IsoMdl.Cbor

theorem sortedInsert_append_max (k v : Cbor) (l : List (Cbor × Cbor)) (h : ∀ e ∈ l, keyLt e.1 k = true) :
    sortedInsert k v l = l ++ [(k, v)] := by
  induction l with
  | nil => rfl
  | cons x rest ih =>
    obtain ⟨k', v'⟩ := x
    have hx : keyLt k' k = true := h (k', v') List.mem_cons_self
    have : keyLt k k' = false := keyLt_asymm _ _ hx
    simp only [sortedInsert, this, Bool.false_eq_true, if_false, List.cons_append]
    rw [ih (fun e he => h e (List.mem_cons_of_mem _ he))]

theorem filter_ne_of_lt (k : Cbor) (l : List (Cbor × Cbor)) (h : ∀ e ∈ l, keyLt e.1 k = true) :
    l.filter (fun e => e.1 != k) = l := by
  apply List.filter_eq_self.mpr
  intro e he
  have := h e he
  apply bne_iff_ne.mpr
  intro heq; rw [heq, keyLt_irrefl] at this; cases this

/-- a list whose keys strictly increase is its own `BTreeMap` -/
theorem foldl_insert_sorted (acc rest : List (Cbor × Cbor)) (hs : sortedKeys (acc ++ rest) = true) :
    rest.foldl (fun acc kv => insertKey kv.1 kv.2 acc) acc = acc ++ rest := by
  induction rest generalizing acc with
  | nil => simp
  | cons x xs ih =>
    simp only [List.foldl_cons]
    have hlt : ∀ e ∈ acc, keyLt e.1 x.1 = true := by
      intro e he
      clear ih
      induction acc with
      | nil => cases he
      | cons a as iha =>
        simp only [List.cons_append, sortedKeys, Bool.and_eq_true, List.all_eq_true] at hs
        rcases List.mem_cons.mp he with rfl | he'
        · exact hs.1 x (by simp)
        · exact iha hs.2 he'
    have : insertKey x.1 x.2 acc = acc ++ [x] := by
      unfold insertKey
      rw [filter_ne_of_lt _ _ hlt, sortedInsert_append_max _ _ _ hlt]
    rw [this, ih (acc ++ [x]) (by simpa using hs)]
    simp

theorem build_sorted_id (l : List (Cbor × Cbor)) (hs : sortedKeys l = true) : build l = l := by
  have := foldl_insert_sorted [] l (by simpa using hs)
  simpa [build] using this

theorem mapM_some_all {α β} (f : α → Option β) (p : β → Bool) (h : ∀ x y, f x = some y → p y = true) :
    ∀ (xs : List α) (ys : List β), xs.mapM f = some ys → ys.all p = true := by
  intro xs
  induction xs with
  | nil => intro ys hy; simp at hy; subst hy; rfl
  | cons x xs ih =>
    intro ys hy
    rw [List.mapM_cons] at hy
    cases hx : f x with
    | none => simp [hx] at hy
    | some y =>
      cases hxs : xs.mapM f with
      | none => simp [hx, hxs] at hy
      | some ys' =>
        simp [hx, hxs] at hy; subst hy
        simp [h x y hx, ih ys' hxs]

theorem mapM_fixed {α} (f : α → Option α) (h : ∀ x y, f x = some y → f y = some y) :
    ∀ (xs ys : List α), xs.mapM f = some ys → ys.mapM f = some ys := by
  intro xs
  induction xs with
  | nil => intro ys hy; simp at hy; subst hy; rfl
  | cons x xs ih =>
    intro ys hy
    rw [List.mapM_cons] at hy
    cases hx : f x with
    | none => simp [hx] at hy
    | some y =>
      cases hxs : xs.mapM f with
      | none => simp [hx, hxs] at hy
      | some ys' =>
        simp [hx, hxs] at hy; subst hy
        rw [List.mapM_cons, h x y hx, ih ys' hxs]; rfl

end IsoMdl.Schema
namespace IsoMdl.Schema
open IsoMdl IsoMdl.Cbor

mutual
/-- only null is emitted as null -/
theorem norm_null : ∀ (s : Sch) (c : Cbor), norm s c = some (.simple 22) → c = .simple 22
  | .any, c, h => by simpa [norm] using h
  | .uint, c, h => by cases c <;> simp [norm] at h
  | .int, c, h => by cases c <;> simp [norm] at h
  | .text, c, h => by cases c <;> simp [norm] at h
  | .bytes, c, h => by cases c <;> simp [norm] at h
  | .bool, c, h => by unfold norm at h; split at h <;> simp at h
  | .null, c, h => by unfold norm at h; split at h <;> simp_all
  | .lit l, c, h => by unfold norm at h; split at h <;> simp_all
  | .tagged t s, c, h => by unfold norm at h; cases c <;> simp at h
  | .embedded s, c, h => by
    unfold norm at h
    split at h
    · rename_i b; cases hd : decodeAll b <;> simp [hd] at h
    · cases h
  | .arr s ne, c, h => by unfold norm at h; cases c <;> simp at h
  | .tuple ss, c, h => by unfold norm at h; cases c <;> simp at h
  | .struct fs, c, h => by unfold norm at h; cases c <;> simp at h
  | .dict kk vs ne, c, h => by
    unfold norm at h
    cases c <;> simp only [reduceCtorEq] at h <;> try (cases h)
    split at h
    · cases h
    · split at h
      · cases h
      · obtain ⟨es, _, hes⟩ := Option.map_eq_some_iff.mp h; cases hes
  | .oneOf ss, c, h => by unfold norm at h; exact normFirst_null ss c h
theorem normFirst_null : ∀ (ss : SchList) (c : Cbor), normFirst ss c = some (.simple 22) → c = .simple 22
  | .nil, c, h => by simp [normFirst] at h
  | .cons s rest, c, h => by
    unfold normFirst at h
    cases hn : norm s c with
    | some w => simp [hn] at h; subst h; exact norm_null s c hn
    | none => simp only [hn] at h; exact normFirst_null rest c h
end

/-- keys emitted by `normFields` are field keys of the schema -/
theorem normFields_keys : ∀ (fs : Fields) (kvs out : List (Cbor × Cbor)), normFields fs kvs = some out →
    ∀ e ∈ out, e.1 ∈ fs.keys
  | .nil, kvs, out, h => by simp [normFields] at h; subst h; intro e he; cases he
  | .cons k s optional rest, kvs, out, h => by
    unfold normFields at h
    intro e he
    cases hl : lookup k kvs with
    | none =>
      simp only [hl] at h
      split at h
      · exact List.mem_cons_of_mem _ (normFields_keys rest kvs out h e he)
      · cases h
    | some v =>
      simp only [hl] at h
      split at h
      · exact List.mem_cons_of_mem _ (normFields_keys rest kvs out h e he)
      · cases hn : norm s v with
        | none => simp [hn] at h
        | some v' =>
          cases hr : normFields rest kvs with
          | none => simp [hn, hr] at h
          | some out' =>
            simp [hn, hr] at h; subst h
            rcases List.mem_cons.mp he with rfl | he'
            · exact List.mem_cons_self
            · exact List.mem_cons_of_mem _ (normFields_keys rest kvs out' hr e he')

theorem lookup_cons_ne (k k' v : Cbor) (l : List (Cbor × Cbor)) (h : k' ≠ k) : lookup k ((k', v) :: l) = lookup k l := by
  have : beq k k' = false := by
    cases hb : beq k k' with
    | false => rfl
    | true => exact absurd ((beq_iff k k').mp hb).symm h
  simp [lookup, this]

theorem lookup_none_of_not_mem (k : Cbor) (l : List (Cbor × Cbor)) (h : ∀ e ∈ l, e.1 ≠ k) : lookup k l = none := by
  induction l with
  | nil => rfl
  | cons x rest ih =>
    obtain ⟨k', v'⟩ := x
    rw [lookup_cons_ne k k' v' rest (h (k', v') List.mem_cons_self)]
    exact ih (fun e he => h e (List.mem_cons_of_mem _ he))

/-- an entry whose key is not a field of `fs` does not influence `normFields fs` -/
theorem normFields_cons_irrelevant : ∀ (fs : Fields) (k' v' : Cbor) (l : List (Cbor × Cbor)), k' ∉ fs.keys →
    normFields fs ((k', v') :: l) = normFields fs l
  | .nil, _, _, _, _ => by simp [normFields]
  | .cons k s optional rest, k', v', l, h => by
    simp only [Fields.keys, List.mem_cons, not_or] at h
    unfold normFields
    rw [lookup_cons_ne k k' v' l h.1, normFields_cons_irrelevant rest k' v' l h.2]

end IsoMdl.Schema
namespace IsoMdl.Schema
open IsoMdl IsoMdl.Cbor

theorem mapM_length {α β} (f : α → Option β) : ∀ (xs : List α) (ys : List β), xs.mapM f = some ys → ys.length = xs.length := by
  intro xs
  induction xs with
  | nil => intro ys hy; simp at hy; subst hy; rfl
  | cons x xs ih =>
    intro ys hy
    rw [List.mapM_cons] at hy
    cases hx : f x with
    | none => simp [hx] at hy
    | some y =>
      cases hxs : xs.mapM f with
      | none => simp [hx, hxs] at hy
      | some ys' => simp [hx, hxs] at hy; subst hy; simp [ih ys' hxs]

theorem mapM_mem {α β} (f : α → Option β) : ∀ (xs : List α) (ys : List β), xs.mapM f = some ys → ∀ y ∈ ys, ∃ x ∈ xs, f x = some y := by
  intro xs
  induction xs with
  | nil => intro ys hy; simp at hy; subst hy; intro y h; cases h
  | cons x xs ih =>
    intro ys hy
    rw [List.mapM_cons] at hy
    cases hx : f x with
    | none => simp [hx] at hy
    | some y0 =>
      cases hxs : xs.mapM f with
      | none => simp [hx, hxs] at hy
      | some ys' =>
        simp [hx, hxs] at hy; subst hy
        intro y hyy
        rcases List.mem_cons.mp hyy with rfl | h
        · exact ⟨x, List.mem_cons_self, hx⟩
        · obtain ⟨x', hx', hf⟩ := ih ys' hxs y h
          exact ⟨x', List.mem_cons_of_mem _ hx', hf⟩

theorem mem_insertKey_self (k v : Cbor) (l : List (Cbor × Cbor)) : (k, v) ∈ insertKey k v l := by
  unfold insertKey; exact (mem_sortedInsert _ _ _ _).mpr (Or.inl rfl)

theorem build_ne_nil (es : List (Cbor × Cbor)) (h : es ≠ []) : build es ≠ [] := by
  rcases List.eq_nil_or_concat es with h' | ⟨init, last, h'⟩
  · exact absurd h' h
  · rw [List.concat_eq_append] at h'; subst h'
    unfold build
    rw [List.foldl_append]
    simp only [List.foldl_cons, List.foldl_nil]
    intro hnil
    have := mem_insertKey_self last.1 last.2 (init.foldl (fun acc kv => insertKey kv.1 kv.2 acc) [])
    rw [hnil] at this; cases this

mutual
/-- CONFORMANCE: whatever the typed decode-and-re-encode emits satisfies the structural validator
of its schema -/
theorem norm_conf : ∀ (s : Sch) (c c' : Cbor), wfs s = true → norm s c = some c' → conf s c' = true
  | .any, c, c', _, h => by simp [conf]
  | .uint, c, c', _, h => by cases c <;> simp [norm] at h; subst h; simp [conf]
  | .int, c, c', _, h => by cases c <;> simp [norm] at h <;> (subst h; simp [conf])
  | .text, c, c', _, h => by cases c <;> simp [norm] at h; subst h; simp [conf]
  | .bytes, c, c', _, h => by cases c <;> simp [norm] at h; subst h; simp [conf]
  | .bool, c, c', _, h => by
    unfold norm at h
    split at h <;> first | (injection h with h; subst h; simp [conf]) | cases h
  | .null, c, c', _, h => by
    unfold norm at h
    split at h <;> first | (injection h with h; subst h; simp [conf]) | cases h
  | .lit l, c, c', _, h => by
    unfold norm at h
    split at h
    · rename_i heq; injection h with h; subst h; simpa [conf] using heq
    · cases h
  | .tagged t s, c, c', hw, h => by
    unfold norm at h
    cases c <;> simp at h
    rename_i t' v
    obtain ⟨ht, v', hv, rfl⟩ := h
    simp only [wfs] at hw
    simp [conf, ht, norm_conf s v v' hw hv]
  | .embedded s, c, c', hw, h => by
    unfold norm at h
    split at h
    · rename_i b
      cases hd : decodeAll b with
      | none => simp [hd] at h
      | some v =>
        simp only [hd] at h
        cases hn : norm s v with
        | none => simp [hn] at h
        | some w => simp [hn] at h; subst h; simp [conf, hd, hn]
    · cases h
  | .arr s ne, c, c', hw, h => by
    unfold norm at h
    cases c <;> simp at h
    rename_i xs
    obtain ⟨hne, ys, hys, rfl⟩ := h
    simp only [wfs] at hw
    have hall := mapM_some_all (norm s) (conf s) (fun x y hxy => norm_conf s x y hw hxy) xs ys hys
    have hlen := mapM_length (norm s) xs ys hys
    simp [conf, hall]
    cases ne with
    | false => exact Or.inl rfl
    | true =>
      right
      have := hne rfl
      intro hy; subst hy
      cases xs with
      | nil => exact this rfl
      | cons a t => simp at hlen
  | .tuple ss, c, c', hw, h => by
    unfold norm at h
    cases c <;> simp at h
    rename_i xs
    obtain ⟨ys, hys, rfl⟩ := h
    simp only [wfs] at hw
    simp [conf, normTuple_conf ss xs ys hw hys]
  | .struct fs, c, c', hw, h => by
    unfold norm at h
    cases c <;> simp at h
    rename_i kvs
    obtain ⟨_, out, hout, rfl⟩ := h
    simp only [wfs] at hw
    simp [conf, normFields_conf fs kvs out hw hout]
  | .dict kk vs ne, c, c', hw, h => by
    unfold norm at h
    cases c <;> simp only [reduceCtorEq] at h <;> try (cases h)
    rename_i kvs
    simp only [wfs] at hw
    split at h
    · cases h
    · rename_i hne
      split at h
      · cases h
      · rename_i hko
        cases hm : kvs.mapM (fun e => (norm vs e.2).map fun v' => (e.1, v')) with
        | none => simp [hm] at h
        | some es =>
          rw [hm] at h
          simp only [Option.map] at h
          injection h with h; subst h
          have hmem := mapM_mem _ kvs es hm
          have hko' : kvs.all (fun e => keyOk kk e.1) = true := by simpa using hko
          have hkeys : keysOk kk es := by
            intro e' he'
            obtain ⟨e, he, hf⟩ := hmem e' he'
            cases hn : norm vs e.2 with
            | none => simp [hn] at hf
            | some w => simp [hn] at hf; subst hf; exact (List.all_eq_true.mp hko') e he
          have hvals : ∀ e' ∈ es, conf vs e'.2 = true := by
            intro e' he'
            obtain ⟨e, he, hf⟩ := hmem e' he'
            cases hn : norm vs e.2 with
            | none => simp [hn] at hf
            | some w => simp [hn] at hf; subst hf; exact norm_conf vs e.2 w hw hn
          have hs := sorted_build kk es hkeys
          have hb : ∀ e ∈ build es, e ∈ es := mem_build kk es hkeys
          simp only [conf, Bool.and_eq_true, List.all_eq_true, Bool.not_eq_true']
          refine ⟨⟨?_, fun e he => ⟨hkeys e (hb e he), hvals e (hb e he)⟩⟩, hs⟩
          cases ne with
          | false => rfl
          | true =>
            have hkn : kvs ≠ [] := by
              intro hk; subst hk; simp at hne
            have hlen := mapM_length _ kvs es hm
            have hen : es ≠ [] := by
              intro he; subst he; cases kvs with
              | nil => exact hkn rfl
              | cons a t => simp at hlen
            have := build_ne_nil es hen
            cases hbb : build es with
            | nil => exact absurd hbb this
            | cons a t => rfl
  | .oneOf ss, c, c', hw, h => by
    unfold norm at h
    simp only [wfs] at hw
    simp [conf, normFirst_conf ss c c' hw h]
theorem normTuple_conf : ∀ (ss : SchList) (xs ys : List Cbor), wfsList ss = true → normTuple ss xs = some ys → confTuple ss ys = true
  | .nil, xs, ys, _, h => by cases xs <;> simp [normTuple] at h; subst h; rfl
  | .cons s rest, xs, ys, hw, h => by
    cases xs with
    | nil => simp [normTuple] at h
    | cons x xs' =>
      simp only [wfsList, Bool.and_eq_true] at hw
      unfold normTuple at h
      cases hx : norm s x with
      | none => simp [hx] at h
      | some y =>
        cases hr : normTuple rest xs' with
        | none => simp [hx, hr] at h
        | some ys' =>
          simp [hx, hr] at h; subst h
          simp [confTuple, norm_conf s x y hw.1 hx, normTuple_conf rest xs' ys' hw.2 hr]
theorem normFields_conf : ∀ (fs : Fields) (kvs out : List (Cbor × Cbor)), wfsFields fs = true → normFields fs kvs = some out → confFields fs out = true
  | .nil, kvs, out, _, h => by simp [normFields] at h; subst h; rfl
  | .cons k s optional rest, kvs, out, hw, h => by
    simp only [wfsFields, Bool.and_eq_true, Bool.not_eq_true'] at hw
    obtain ⟨⟨hk, hs⟩, hr⟩ := hw
    have hknot : k ∉ rest.keys := by simpa using hk
    unfold normFields at h
    cases hl : lookup k kvs with
    | none =>
      simp only [hl] at h
      split at h
      · rename_i hopt
        have ih := normFields_conf rest kvs out hr h
        have hkeys := normFields_keys rest kvs out h
        cases out with
        | nil => simp [confFields, hopt, ih]
        | cons e more =>
          obtain ⟨k', v⟩ := e
          have hne : (k' == k) = false := by
            apply beq_eq_false_iff_ne.mpr
            intro heq; subst heq
            exact hknot (hkeys (k', v) List.mem_cons_self)
          simp [confFields, hne, hopt, ih]
      · cases h
    | some v =>
      simp only [hl] at h
      split at h
      · rename_i hcond
        have hopt : optional = true := by simp only [Bool.and_eq_true] at hcond; exact hcond.1
        have ih := normFields_conf rest kvs out hr h
        have hkeys := normFields_keys rest kvs out h
        cases out with
        | nil => simp [confFields, hopt, ih]
        | cons e more =>
          obtain ⟨k', v0⟩ := e
          have hne : (k' == k) = false := by
            apply beq_eq_false_iff_ne.mpr
            intro heq; subst heq
            exact hknot (hkeys (k', v0) List.mem_cons_self)
          simp [confFields, hne, hopt, ih]
      · cases hn : norm s v with
        | none => simp [hn] at h
        | some v' =>
          cases hr' : normFields rest kvs with
          | none => simp [hn, hr'] at h
          | some out' =>
            simp [hn, hr'] at h; subst h
            simp [confFields, norm_conf s v v' hs hn, normFields_conf rest kvs out' hr hr']
theorem normFirst_conf : ∀ (ss : SchList) (c c' : Cbor), wfsList ss = true → normFirst ss c = some c' → confAny ss c' = true
  | .nil, c, c', _, h => by simp [normFirst] at h
  | .cons s rest, c, c', hw, h => by
    simp only [wfsList, Bool.and_eq_true] at hw
    unfold normFirst at h
    cases hn : norm s c with
    | some w => simp [hn] at h; subst h; simp [confAny, norm_conf s c w hw.1 hn]
    | none => simp only [hn] at h; simp [confAny, normFirst_conf rest c c' hw.2 h]
end
end IsoMdl.Schema
namespace IsoMdl.Schema
open IsoMdl IsoMdl.Cbor

theorem noDupKeys_of_nodup : ∀ (l : List (Cbor × Cbor)), (l.map (·.1)).Nodup → noDupKeys l = true
  | [], _ => rfl
  | (k, v) :: rest, h => by
    simp only [List.map_cons, List.nodup_cons] at h
    simp only [noDupKeys, Bool.and_eq_true, Bool.not_eq_true', List.any_eq_false]
    refine ⟨fun e he => ?_, noDupKeys_of_nodup rest h.2⟩
    intro heq
    have : e.1 = k := by simpa using heq
    exact h.1 (this ▸ List.mem_map_of_mem he)

/-- the emitted fields have pairwise distinct keys -/
theorem normFields_nodup : ∀ (fs : Fields) (kvs out : List (Cbor × Cbor)), wfsFields fs = true → normFields fs kvs = some out →
    (out.map (·.1)).Nodup
  | .nil, kvs, out, _, h => by simp [normFields] at h; subst h; simp
  | .cons k s optional rest, kvs, out, hw, h => by
    simp only [wfsFields, Bool.and_eq_true, Bool.not_eq_true'] at hw
    obtain ⟨⟨hk, _⟩, hr⟩ := hw
    have hknot : k ∉ rest.keys := by simpa using hk
    unfold normFields at h
    cases hl : lookup k kvs with
    | none =>
      simp only [hl] at h
      split at h
      · exact normFields_nodup rest kvs out hr h
      · cases h
    | some v =>
      simp only [hl] at h
      split at h
      · exact normFields_nodup rest kvs out hr h
      · cases hn : norm s v with
        | none => simp [hn] at h
        | some v' =>
          cases hr' : normFields rest kvs with
          | none => simp [hn, hr'] at h
          | some out' =>
            simp [hn, hr'] at h; subst h
            simp only [List.map_cons, List.nodup_cons]
            refine ⟨?_, normFields_nodup rest kvs out' hr hr'⟩
            intro hmem
            obtain ⟨e, he, hek⟩ := List.mem_map.mp hmem
            exact hknot (hek ▸ normFields_keys rest kvs out' hr' e he)

theorem lookup_cons_self (k v : Cbor) (l : List (Cbor × Cbor)) : lookup k ((k, v) :: l) = some v := by
  simp [lookup, (beq_iff k k).mpr rfl]

theorem norm_head (s : Sch) (c c' : Cbor) (hs : Head.other ∉ headsOf s) (h : norm s c = some c') : headOfCbor c' ∈ headsOf s := by
  cases s <;> simp [headsOf] at hs ⊢
  · cases c <;> simp [norm] at h; subst h; simp [headOfCbor]
  · cases c <;> simp [norm] at h <;> (subst h; simp [headOfCbor])
  · cases c <;> simp [norm] at h; subst h; simp [headOfCbor]
  · cases c <;> simp [norm] at h; subst h; simp [headOfCbor]
  · unfold norm at h; split at h <;> first | (injection h with h; subst h; simp [headOfCbor]) | cases h
  · unfold norm at h; split at h <;> first | (injection h with h; subst h; simp [headOfCbor]) | cases h
  · unfold norm at h; cases c <;> simp at h; obtain ⟨_, v', _, rfl⟩ := h; simp [headOfCbor]
  · unfold norm at h
    split at h
    · rename_i b
      cases hd : decodeAll b with
      | none => simp [hd] at h
      | some v => simp [hd] at h; obtain ⟨_, rfl⟩ := h; simp [headOfCbor]
    · cases h
  · unfold norm at h; cases c <;> simp at h; obtain ⟨_, ys, _, rfl⟩ := h; simp [headOfCbor]
  · unfold norm at h; cases c <;> simp at h; obtain ⟨ys, _, rfl⟩ := h; simp [headOfCbor]
  · unfold norm at h; cases c <;> simp at h; obtain ⟨_, out, _, rfl⟩ := h; simp [headOfCbor]
  · unfold norm at h
    cases c <;> simp only [reduceCtorEq] at h <;> try (cases h)
    split at h
    · cases h
    · split at h
      · cases h
      · obtain ⟨es, _, rfl⟩ := Option.map_eq_some_iff.mp h
        simp [headOfCbor]

theorem norm_none_of_head (s : Sch) (c : Cbor) (hs : Head.other ∉ headsOf s) (h : headOfCbor c ∉ headsOf s) : norm s c = none := by
  cases s <;> simp [headsOf] at hs h
  · cases c <;> simp_all [norm, headOfCbor]
  · cases c <;> simp_all [norm, headOfCbor]
  · cases c <;> simp_all [norm, headOfCbor]
  · cases c <;> simp_all [norm, headOfCbor]
  · unfold norm; split <;> simp_all [headOfCbor]
  · unfold norm; split <;> simp_all [headOfCbor]
  · rename_i t s'
    cases c <;> simp [norm]
    rename_i t' v
    intro ht; subst ht; simp [headOfCbor] at h
  · unfold norm; split
    · simp [headOfCbor] at h
    · rfl
  · cases c <;> simp_all [norm, headOfCbor]
  · cases c <;> simp_all [norm, headOfCbor]
  · cases c <;> simp_all [norm, headOfCbor]
  · cases c <;> simp_all [norm, headOfCbor]


/-- which alternative produced the result: its head class contains the result's head -/
theorem normFirst_head : ∀ (ss : SchList) (c c' : Cbor), altsOk ss.toList = true → normFirst ss c = some c' →
    ∃ r ∈ ss.toList, headOfCbor c' ∈ headsOf r
  | .nil, c, c', _, h => by simp [normFirst] at h
  | .cons s rest, c, c', ha, h => by
    simp only [SchList.toList, altsOk, Bool.and_eq_true, Bool.not_eq_true', List.all_eq_true] at ha
    unfold normFirst at h
    cases hn : norm s c with
    | some w =>
      simp [hn] at h; subst h
      refine ⟨s, by simp [SchList.toList], norm_head s c w ?_ hn⟩
      intro hmem; have := ha.1.1; simp [hmem] at this
    | none =>
      simp only [hn] at h
      obtain ⟨r, hr, hh⟩ := normFirst_head rest c c' ha.2 h
      exact ⟨r, by simp [SchList.toList, hr], hh⟩

theorem mapM_id_of_forall {α} (f : α → Option α) : ∀ (l : List α), (∀ x ∈ l, f x = some x) → l.mapM f = some l
  | [], _ => rfl
  | x :: xs, h => by
    rw [List.mapM_cons, h x List.mem_cons_self, mapM_id_of_forall f xs (fun y hy => h y (List.mem_cons_of_mem _ hy))]; rfl

mutual
/-- FIXED POINT: re-encoding what was decoded reproduces it — decoding the emitted item and
emitting again gives the same item (untagged alternatives must be decided by the outermost kind) -/
theorem norm_idem : ∀ (s : Sch) (c c' : Cbor), wfs s = true → unions s = true → norm s c = some c' → norm s c' = some c'
  | .any, c, c', _, _, h => by simp [norm] at h ⊢
  | .uint, c, c', _, _, h => by cases c <;> simp [norm] at h; subst h; simp [norm]
  | .int, c, c', _, _, h => by cases c <;> simp [norm] at h <;> (subst h; simp [norm])
  | .text, c, c', _, _, h => by cases c <;> simp [norm] at h; subst h; simp [norm]
  | .bytes, c, c', _, _, h => by cases c <;> simp [norm] at h; subst h; simp [norm]
  | .bool, c, c', _, _, h => by
    unfold norm at h
    split at h <;> first | (injection h with h; subst h; simp [norm]) | cases h
  | .null, c, c', _, _, h => by
    unfold norm at h
    split at h <;> first | (injection h with h; subst h; simp [norm]) | cases h
  | .lit l, c, c', _, _, h => by
    unfold norm at h
    split at h
    · rename_i heq; injection h with h; subst h; simp [norm, heq]
    · cases h
  | .tagged t s, c, c', hw, hf, h => by
    unfold norm at h
    cases c <;> simp at h
    rename_i t' v
    obtain ⟨ht, v', hv, rfl⟩ := h
    simp only [wfs] at hw; simp only [unions] at hf
    simp [norm, norm_idem s v v' hw hf hv]
  | .embedded s, c, c', hw, hf, h => by
    unfold norm at h
    split at h
    · rename_i b
      cases hd : decodeAll b with
      | none => simp [hd] at h
      | some v =>
        simp only [hd] at h
        cases hn : norm s v with
        | none => simp [hn] at h
        | some w => simp [hn] at h; subst h; simp [norm, hd, hn]
    · cases h
  | .arr s ne, c, c', hw, hf, h => by
    unfold norm at h
    cases c <;> simp at h
    rename_i xs
    obtain ⟨hne, ys, hys, rfl⟩ := h
    simp only [wfs] at hw; simp only [unions] at hf
    have hfix := mapM_fixed (norm s) (fun x y hxy => norm_idem s x y hw hf hxy) xs ys hys
    have hlen := mapM_length (norm s) xs ys hys
    unfold norm
    have hemp : (ne && ys.isEmpty) = false := by
      cases ne with
      | false => rfl
      | true =>
        have := hne rfl
        cases ys with
        | nil => cases xs with
          | nil => exact absurd rfl this
          | cons a t => simp at hlen
        | cons a t => rfl
    simp [hemp, hfix]
  | .tuple ss, c, c', hw, hf, h => by
    unfold norm at h
    cases c <;> simp at h
    rename_i xs
    obtain ⟨ys, hys, rfl⟩ := h
    simp only [wfs] at hw; simp only [unions] at hf
    simp [norm, normTuple_idem ss xs ys hw hf hys]
  | .struct fs, c, c', hw, hf, h => by
    unfold norm at h
    cases c <;> simp at h
    rename_i kvs
    obtain ⟨_, out, hout, rfl⟩ := h
    simp only [wfs] at hw; simp only [unions] at hf
    have hnd := normFields_nodup fs kvs out hw hout
    have hnd' : ∀ p : Cbor × Cbor → Bool, noDupKeys (out.filter p) = true := by
      intro p
      apply noDupKeys_of_nodup
      exact (List.Sublist.map _ List.filter_sublist).nodup hnd
    simp [norm, hnd', normFields_idem fs kvs out hw hf hout]
  | .dict kk vs ne, c, c', hw, hf, h => by
    unfold norm at h
    cases c <;> simp only [reduceCtorEq] at h <;> try (cases h)
    rename_i kvs
    simp only [wfs] at hw; simp only [unions] at hf
    split at h
    · cases h
    · rename_i hne
      split at h
      · cases h
      · rename_i hko
        cases hm : kvs.mapM (fun e => (norm vs e.2).map fun v' => (e.1, v')) with
        | none => simp [hm] at h
        | some es =>
          rw [hm] at h
          simp only [Option.map] at h
          injection h with h; subst h
          have hmem := mapM_mem _ kvs es hm
          have hko' : kvs.all (fun e => keyOk kk e.1) = true := by simpa using hko
          have hkeys : keysOk kk es := by
            intro e' he'
            obtain ⟨e, he, hf'⟩ := hmem e' he'
            cases hn : norm vs e.2 with
            | none => simp [hn] at hf'
            | some w => simp [hn] at hf'; subst hf'; exact (List.all_eq_true.mp hko') e he
          have hfix : ∀ e' ∈ es, (norm vs e'.2).map (fun v' => (e'.1, v')) = some e' := by
            intro e' he'
            obtain ⟨e, he, hf'⟩ := hmem e' he'
            cases hn : norm vs e.2 with
            | none => simp [hn] at hf'
            | some w =>
              simp [hn] at hf'; subst hf'
              simp [norm_idem vs e.2 w hw hf hn]
          have hs := sorted_build kk es hkeys
          have hb : ∀ e ∈ build es, e ∈ es := mem_build kk es hkeys
          have hm2 : (build es).mapM (fun e => (norm vs e.2).map fun v' => (e.1, v')) = some (build es) :=
            mapM_id_of_forall _ _ (fun e he => hfix e (hb e he))
          have hall : (build es).all (fun e => keyOk kk e.1) = true :=
            List.all_eq_true.mpr fun e he => hkeys e (hb e he)
          have hemp : (ne && (build es).isEmpty) = false := by
            cases ne with
            | false => rfl
            | true =>
              have hkn : kvs ≠ [] := by intro hk; subst hk; simp at hne
              have hlen := mapM_length _ kvs es hm
              have hen : es ≠ [] := by
                intro he; subst he; cases kvs with
                | nil => exact hkn rfl
                | cons a t => simp at hlen
              have := build_ne_nil es hen
              cases hbb : build es with
              | nil => exact absurd hbb this
              | cons a t => rfl
          unfold norm
          simp only [hemp, hall, Bool.false_eq_true, if_false, Bool.not_true]
          rw [hm2]
          simp only [Option.map]
          rw [build_sorted_id _ hs]
  | .oneOf ss, c, c', hw, hf, h => by
    simp only [wfs] at hw
    simp only [unions, Bool.and_eq_true] at hf
    unfold norm at h ⊢
    exact normFirst_idem ss c c' hw hf.2 hf.1 h
theorem normTuple_idem : ∀ (ss : SchList) (xs ys : List Cbor), wfsList ss = true → unionsList ss = true → normTuple ss xs = some ys → normTuple ss ys = some ys
  | .nil, xs, ys, _, _, h => by cases xs <;> simp [normTuple] at h; subst h; rfl
  | .cons s rest, xs, ys, hw, hf, h => by
    cases xs with
    | nil => simp [normTuple] at h
    | cons x xs' =>
      simp only [wfsList, Bool.and_eq_true] at hw
      simp only [unionsList, Bool.and_eq_true] at hf
      unfold normTuple at h
      cases hx : norm s x with
      | none => simp [hx] at h
      | some y =>
        cases hr : normTuple rest xs' with
        | none => simp [hx, hr] at h
        | some ys' =>
          simp [hx, hr] at h; subst h
          simp [normTuple, norm_idem s x y hw.1 hf.1 hx, normTuple_idem rest xs' ys' hw.2 hf.2 hr]
theorem normFields_idem : ∀ (fs : Fields) (kvs out : List (Cbor × Cbor)), wfsFields fs = true → unionsFields fs = true → normFields fs kvs = some out → normFields fs out = some out
  | .nil, kvs, out, _, _, h => by simp [normFields] at h; subst h; rfl
  | .cons k s optional rest, kvs, out, hw, hf, h => by
    simp only [wfsFields, Bool.and_eq_true, Bool.not_eq_true'] at hw
    simp only [unionsFields, Bool.and_eq_true] at hf
    obtain ⟨⟨hk, hs⟩, hr⟩ := hw
    have hknot : k ∉ rest.keys := by simpa using hk
    unfold normFields at h
    cases hl : lookup k kvs with
    | none =>
      simp only [hl] at h
      split at h
      · rename_i hopt
        have hkeys := normFields_keys rest kvs out h
        have hnone : lookup k out = none := lookup_none_of_not_mem k out (fun e he heq => hknot (heq ▸ hkeys e he))
        unfold normFields
        simp [hnone, hopt, normFields_idem rest kvs out hr hf.2 h]
      · cases h
    | some v =>
      simp only [hl] at h
      split at h
      · rename_i hcond
        have hopt : optional = true := by simp only [Bool.and_eq_true] at hcond; exact hcond.1
        have hkeys := normFields_keys rest kvs out h
        have hnone : lookup k out = none := lookup_none_of_not_mem k out (fun e he heq => hknot (heq ▸ hkeys e he))
        unfold normFields
        simp [hnone, hopt, normFields_idem rest kvs out hr hf.2 h]
      · rename_i hcond
        cases hn : norm s v with
        | none => simp [hn] at h
        | some v' =>
          cases hr' : normFields rest kvs with
          | none => simp [hn, hr'] at h
          | some out' =>
            simp [hn, hr'] at h; subst h
            have hcond' : (optional && v' == Cbor.simple 22) = false := by
              cases ho : optional with
              | false => rfl
              | true =>
                simp only [ho, Bool.true_and] at hcond ⊢
                apply beq_eq_false_iff_ne.mpr
                intro hv'; subst hv'
                exact hcond (by rw [norm_null s v hn]; exact (beq_iff _ _).mpr rfl)
            unfold normFields
            rw [lookup_cons_self, normFields_cons_irrelevant rest k v' out' hknot]
            simp [hcond', norm_idem s v v' hs hf.1 hn, normFields_idem rest kvs out' hr hf.2 hr']
theorem normFirst_idem : ∀ (ss : SchList) (c c' : Cbor), wfsList ss = true → unionsList ss = true → altsOk ss.toList = true →
    normFirst ss c = some c' → normFirst ss c' = some c'
  | .nil, c, c', _, _, _, h => by simp [normFirst] at h
  | .cons s rest, c, c', hw, hf, ha, h => by
    simp only [wfsList, Bool.and_eq_true] at hw
    simp only [unionsList, Bool.and_eq_true] at hf
    have ha' := ha
    simp only [SchList.toList, altsOk, Bool.and_eq_true, Bool.not_eq_true', List.all_eq_true] at ha'
    have hso : Head.other ∉ headsOf s := by intro hmem; have := ha'.1.1; simp [hmem] at this
    unfold normFirst at h
    cases hn : norm s c with
    | some w =>
      simp [hn] at h; subst h
      unfold normFirst
      simp [norm_idem s c w hw.1 hf.1 hn]
    | none =>
      simp only [hn] at h
      obtain ⟨r, hr, hh⟩ := normFirst_head rest c c' ha'.2 h
      have hdis : headOfCbor c' ∉ headsOf s := by
        intro hin
        have := ha'.1.2 r hr (headOfCbor c') hin
        simp [hh] at this
      unfold normFirst
      rw [norm_none_of_head s c' hso hdis]
      exact normFirst_idem rest c c' hw.2 hf.2 ha'.2 h
end
end IsoMdl.Schema
