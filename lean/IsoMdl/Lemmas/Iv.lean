import IsoMdl.Spec.Iv
namespace IsoMdl
open IsoMdl.Spec

theorem beBytes_length (k n : Nat) : (beBytes k n).length = k := by
  induction k generalizing n with
  | zero => rfl
  | succ k ih => simp [beBytes, ih]

theorem fromBe_append (a b : Bytes) :
    fromBe (a ++ b) = b.foldl (fun a b => a * 256 + b.toNat) (fromBe a) := by
  simp [fromBe, List.foldl_append]

theorem fromBe_beBytes (k n : Nat) (h : n < 256 ^ k) : fromBe (beBytes k n) = n := by
  induction k generalizing n with
  | zero =>
    simp [beBytes, fromBe] at *
    omega
  | succ k ih =>
    have h1 : n / 256 < 256 ^ k := by
      rw [Nat.pow_succ] at h
      exact Nat.div_lt_of_lt_mul (by rw [Nat.mul_comm]; exact h)
    simp only [beBytes, fromBe_append, ih _ h1, List.foldl_cons, List.foldl_nil]
    have : (UInt8.ofNat (n % 256)).toNat = n % 256 := by
      simp [UInt8.toNat_ofNat']
    rw [this]; omega

theorem beBytes_injective (k n m : Nat) (hn : n < 256 ^ k) (hm : m < 256 ^ k)
    (h : beBytes k n = beBytes k m) : n = m := by
  have := congrArg fromBe h
  rwa [fromBe_beBytes k n hn, fromBe_beBytes k m hm] at this

theorem ivIdentifier_length (r : Bool) : (ivIdentifier r).length = 8 := by
  cases r <;> rfl

theorem isoIv_length (r : Bool) (n : Nat) : (isoIv r n).length = 12 := by
  simp [isoIv, ivIdentifier_length, beBytes_length]

theorem isoIv_injective (r r' : Bool) (n n' : Nat) (hn : n < 2 ^ 32) (hn' : n' < 2 ^ 32)
    (h : isoIv r n = isoIv r' n') : r = r' ∧ n = n' := by
  unfold isoIv at h
  have hl : (ivIdentifier r).length = (ivIdentifier r').length := by
    simp [ivIdentifier_length]
  obtain ⟨h1, h2⟩ := List.append_inj h hl
  constructor
  · cases r <;> cases r' <;> simp [ivIdentifier] at h1 <;> rfl
  · exact beBytes_injective 4 n n' (by omega) (by omega) h2

end IsoMdl
