import IsoMdl.Model.Session
import IsoMdl.Lemmas.Iv
import IsoMdl.Lemmas.StateCodec
namespace IsoMdl.Session
open IsoMdl IsoMdl.Spec IsoMdl.Generated

/-- stringify → parse gives the object back: the serde layer loses nothing of the state -/
@[simp] theorem step_restoreDevice (w : World) : w.step .restoreDevice = w := by
  simp [World.step, StateCodec.devOfCbor_toCbor]

@[simp] theorem step_restoreReader (w : World) : w.step .restoreReader = w := by
  simp [World.step, StateCodec.rdrOfCbor_toCbor]

theorem gen_iv_fst (c : UInt32) (r : Bool) : (getInitializationVector c r).1 = c + 1 := by
  simp [getInitializationVector]

theorem gen_ovf (c : UInt32) (r : Bool) :
    getInitializationVector_overflows c r = decide (c.toNat + 1 ≥ 2^32) := by
  cases r <;> simp [getInitializationVector_overflows]

theorem gen_iv_snd (c : UInt32) (r : Bool) (h : c.toNat + 1 < 2^32) :
    (getInitializationVector c r).2 = isoIv r (c.toNat + 1) := by
  have : (c + 1).toNat = c.toNat + 1 := by
    rw [UInt32.toNat_add]; simp; omega
  cases r <;> simp [getInitializationVector, isoIv, ivIdentifier, be32, this]

theorem bump_eq (c : UInt32) : bump c = c + 1 := gen_iv_fst c true

theorem bump_toNat (c : UInt32) (h : c.toNat + 1 < 2^32) : (bump c).toNat = c.toNat + 1 := by
  rw [bump_eq, UInt32.toNat_add]; simp; omega

theorem bump_ne (c : UInt32) : (bump c == c) = false := by
  rw [bump_eq]
  simp only [beq_eq_false_iff_ne, ne_eq]
  intro h
  have := congrArg UInt32.toNat h
  rw [UInt32.toNat_add] at this
  simp at this
  have := c.toNat_lt
  omega

theorem atMax_iff (c : UInt32) : atMax c = true ↔ c.toNat = 2^32 - 1 := by
  unfold atMax
  constructor
  · intro h; have := (beq_iff_eq.mp h); subst this; rfl
  · intro h; apply beq_iff_eq.mpr; apply UInt32.toNat_inj.mp; simpa using h

theorem not_atMax (c : UInt32) (h : atMax c = false) : c.toNat + 1 < 2^32 := by
  have hlt := c.toNat_lt
  have : c.toNat ≠ 2^32 - 1 := by intro he; have := (atMax_iff c).mpr he; simp [h] at this
  omega

theorem accepts_iff (w : Bool) (my : Nat) (c : UInt32) (fr : Bool) (s n : Nat) (t : Bool) :
    accepts w my c fr s n t = true ↔ (fr = w ∧ s = my ∧ n = c.toNat ∧ t = false) := by
  simp [accepts, and_assoc]

theorem handleRequest_acc (d : Device) (fr : Bool) (s n : Nat) (p : Payload) (t : Bool) (hm : atMax d.decCtr = false)
    (h : accepts true d.sess (bump d.decCtr) fr s n t = true) :
    (d.handleRequest (.ct fr s n p t)).2 = .accepted p := by
  simp only [Device.handleRequest, hm, h, if_true, Bool.false_eq_true, if_false]
  cases p <;> rfl

theorem handleRequest_rej (d : Device) (fr : Bool) (s n : Nat) (p : Payload) (t : Bool) (hm : atMax d.decCtr = false)
    (h : accepts true d.sess (bump d.decCtr) fr s n t = false) :
    d.handleRequest (.ct fr s n p t) = ({ d with decCtr := bump d.decCtr }, .decryptionError) := by
  simp [Device.handleRequest, hm, h]

/-- with the receive counter used up every ciphertext is refused and nothing changes -/
theorem handleRequest_exhausted (d : Device) (fr : Bool) (s n : Nat) (p : Payload) (t : Bool) (hm : atMax d.decCtr = true) :
    d.handleRequest (.ct fr s n p t) = (d, .decryptionError) := by
  simp [Device.handleRequest, hm]

theorem handleResponse_acc (r : Reader) (fr : Bool) (s n : Nat) (p : Payload) (t : Bool) (hm : atMax r.decCtr = false)
    (h : accepts false r.sess (bump r.decCtr) fr s n t = true) :
    r.handleResponse (.ct fr s n p t) = ({ r with decCtr := bump r.decCtr }, .accepted p) := by
  simp [Reader.handleResponse, hm, h]

theorem handleResponse_rej (r : Reader) (fr : Bool) (s n : Nat) (p : Payload) (t : Bool) (hm : atMax r.decCtr = false)
    (h : accepts false r.sess (bump r.decCtr) fr s n t = false) :
    r.handleResponse (.ct fr s n p t) = ({ r with decCtr := bump r.decCtr }, .decryptionError) := by
  simp [Reader.handleResponse, hm, h]

theorem handleResponse_exhausted (r : Reader) (fr : Bool) (s n : Nat) (p : Payload) (t : Bool) (hm : atMax r.decCtr = true) :
    r.handleResponse (.ct fr s n p t) = (r, .decryptionError) := by
  simp [Reader.handleResponse, hm]

/-- encryption counters and the per-direction ghost log -/
def World.encCtr (w : World) (r : Bool) : UInt32 := if r then w.rdr.encCtr else w.dev.encCtr
def World.dirLog (w : World) (r : Bool) : List (Bool × UInt32 × Bytes) :=
  w.log.filter (fun e => e.1 == r)

theorem finalize_encCtr (d : Device) :
    d.finalizeIfComplete.encCtr = d.encCtr ∨ (atMax d.encCtr = false ∧ d.finalizeIfComplete.encCtr = bump d.encCtr) := by
  unfold Device.finalizeIfComplete
  split
  · split
    · left; rfl
    · rename_i h; right; exact ⟨by simpa using h, rfl⟩
  · left; rfl

@[simp] theorem finalize_decCtr (d : Device) : d.finalizeIfComplete.decCtr = d.decCtr := by
  unfold Device.finalizeIfComplete
  split
  · split <;> rfl
  · rfl

@[simp] theorem finalize_sess (d : Device) : d.finalizeIfComplete.sess = d.sess := by
  unfold Device.finalizeIfComplete
  split
  · split <;> rfl
  · rfl

theorem handleRequest_encCtr (d : Device) (m : Msg) :
    (d.handleRequest m).1.encCtr = d.encCtr ∨ (atMax d.encCtr = false ∧ (d.handleRequest m).1.encCtr = bump d.encCtr) := by
  cases m with
  | garbage => left; rfl
  | noData => left; rfl
  | ct fr s n p t =>
    simp only [Device.handleRequest]
    split
    · left; rfl
    · split
      · cases p
        · left; rfl
        · exact finalize_encCtr _
        · exact finalize_encCtr _
        · exact finalize_encCtr _
      · left; rfl

theorem handleResponse_encCtr (r : Reader) (m : Msg) : (r.handleResponse m).1.encCtr = r.encCtr := by
  cases m with
  | garbage => rfl
  | noData => rfl
  | ct fr s n p t =>
    simp only [Reader.handleResponse]
    split
    · rfl
    · split <;> rfl

theorem retrieve_encCtr (d : Device) : (d.retrieve).1.encCtr = d.encCtr := by
  unfold Device.retrieve; split <;> rfl

theorem prepare_encCtr (d : Device) (docs : List Nat) :
    (d.prepare docs).encCtr = d.encCtr ∨ (atMax d.encCtr = false ∧ (d.prepare docs).encCtr = bump d.encCtr) :=
  finalize_encCtr _

theorem submit_encCtr (d : Device) (sig : Nat) :
    (d.submit sig).encCtr = d.encCtr ∨ (atMax d.encCtr = false ∧ (d.submit sig).encCtr = bump d.encCtr) := by
  unfold Device.submit
  split
  · exact finalize_encCtr _
  · left; rfl

/-- The invariant behind C07 — for EVERY reachable state: a direction's counter equals the number
of encryptions made in that direction so far, and the k-th encryption used exactly the ISO IV with
counter k+1.  (No bound on the history is needed: `encrypt` refuses at `u32::MAX`, so the counter
never wraps and at most 2^32 - 1 encryptions ever happen in a direction.) -/
def LogOk (w : World) : Prop :=
  ∀ r, (w.encCtr r).toNat = (w.dirLog r).length ∧
    ∀ k, k < (w.dirLog r).length →
      (w.dirLog r)[k]? = some (r, UInt32.ofNat (k+1), isoIv r (k+1))

theorem LogOk_of_same (w w' : World) (hl : w'.log = w.log) (hr : w'.rdr.encCtr = w.rdr.encCtr)
    (hd : w'.dev.encCtr = w.dev.encCtr) (h : LogOk w) : LogOk w' := by
  intro r
  have e1 : w'.dirLog r = w.dirLog r := by simp [World.dirLog, hl]
  have e2 : w'.encCtr r = w.encCtr r := by cases r <;> simp [World.encCtr, hr, hd]
  rw [e1, e2]; exact h r

/-- appending one encryption in direction `r` made with the counter of that direction, which was
not used up -/
theorem LogOk_of_enc (w w' : World) (r : Bool) (hm : atMax (w.encCtr r) = false)
    (hl : w'.log = w.log ++ [(r, bump (w.encCtr r), ivOf r (w.encCtr r))])
    (hc : w'.encCtr r = bump (w.encCtr r)) (ho : w'.encCtr (!r) = w.encCtr (!r))
    (h : LogOk w) : LogOk w' := by
  intro r'
  by_cases hrr : r' = r
  · subst hrr
    have e1 : w'.dirLog r' = w.dirLog r' ++ [(r', bump (w.encCtr r'), ivOf r' (w.encCtr r'))] := by
      simp [World.dirLog, hl, List.filter_append]
    rw [e1, hc]
    obtain ⟨hctr, hk⟩ := h r'
    have hnm := not_atMax _ hm
    have hb : (bump (w.encCtr r')).toNat = (w.encCtr r').toNat + 1 := bump_toNat _ hnm
    refine ⟨by simp [hb, hctr], ?_⟩
    intro k hklt
    simp only [List.length_append, List.length_singleton] at hklt
    by_cases hk' : k < (w.dirLog r').length
    · rw [List.getElem?_append_left hk']; exact hk k hk'
    · have hkeq : k = (w.dirLog r').length := by omega
      subst hkeq
      rw [List.getElem?_append_right (Nat.le_refl _)]
      simp only [Nat.sub_self, List.getElem?_cons_zero, Option.some.injEq, Prod.mk.injEq, true_and]
      constructor
      · apply UInt32.toNat_inj.mp
        rw [hb, hctr]
        simp
        omega
      · unfold ivOf
        rw [gen_iv_snd _ _ hnm, hctr]
  · have hne : (r == r') = false := by cases r <;> cases r' <;> simp_all
    have e1 : w'.dirLog r' = w.dirLog r' := by
      simp [World.dirLog, hl, List.filter_append, hne]
    have e2 : w'.encCtr r' = w.encCtr r' := by
      have : r' = !r := by cases r <;> cases r' <;> simp_all
      rw [this]; exact ho
    rw [e1, e2]; exact h r'

theorem LogOk_withDev (w : World) (d : Device)
    (h : d.encCtr = w.dev.encCtr ∨ (atMax w.dev.encCtr = false ∧ d.encCtr = bump w.dev.encCtr)) (hl : LogOk w) : LogOk (w.withDev d) := by
  unfold World.withDev
  split
  · rename_i heq
    exact LogOk_of_same w _ rfl rfl (by simpa using heq) hl
  · rename_i hne
    rcases h with hs | ⟨hm, hs⟩
    · exact absurd (by simp [hs]) hne
    · apply LogOk_of_enc w _ false (by simpa [World.encCtr] using hm) _ _ _ hl
      · simp [World.encCtr, hs]
      · simp [World.encCtr, hs]
      · simp [World.encCtr]

theorem LogOk_step (w : World) (op : Op) (h : LogOk w) : LogOk (w.step op) := by
  cases op with
  | newRequest =>
    cases hm : atMax w.rdr.encCtr with
    | true => simpa [World.step, Reader.newRequest, hm] using h
    | false =>
      apply LogOk_of_enc w _ true (by simpa [World.encCtr] using hm) _ _ _ h
      · simp [World.step, Reader.newRequest, World.encCtr, hm]
      · simp [World.step, Reader.newRequest, World.encCtr, hm]
      · simp [World.step, Reader.newRequest, World.encCtr, hm]
  | handleRequest m => exact LogOk_withDev w _ (handleRequest_encCtr _ _) h
  | prepare docs => exact LogOk_withDev w _ (prepare_encCtr _ _) h
  | getNext => exact h
  | submit sig => exact LogOk_withDev w _ (submit_encCtr _ _) h
  | responseReady => exact h
  | retrieve => exact LogOk_of_same w _ rfl rfl (retrieve_encCtr _) h
  | handleResponse m =>
    exact LogOk_of_same w _ rfl (handleResponse_encCtr _ _) rfl h
  | restoreDevice => rw [step_restoreDevice]; exact h
  | restoreReader => rw [step_restoreReader]; exact h

theorem LogOk_run (w : World) (ops : List Op) (h : LogOk w) : LogOk (w.run ops) := by
  induction ops generalizing w with
  | nil => exact h
  | cons op ops ih => exact ih _ (LogOk_step w op h)

theorem LogOk_established (s : Nat) : LogOk (World.established s) := by
  intro r
  cases r
  · simp [World.established, World.dirLog, World.encCtr]
  · simp only [World.established, World.dirLog, World.encCtr]
    refine ⟨by simp, ?_⟩
    intro k hk
    have : k = 0 := by simp at hk; omega
    subst this
    simp [ivOf, gen_iv_snd]

end IsoMdl.Session
