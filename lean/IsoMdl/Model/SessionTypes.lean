import IsoMdl.Model.Util
/-
Types of the session model (Model/Session.lean), separated so that the codec of the stored
session state (Model/StateCodec.lean) can be defined before the operations that use it.
-/
namespace IsoMdl.Session
open IsoMdl

/-- plaintext kinds, as far as the receiver's reaction depends on them -/
inductive Payload where
  | request              -- a valid DeviceRequest
  | notCbor              -- decrypts, but the plaintext is not CBOR            (status 11)
  | notRequest           -- decrypts to CBOR that is not a DeviceRequest      (status 12)
  | response (status : Nat) (signed : List (Nat × Nat))   -- a DeviceResponse: (doc id, signature id)
  deriving DecidableEq, Repr

inductive Msg where
  | garbage                          -- not decodable as SessionData
  | noData                           -- SessionData without `data`
  | ct (fromReader : Bool) (sess : Nat) (n : Nat) (p : Payload) (tampered : Bool)
  deriving DecidableEq, Repr

inductive DevState where
  | awaiting
  | signing (prepared : List Nat) (signed : List (Nat × Nat)) (status : Nat)
  | ready (m : Msg)
  deriving DecidableEq, Repr

structure Device where
  sess : Nat
  encCtr : UInt32      -- device_message_counter
  decCtr : UInt32      -- reader_message_counter
  st : DevState
  deriving DecidableEq, Repr

structure Reader where
  sess : Nat
  encCtr : UInt32      -- reader_message_counter
  decCtr : UInt32      -- device_message_counter
  deriving DecidableEq, Repr

/-- what `handle_request` / `handle_response` report -/
inductive Outcome where
  | parsingError | decryptionError | accepted (p : Payload) | statusOnly
  deriving DecidableEq, Repr

end IsoMdl.Session
