import IsoMdl.Model.Cbor
/-
M13 — a schema language for the wire structures, with ONE typed decode-then-encode function
(`norm`) and ONE structural validator (`conf`) for all of them.

`norm s c` models `cbor::to_vec(&cbor::from_slice::<T>(bytes)?)` at the level of the CBOR tree for
a Rust type `T` described by `s`: serde-derived structs look their fields up by key (any order on
input, unknown entries ignored, a duplicated field refused), and re-emit the present fields in
declaration order; `BTreeMap`s re-emit their entries in key order, a repeated key keeping its last
value; `Tag24<T>` keeps the received bytes; fixed arrays (tuple structs), homogeneous arrays,
untagged alternatives, literals and primitive kinds are what they say.

The instances for the ISO 18013-5 structures are in `Model/WireSchemas.lean`; each is validated
on every run against the real library's re-encoding of every generated message.
-/
namespace IsoMdl.Schema
open IsoMdl IsoMdl.Cbor

/-- key kinds of a `BTreeMap` -/
inductive KeyKind where | text | int
  deriving DecidableEq, Repr

mutual
inductive Sch where
  | any                                   -- any CBOR item (element values)
  | uint | int | text | bytes | bool | null
  | lit (c : Cbor)                        -- exactly this item
  | tagged (t : Nat) (s : Sch)            -- #6.t(s)
  | embedded (s : Sch)                    -- #6.24(bstr .cbor s), bytes preserved
  | arr (s : Sch) (nonEmpty : Bool)       -- [* s] / [+ s]
  | tuple (ss : SchList)                  -- fixed-length array
  | struct (fs : Fields)                  -- serde struct
  | dict (k : KeyKind) (v : Sch) (nonEmpty : Bool)   -- BTreeMap / NonEmptyMap
  | oneOf (ss : SchList)                  -- untagged alternatives, first that fits
inductive SchList where
  | nil
  | cons (s : Sch) (rest : SchList)
inductive Fields where
  | nil
  | cons (key : Cbor) (s : Sch) (optional : Bool) (rest : Fields)
end

def Fields.keys : Fields → List Cbor
  | .nil => []
  | .cons k _ _ rest => k :: rest.keys

/-! ### key order of `BTreeMap<String, _>` (bytewise) and `BTreeMap<i32/i128, _>` (numeric) -/

def bytesLt : Bytes → Bytes → Bool
  | [], [] => false
  | [], _ :: _ => true
  | _ :: _, [] => false
  | a :: as, b :: bs => if a < b then true else if b < a then false else bytesLt as bs

def keyLt : Cbor → Cbor → Bool
  | .text a, .text b => bytesLt a b
  | .uint a, .uint b => a < b
  | .nint a, .nint b => b < a
  | .nint _, .uint _ => true
  | _, _ => false

def keyOk : KeyKind → Cbor → Bool
  | .text, .text _ => true
  | .int, .uint _ => true
  | .int, .nint _ => true
  | _, _ => false

def sortedInsert (k v : Cbor) : List (Cbor × Cbor) → List (Cbor × Cbor)
  | [] => [(k, v)]
  | (k', v') :: rest => if keyLt k k' then (k, v) :: (k', v') :: rest else (k', v') :: sortedInsert k v rest

/-- `BTreeMap::insert` -/
def insertKey (k v : Cbor) (l : List (Cbor × Cbor)) : List (Cbor × Cbor) :=
  sortedInsert k v (l.filter fun e => e.1 != k)

/-- collecting the entries of a map into a `BTreeMap` -/
def build (kvs : List (Cbor × Cbor)) : List (Cbor × Cbor) := kvs.foldl (fun acc kv => insertKey kv.1 kv.2 acc) []

def noDupKeys : List (Cbor × Cbor) → Bool
  | [] => true
  | (k, _) :: rest => !(rest.any fun e => e.1 == k) && noDupKeys rest

mutual
/-- typed decode followed by re-encode -/
def norm : Sch → Cbor → Option Cbor
  | .any, c => some c
  | .uint, c => match c with | .uint n => some (.uint n) | _ => none
  | .int, c => match c with | .uint n => some (.uint n) | .nint n => some (.nint n) | _ => none
  | .text, c => match c with | .text b => some (.text b) | _ => none
  | .bytes, c => match c with | .bytes b => some (.bytes b) | _ => none
  | .bool, c => match c with | .simple 20 => some (.simple 20) | .simple 21 => some (.simple 21) | _ => none
  | .null, c => match c with | .simple 22 => some (.simple 22) | _ => none
  | .lit l, c => if c == l then some c else none
  | .tagged t s, c => match c with
    | .tag t' v => if t' == t then (norm s v).map (.tag t) else none
    | _ => none
  | .embedded s, c => match c with
    | .tag 24 (.bytes b) => match decodeAll b with
      | some v => (norm s v).map fun _ => .tag 24 (.bytes b)
      | none => none
    | _ => none
  | .arr s ne, c => match c with
    | .array xs => if ne && xs.isEmpty then none else (xs.mapM (norm s)).map .array
    | _ => none
  | .tuple ss, c => match c with
    | .array xs => (normTuple ss xs).map .array
    | _ => none
  | .struct fs, c => match c with
    | .map kvs => if noDupKeys (kvs.filter fun e => fs.keys.contains e.1) then (normFields fs kvs).map .map else none
    | _ => none
  | .dict kk vs ne, c => match c with
    | .map kvs =>
      if ne && kvs.isEmpty then none
      else if !(kvs.all fun e => keyOk kk e.1) then none
      else (kvs.mapM fun e => (norm vs e.2).map fun v' => (e.1, v')).map fun es => .map (build es)
    | _ => none
  | .oneOf ss, c => normFirst ss c
def normTuple : SchList → List Cbor → Option (List Cbor)
  | .nil, [] => some []
  | .cons s rest, x :: xs => match norm s x, normTuple rest xs with
    | some y, some ys => some (y :: ys)
    | _, _ => none
  | _, _ => none
def normFields : Fields → List (Cbor × Cbor) → Option (List (Cbor × Cbor))
  | .nil, _ => some []
  | .cons k s optional rest, kvs =>
    match lookup k kvs with
    | none => if optional then normFields rest kvs else none
    | some v =>
      -- `Option<T>`: an explicit null is `None`, and `None` is not emitted
      if optional && v == .simple 22 then normFields rest kvs
      else match norm s v, normFields rest kvs with
        | some v', some out => some ((k, v') :: out)
        | _, _ => none
def normFirst : SchList → Cbor → Option Cbor
  | .nil, _ => none
  | .cons s rest, c => match norm s c with
    | some c' => some c'
    | none => normFirst rest c
end

/-- strictly increasing keys (hence no key twice) -/
def sortedKeys : List (Cbor × Cbor) → Bool
  | [] => true
  | e :: rest => rest.all (fun e' => keyLt e.1 e'.1) && sortedKeys rest

mutual
/-- well-formed schema: the field keys of every struct are pairwise distinct -/
def wfs : Sch → Bool
  | .tagged _ s => wfs s
  | .embedded s => wfs s
  | .arr s _ => wfs s
  | .tuple ss => wfsList ss
  | .struct fs => wfsFields fs
  | .dict _ v _ => wfs v
  | .oneOf ss => wfsList ss
  | _ => true
def wfsList : SchList → Bool
  | .nil => true
  | .cons s rest => wfs s && wfsList rest
def wfsFields : Fields → Bool
  | .nil => true
  | .cons k s _ rest => !(rest.keys.contains k) && wfs s && wfsFields rest
end

mutual
/-- structural conformance of an emitted item (exact keys in declaration order, required fields
present, maps in key order without repetition, element kinds) -/
def conf : Sch → Cbor → Bool
  | .any, _ => true
  | .uint, c => match c with | .uint _ => true | _ => false
  | .int, c => match c with | .uint _ => true | .nint _ => true | _ => false
  | .text, c => match c with | .text _ => true | _ => false
  | .bytes, c => match c with | .bytes _ => true | _ => false
  | .bool, c => match c with | .simple 20 => true | .simple 21 => true | _ => false
  | .null, c => match c with | .simple 22 => true | _ => false
  | .lit l, c => c == l
  | .tagged t s, c => match c with | .tag t' v => t' == t && conf s v | _ => false
  | .embedded s, c => match c with
    | .tag 24 (.bytes b) => match decodeAll b with | some v => (norm s v).isSome | none => false
    | _ => false
  | .arr s ne, c => match c with | .array xs => !(ne && xs.isEmpty) && xs.all (conf s) | _ => false
  | .tuple ss, c => match c with | .array xs => confTuple ss xs | _ => false
  | .struct fs, c => match c with | .map kvs => confFields fs kvs | _ => false
  | .dict kk vs ne, c => match c with
    | .map kvs => !(ne && kvs.isEmpty) && kvs.all (fun e => keyOk kk e.1 && conf vs e.2) && sortedKeys kvs
    | _ => false
  | .oneOf ss, c => confAny ss c
def confTuple : SchList → List Cbor → Bool
  | .nil, [] => true
  | .cons s rest, x :: xs => conf s x && confTuple rest xs
  | _, _ => false
/-- the entries are exactly the present fields, in declaration order -/
def confFields : Fields → List (Cbor × Cbor) → Bool
  | .nil, kvs => kvs.isEmpty
  | .cons k s optional rest, kvs =>
    match kvs with
    | (k', v) :: more => if k' == k then conf s v && confFields rest more else optional && confFields rest kvs
    | [] => optional && confFields rest []
def confAny : SchList → Cbor → Bool
  | .nil, _ => false
  | .cons s rest, c => conf s c || confAny rest c
end

end IsoMdl.Schema

namespace IsoMdl.Schema
open IsoMdl IsoMdl.Cbor

/-- the head test of a schema: which items it can accept at all, judged by the outermost kind -/
def accepts : Sch → Cbor → Bool
  | .any, _ => true
  | .uint, c => match c with | .uint _ => true | _ => false
  | .int, c => match c with | .uint _ => true | .nint _ => true | _ => false
  | .text, c => match c with | .text _ => true | _ => false
  | .bytes, c => match c with | .bytes _ => true | _ => false
  | .bool, c => match c with | .simple 20 => true | .simple 21 => true | _ => false
  | .null, c => match c with | .simple 22 => true | _ => false
  | .lit l, c => c == l
  | .tagged t _, c => match c with | .tag t' _ => t' == t | _ => false
  | .embedded _, c => match c with | .tag 24 (.bytes _) => true | _ => false
  | .arr _ _, c => match c with | .array _ => true | _ => false
  | .tuple _, c => match c with | .array _ => true | _ => false
  | .struct _, c => match c with | .map _ => true | _ => false
  | .dict _ _ _, c => match c with | .map _ => true | _ => false
  | .oneOf _, _ => false

/-- outermost-kind classes used to tell untagged alternatives apart syntactically -/
inductive Head where
  | uint | nint | text | bytes | bool | null | arr | map | tag (t : Nat) | other
  deriving DecidableEq, Repr

def headsOf : Sch → List Head
  | .uint => [.uint] | .int => [.uint, .nint] | .text => [.text] | .bytes => [.bytes] | .bool => [.bool] | .null => [.null]
  | .tagged t _ => [.tag t] | .embedded _ => [.tag 24] | .arr _ _ => [.arr] | .tuple _ => [.arr]
  | .struct _ => [.map] | .dict _ _ _ => [.map]
  | _ => [.other]          -- any, lit, oneOf: not usable as an alternative

def headOfCbor : Cbor → Head
  | .uint _ => .uint | .nint _ => .nint | .text _ => .text | .bytes _ => .bytes
  | .simple 20 => .bool | .simple 21 => .bool | .simple 22 => .null
  | .array _ => .arr | .map _ => .map | .tag t _ => .tag t | _ => .other

def SchList.toList : SchList → List Sch
  | .nil => []
  | .cons s rest => s :: rest.toList

/-- alternatives are told apart by their outermost kind: pairwise disjoint head classes, none `other` -/
def altsOk : List Sch → Bool
  | [] => true
  | s :: rest => !(headsOf s).contains .other && rest.all (fun r => (headsOf s).all fun h => !(headsOf r).contains h) && altsOk rest

mutual
/-- every untagged alternative below is decided by the outermost kind -/
def unions : Sch → Bool
  | .tagged _ s => unions s
  | .embedded s => unions s
  | .arr s _ => unions s
  | .tuple ss => unionsList ss
  | .struct fs => unionsFields fs
  | .dict _ v _ => unions v
  | .oneOf ss => altsOk ss.toList && unionsList ss
  | _ => true
def unionsList : SchList → Bool
  | .nil => true
  | .cons s rest => unions s && unionsList rest
def unionsFields : Fields → Bool
  | .nil => true
  | .cons _ s _ rest => unions s && unionsFields rest
end

end IsoMdl.Schema
