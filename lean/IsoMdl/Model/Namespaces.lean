import IsoMdl.Model.Cbor
import IsoMdl.Generated.Namespaces
/-
M10 — JSON → namespace elements: `derive(FromJson)` / `derive(ToCbor)` (macros/src/from_json.rs,
to_cbor.rs), the `FromJson` leaf impls (src/definitions/traits/from_json.rs) and the leaf types of
src/definitions/namespaces/**.  The data models (field lists, renames, optional / many / dynamic
fields, newtypes, enums) and every code table are NOT written here: they are
`Generated.Ns.structs / newtypes / enums / tables`, re-extracted from the source on every run.
Hand-written (and tied by correspondence): the interpreter of those schemas and the leaf
semantics (Latin-1, full-date, date-time, base64, integers, county codes, dynamic fields).
JSON strings are lists of Unicode code points; CBOR text is their UTF-8 encoding.
-/
namespace IsoMdl.Ns
open IsoMdl IsoMdl.Cbor IsoMdl.Generated.Ns

abbrev Str := List Nat   -- code points

inductive Json where
  | null
  | bool (b : Bool)
  | uint (n : Nat)        -- a JSON number serde_json holds as u64 (`as_u64` = Some)
  | otherNum              -- negative, fractional or exponent form
  | str (s : Str)
  | arr (l : List Json)
  | obj (kvs : List (Str × Json))   -- keys unique, in serde_json's BTreeMap order
  deriving Repr, Inhabited

/-! ### UTF-8 -/
def utf8Enc1 (c : Nat) : Bytes :=
  if c < 0x80 then [UInt8.ofNat c]
  else if c < 0x800 then [UInt8.ofNat (0xC0 + c / 64), UInt8.ofNat (0x80 + c % 64)]
  else if c < 0x10000 then [UInt8.ofNat (0xE0 + c / 4096), UInt8.ofNat (0x80 + c / 64 % 64), UInt8.ofNat (0x80 + c % 64)]
  else [UInt8.ofNat (0xF0 + c / 262144), UInt8.ofNat (0x80 + c / 4096 % 64), UInt8.ofNat (0x80 + c / 64 % 64), UInt8.ofNat (0x80 + c % 64)]
def utf8Enc (s : Str) : Bytes := s.flatMap utf8Enc1

def utf8Dec : Nat → Bytes → Option Str
  | 0, _ => none
  | _, [] => some []
  | fuel+1, b :: rest =>
    let n := b.toNat
    let cont (k : Nat) (init : Nat) : Option Str :=
      if rest.length < k then none
      else if !((rest.take k).all fun c => c.toNat / 64 = 2) then none
      else (utf8Dec fuel (rest.drop k)).map fun t => ((rest.take k).foldl (fun a c => a * 64 + c.toNat % 64) init) :: t
    if n < 0x80 then (utf8Dec fuel rest).map (n :: ·)
    else if n / 32 = 6 then cont 1 (n % 32)
    else if n / 16 = 14 then cont 2 (n % 16)
    else if n / 8 = 30 then cont 3 (n % 8)
    else none

def ofAscii (b : Bytes) : Str := b.map (·.toNat)
def strOfLit (s : String) : Str := s.toList.map (·.toNat)

/-! ### the harness transports JSON as CBOR (text keys, unsigned / other numbers, text, bool, null) -/
mutual
def jsonOfCbor : Cbor → Option Json
  | .simple 22 => some .null
  | .simple 20 => some (.bool false)
  | .simple 21 => some (.bool true)
  | .uint n => some (.uint n)
  | .nint _ => some .otherNum
  | .float _ _ => some .otherNum
  | .text b => (utf8Dec (b.length + 1) b).map .str
  | .array xs => (jsonOfCborList xs).map .arr
  | .map kvs => (jsonOfCborPairs kvs).map .obj
  | _ => none
def jsonOfCborList : List Cbor → Option (List Json)
  | [] => some []
  | x :: xs => match jsonOfCbor x, jsonOfCborList xs with
    | some j, some js => some (j :: js)
    | _, _ => none
def jsonOfCborPairs : List (Cbor × Cbor) → Option (List (Str × Json))
  | [] => some []
  | (k, v) :: kvs => match k, jsonOfCbor v, jsonOfCborPairs kvs with
    | .text kb, some j, some js => (utf8Dec (kb.length + 1) kb).map fun ks => (ks, j) :: js
    | _, _, _ => none
end

def jget (kvs : List (Str × Json)) (k : Str) : Option Json := (kvs.find? (·.1 == k)).map (·.2)

/-! ### calendar -/
def isLeap (y : Nat) : Bool := (y % 4 == 0 && y % 100 != 0) || y % 400 == 0
def daysInMonth (y m : Nat) : Nat :=
  if m == 2 then (if isLeap y then 29 else 28) else if m == 4 || m == 6 || m == 9 || m == 11 then 30 else 31

def digitOf (c : Nat) : Option Nat := if 48 ≤ c ∧ c ≤ 57 then some (c - 48) else none
def digitsN (n : Nat) (s : Str) : Option (Nat × Str) :=
  if s.length < n then none else ((s.take n).foldlM (fun a c => (digitOf c).map (a * 10 + ·)) 0).map fun v => (v, s.drop n)
def lit (c : Nat) (s : Str) : Option Str := match s with | x :: r => if x == c then some r else none | [] => none

def pad2 (n : Nat) : Str := [n / 10 % 10 + 48, n % 10 + 48]
def pad4 (n : Nat) : Str := [n / 1000 % 10 + 48, n / 100 % 10 + 48, n / 10 % 10 + 48, n % 10 + 48]
def decimal (n : Nat) : Str := (toString n).toList.map (·.toNat)

/-- `FullDate::from_str` (time's `[year]-[month]-[day]`, 4-digit year; a leading sign is refused
since the C19 `fix:` commit) and its text form `YYYY-MM-DD` -/
def parseFullDate (s : Str) : Option (Nat × Nat × Nat) := do
  let (y, r) ← digitsN 4 s
  let r ← lit 45 r
  let (m, r) ← digitsN 2 r
  let r ← lit 45 r
  let (d, r) ← digitsN 2 r
  if r != [] then none
  else if m < 1 || m > 12 then none
  else if d < 1 || d > daysInMonth y m then none
  else some (y, m, d)

def showFullDate (y m d : Nat) : Str := pad4 y ++ [45] ++ pad2 m ++ [45] ++ pad2 d

/-- pinned commit: optional sign accepted, year printed without padding (`{}-{:0>2}-{:0>2}`) -/
def fullDatePinned (s : Str) : Option Str :=
  let (neg, body) := match s with | 45 :: r => (true, r) | 43 :: r => (false, r) | _ => (false, s)
  match parseFullDate body with
  | some (y, m, d) => some ((if neg && y != 0 then [45] else []) ++ decimal y ++ [45] ++ pad2 m ++ [45] ++ pad2 d)
  | none => none

structure DT where
  y : Nat
  mo : Nat
  d : Nat
  h : Nat
  mi : Nat
  s : Nat
  deriving DecidableEq, Repr

def prevDay (y m d : Nat) : Option (Nat × Nat × Nat) :=
  if d > 1 then some (y, m, d - 1)
  else if m > 1 then some (y, m - 1, daysInMonth y (m - 1))
  else if y = 0 then none else some (y - 1, 12, 31)
def nextDay (y m d : Nat) : Option (Nat × Nat × Nat) :=
  if d < daysInMonth y m then some (y, m, d + 1)
  else if m < 12 then some (y, m + 1, 1)
  else if y ≥ 9999 then none else some (y + 1, 1, 1)

structure Rfc3339 where
  y : Nat
  mo : Nat
  d : Nat
  h : Nat
  mi : Nat
  sec : Nat          -- 0..60
  offMin : Int       -- minutes east of UTC
  deriving DecidableEq, Repr

/-- RFC 3339 as the `time` crate parses it: 4-digit year, any single byte as date/time separator,
any number (≥ 1) of fraction digits, `Z`/`z` or ±hh:mm with hh ≤ 23 and mm ≤ 59; field ranges -/
def parseRfc3339Fields (s : Str) : Option Rfc3339 := do
  let (y, r) ← digitsN 4 s
  let r ← lit 45 r
  let (mo, r) ← digitsN 2 r
  let r ← lit 45 r
  let (d, r) ← digitsN 2 r
  let r ← match r with | c :: r' => if c < 128 then some r' else none | [] => none
  let (h, r) ← digitsN 2 r
  let r ← lit 58 r
  let (mi, r) ← digitsN 2 r
  let r ← lit 58 r
  let (sec, r) ← digitsN 2 r
  let r ← match r with
    | 46 :: r' => match r' with
      | c :: _ => if (digitOf c).isSome then some (r'.dropWhile fun c => (digitOf c).isSome) else none
      | [] => none
    | _ => some r
  let (offMin, r) ← match r with
    | 90 :: r' => some ((0 : Int), r')
    | 122 :: r' => some ((0 : Int), r')
    | sg :: r' =>
      if sg != 43 && sg != 45 then none else do
        let (oh, r2) ← digitsN 2 r'
        if oh > 23 then none else
        let r2 ← lit 58 r2
        let (om, r3) ← digitsN 2 r2
        if om > 59 then none else
        some ((if sg == 45 then -1 else 1) * ((oh * 60 + om : Nat) : Int), r3)
    | [] => none
  if r != [] then none
  else some ⟨y, mo, d, h, mi, sec, offMin⟩

/-- field ranges of a date-time: a real calendar date, 24-hour clock, seconds up to a leap second,
an offset below a day -/
def rfcValid (p : Rfc3339) : Bool :=
  decide (1 ≤ p.mo) && decide (p.mo ≤ 12) && decide (1 ≤ p.d) && decide (p.d ≤ daysInMonth p.y p.mo) &&
  decide (p.h ≤ 23) && decide (p.mi ≤ 59) && decide (p.sec ≤ 60) && decide (-1440 < p.offMin) && decide (p.offMin < 1440)

/-- RFC 3339 as the `time` crate parses it: the grammar, then the field ranges -/
def parseRfc3339 (s : Str) : Option Rfc3339 :=
  (parseRfc3339Fields s).bind fun p => if rfcValid p then some p else none

/-- `TDate::from_json`: parse, convert to UTC (an offset moves the date by at most one day), drop
the sub-second part; a leap second only where it can occur (last second of a month, UTC) and then
as the preceding second; a result outside years 0000..9999 is refused (since the C19 `fix:`
commit; it panicked before). -/
def toUtc (p : Rfc3339) : Option DT :=
  let leap := p.sec == 60
  let sec' := if leap then 59 else p.sec
  let local_ : Int := ((p.h * 3600 + p.mi * 60 + sec' : Nat) : Int) - p.offMin * 60
  let shifted : Option ((Nat × Nat × Nat) × Nat) :=
    if local_ < 0 then (prevDay p.y p.mo p.d).map fun dd => (dd, (local_ + 86400).toNat)
    else if local_ ≥ 86400 then (nextDay p.y p.mo p.d).map fun dd => (dd, (local_ - 86400).toNat)
    else some ((p.y, p.mo, p.d), local_.toNat)
  match shifted with
  | none => none
  | some ((y', mo', d'), secs) =>
    let r : DT := ⟨y', mo', d', secs / 3600, secs / 60 % 60, secs % 60⟩
    if leap && !(r.h == 23 && r.mi == 59 && r.s == 59 && r.d == daysInMonth r.y r.mo) then none
    else some r

def parseTDate (s : Str) : Option DT := (parseRfc3339 s).bind toUtc

def showTDate (t : DT) : Str :=
  pad4 t.y ++ [45] ++ pad2 t.mo ++ [45] ++ pad2 t.d ++ [84] ++ pad2 t.h ++ [58] ++ pad2 t.mi ++ [58] ++ pad2 t.s ++ [90]

/-! ### base64 (`base64::decode`, STANDARD alphabet, padding optional but canonical) -/
def b64val (c : Nat) : Option Nat :=
  if 65 ≤ c ∧ c ≤ 90 then some (c - 65) else if 97 ≤ c ∧ c ≤ 122 then some (c - 71)
  else if 48 ≤ c ∧ c ≤ 57 then some (c + 4) else if c = 43 then some 62 else if c = 47 then some 63 else none

/-- decode: strip at most two trailing `=` (only allowed where they complete a quantum), map the
symbols, whole groups of four, then a final group of 2 or 3 symbols whose unused bits are zero;
`=` may only fill (part of) that last group: "AA", "AA=", "AA==" all decode, "AAAA=" does not -/
def base64Decode (s : Str) : Option Bytes :=
  let nPad := ((s.reverse.takeWhile (· == 61)).length)
  let body := s.take (s.length - nPad)
  if nPad > 2 then none
  else if body.any (· == 61) then none
  else match body.mapM b64val with
    | none => none
    | some vs =>
      let rem := vs.length % 4
      if rem == 1 then none
      else if nPad > 0 && (rem < 2 || rem + nPad > 4) then none
      else
        let full := vs.take (vs.length - rem)
        let last := vs.drop (vs.length - rem)
        let rec go : Nat → List Nat → Bytes
          | 0, _ => []
          | f+1, a :: b :: c :: d :: rest =>
            let n := a * 262144 + b * 4096 + c * 64 + d
            UInt8.ofNat (n / 65536) :: UInt8.ofNat (n / 256 % 256) :: UInt8.ofNat (n % 256) :: go f rest
          | _, _ => []
        let head := go (full.length + 1) full
        match last with
        | [] => some head
        | [a, b] => if b % 16 != 0 then none else some (head ++ [UInt8.ofNat (a * 4 + b / 16)])
        | [a, b, c] => if c % 4 != 0 then none else some (head ++ [UInt8.ofNat (a * 4 + b / 16), UInt8.ofNat (b % 16 * 16 + c / 4)])
        | _ => none

/-! ### leaf types -/
def isLatin1 (c : Nat) : Bool := (0x20 ≤ c && c < 0x7F) || (0xA0 ≤ c && c < 0x100)

def lowerAscii (c : Nat) : List Nat :=
  if 65 ≤ c ∧ c ≤ 90 then [c + 32] else if c = 0x212A then [107]   -- KELVIN SIGN lowercases to 'k'
  else if c = 0x130 then [105, 0x307] else [c]
def upperAscii (c : Nat) : Nat := if 97 ≤ c ∧ c ≤ 122 then c - 32 else c

def tokS : Tok → Option Str | .s b => some (ofAscii b) | _ => none

def findTable (module ty func : String) : Option Table :=
  tables.find? fun t => t.module == module && t.func == func && (t.ty == ty || t.trait_ == s!"From<{ty}>")

def lookupArm (arms : List (Tok × Tok)) (k : Tok) : Option Tok := (arms.find? (·.1 == k)).map (·.2)

def strToTok (s : Str) : Option Tok := if s.all (· < 128) then some (.s (s.map UInt8.ofNat)) else none

/-- enum with `from_str` (a `match` on string literals, possibly on the lower-cased input) and
`to_str`/`as_str`: parse, then print the variant -/
def strEnum (module ty : String) (s : Str) : Option Str := do
  let from_ ← findTable module ty "from_str"
  let to_ ← (findTable module ty "to_str").orElse fun _ => findTable module ty "as_str"
  let norm : Str := if (from_.scrutinee.splitOn "to_lowercase").length > 1 then s.flatMap lowerAscii else s
  let k ← strToTok norm
  let v ← lookupArm from_.arms k
  match v with
  | .v _ => (lookupArm to_.arms v).bind tokS
  | _ => none

/-- enum with `TryFrom<u32>` and `From<E> for u8` -/
def intEnum (module ty : String) (n : Nat) : Option Nat := do
  let from_ ← findTable module ty "try_from"
  let to_ ← tables.find? fun t => t.module == module && t.func == "from" && t.trait_ == s!"From<{ty}>" && t.ty == "u8"
  let v ← lookupArm from_.arms (.n n)
  match v with
  | .v _ => match lookupArm to_.arms v with | some (.n m) => some m | _ => none
  | _ => none

/-- `UNDistinguishingSign`: `From<String>` with a catch-all that keeps the string -/
def unSign (s : Str) : Str :=
  match findTable "org_iso_18013_5_1" "UNDistinguishingSign" "from", tables.find? (fun t => t.trait_ == "From<UNDistinguishingSign>" && t.ty == "String") with
  | some from_, some to_ =>
    match (strToTok s).bind (lookupArm from_.arms) with
    | some (.v n) => match lookupArm to_.arms (.v n) with | some (.s b) => ofAscii b | _ => s
    | _ => s
  | _, _ => s

/-- strum `EnumString` + `AsRefStr` on the upper-cased input (VehicleCategoryCode) -/
def strumEnum (module ty : String) (s : Str) : Option Str := do
  let e ← enums.find? fun e => e.module == module && e.name == ty && e.strum
  let up := s.map upperAscii
  if !(s.all fun c => c < 128) then none else
  let v ← e.variants.find? fun v => ofAscii v.1 == up
  some (ofAscii v.1)

def text (s : Str) : Cbor := .text (utf8Enc s)

def bytesLt : Bytes → Bytes → Bool
  | [], [] => false
  | [], _ :: _ => true
  | _ :: _, [] => false
  | a :: as, b :: bs => if a < b then true else if b < a then false else bytesLt as bs

def sortedInsert (k : Bytes) (v : Cbor) : List (Bytes × Cbor) → List (Bytes × Cbor)
  | [] => [(k, v)]
  | (k', v') :: rest => if bytesLt k k' then (k, v) :: (k', v') :: rest else (k', v') :: sortedInsert k v rest

/-- `BTreeMap::insert`: an existing entry with the key is replaced; entries stay in key order -/
def insertSorted (k : Bytes) (v : Cbor) (l : List (Bytes × Cbor)) : List (Bytes × Cbor) :=
  sortedInsert k v (l.filter fun e => e.1 != k)

def mapOf (kvs : List (Bytes × Cbor)) : Cbor := .map (kvs.map fun (k, v) => (.text k, v))

/-- two ASCII digits -/
def toAge (s : Str) : Option Str :=
  match s with | [a, b] => if (digitOf a).isSome && (digitOf b).isSome then some s else none | _ => none

def ageOverPrefix : Str := strOfLit "age_over_"
def bioPrefix : Str := strOfLit "biometric_template_"
def stripPrefixS (p s : Str) : Option Str := if s.take p.length == p then some (s.drop p.length) else none

/-- whether the struct with this name exists (a nested `derive` struct) -/
def findStruct (module ty : String) : Option Struct := structs.find? fun s => s.name == ty && (s.module == module || true)

def newtypeOf (module ty : String) : Option String :=
  (newtypes.find? fun (m, n, _) => n == ty && m == module).map (·.2.2)

def stripGeneric (outer ty : String) : Option String :=
  let p := (outer ++ "<").toList
  let t := ty.toList
  if t.take p.length == p && t.getLast? == some '>' then some (String.ofList ((t.drop p.length).dropLast)) else none

/-- `AgeOver::from_map`: every JSON key `age_over_DD` (two ASCII digits) with a boolean value; a
non-boolean value under such a key rejects the record; other keys are not looked at -/
def ageOverEntries (kvs : List (Str × Json)) : Option (List (Bytes × Cbor)) :=
  (kvs.filterMap fun kv => ((stripPrefixS ageOverPrefix kv.1).bind toAge).map fun a => (a, kv.2)).mapM
    fun av => match av.2 with | .bool b => some (utf8Enc (ageOverPrefix ++ av.1), ofBool b) | _ => none

/-- `BiometricTemplate::from_map`: every JSON key with the prefix, base64 value -/
def biometricEntries (kvs : List (Str × Json)) : Option (List (Bytes × Cbor)) :=
  (kvs.filterMap fun kv => (stripPrefixS bioPrefix kv.1).map fun sfx => (sfx, kv.2)).mapM
    fun sv => match sv.2 with
      | .str s => (base64Decode s).map fun b => (utf8Enc (bioPrefix ++ sv.1), Cbor.bytes b)
      | _ => none

def isPrimitive (ty : String) : Bool :=
  ty == "Latin1" || ty == "String" || ty == "bool" || ty == "u32" || ty == "FullDate" || ty == "TDate" ||
  ty == "TDateOrFullDate" || ty == "ByteStr" || ty == "UNDistinguishingSign" || ty == "Present" || ty == "CountyCode"

mutual
/-- `<T as FromJson>::from_json` followed by `ToCbor::to_cbor`, by type name -/
def leaf (module : String) (fuel : Nat) (ty : String) (j : Json) : Option Cbor :=
  match fuel with
  | 0 => none
  | fuel+1 =>
  match ty, j with
  | "Latin1", .str s => if s.length > 150 then none else if s.all isLatin1 then some (text s) else none
  | "String", .str s => some (text s)
  | "bool", .bool b => some (ofBool b)
  | "u32", .uint n => if n < 2 ^ 32 then some (.uint n) else none
  | "FullDate", .str s => (parseFullDate s).map fun (y, m, d) => .tag 1004 (text (showFullDate y m d))
  | "TDate", .str s => (parseTDate s).map fun t => .tag 0 (text (showTDate t))
  | "TDateOrFullDate", .str s =>
    match parseTDate s with
    | some t => some (.tag 0 (text (showTDate t)))
    | none => (parseFullDate s).map fun (y, m, d) => .tag 1004 (text (showFullDate y m d))
  | "ByteStr", .str s => (base64Decode s).map .bytes
  | "UNDistinguishingSign", .str s => some (text (unSign s))
  | "Present", .uint n => if n == 1 then some (.uint 1) else none
  | "CountyCode", .str s => match s with
    | [a, b, c] => if (digitOf a).isSome && (digitOf b).isSome && (digitOf c).isSome then some (text s) else none
    | _ => none
  | _, _ =>
    if isPrimitive ty then none else    -- a primitive type given a JSON value of another type
    -- generated tables / enums / newtypes / nested structs
    match newtypeOf module ty with
    | some inner =>
      match stripGeneric "Vec" inner, stripGeneric "NonEmptyVec" inner, j with
      | some t, _, .arr l => (leafList module fuel t l).map .array
      | none, some t, .arr l => if l.isEmpty then none else (leafList module fuel t l).map .array
      | none, none, _ => leaf module fuel inner j
      | _, _, _ => none
    | none =>
      match findStruct module ty, j with
      | some st, .obj kvs => (structFields module fuel st.fields kvs []).map mapOf
      | some _, _ => none
      | none, _ =>
        match j with
        | .str s =>
          if (findTable module ty "from_str").isSome then (strEnum module ty s).map text
          else (strumEnum module ty s).map text
        | .uint n => if n < 2 ^ 32 then (intEnum module ty n).map .uint else none
        | _ => none

def leafList (module : String) (fuel : Nat) (ty : String) : List Json → Option (List Cbor)
  | [] => some []
  | x :: xs => match fuel with
    | 0 => none
    | fuel'+1 => match leaf module fuel' ty x, leafList module fuel' ty xs with
      | some c, some cs => some (c :: cs)
      | _, _ => none

/-- one field of the derived `from_json` + `to_ns_map`: the namespace map after this field -/
def stepField (module : String) (fuel : Nat) (f : Field) (kvs : List (Str × Json)) (acc : List (Bytes × Cbor)) : Option (List (Bytes × Cbor)) :=
  match f.mode with
  | .plain =>
    match jget kvs (ofAscii f.name) with
    | none => if f.optional then some acc else none
    | some .null => if f.optional then some acc else none
    | some v => match leaf module fuel f.ty v with
      | some c => some (insertSorted f.name c acc)
      | none => none
  | .many =>
    if f.ty == "AgeOver" then
      (ageOverEntries kvs).map fun es => es.foldl (fun m kc => insertSorted kc.1 kc.2 m) acc
    else if f.ty == "BiometricTemplate" then
      (biometricEntries kvs).map fun es => es.foldl (fun m kc => insertSorted kc.1 kc.2 m) acc
    else none
  | .dynamic =>
    if f.ty == "IssuingJurisdiction" then
      match jget kvs (strOfLit "issuing_jurisdiction") with
      | none => some acc
      | some (.str js) =>
        match jget kvs (strOfLit "issuing_country") with
        | none => some acc      -- `Missing` from the inner lookup is read as "field absent"
        | some (.str cs) =>
          match strEnum "org_iso_18013_5_1" "Alpha2" cs with
          | some c => if js.take c.length == c then some (insertSorted f.name (text js) acc) else none
          | none => none
        | some _ => none
      | some _ => none
    else none

/-- the derived `from_json` + `to_ns_map` over the fields, in declaration order (every field is
evaluated; any error rejects the record) -/
def structFields (module : String) (fuel : Nat) : List Field → List (Str × Json) → List (Bytes × Cbor) → Option (List (Bytes × Cbor))
  | [], _, acc => some acc
  | f :: fs, kvs, acc =>
    match fuel with
    | 0 => none
    | fuel'+1 =>
      match stepField module fuel' f kvs acc with
      | none => none
      | some acc' => structFields module fuel' fs kvs acc'
end

/-- the whole conversion for a namespace struct -/
def fromJson (module name : String) (j : Json) : Option Cbor :=
  match structs.find? (fun s => s.module == module && s.name == name), j with
  | some st, .obj kvs => (structFields module 64 st.fields kvs []).map mapOf
  | _, _ => none

end IsoMdl.Ns
