import IsoMdl.Model.Util
/-
Executable NIST P-256 arithmetic (FIPS 186-4 D.1.2.3): on-curve test, point decompression,
scalar multiplication in Jacobian coordinates.  Executable instance of the model's ECDH
parameter; validated against the `p256` crate in every C08 run, not proved.
-/
namespace IsoMdl.P256

def p : Nat := 0xffffffff00000001000000000000000000000000ffffffffffffffffffffffff
def b : Nat := 0x5ac635d8aa3a93e7b3ebbd55769886bc651d06b0cc53b0f63bce3c3e27d2604b
def gx : Nat := 0x6b17d1f2e12c4247f8bce6e563a440f277037d812deb33a0f4a13945d898c296
def gy : Nat := 0x4fe342e2fe1a7f9b8ee7eb4a7c0f9e162bce33576b315ececbb6406837bf51f5
def n : Nat := 0xffffffff00000000ffffffffffffffffbce6faada7179e84f3b9cac2fc632551

def powMod (base e m : Nat) : Nat := Id.run do
  let mut r := 1
  let mut bs := base % m
  let mut ex := e
  for _ in [0:e.log2 + 1] do
    if ex % 2 == 1 then r := r * bs % m
    bs := bs * bs % m
    ex := ex / 2
  return r

def inv (a : Nat) : Nat := powMod a (p - 2) p
def sub (a c : Nat) : Nat := (a + p - c % p) % p

/-- y² = x³ − 3x + b (mod p), coordinates reduced -/
def onCurve (x y : Nat) : Bool :=
  x < p && y < p && (y * y) % p == (x * x % p * x + (p - 3) * x + b) % p

/-- Jacobian point (X, Y, Z); Z = 0 is the point at infinity -/
abbrev J := Nat × Nat × Nat

def dbl : J → J
  | (x, y, z) =>
    if z == 0 || y == 0 then (1, 1, 0) else
    let yy := y * y % p
    let s := 4 * x % p * yy % p
    let zz := z * z % p
    let m := (3 * (sub x zz) % p * ((x + zz) % p)) % p      -- a = -3
    let x' := sub (m * m % p) (2 * s % p)
    let y' := sub (m * (sub s x') % p) (8 * (yy * yy % p) % p)
    let z' := 2 * y % p * z % p
    (x', y', z')

def add : J → J → J
  | (x1, y1, z1), (x2, y2, z2) =>
    if z1 == 0 then (x2, y2, z2) else if z2 == 0 then (x1, y1, z1) else
    let z1z1 := z1 * z1 % p; let z2z2 := z2 * z2 % p
    let u1 := x1 * z2z2 % p; let u2 := x2 * z1z1 % p
    let s1 := y1 * z2 % p * z2z2 % p; let s2 := y2 * z1 % p * z1z1 % p
    if u1 == u2 then (if s1 == s2 then dbl (x1, y1, z1) else (1, 1, 0)) else
    let h := sub u2 u1; let r := sub s2 s1
    let hh := h * h % p; let hhh := h * hh % p; let v := u1 * hh % p
    let x3 := sub (sub (r * r % p) hhh) (2 * v % p)
    let y3 := sub (r * (sub v x3) % p) (s1 * hhh % p)
    let z3 := h * z1 % p * z2 % p
    (x3, y3, z3)

def mul (k : Nat) (x y : Nat) : J := Id.run do
  let mut acc : J := (1, 1, 0)
  for i in [0:256] do
    acc := dbl acc
    if (k >>> (255 - i)) % 2 == 1 then acc := add acc (x, y, 1)
  return acc

def toAffine : J → Option (Nat × Nat)
  | (x, y, z) =>
    if z == 0 then none else
    let zi := inv z; let zi2 := zi * zi % p
    some (x * zi2 % p, y * zi2 % p * zi % p)

/-- ECDH: x-coordinate of k·(x, y), 32 bytes big-endian; none if the result is the identity -/
def ecdhX (k x y : Nat) : Option (List UInt8) := (toAffine (mul k x y)).map fun (ax, _) => IsoMdl.beBytes 32 ax

/-- public key of a scalar -/
def pubOf (k : Nat) : Option (Nat × Nat) := toAffine (mul k gx gy)

/-- decompression: the y with the given parity, if x is the abscissa of a curve point (p ≡ 3 mod 4) -/
def decompress (x : Nat) (odd : Bool) : Option Nat :=
  if x ≥ p then none else
  let rhs := (x * x % p * x + (p - 3) * x + b) % p
  let y := powMod rhs ((p + 1) / 4) p % p
  if y * y % p != rhs then none else
  some (if (y % 2 == 1) == odd then y else (p - y) % p)

end IsoMdl.P256
