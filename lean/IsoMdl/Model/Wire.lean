import IsoMdl.Model.Cbor
import IsoMdl.Generated.Tables
/-
M4 — typed views of the wire structures of `definitions/*` with their CBOR mappings:
`toCbor` = what serde/ciborium (derived impls) or the hand-written `From<_> for ciborium::Value`
emit, `fromCbor` = what the derived `Deserialize` / `TryFrom<ciborium::Value>` accept.
Status tables come from `Generated/Tables.lean` (re-extracted from the source on every run).
-/
namespace IsoMdl.Wire
open IsoMdl IsoMdl.Cbor IsoMdl.Generated

def tx (s : String) : Cbor := .text (asciiBytes s)

/-- optional struct field (`skip_serializing_if = "Option::is_none"`) -/
def optF (k : Cbor) (v : Option Cbor) : List (Cbor × Cbor) :=
  match v with | some c => [(k, c)] | none => []

def getF (k : Cbor) : Cbor → Option Cbor
  | .map m => lookup k m
  | _ => none

/-! ### SessionData (src/definitions/session.rs) -/

structure SessionData where
  data : Option Bytes
  status : Option SessionStatus
  deriving DecidableEq, Repr

def SessionData.toCbor (x : SessionData) : Cbor :=
  .map (optF (tx "data") (x.data.map .bytes) ++ optF (tx "status") (x.status.map fun s => .uint s.toNat))

def SessionData.fromCbor (c : Cbor) : Option SessionData :=
  match c with
  | .map _ =>
    let data : Option (Option Bytes) := match getF (tx "data") c with
      | none => some none
      | some (.bytes b) => some (some b)
      | some _ => none
    let status : Option (Option SessionStatus) := match getF (tx "status") c with
      | none => some none
      | some (.uint n) => (SessionStatus.ofNat? n).map some
      | some _ => none
    match data, status with
    | some d, some s => some { data := d, status := s }
    | _, _ => none
  | _ => none

/-! ### COSE_Key (src/definitions/device_key/cose_key.rs, hand-written conversions) -/

inductive EC2Curve where | P256 | P384 | P521 | P256K
  deriving DecidableEq, Repr
inductive OKPCurve where | X25519 | X448 | Ed25519 | Ed448
  deriving DecidableEq, Repr

def EC2Curve.toNat : EC2Curve → Nat | .P256 => 1 | .P384 => 2 | .P521 => 3 | .P256K => 8
def EC2Curve.ofNat? (n : Nat) : Option EC2Curve :=
  if n = 1 then some .P256 else if n = 2 then some .P384 else if n = 3 then some .P521 else if n = 8 then some .P256K else none
def OKPCurve.toNat : OKPCurve → Nat | .X25519 => 4 | .X448 => 5 | .Ed25519 => 6 | .Ed448 => 7
def OKPCurve.ofNat? (n : Nat) : Option OKPCurve :=
  if n = 4 then some .X25519 else if n = 5 then some .X448 else if n = 6 then some .Ed25519 else if n = 7 then some .Ed448 else none

def EC2Curve.all : List EC2Curve := [.P256, .P384, .P521, .P256K]
def OKPCurve.all : List OKPCurve := [.X25519, .X448, .Ed25519, .Ed448]
/-- the variant's name in the source -/
def EC2Curve.name : EC2Curve → String | .P256 => "P256" | .P384 => "P384" | .P521 => "P521" | .P256K => "P256K"
def OKPCurve.name : OKPCurve → String | .X25519 => "X25519" | .X448 => "X448" | .Ed25519 => "Ed25519" | .Ed448 => "Ed448"

inductive EC2Y where
  | value (b : Bytes)
  | signBit (b : Bool)
  deriving DecidableEq, Repr

inductive CoseKey where
  | ec2 (crv : EC2Curve) (x : Bytes) (y : EC2Y)
  | okp (crv : OKPCurve) (x : Bytes)
  deriving DecidableEq, Repr

def EC2Y.toCbor : EC2Y → Cbor
  | .value b => .bytes b
  | .signBit b => ofBool b

def CoseKey.toCbor : CoseKey → Cbor
  | .ec2 crv x y => .map [(.uint 1, .uint 2), (.nint 0, .uint crv.toNat), (.nint 1, .bytes x), (.nint 2, y.toCbor)]
  | .okp crv x => .map [(.uint 1, .uint 1), (.nint 0, .uint crv.toNat), (.nint 1, .bytes x)]

def CoseKey.fromCbor (c : Cbor) : Option CoseKey :=
  match c with
  | .map m =>
    -- every key must be an integer (`into_integer` on each key)
    if !(m.all fun kv => match kv.1 with | .uint _ => true | .nint _ => true | _ => false) then none else
    match lookup (.uint 1) m, lookup (.nint 0) m, lookup (.nint 1) m with
    | some (.uint 2), some (.uint crv), some (.bytes x) =>
      match EC2Curve.ofNat? crv, lookup (.nint 2) m with
      | some c, some (.bytes y) => some (.ec2 c x (.value y))
      | some c, some (.simple 20) => some (.ec2 c x (.signBit false))
      | some c, some (.simple 21) => some (.ec2 c x (.signBit true))
      | _, _ => none
    | some (.uint 1), some (.uint crv), some (.bytes x) =>
      (OKPCurve.ofNat? crv).map fun c => .okp c x
    | _, _, _ => none
  | _ => none

/-! ### Tag24<T> (src/definitions/helpers/tag24.rs): the received bytes are kept and re-emitted -/

structure Tag24 (α : Type) where
  inner : α
  bytes : Bytes
  deriving DecidableEq, Repr

/-- `Serialize for Tag24`: tag 24 around the STORED byte string -/
def Tag24.toCbor {α} (t : Tag24 α) : Cbor := .tag 24 (.bytes t.bytes)

/-- `Deserialize for Tag24` / `TryFrom<Value>`: keep the byte string, decode the typed view from it -/
def Tag24.fromCbor {α} (dec : Cbor → Option α) (c : Cbor) : Option (Tag24 α) :=
  match c with
  | .tag 24 (.bytes b) =>
    match decode b with
    | some v => (dec v).map fun a => { inner := a, bytes := b }
    | none => none
  | _ => none

/-- `Tag24::new`: encode the value with this library's own encoder -/
def Tag24.new {α} (toC : α → Cbor) (a : α) : Tag24 α := { inner := a, bytes := enc (toC a) }

/-! ### SessionEstablishment -/

structure SessionEstablishment where
  eReaderKey : Tag24 CoseKey
  data : Bytes
  deriving DecidableEq, Repr

def SessionEstablishment.toCbor (x : SessionEstablishment) : Cbor :=
  .map [(tx "eReaderKey", x.eReaderKey.toCbor), (tx "data", .bytes x.data)]

def SessionEstablishment.fromCbor (c : Cbor) : Option SessionEstablishment :=
  match getF (tx "eReaderKey") c, getF (tx "data") c with
  | some k, some (.bytes d) => (Tag24.fromCbor CoseKey.fromCbor k).map fun t => { eReaderKey := t, data := d }
  | _, _ => none

/-! ### DeviceResponse status / error codes (src/definitions/device_response.rs) -/

inductive DocumentErrorCode where
  | dataNotReturned
  | applicationSpecific (i : Int)
  deriving DecidableEq, Repr

def DocumentErrorCode.toInt : DocumentErrorCode → Int
  | .dataNotReturned => 0
  | .applicationSpecific i => i

/-- `TryFrom<i128>`: 0, or any negative value; positive values are RFU and rejected -/
def DocumentErrorCode.ofInt? (n : Int) : Option DocumentErrorCode :=
  if n = 0 then some .dataNotReturned else if n < 0 then some (.applicationSpecific n) else none

def intOfCbor : Cbor → Option Int
  | .uint n => some n
  | .nint n => some (-1 - (n : Int))
  | _ => none

/-! ### COSE_Sign1 / COSE_Mac0 as coset parses and emits them (src/cose.rs) -/

/-- COSE_Sign1 as coset keeps it: protected header BYTES as received, unprotected header as a map,
payload and signature byte strings. -/
structure CoseSign1 where
  protectedBytes : Bytes
  unprotected : List (Cbor × Cbor)
  payload : Option Bytes
  signature : Bytes

def CoseSign1.toCbor (c : CoseSign1) : Cbor :=
  .array [.bytes c.protectedBytes, .map c.unprotected,
          (match c.payload with | some p => .bytes p | none => cnull), .bytes c.signature]

def CoseSign1.fromCbor : Cbor → Option CoseSign1
  | .array [.bytes p, .map u, .bytes pl, .bytes s] => some ⟨p, u, some pl, s⟩
  | .array [.bytes p, .map u, .simple 22, .bytes s] => some ⟨p, u, none, s⟩
  | _ => none

end IsoMdl.Wire
