import IsoMdl.Model.SessionTypes
import IsoMdl.Model.Cbor
/-
M12 — `Stringify` of the two session managers: `stringify = base64 (STANDARD, padded) ∘ CBOR ∘ serde`
and `parse` its inverse (`presentation/mod.rs`).

Three layers, each with its own round-trip theorem (Lemmas/StateCodec.lean):
  * `b64Encode` / `b64Decode`           — for ALL byte strings,
  * `Cbor.enc` / `Cbor.decodeAll`       — for all well-formed items (Lemmas/Cbor.lean),
  * `devToCbor` / `devOfCbor`, `rdrToCbor` / `rdrOfCbor` — the serde layer of the
    ABSTRACT session state of Model/Session.lean: one map entry per serialised field of the real
    struct, in declaration order, under the real field names (`Generated/StateStructs.lean` is
    re-extracted from `src/presentation/{device,reader}.rs` on every run; `C14_state_fields_match_source`
    proves the codec below has exactly those fields, those enum variants and nothing skipped).
What stays abstract: the CONTENT of the fields that are functions of the session identity
(documents, transcript, both keys, trust anchors, authentication type) is the session id, a
prepared document is its id, a signed document the pair (document id, signature id), a staged
ciphertext the symbolic `Msg`.  That the real field contents survive is the twin-run
correspondence (C14 harness) — the theorem covers the bookkeeping: which fields exist, that
counters, state variant, pending documents, attached signatures and the staged response are all
written and read back.
-/
namespace IsoMdl.StateCodec
open IsoMdl IsoMdl.Session

/-! ### base64, STANDARD alphabet with padding (`base64::encode` / `base64::decode` on own output) -/

def b64char (v : Nat) : Nat :=
  if v < 26 then v + 65 else if v < 52 then v + 71 else if v < 62 then v - 4 else if v = 62 then 43 else 47

def b64val (c : Nat) : Option Nat :=
  if 65 ≤ c ∧ c ≤ 90 then some (c - 65) else if 97 ≤ c ∧ c ≤ 122 then some (c - 71)
  else if 48 ≤ c ∧ c ≤ 57 then some (c + 4) else if c = 43 then some 62 else if c = 47 then some 63 else none

def b64Encode : Bytes → List Nat
  | a :: b :: c :: rest =>
    let n := a.toNat * 65536 + b.toNat * 256 + c.toNat
    b64char (n / 262144) :: b64char (n / 4096 % 64) :: b64char (n / 64 % 64) :: b64char (n % 64) :: b64Encode rest
  | [a, b] =>
    let n := a.toNat * 65536 + b.toNat * 256
    [b64char (n / 262144), b64char (n / 4096 % 64), b64char (n / 64 % 64), 61]
  | [a] =>
    let n := a.toNat * 65536
    [b64char (n / 262144), b64char (n / 4096 % 64), 61, 61]
  | [] => []

/-- groups of four symbols; `=` only in the last group, unused bits zero -/
def b64Decode : List Nat → Option Bytes
  | [] => some []
  | a :: b :: c :: d :: rest =>
    if d = 61 then
      if rest ≠ [] then none
      else if c = 61 then
        match b64val a, b64val b with
        | some x, some y => if y % 16 ≠ 0 then none else some [UInt8.ofNat (x * 4 + y / 16)]
        | _, _ => none
      else
        match b64val a, b64val b, b64val c with
        | some x, some y, some z =>
          if z % 4 ≠ 0 then none else some [UInt8.ofNat (x * 4 + y / 16), UInt8.ofNat (y % 16 * 16 + z / 4)]
        | _, _, _ => none
    else
      match b64val a, b64val b, b64val c, b64val d, b64Decode rest with
      | some x, some y, some z, some w, some r =>
        let n := x * 262144 + y * 4096 + z * 64 + w
        some (UInt8.ofNat (n / 65536) :: UInt8.ofNat (n / 256 % 256) :: UInt8.ofNat (n % 256) :: r)
      | _, _, _, _, _ => none
  | _ => none

/-! ### serde layer of the abstract state -/

def tx (s : String) : Cbor := .text (s.toList.map fun c => UInt8.ofNat c.toNat)
def cbool (b : Bool) : Cbor := .simple (if b then 21 else 20)
def ofBool : Cbor → Option Bool
  | .simple 21 => some true
  | .simple 20 => some false
  | _ => none

def encPair (p : Nat × Nat) : Cbor := .array [.uint p.1, .uint p.2]
def decPair : Cbor → Option (Nat × Nat)
  | .array [.uint a, .uint b] => some (a, b)
  | _ => none

def decNat : Cbor → Option Nat
  | .uint n => some n
  | _ => none

def decList {α : Type} (f : Cbor → Option α) : List Cbor → Option (List α)
  | [] => some []
  | x :: xs => match f x, decList f xs with
    | some a, some as => some (a :: as)
    | _, _ => none

def encPayload : Payload → Cbor
  | .request => .uint 0
  | .notCbor => .uint 1
  | .notRequest => .uint 2
  | .response st signed => .array [.uint st, .array (signed.map encPair)]
def decPayload : Cbor → Option Payload
  | .uint 0 => some .request
  | .uint 1 => some .notCbor
  | .uint 2 => some .notRequest
  | .array [.uint st, .array xs] => (decList decPair xs).map (.response st)
  | _ => none

/-- a staged `SessionData`: status-only, or a (symbolic) ciphertext under `data` -/
def encMsg : Msg → Cbor
  | .garbage => .simple 23
  | .noData => .map [(tx "status", .uint 10)]
  | .ct fr s n p t => .map [(tx "data", .array [cbool fr, .uint s, .uint n, encPayload p, cbool t])]
def decMsg : Cbor → Option Msg
  | .simple 23 => some .garbage
  | .map [(k, .uint 10)] => if k == tx "status" then some .noData else none
  | .map [(k, .array [fr, .uint s, .uint n, p, t])] =>
    if k == tx "data" then
      match ofBool fr, decPayload p, ofBool t with
      | some fr, some p, some t => some (.ct fr s n p t)
      | _, _, _ => none
    else none
  | _ => none

/-- `PreparedDeviceResponse` (struct: map of its four fields; `document_errors` is derived from the
request being answered and is abstracted into the status) -/
def encPrepared (prepared : List Nat) (signed : List (Nat × Nat)) (status : Nat) : Cbor :=
  .map [(tx "prepared_documents", .array (prepared.map .uint)),
        (tx "signed_documents", .array (signed.map encPair)),
        (tx "document_errors", .simple 22),
        (tx "status", .uint status)]

/-- `enum State` (serde's externally tagged form: a unit variant is its name, a newtype variant a
one-entry map from its name) -/
def encState : DevState → Cbor
  | .awaiting => tx "AwaitingRequest"
  | .signing p s st => .map [(tx "Signing", encPrepared p s st)]
  | .ready m => .map [(tx "ReadyToRespond", encMsg m)]

def decState : Cbor → Option DevState
  | .text b => if Cbor.text b == tx "AwaitingRequest" then some .awaiting else none
  | .map [(k, .map [(k1, .array p), (k2, .array s), (k3, .simple 22), (k4, .uint st)])] =>
    if k == tx "Signing" && k1 == tx "prepared_documents" && k2 == tx "signed_documents"
        && k3 == tx "document_errors" && k4 == tx "status" then
      match decList decNat p, decList decPair s with
      | some p, some s => some (.signing p s st)
      | _, _ => none
    else if k == tx "ReadyToRespond" then none   -- (a four-entry map is not a staged message)
    else none
  | .map [(k, v)] => if k == tx "ReadyToRespond" then (decMsg v).map .ready else none
  | _ => none

/-- `device::SessionManager`: one entry per field, in declaration order -/
def devToCbor (d : Device) : Cbor :=
  .map [(tx "documents", .uint d.sess),
        (tx "session_transcript", .uint d.sess),
        (tx "sk_device", .uint d.sess),
        (tx "device_message_counter", .uint d.encCtr.toNat),
        (tx "sk_reader", .uint d.sess),
        (tx "reader_message_counter", .uint d.decCtr.toNat),
        (tx "state", encState d.st),
        (tx "trusted_verifiers", .uint d.sess),
        (tx "device_auth_type", .uint d.sess)]

def devOfCbor : Cbor → Option Device
  | .map [(k1, .uint s1), (k2, .uint s2), (k3, .uint s3), (k4, .uint e), (k5, .uint s5), (k6, .uint c),
          (k7, st), (k8, .uint s8), (k9, .uint s9)] =>
    if k1 == tx "documents" && k2 == tx "session_transcript" && k3 == tx "sk_device"
        && k4 == tx "device_message_counter" && k5 == tx "sk_reader" && k6 == tx "reader_message_counter"
        && k7 == tx "state" && k8 == tx "trusted_verifiers" && k9 == tx "device_auth_type"
        && s2 == s1 && s3 == s1 && s5 == s1 && s8 == s1 && s9 == s1 && e < 2^32 && c < 2^32 then
      (decState st).map fun st => { sess := s1, encCtr := UInt32.ofNat e, decCtr := UInt32.ofNat c, st := st }
    else none
  | _ => none

/-- `reader::SessionManager` -/
def rdrToCbor (r : Reader) : Cbor :=
  .map [(tx "session_transcript", .uint r.sess),
        (tx "sk_device", .uint r.sess),
        (tx "device_message_counter", .uint r.decCtr.toNat),
        (tx "sk_reader", .uint r.sess),
        (tx "reader_message_counter", .uint r.encCtr.toNat),
        (tx "trust_anchor_registry", .uint r.sess)]

def rdrOfCbor : Cbor → Option Reader
  | .map [(k1, .uint s1), (k2, .uint s2), (k3, .uint c), (k4, .uint s4), (k5, .uint e), (k6, .uint s6)] =>
    if k1 == tx "session_transcript" && k2 == tx "sk_device" && k3 == tx "device_message_counter"
        && k4 == tx "sk_reader" && k5 == tx "reader_message_counter" && k6 == tx "trust_anchor_registry"
        && s2 == s1 && s4 == s1 && s6 == s1 && e < 2^32 && c < 2^32 then
      some { sess := s1, encCtr := UInt32.ofNat e, decCtr := UInt32.ofNat c }
    else none
  | _ => none

/-- `Stringify::stringify` / `Stringify::parse` -/
def devStringify (d : Device) : List Nat := b64Encode (Cbor.enc (devToCbor d))
def devParse (s : List Nat) : Option Device :=
  (b64Decode s).bind fun bs => (Cbor.decodeAll bs).bind devOfCbor
def rdrStringify (r : Reader) : List Nat := b64Encode (Cbor.enc (rdrToCbor r))
def rdrParse (s : List Nat) : Option Reader :=
  (b64Decode s).bind fun bs => (Cbor.decodeAll bs).bind rdrOfCbor

/-- the field lists of the codec, for comparison with the source -/
def fieldNames : Cbor → List (List Nat)
  | .map kvs => kvs.filterMap fun (k, _) => match k with
    | .text b => some (b.map (·.toNat))
    | _ => none
  | _ => []

end IsoMdl.StateCodec
