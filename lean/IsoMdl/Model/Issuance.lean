import IsoMdl.Model.Cbor
import IsoMdl.Model.Sha2
import IsoMdl.Generated.Leaf
/-
M10 — issuance (src/issuance/mdoc.rs, src/definitions/mso.rs): item construction with unique
digest ids, digests over the tag-24 item bytes, decoys.  Randomness is an explicit input tape
(`ids`: the successive `rand::thread_rng().gen::<i32>()` draws, `salts`: the 16-byte randoms).
The hash is a parameter; `hashOf` is its executable instance.
-/
namespace IsoMdl.Issuance
open IsoMdl IsoMdl.Cbor

inductive DigestAlg where
  | sha256 | sha384 | sha512
  deriving DecidableEq, Repr

def hashOf : DigestAlg → Bytes → Bytes
  | .sha256 => Sha2.sha256
  | .sha384 => Sha2.sha384
  | .sha512 => Sha2.sha512

def digestLen : DigestAlg → Nat
  | .sha256 => 32 | .sha384 => 48 | .sha512 => 64

structure Item where
  digestId : Int
  random : Bytes
  ident : Bytes
  value : Cbor

def tx (s : String) : Cbor := .text (asciiBytes s)

/-- serde field order of `IssuerSignedItem` -/
def Item.toCbor (it : Item) : Cbor :=
  .map [(tx "digestID", ofInt it.digestId), (tx "random", .bytes it.random),
        (tx "elementIdentifier", .text it.ident), (tx "elementValue", it.value)]

def tag24 (b : Bytes) : Cbor := .tag 24 (.bytes b)

/-- `digest_namespace`: hash of the CBOR encoding of the tag-24 wrapped item bytes -/
def digestOfItemBytes (h : Bytes → Bytes) (itemBytes : Bytes) : Bytes := h (enc (tag24 itemBytes))

/-- `generate_digest_id`: draw until `DigestId::new(draw)` is unused; returns the id and the
remaining tape (none: tape exhausted, i.e. the loop has not terminated yet). -/
def genId (used : List Int32) : List Int32 → Option (Int32 × List Int32)
  | [] => none
  | d :: tape =>
    let id := Generated.digestIdNew d
    if used.contains id then genId used tape else some (id, tape)

/-- `to_issuer_signed_items`: one item per element, in map order, fresh id and salt each -/
def toItems : List (Bytes × Cbor) → List Int32 → List Int32 → List Bytes → Option (List Item × List Int32)
  | [], _, tape, _ => some ([], tape)
  | _ :: _, _, _, [] => none
  | (k, v) :: rest, used, tape, salt :: salts =>
    match genId used tape with
    | none => none
    | some (id, tape') =>
      match toItems rest (id :: used) tape' salts with
      | none => none
      | some (items, tape'') =>
        some ({ digestId := id.toInt, random := salt, ident := k, value := v } :: items, tape'')

/-- decoy ids: `n` further fresh ids -/
def genDecoys : Nat → List Int32 → List Int32 → Option (List Int32 × List Int32)
  | 0, _, tape => some ([], tape)
  | n+1, used, tape =>
    match genId used tape with
    | none => none
    | some (id, tape') =>
      match genDecoys n (id :: used) tape' with
      | none => none
      | some (ids, t) => some (id :: ids, t)

end IsoMdl.Issuance

namespace IsoMdl.Issuance
/-- `KeyAuthorizations::validate`: a namespace authorised as a whole must not also appear among
the per-element authorisations. -/
def authValid (ns : Option (List Nat)) (de : Option (List Nat)) : Bool :=
  match de, ns with
  | some d, some n => n.all (fun x => !d.contains x)
  | _, _ => true

/-- `Mdoc::prepare` refuses: contradictory authorisations, a namespace without elements, or no
namespace at all (`sizes`: number of elements per supplied namespace). -/
def prepareAccepts (sizes : List Nat) (ns de : Option (List Nat)) : Bool :=
  authValid ns de && sizes.all (· > 0) && !sizes.isEmpty
end IsoMdl.Issuance
