import IsoMdl.Model.ReaderAuth
/-
M7 (request side) — `presentation::device::SessionManager::{validate_request, reader_authentication}`.
Per document request the facts are: is readerAuth there, does its unprotected header carry a
decodable x5chain (label 33), what does `ValidationRuleset::MdlReaderOneStep` report (C12), does
the leaf key parse, and does COSE verification (Model/Cose.lean) succeed over the detached
ReaderAuthenticationBytes built from THIS device's session transcript and the ItemsRequestBytes
exactly as received.
-/
namespace IsoMdl.DeviceAuthReq
open IsoMdl IsoMdl.Cose IsoMdl.ReaderAuth

structure ReqFacts where
  present : Bool
  x5chainPresent : Bool
  x5chainParses : Bool
  chainErrors : Nat
  keyParses : Bool
  alg : ProtAlg
  payloadAttached : Bool       -- readerAuth must be detached; an attached payload is a double payload
  sigParses : Bool
  sigAccepts : Bool
  deriving DecidableEq, Repr

/-- `reader_authentication`: true iff `outcome.errors` is empty -/
def readerAuthOk (r : ReqFacts) : Bool :=
  r.present && r.x5chainPresent && r.x5chainParses && r.chainErrors == 0 && r.keyParses &&
  verifySign1 (-7) (prim r.sigParses r.sigAccepts)
    ⟨[], if r.payloadAttached then some [] else none, [], false⟩ r.alg (some []) none == .success

/-- `validate_request`: the status reported for a decrypted, decodable DeviceRequest with these
document requests (a DeviceRequest always has at least one: `NonEmptyVec`).  Every document
request is examined; the status starts Unchecked, becomes Valid when the first one is ok and
Invalid as soon as any one is not. -/
def validateRequest (reqs : List ReqFacts) : Status :=
  match reqs with
  | [] => .unchecked
  | _ :: _ => if reqs.all readerAuthOk then .valid else .invalid

/-- `handle_request` / `process_session_establishment`: nothing is checked unless the message
decrypts and decodes -/
def requestStatus (decrypts decodes : Bool) (reqs : List ReqFacts) : Status :=
  if decrypts && decodes then validateRequest reqs else .unchecked

end IsoMdl.DeviceAuthReq
