import IsoMdl.Model.Util
/-
Executable SHA-256 / SHA-384 / SHA-512, HMAC-SHA-256 and HKDF-SHA-256 (FIPS 180-4, RFC 2104,
RFC 5869).  Used as the executable *instance* of the model's hash/KDF parameters so that the
driver can recompute digests and keys independently of the Rust crates; no theorem depends on
their internals (validated against sha2/hkdf by differential test in the harness runs).
-/
namespace IsoMdl.Sha2
open IsoMdl

def k256 : Array UInt32 := #[
  0x428a2f98,0x71374491,0xb5c0fbcf,0xe9b5dba5,0x3956c25b,0x59f111f1,0x923f82a4,0xab1c5ed5,
  0xd807aa98,0x12835b01,0x243185be,0x550c7dc3,0x72be5d74,0x80deb1fe,0x9bdc06a7,0xc19bf174,
  0xe49b69c1,0xefbe4786,0x0fc19dc6,0x240ca1cc,0x2de92c6f,0x4a7484aa,0x5cb0a9dc,0x76f988da,
  0x983e5152,0xa831c66d,0xb00327c8,0xbf597fc7,0xc6e00bf3,0xd5a79147,0x06ca6351,0x14292967,
  0x27b70a85,0x2e1b2138,0x4d2c6dfc,0x53380d13,0x650a7354,0x766a0abb,0x81c2c92e,0x92722c85,
  0xa2bfe8a1,0xa81a664b,0xc24b8b70,0xc76c51a3,0xd192e819,0xd6990624,0xf40e3585,0x106aa070,
  0x19a4c116,0x1e376c08,0x2748774c,0x34b0bcb5,0x391c0cb3,0x4ed8aa4a,0x5b9cca4f,0x682e6ff3,
  0x748f82ee,0x78a5636f,0x84c87814,0x8cc70208,0x90befffa,0xa4506ceb,0xbef9a3f7,0xc67178f2]

def rotr32 (x : UInt32) (n : UInt32) : UInt32 := (x >>> n) ||| (x <<< (32 - n))

def pad (msg : Bytes) (block lenBytes : Nat) : Bytes :=
  let l := msg.length
  let zeros := (block - ((l + 1 + lenBytes) % block)) % block
  msg ++ [0x80] ++ List.replicate zeros 0 ++ beBytes lenBytes (l * 8)

def chunks (n : Nat) : Nat → Bytes → List Bytes
  | 0, _ => []
  | fuel+1, bs => if bs.isEmpty then [] else bs.take n :: chunks n fuel (bs.drop n)

def word32 (b : Bytes) : UInt32 := UInt32.ofNat (fromBe b)

def compress256 (h : Array UInt32) (blk : Bytes) : Array UInt32 := Id.run do
  let mut w : Array UInt32 := Array.replicate 64 0
  for i in [0:16] do
    w := w.set! i (word32 ((blk.drop (4*i)).take 4))
  for i in [16:64] do
    let w15 := w[i-15]!; let w2 := w[i-2]!
    let s0 := rotr32 w15 7 ^^^ rotr32 w15 18 ^^^ (w15 >>> 3)
    let s1 := rotr32 w2 17 ^^^ rotr32 w2 19 ^^^ (w2 >>> 10)
    w := w.set! i (w[i-16]! + s0 + w[i-7]! + s1)
  let mut a := h[0]!; let mut b := h[1]!; let mut c := h[2]!; let mut d := h[3]!
  let mut e := h[4]!; let mut f := h[5]!; let mut g := h[6]!; let mut hh := h[7]!
  for i in [0:64] do
    let s1 := rotr32 e 6 ^^^ rotr32 e 11 ^^^ rotr32 e 25
    let ch := (e &&& f) ^^^ ((~~~ e) &&& g)
    let t1 := hh + s1 + ch + k256[i]! + w[i]!
    let s0 := rotr32 a 2 ^^^ rotr32 a 13 ^^^ rotr32 a 22
    let mj := (a &&& b) ^^^ (a &&& c) ^^^ (b &&& c)
    let t2 := s0 + mj
    hh := g; g := f; f := e; e := d + t1; d := c; c := b; b := a; a := t1 + t2
  #[h[0]! + a, h[1]! + b, h[2]! + c, h[3]! + d, h[4]! + e, h[5]! + f, h[6]! + g, h[7]! + hh]

def sha256 (msg : Bytes) : Bytes :=
  let p := pad msg 64 8
  let h0 : Array UInt32 := #[0x6a09e667,0xbb67ae85,0x3c6ef372,0xa54ff53a,0x510e527f,0x9b05688c,0x1f83d9ab,0x5be0cd19]
  let h := (chunks 64 (p.length / 64 + 1) p).foldl compress256 h0
  h.toList.flatMap (fun x => beBytes 4 x.toNat)

def k512 : Array UInt64 := #[
  0x428a2f98d728ae22,0x7137449123ef65cd,0xb5c0fbcfec4d3b2f,0xe9b5dba58189dbbc,0x3956c25bf348b538,0x59f111f1b605d019,0x923f82a4af194f9b,0xab1c5ed5da6d8118,
  0xd807aa98a3030242,0x12835b0145706fbe,0x243185be4ee4b28c,0x550c7dc3d5ffb4e2,0x72be5d74f27b896f,0x80deb1fe3b1696b1,0x9bdc06a725c71235,0xc19bf174cf692694,
  0xe49b69c19ef14ad2,0xefbe4786384f25e3,0x0fc19dc68b8cd5b5,0x240ca1cc77ac9c65,0x2de92c6f592b0275,0x4a7484aa6ea6e483,0x5cb0a9dcbd41fbd4,0x76f988da831153b5,
  0x983e5152ee66dfab,0xa831c66d2db43210,0xb00327c898fb213f,0xbf597fc7beef0ee4,0xc6e00bf33da88fc2,0xd5a79147930aa725,0x06ca6351e003826f,0x142929670a0e6e70,
  0x27b70a8546d22ffc,0x2e1b21385c26c926,0x4d2c6dfc5ac42aed,0x53380d139d95b3df,0x650a73548baf63de,0x766a0abb3c77b2a8,0x81c2c92e47edaee6,0x92722c851482353b,
  0xa2bfe8a14cf10364,0xa81a664bbc423001,0xc24b8b70d0f89791,0xc76c51a30654be30,0xd192e819d6ef5218,0xd69906245565a910,0xf40e35855771202a,0x106aa07032bbd1b8,
  0x19a4c116b8d2d0c8,0x1e376c085141ab53,0x2748774cdf8eeb99,0x34b0bcb5e19b48a8,0x391c0cb3c5c95a63,0x4ed8aa4ae3418acb,0x5b9cca4f7763e373,0x682e6ff3d6b2b8a3,
  0x748f82ee5defb2fc,0x78a5636f43172f60,0x84c87814a1f0ab72,0x8cc702081a6439ec,0x90befffa23631e28,0xa4506cebde82bde9,0xbef9a3f7b2c67915,0xc67178f2e372532b,
  0xca273eceea26619c,0xd186b8c721c0c207,0xeada7dd6cde0eb1e,0xf57d4f7fee6ed178,0x06f067aa72176fba,0x0a637dc5a2c898a6,0x113f9804bef90dae,0x1b710b35131c471b,
  0x28db77f523047d84,0x32caab7b40c72493,0x3c9ebe0a15c9bebc,0x431d67c49c100d4c,0x4cc5d4becb3e42b6,0x597f299cfc657e2a,0x5fcb6fab3ad6faec,0x6c44198c4a475817]

def rotr64 (x : UInt64) (n : UInt64) : UInt64 := (x >>> n) ||| (x <<< (64 - n))
def word64 (b : Bytes) : UInt64 := UInt64.ofNat (fromBe b)

def compress512 (h : Array UInt64) (blk : Bytes) : Array UInt64 := Id.run do
  let mut w : Array UInt64 := Array.replicate 80 0
  for i in [0:16] do
    w := w.set! i (word64 ((blk.drop (8*i)).take 8))
  for i in [16:80] do
    let w15 := w[i-15]!; let w2 := w[i-2]!
    let s0 := rotr64 w15 1 ^^^ rotr64 w15 8 ^^^ (w15 >>> 7)
    let s1 := rotr64 w2 19 ^^^ rotr64 w2 61 ^^^ (w2 >>> 6)
    w := w.set! i (w[i-16]! + s0 + w[i-7]! + s1)
  let mut a := h[0]!; let mut b := h[1]!; let mut c := h[2]!; let mut d := h[3]!
  let mut e := h[4]!; let mut f := h[5]!; let mut g := h[6]!; let mut hh := h[7]!
  for i in [0:80] do
    let s1 := rotr64 e 14 ^^^ rotr64 e 18 ^^^ rotr64 e 41
    let ch := (e &&& f) ^^^ ((~~~ e) &&& g)
    let t1 := hh + s1 + ch + k512[i]! + w[i]!
    let s0 := rotr64 a 28 ^^^ rotr64 a 34 ^^^ rotr64 a 39
    let mj := (a &&& b) ^^^ (a &&& c) ^^^ (b &&& c)
    let t2 := s0 + mj
    hh := g; g := f; f := e; e := d + t1; d := c; c := b; b := a; a := t1 + t2
  #[h[0]! + a, h[1]! + b, h[2]! + c, h[3]! + d, h[4]! + e, h[5]! + f, h[6]! + g, h[7]! + hh]

def sha512core (h0 : Array UInt64) (outWords : Nat) (msg : Bytes) : Bytes :=
  let p := pad msg 128 16
  let h := (chunks 128 (p.length / 128 + 1) p).foldl compress512 h0
  (h.toList.take outWords).flatMap (fun x => beBytes 8 x.toNat)

def sha512 : Bytes → Bytes := sha512core
  #[0x6a09e667f3bcc908,0xbb67ae8584caa73b,0x3c6ef372fe94f82b,0xa54ff53a5f1d36f1,0x510e527fade682d1,0x9b05688c2b3e6c1f,0x1f83d9abfb41bd6b,0x5be0cd19137e2179] 8
def sha384 : Bytes → Bytes := sha512core
  #[0xcbbb9d5dc1059ed8,0x629a292a367cd507,0x9159015a3070dd17,0x152fecd8f70e5939,0x67332667ffc00b31,0x8eb44a8768581511,0xdb0c2e0d64f98fa7,0x47b5481dbefa4fa4] 6

def xorPad (key : Bytes) (c : UInt8) : Bytes := (key ++ List.replicate (64 - key.length) 0).map (· ^^^ c)

def hmac256 (key msg : Bytes) : Bytes :=
  let k := if key.length > 64 then sha256 key else key
  sha256 (xorPad k 0x5c ++ sha256 (xorPad k 0x36 ++ msg))

def hkdfExtract (salt ikm : Bytes) : Bytes :=
  hmac256 (if salt.isEmpty then List.replicate 32 0 else salt) ikm

def hkdfExpandAux (prk info : Bytes) : Nat → Nat → Bytes → Bytes → Bytes
  | 0, _, _, acc => acc
  | fuel+1, i, prev, acc =>
    let t := hmac256 prk (prev ++ info ++ [UInt8.ofNat i])
    hkdfExpandAux prk info fuel (i+1) t (acc ++ t)

def hkdfExpand (prk info : Bytes) (len : Nat) : Bytes :=
  (hkdfExpandAux prk info ((len + 31) / 32) 1 [] []).take len

def hkdf256 (salt ikm info : Bytes) (len : Nat) : Bytes := hkdfExpand (hkdfExtract salt ikm) info len

end IsoMdl.Sha2
