import IsoMdl.Model.Cbor
import IsoMdl.Model.Sha2
/-
M5 — COSE_Sign1 / COSE_Mac0 remote-signing and verification logic of src/cose/sign1.rs and
src/cose/mac0.rs.  The signature primitive is a parameter (`verifyPrim msg sig`, `none` when the
signature bytes do not parse as a signature); HMAC-SHA-256 is executable (Model/Sha2.lean).
-/
namespace IsoMdl.Cose
open IsoMdl IsoMdl.Cbor

def tx (s : String) : Cbor := .text (asciiBytes s)

/-- RFC 8152 §4.4 Sig_structure for COSE_Sign1 / §6.3 MAC_structure for COSE_Mac0:
`[context, body_protected, external_aad, payload]` (no sign_protected for Sign1) -/
def structure_ (context : String) (protectedBytes aad payload : Bytes) : Bytes :=
  enc (.array [tx context, .bytes protectedBytes, .bytes aad, .bytes payload])

def sigStructure := structure_ "Signature1"
def macStructure := structure_ "MAC0"

inductive Err where
  | doublePayload | noPayload | malformedSignature
  deriving DecidableEq, Repr

/-- the message as coset holds it -/
structure Cose where
  protectedBytes : Bytes
  payload : Option Bytes       -- attached payload
  signature : Bytes            -- signature or tag
  tagged : Bool
  deriving DecidableEq, Repr

structure Prepared where
  cose : Cose
  signaturePayload : Bytes
  deriving DecidableEq, Repr

/-- `PreparedCoseSign1::new` / `PreparedCoseMac0::new` -/
def prepare (context : String) (protectedBytes : Bytes) (attached detached aad : Option Bytes) (tagged : Bool) :
    Except Err Prepared :=
  match attached, detached with
  | some _, some _ => .error .doublePayload
  | none, none => .error .noPayload
  | some p, none =>
    .ok { cose := ⟨protectedBytes, attached, [], tagged⟩, signaturePayload := structure_ context protectedBytes (aad.getD []) p }
  | none, some p =>
    .ok { cose := ⟨protectedBytes, attached, [], tagged⟩, signaturePayload := structure_ context protectedBytes (aad.getD []) p }

/-- `finalize`: the supplied signature / tag is inserted unchanged, nothing else changes -/
def finalize (p : Prepared) (sig : Bytes) : Cose := { p.cose with signature := sig }

/-- the `alg` of the protected header as coset classifies it -/
inductive ProtAlg where
  | absent | assigned (a : Int) | privateUse (a : Int) | text
  deriving DecidableEq, Repr

inductive Verdict where
  | success
  | failureAlg          -- "algorithm in protected headers did not match verifier's algorithm"
  | failureSig          -- "signature/tag is not authentic"
  | error (e : Err)
  deriving DecidableEq, Repr

/-- payload selection shared by both verifiers -/
def selectPayload (attached detached : Option Bytes) : Except Err Bytes :=
  match attached, detached with
  | none, none => .error .noPayload
  | some _, some _ => .error .doublePayload
  | some p, none => .ok p
  | none, some p => .ok p

/-- the part of `verify` after the algorithm check -/
def sign1Body (verifyPrim : Bytes → Bytes → Option Bool) (c : Cose) (detached aad : Option Bytes) : Verdict :=
  match selectPayload c.payload detached with
  | .error e => .error e
  | .ok p =>
    match verifyPrim (sigStructure c.protectedBytes (aad.getD []) p) c.signature with
    | none => .error .malformedSignature
    | some true => .success
    | some false => .failureSig

def algMismatch (alg : ProtAlg) (verifierAlg : Int) : Bool :=
  match alg with
  | .assigned a => a != verifierAlg
  | _ => false

/-- `MaybeTagged<CoseSign1>::verify`; `verifyPrim msg sig = none` iff `sig` does not parse -/
def verifySign1 (verifierAlg : Int) (verifyPrim : Bytes → Bytes → Option Bool)
    (c : Cose) (alg : ProtAlg) (detached aad : Option Bytes) : Verdict :=
  if algMismatch alg verifierAlg then .failureAlg else sign1Body verifyPrim c detached aad

def mac0Body (key : Bytes) (c : Cose) (detached aad : Option Bytes) : Verdict :=
  match selectPayload c.payload detached with
  | .error e => .error e
  | .ok p =>
    if Sha2.hmac256 key (macStructure c.protectedBytes (aad.getD []) p) == c.signature then .success else .failureSig

/-- `MaybeTagged<CoseMac0>::verify` with an HMAC-SHA-256 key (algorithm 5) -/
def verifyMac0 (key : Bytes) (c : Cose) (alg : ProtAlg) (detached aad : Option Bytes) : Verdict :=
  if algMismatch alg 5 then .failureAlg else mac0Body key c detached aad

end IsoMdl.Cose
