/-
Shared utilities of the executable model: byte strings, hex I/O, sub-sequence search.
Import-free on purpose (the driver links as a `lean_exe`).
-/
deriving instance DecidableEq for Except

namespace IsoMdl

abbrev Bytes := List UInt8

def hexDigit (n : Nat) : Char :=
  if n < 10 then Char.ofNat (48 + n) else Char.ofNat (87 + n)

def hexOfBytes (b : Bytes) : String :=
  String.ofList (b.foldr (fun x acc => hexDigit (x.toNat / 16) :: hexDigit (x.toNat % 16) :: acc) [])

def hexVal (c : Char) : Option Nat :=
  if '0' ≤ c ∧ c ≤ '9' then some (c.toNat - 48)
  else if 'a' ≤ c ∧ c ≤ 'f' then some (c.toNat - 87)
  else if 'A' ≤ c ∧ c ≤ 'F' then some (c.toNat - 55)
  else none

def bytesOfHexChars : List Char → Option Bytes
  | [] => some []
  | [_] => none
  | a :: b :: rest =>
    match hexVal a, hexVal b, bytesOfHexChars rest with
    | some x, some y, some r => some (UInt8.ofNat (x * 16 + y) :: r)
    | _, _, _ => none

/-- `-` denotes the empty byte string on the wire protocol (so tokens are never empty). -/
def bytesOfHex (s : String) : Option Bytes :=
  if s = "-" then some [] else bytesOfHexChars s.toList

def hexOrDash (b : Bytes) : String := if b.isEmpty then "-" else hexOfBytes b

def asciiBytes (s : String) : Bytes := s.toList.map (fun c => UInt8.ofNat c.toNat)

/-- `isPrefix p l` : `p` is a prefix of `l`. -/
def isPrefixB : Bytes → Bytes → Bool
  | [], _ => true
  | _ :: _, [] => false
  | a :: p, b :: l => a == b && isPrefixB p l

/-- `stripPrefix p l = some rest` iff `l = p ++ rest` (Rust `str::strip_prefix`). -/
def stripPrefixB : Bytes → Bytes → Option Bytes
  | [], l => some l
  | _ :: _, [] => none
  | a :: p, b :: l => if a == b then stripPrefixB p l else none

/-- Rust `str::contains(&str)` on UTF-8 bytes. -/
def containsB (needle : Bytes) : Bytes → Bool
  | [] => needle.isEmpty
  | b :: l => isPrefixB needle (b :: l) || containsB needle l

/-- big-endian, `k` bytes (Rust `uN::to_be_bytes`, `k = N/8`). -/
def beBytes : Nat → Nat → Bytes
  | 0, _ => []
  | k+1, n => beBytes k (n / 256) ++ [UInt8.ofNat (n % 256)]

def fromBe (bs : Bytes) : Nat := bs.foldl (fun a b => a * 256 + b.toNat) 0

/-- `u32::to_be_bytes` -/
def be32 (n : UInt32) : Bytes := beBytes 4 n.toNat

end IsoMdl
