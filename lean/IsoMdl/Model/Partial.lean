import IsoMdl.Model.Wire
/-
M9 — isomdl's OWN partial operations on attacker-controlled data: the places where the crate
itself (not a dependency) converts a variable-length byte string into a fixed-size array, slices,
or increments a counter.  Each primitive is modelled with the panic semantics of the Rust
primitive it stands for; the composite functions follow the source line by line.

  * `TryFrom<CoseKey> for EncodedPoint`        src/definitions/device_key/cose_key.rs
  * coordinates in `device_authentication`     src/presentation/authentication/mdoc.rs
  * stored ephemeral key in `process_session_establishment`  src/presentation/device.rs
  * message counter in `encrypt` / `decrypt`    src/definitions/session.rs

Two shapes are kept: `…Pinned` is the code of the pinned commit (kept so that the finding stays a
checked theorem: it panics on a concrete input), the unsuffixed definitions are the current code
(after the `fix:` commits) and are what the driver runs against the implementation.
-/
namespace IsoMdl.Partial
open IsoMdl IsoMdl.Wire

inductive Out (α : Type) where
  | ok (a : α) | refused | panic
  deriving DecidableEq, Repr

def Out.bind {α β} (o : Out α) (f : α → Out β) : Out β :=
  match o with | .ok a => f a | .refused => .refused | .panic => .panic

/-- `GenericArray::from_slice` / `clone_from_slice` / `FieldBytes::from_slice`: panics unless the
slice has exactly the array's length -/
def fromSlice (n : Nat) (b : Bytes) : Out Bytes := if b.length = n then .ok b else .panic
/-- `GenericArray::from_exact_iter(..).ok_or(..)?` -/
def fromExactIter (n : Nat) (b : Bytes) : Out Bytes := if b.length = n then .ok b else .refused
/-- `&x[a..b]`: panics when the range is out of bounds -/
def sliceRange (b : Bytes) (lo hi : Nat) : Out Bytes := if lo ≤ hi ∧ hi ≤ b.length then .ok ((b.take hi).drop lo) else .panic
/-- `EncodedPoint::<NistP256>::from_bytes`: SEC1 tag and length check only -/
def sec1FromBytes (b : Bytes) : Out Bytes :=
  match b with
  | [] => .refused
  | t :: rest =>
    if t = 0 ∧ rest = [] then .ok b
    else if (t = 2 ∨ t = 3) ∧ rest.length = 32 then .ok b
    else if t = 4 ∧ rest.length = 64 then .ok b
    else .refused

/-- current `EncodedPoint::try_from(CoseKey)`: SEC1 bytes of the point -/
def encodedPoint (k : CoseKey) : Out Bytes :=
  match k with
  | .ec2 .P256 x y =>
    (fromExactIter 32 x).bind fun xa =>
    match y with
    | .value y => (fromExactIter 32 y).bind fun ya => .ok (4 :: xa ++ ya)
    | .signBit odd => sec1FromBytes ((if odd then 3 else 2) :: x)
  | _ => .refused

/-- pinned commit: `from_slice` on both coordinates, `x[0..42]` into an 8-byte array for OKP -/
def encodedPointPinned (k : CoseKey) : Out Bytes :=
  match k with
  | .ec2 .P256 x y =>
    (fromSlice 32 x).bind fun xa =>
    match y with
    | .value y => (fromSlice 32 y).bind fun ya => .ok (4 :: xa ++ ya)
    | .signBit odd => sec1FromBytes ((if odd then 3 else 2) :: x)
  | .okp _ x => (sliceRange x 0 42).bind fun s => (fromSlice 8 s).bind sec1FromBytes
  | _ => .refused

/-- coordinates of the MSO device key in `device_authentication` (JWK form: explicit y only; the
curve label is not consulted): the 64 coordinate bytes handed to `VerifyingKey` -/
def deviceKeyCoordinates (k : CoseKey) : Out Bytes :=
  match k with
  | .ec2 _ x (.value y) => (fromExactIter 32 x).bind fun xa => (fromExactIter 32 y).bind fun ya => .ok (xa ++ ya)
  | .ec2 _ _ (.signBit _) => .refused
  | .okp _ _ => .refused

def deviceKeyCoordinatesPinned (k : CoseKey) : Out Bytes :=
  match k with
  | .ec2 _ x (.value y) => (fromSlice 32 x).bind fun xa => (fromSlice 32 y).bind fun ya => .ok (xa ++ ya)
  | .ec2 _ _ (.signBit _) => .refused
  | .okp _ _ => .refused

/-- the stored ephemeral private key in `process_session_establishment` -/
def storedScalar (b : Bytes) : Out Bytes := fromExactIter 32 b
def storedScalarPinned (b : Bytes) : Out Bytes := fromSlice 32 b

/-- `encrypt` / `decrypt`: the counter after the call, refusing once the 32-bit space is used up -/
def nextCounter (c : Nat) : Out Nat := if c = 2 ^ 32 - 1 then .refused else .ok (c + 1)
/-- pinned commit: `*message_count += 1` on a `u32` (overflow check panics; without overflow
checks the counter wraps to 0 and C07's IVs repeat) -/
def nextCounterPinned (c : Nat) : Out Nat := if c = 2 ^ 32 - 1 then .panic else .ok (c + 1)

/-- `ValidityInfo` serialisation: the year of the date once shifted to UTC (an offset moves a date by
less than a day, so the year changes by at most one); `checked_to_offset` refuses outside
-9999..9999, then RFC 3339 formatting refuses outside 0..9999 -/
def validityYearToUtc (utcYear : Int) : Out Int :=
  if utcYear < -9999 ∨ utcYear > 9999 then .refused else if utcYear < 0 then .refused else .ok utcYear
/-- pinned commit: `to_offset` panics outside -9999..9999 -/
def validityYearToUtcPinned (utcYear : Int) : Out Int :=
  if utcYear < -9999 ∨ utcYear > 9999 then .panic else if utcYear < 0 then .refused else .ok utcYear

end IsoMdl.Partial
