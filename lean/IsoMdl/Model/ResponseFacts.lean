import IsoMdl.Model.Cbor
import IsoMdl.Model.Sha2
import IsoMdl.Model.P256
/-
M14 — the cryptographic facts of a delivered DeviceResponse, computed BY THE MODEL from the bytes
on the wire: ECDSA P-256 verification (FIPS 186-4 6.4.2, over the executable curve arithmetic of
Model/P256.lean and the SHA-2 of Model/Sha2.lean) of the issuer signature over
Sig_structure(protected, payload) and of the device signature over
Sig_structure(protected, DeviceAuthenticationBytes(transcript, docType, device namespaces)), the
ISO 18013-5 9.1.2.4 digest comparison of every disclosed item against the signed MSO, and the
docType comparison.  These are the facts `issuerSigAccepts`, `deviceSigAccepts`, `digestsMatch`,
`docTypeMatches` of Model/ReaderAuth.lean; the correspondence harness computes them too (with the
RustCrypto crates) and every run compares the two computations on every delivered response, so the
abstraction function of the harness is itself checked against an independent implementation.
Which certificate key the issuer signature is checked with (the first x5chain certificate's) is an
input here: X.509 parsing stays on the harness side.
-/
namespace IsoMdl.ResponseFacts
open IsoMdl

def tx (s : String) : Cbor := .text (s.toList.map fun c => UInt8.ofNat c.toNat)

def mget (c : Cbor) (k : Cbor) : Option Cbor :=
  match c with
  | .map kvs => (kvs.find? fun e => e.1 == k).map (·.2)
  | _ => none

/-- a STRUCT FIELD of a serde-derived structure: ciborium's `deserialize_identifier` accepts the field
name as a text string or as a byte string with the same bytes (keys of string-keyed maps — namespace
names — are text only and go through `mget`) -/
def fget (c : Cbor) (name : String) : Option Cbor :=
  let nb : Bytes := name.toList.map fun ch => UInt8.ofNat ch.toNat
  match c with
  | .map kvs => (kvs.find? fun e => e.1 == .text nb || e.1 == .bytes nb).map (·.2)
  | _ => none

/-- Rust's `str::from_utf8` acceptance: well-formed UTF-8 without overlong forms, surrogates or code points above U+10FFFF -/
def validUtf8 : Bytes → Bool
  | [] => true
  | b0 :: rest =>
    let c := b0.toNat
    if c < 0x80 then validUtf8 rest
    else if 0xc2 ≤ c && c ≤ 0xdf then
      match rest with
      | b1 :: r => 0x80 ≤ b1.toNat && b1.toNat ≤ 0xbf && validUtf8 r
      | _ => false
    else if 0xe0 ≤ c && c ≤ 0xef then
      match rest with
      | b1 :: b2 :: r =>
        let lo := if c == 0xe0 then 0xa0 else 0x80
        let hi := if c == 0xed then 0x9f else 0xbf
        lo ≤ b1.toNat && b1.toNat ≤ hi && 0x80 ≤ b2.toNat && b2.toNat ≤ 0xbf && validUtf8 r
      | _ => false
    else if 0xf0 ≤ c && c ≤ 0xf4 then
      match rest with
      | b1 :: b2 :: b3 :: r =>
        let lo := if c == 0xf0 then 0x90 else 0x80
        let hi := if c == 0xf4 then 0x8f else 0xbf
        lo ≤ b1.toNat && b1.toNat ≤ hi && 0x80 ≤ b2.toNat && b2.toNat ≤ 0xbf && 0x80 ≤ b3.toNat && b3.toNat ≤ 0xbf && validUtf8 r
      | _ => false
    else false
termination_by bs => bs.length

mutual
/-- what `ciborium::Value` can hold: every text string is valid UTF-8 (`Value::Text` is a `String`) and the only simple
values are false, true, null and undefined (any other simple value is "not a known simple value") -/
def textOk : Cbor → Bool
  | .text b => validUtf8 b
  | .simple n => n == 20 || n == 21 || n == 22 || n == 23
  | .array xs => textOkList xs
  | .map kvs => textOkPairs kvs
  | .tag _ v => textOk v
  | _ => true
def textOkList : List Cbor → Bool
  | [] => true
  | x :: xs => textOk x && textOkList xs
def textOkPairs : List (Cbor × Cbor) → Bool
  | [] => true
  | (k, v) :: kvs => textOk k && textOk v && textOkPairs kvs
end

/-- `cbor::from_slice::<ciborium::Value>`: one item from the front, trailing bytes ignored, text must be UTF-8 -/
def decodeValue (bs : Bytes) : Option Cbor :=
  match Cbor.decode bs with
  | some v => if textOk v then some v else none
  | none => none

def invN (a : Nat) : Nat := P256.powMod a (P256.n - 2) P256.n

/-- ECDSA verification on P-256 with SHA-256 (`p256::ecdsa::VerifyingKey::verify`): signature r ‖ s, 32 bytes each -/
def ecdsaVerify (qx qy : Nat) (msg : Bytes) (sig : Bytes) : Bool :=
  if sig.length != 64 then false else
  let r := fromBe (sig.take 32); let s := fromBe (sig.drop 32)
  if r == 0 || r ≥ P256.n || s == 0 || s ≥ P256.n || !P256.onCurve qx qy then false else
  let e := fromBe (Sha2.sha256 msg)
  let w := invN s
  let u1 := e * w % P256.n; let u2 := r * w % P256.n
  match P256.toAffine (P256.add (P256.mul u1 P256.gx P256.gy) (P256.mul u2 qx qy)) with
  | none => false
  | some (x, _) => x % P256.n == r

def sigStructure (prot payload : Bytes) : Bytes :=
  Cbor.enc (.array [tx "Signature1", .bytes prot, .bytes [], .bytes payload])

/-- a COSE_Sign1 as sent: untagged or tag 18 -/
def coseArr : Cbor → Option (List Cbor)
  | .array a => some a
  | .tag _ (.array a) => some a
  | _ => none

def firstMdl (resp : Cbor) : Option Cbor :=
  match fget resp "documents" with
  | some (.array docs) => docs.find? fun d => fget d "docType" == some (tx "org.iso.18013.5.1.mDL")
  | _ => none

def msoOf (payload : Bytes) : Option Cbor :=
  match decodeValue payload with
  | some (.tag 24 (.bytes b)) => decodeValue b
  | _ => none

def hashWith (alg : Cbor) (b : Bytes) : Bytes :=
  if alg == tx "SHA-384" then Sha2.sha384 b else if alg == tx "SHA-512" then Sha2.sha512 b else Sha2.sha256 b

/-- every disclosed item of every namespace hashes (as the tag-24 item it was sent as) to the MSO's
valueDigests entry for its namespace and digestID -/
def digestsMatch (doc mso : Cbor) : Bool :=
  let alg := (fget mso "digestAlgorithm").getD (.simple 22)
  match fget doc "issuerSigned" with
  | some is =>
    match fget is "nameSpaces" with
    | some (.map nss) =>
      nss.all fun (nsk, items) =>
        let vd := match nsk with
          | .text _ => (fget mso "valueDigests").bind fun v => mget v nsk
          | _ => none
        match items with
        | .array its => its.all fun it =>
          match it with
          | .tag 24 (.bytes b) =>
            (match decodeValue b with
             | some iv => (match fget iv "digestID", vd with
               | some id, some vdm =>
                 (match id with
                  | .uint _ | .nint _ =>
                    (match mget vdm id with
                     | some (.bytes want) => want == hashWith alg (Cbor.enc it)
                     | _ => false)
                  | _ => false)
               | _, _ => false)
             | none => false)
          | _ => false
        | _ => true
    | _ => true
  | none => true

structure Out where
  isa : Bool
  mso : Bool
  dig : Bool
  dt : Bool
  dkey : String
  dsa : Bool

/-- the COSE_Sign1 array of the document's issuerAuth -/
def issuerAuthOf (doc : Cbor) : Option (List Cbor) :=
  ((fget doc "issuerSigned").bind fun i => fget i "issuerAuth").bind coseArr

/-- its attached payload (MobileSecurityObjectBytes) -/
def issuerPayload (doc : Cbor) : Option Bytes :=
  match issuerAuthOf doc with | some [_, _, .bytes p, _] => some p | _ => none

/-- the MSO the document carries: decoded from the payload the issuer signature covers -/
def msoOfDoc (doc : Cbor) : Option Cbor := (issuerPayload doc).bind msoOf

/-- the holder's key as the MSO names it: its kind, and its affine coordinates if it is a P-256 point on the curve -/
def deviceKeyOf (mso : Option Cbor) : String × Option (Nat × Nat) :=
  let dk := (mso.bind fun m => fget m "deviceKeyInfo").bind fun k => fget k "deviceKey"
  match dk with
  | some (.map m) =>
    (match mget (.map m) (.uint 1), mget (.map m) (.nint 1), mget (.map m) (.nint 2) with
     | some (.uint 2), some (.bytes x), some (.bytes y) =>
       if x.length != 32 || y.length != 32 then ("badlen", none)
       else if P256.onCurve (fromBe x) (fromBe y) then ("p256", some (fromBe x, fromBe y)) else ("offcurve", none)
     | some (.uint 2), _, some (.simple 20) => ("compressed", none)
     | some (.uint 2), _, some (.simple 21) => ("compressed", none)
     | _, _, _ => ("okp", none))
  | _ => ("okp", none)

/-- DeviceAuthenticationBytes as the reader rebuilds them: the session transcript, the document's docType and
its DeviceNameSpacesBytes, each as the CBOR item received -/
def deviceAuthBytes (transcript docType dns : Cbor) : Bytes :=
  Cbor.enc (.tag 24 (.bytes (Cbor.enc (.array [tx "DeviceAuthentication", transcript, docType, dns]))))

/-- the device signature of the document verifies under `dvk` over Sig_structure(protected, DeviceAuthenticationBytes) -/
def deviceSigAccepts (doc transcript : Cbor) (dvk : Option (Nat × Nat)) : Bool :=
  let ds := (((fget doc "deviceSigned").bind fun s => fget s "deviceAuth").bind fun a => fget a "deviceSignature").bind coseArr
  match ds, dvk, fget doc "docType", (fget doc "deviceSigned").bind (fun s => fget s "nameSpaces") with
  | some [.bytes dprot, _, _, .bytes dsig], some (x, y), some docType, some dns =>
    ecdsaVerify x y (sigStructure dprot (deviceAuthBytes transcript docType dns)) dsig
  | _, _, _, _ => false

/-- `ikey`: affine coordinates of the first x5chain certificate's key, if it is a P-256 key -/
def compute (resp transcript : Cbor) (ikey : Option (Nat × Nat)) : Out :=
  match firstMdl resp with
  | none => ⟨false, false, false, false, "okp", false⟩
  | some doc =>
    let ia := issuerAuthOf doc
    let prot := match ia with | some (.bytes p :: _) => p | _ => []
    let isig := match ia with | some [_, _, _, .bytes s] => s | _ => []
    let isa := match ikey with
      | some (x, y) => ecdsaVerify x y (sigStructure prot ((issuerPayload doc).getD [])) isig
      | none => false
    let mso := msoOfDoc doc
    let dig := match mso with | some m => digestsMatch doc m | none => false
    let dt := match mso.bind (fun m => fget m "docType"), fget doc "docType" with
      | some a, some b => a == b
      | _, _ => false
    let dk := deviceKeyOf mso
    ⟨isa, mso.isSome, dig, dt, dk.1, deviceSigAccepts doc transcript dk.2⟩

/-! ### reader authentication (C11): the same for one document request -/

/-- the readerAuth signature of a document request verifies, under the given key, over
Sig_structure(protected, ReaderAuthenticationBytes(transcript, ItemsRequestBytes AS RECEIVED)) -/
def readerSigAccepts (docRequest transcript : Cbor) (key : Option (Nat × Nat)) : Bool :=
  match fget docRequest "itemsRequest", (fget docRequest "readerAuth").bind coseArr, key with
  | some (.tag 24 (.bytes items)), some [.bytes prot, _, _, .bytes sig], some (x, y) =>
    let ra := Cbor.enc (.array [tx "ReaderAuthentication", transcript, .tag 24 (.bytes items)])
    let raBytes := Cbor.enc (.tag 24 (.bytes ra))
    ecdsaVerify x y (sigStructure prot raBytes) sig
  | _, _, _ => false

end IsoMdl.ResponseFacts
