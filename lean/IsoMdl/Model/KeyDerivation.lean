import IsoMdl.Model.Wire
import IsoMdl.Model.Sha2
import IsoMdl.Model.P256
/-
M6 — `definitions::session::{get_shared_secret, derive_session_key}`,
`presentation::calculate_ble_ident` and `TryFrom<CoseKey> for EncodedPoint`
(src/definitions/device_key/cose_key.rs).  SHA-256 / HKDF / P-256 are the executable instances
of Model/Sha2.lean and Model/P256.lean: this module IS the independent implementation the
property asks for; the harness hands it only bytes from the wire and the scalars.
-/
namespace IsoMdl.KeyDerivation
open IsoMdl IsoMdl.Cbor IsoMdl.Wire

inductive Refusal where
  | invalidCoseKey       -- unsupported curve, malformed compressed point
  | notOnCurve           -- "reader's public key could not be constructed"
  deriving DecidableEq, Repr

/-- ok / refused with an error / Rust panic -/
inductive Out (α : Type) where
  | ok (a : α) | refused (r : Refusal) | panic
  deriving Repr

/-- `EncodedPoint::try_from(CoseKey)` followed by `PublicKey::from_encoded_point`: the affine point
that will be used, if the key is accepted.  Coordinates of a length other than 32 are refused
(since the `fix:` commit; they used to panic in `GenericArray::from_slice`). -/
def peerPoint (k : CoseKey) : Out (Nat × Nat) :=
  match k with
  | .ec2 .P256 x (.value y) =>
    if x.length ≠ 32 ∨ y.length ≠ 32 then .refused .invalidCoseKey else
    if P256.onCurve (fromBe x) (fromBe y) then .ok (fromBe x, fromBe y) else .refused .notOnCurve
  | .ec2 .P256 x (.signBit odd) =>
    if x.length ≠ 32 then .refused .invalidCoseKey else
    match P256.decompress (fromBe x) odd with
    | some y => .ok (fromBe x, y)
    | none => .refused .notOnCurve
  | .ec2 _ _ _ => .refused .invalidCoseKey
  | .okp _ _ => .refused .invalidCoseKey

/-- `get_shared_secret`: ECDH x-coordinate with the own scalar -/
def sharedSecret (k : CoseKey) (scalar : Nat) : Out Bytes :=
  match peerPoint k with
  | .ok (x, y) => match P256.ecdhX scalar x y with
    | some z => .ok z
    | none => .refused .notOnCurve
  | .refused r => .refused r
  | .panic => .panic

def skReaderLabel : Bytes := asciiBytes "SKReader"
def skDeviceLabel : Bytes := asciiBytes "SKDevice"
def bleLabel : Bytes := asciiBytes "BLEIdent"

/-- SessionTranscriptBytes as they go into the hash: `#6.24(bstr transcriptBytes)` -/
def transcriptBytesEncoded (transcriptInner : Bytes) : Bytes := enc (.tag 24 (.bytes transcriptInner))

/-- `derive_session_key` (ISO 18013-5 9.1.1.5): HKDF-SHA-256, IKM = Z_AB, salt = SHA-256(SessionTranscriptBytes) -/
def sessionKey (z transcriptInner : Bytes) (reader : Bool) : Bytes :=
  Sha2.hkdf256 (Sha2.sha256 (transcriptBytesEncoded transcriptInner)) z (if reader then skReaderLabel else skDeviceLabel) 32

/-- `calculate_ble_ident` (8.3.3.1.1.3): HKDF-SHA-256, IKM = EDeviceKeyBytes, empty salt, 16 bytes -/
def bleIdent (eDeviceKeyInner : Bytes) : Bytes :=
  Sha2.hkdf256 [] (enc (.tag 24 (.bytes eDeviceKeyInner))) bleLabel 16

end IsoMdl.KeyDerivation
