import IsoMdl.Model.Wire
import IsoMdl.Model.Sha2
import IsoMdl.Model.P256
/-
M6 — `definitions::session::{get_shared_secret, derive_session_key}`,
`presentation::calculate_ble_ident` and `TryFrom<CoseKey> for EncodedPoint`
(src/definitions/device_key/cose_key.rs).  SHA-256 / HKDF / P-256 are the executable instances
of Model/Sha2.lean and Model/P256.lean: this module IS the independent implementation the
property asks for; the harness hands it only bytes from the wire and the scalars.
-/
namespace IsoMdl.KeyDerivation
open IsoMdl IsoMdl.Cbor IsoMdl.Wire

inductive Refusal where
  | invalidCoseKey       -- unsupported curve, malformed compressed point
  | notOnCurve           -- "reader's public key could not be constructed"
  deriving DecidableEq, Repr

/-- ok / refused with an error / Rust panic -/
inductive Out (α : Type) where
  | ok (a : α) | refused (r : Refusal) | panic
  deriving DecidableEq, Repr

/-- `EncodedPoint::try_from(CoseKey)` followed by `PublicKey::from_encoded_point`: the affine point
that will be used, if the key is accepted.  Coordinates of a length other than 32 are refused
(since the `fix:` commit; they used to panic in `GenericArray::from_slice`). -/
def peerPoint (k : CoseKey) : Out (Nat × Nat) :=
  match k with
  | .ec2 .P256 x (.value y) =>
    if x.length ≠ 32 ∨ y.length ≠ 32 then .refused .invalidCoseKey else
    if P256.onCurve (fromBe x) (fromBe y) then .ok (fromBe x, fromBe y) else .refused .notOnCurve
  | .ec2 .P256 x (.signBit odd) =>
    if x.length ≠ 32 then .refused .invalidCoseKey else
    match P256.decompress (fromBe x) odd with
    | some y => .ok (fromBe x, y)
    | none => .refused .notOnCurve
  | .ec2 _ _ _ => .refused .invalidCoseKey
  | .okp _ _ => .refused .invalidCoseKey

/-- `get_shared_secret`: ECDH x-coordinate with the own scalar -/
def sharedSecret (k : CoseKey) (scalar : Nat) : Out Bytes :=
  match peerPoint k with
  | .ok (x, y) => match P256.ecdhX scalar x y with
    | some z => .ok z
    | none => .refused .notOnCurve
  | .refused r => .refused r
  | .panic => .panic

def skReaderLabel : Bytes := asciiBytes "SKReader"
def skDeviceLabel : Bytes := asciiBytes "SKDevice"
def bleLabel : Bytes := asciiBytes "BLEIdent"

/-- SessionTranscriptBytes as they go into the hash: `#6.24(bstr transcriptBytes)` -/
def transcriptBytesEncoded (transcriptInner : Bytes) : Bytes := enc (.tag 24 (.bytes transcriptInner))

/-- `derive_session_key` (ISO 18013-5 9.1.1.5): HKDF-SHA-256, IKM = Z_AB, salt = SHA-256(SessionTranscriptBytes) -/
def sessionKey (z transcriptInner : Bytes) (reader : Bool) : Bytes :=
  Sha2.hkdf256 (Sha2.sha256 (transcriptBytesEncoded transcriptInner)) z (if reader then skReaderLabel else skDeviceLabel) 32

/-- `calculate_ble_ident` (8.3.3.1.1.3): HKDF-SHA-256, IKM = EDeviceKeyBytes, empty salt, 16 bytes -/
def bleIdent (eDeviceKeyInner : Bytes) : Bytes :=
  Sha2.hkdf256 [] (enc (.tag 24 (.bytes eDeviceKeyInner))) bleLabel 16

/-- SessionTranscript (9.1.5.1) from the bytes on the wire: the engagement bytes as they were
transported (QR), the EReaderKey bytes as they appear in the SessionEstablishment, the handover -/
def transcriptOfWire (engagement eReaderKeyInner : Bytes) (handover : Cbor) : Bytes :=
  enc (.array [.tag 24 (.bytes engagement), .tag 24 (.bytes eReaderKeyInner), handover])

/-- EDeviceKeyBytes' inner bytes inside a DeviceEngagement: `{0: version, 1: [suite, #6.24(bstr)], ..}` -/
def engagementDeviceKey (engagement : Bytes) : Option Bytes :=
  match decode engagement with
  | some (.map m) =>
    match lookup (.uint 1) m with
    | some (.array [_, .tag 24 (.bytes k)]) => some k
    | _ => none
  | _ => none

def coseKeyOfBytes (b : Bytes) : Option CoseKey := (decode b).bind CoseKey.fromCbor

/-- both session keys as the DEVICE derives them: own scalar, the reader's key from the establishment -/
def deviceSession (engagement eReaderKeyInner : Bytes) (handover : Cbor) (scalar : Nat) : Out (Bytes × Bytes) :=
  match coseKeyOfBytes eReaderKeyInner with
  | none => .refused .invalidCoseKey
  | some k =>
    match sharedSecret k scalar with
    | .ok z =>
      let t := transcriptOfWire engagement eReaderKeyInner handover
      .ok (sessionKey z t true, sessionKey z t false)
    | .refused r => .refused r
    | .panic => .panic

end IsoMdl.KeyDerivation
