import IsoMdl.Model.Util
import IsoMdl.Generated.Leaf
import IsoMdl.Model.SessionTypes
import IsoMdl.Model.StateCodec
/-
Model of the session layer shared by C06, C07, C13, C14:
  * `definitions::session::{encrypt,decrypt}` counter side effects (the IV itself is the
    *generated* `getInitializationVector`),
  * `presentation::device::SessionManager` (`handle_request`, `handle_decoded_request`,
    `prepare_response`, `get_next_signature_payload`, `submit_next_signature`, `response_ready`,
    `retrieve_response`) and its `State`,
  * `presentation::reader::SessionManager` (`new_request`, `handle_response` up to decryption).
Ciphertexts are symbolic: `Msg.ct` records who produced it, in which session, as which message
of its direction, and whether it was modified afterwards.  "Decrypts iff produced by the peer
under the current keys with the IV the receiver computes" is exactly the AEAD integrity
assumption (`Crypto.Ideal` in DESIGN.md); everything else is the library's own bookkeeping.
-/
namespace IsoMdl.Session
open IsoMdl

/-- the counter value `get_initialization_vector` leaves behind = the one inside the IV -/
def bump (c : UInt32) : UInt32 := (Generated.getInitializationVector c true).1

/-- the 32-bit counter space of a direction is used up: `encrypt` / `decrypt` refuse (since the C15
`fix:` commit) instead of wrapping into a used IV -/
def atMax (c : UInt32) : Bool := c == 4294967295

/-- AEAD acceptance: the receiver computes IV(dir, ctr') and the ciphertext was made with
IV(dir', n) under session `sess'` keys. -/
def accepts (wantFromReader : Bool) (mySess : Nat) (ctr' : UInt32)
    (fromReader : Bool) (sess : Nat) (n : Nat) (tampered : Bool) : Bool :=
  fromReader == wantFromReader && sess == mySess && n == ctr'.toNat && !tampered

/-- `finalize_if_complete`: a prepared response with no document left to sign (possibly none to
begin with) is built, encrypted with the next device counter and staged for retrieval -/
def Device.finalizeIfComplete (d : Device) : Device :=
  match d.st with
  | .signing [] signed status =>
    if atMax d.encCtr then
      -- `encrypt_device_data` refuses: SessionData { status: 10 (session encryption error), no data }
      { d with st := .ready .noData }
    else
      let c' := bump d.encCtr
      { d with encCtr := c', st := .ready (.ct false d.sess c'.toNat (.response status signed) false) }
  | _ => d

def Device.handleRequest (d : Device) : Msg → Device × Outcome
  | .garbage => (d, .parsingError)
  | .noData => (d, .parsingError)
  | .ct fr s n p t =>
    if atMax d.decCtr then (d, .decryptionError) else    -- `decrypt_reader_data` refuses, the counter stays
    let c' := bump d.decCtr
    let d := { d with decCtr := c' }
    if accepts true d.sess c' fr s n t then
      match p with
      | .request => (d, .accepted p)
      | .notCbor => (({ d with st := .signing [] [] 11 } : Device).finalizeIfComplete, .accepted p)
      | .notRequest => (({ d with st := .signing [] [] 12 } : Device).finalizeIfComplete, .accepted p)
      | .response .. => (({ d with st := .signing [] [] 12 } : Device).finalizeIfComplete, .accepted p)
    else (d, .decryptionError)

/-- `prepare_response`: overwrites the state whatever it was. `docs` in `prepared_documents` order. -/
def Device.prepare (d : Device) (docs : List Nat) : Device :=
  ({ d with st := .signing docs [] 0 } : Device).finalizeIfComplete

/-- `get_next_signature_payload`: the *last* prepared document. -/
def Device.getNext (d : Device) : Option Nat :=
  match d.st with
  | .signing prepared _ _ => prepared.getLast?
  | _ => none

def Device.responseReady (d : Device) : Bool :=
  match d.st with
  | .ready _ => true
  | _ => false

/-- `PreparedDeviceResponse::submit_next_signature`: pop the last prepared document -/
def attach (prepared : List Nat) (signed : List (Nat × Nat)) (sig : Nat) : List Nat × List (Nat × Nat) :=
  match prepared.getLast? with
  | some doc => (prepared.dropLast, signed ++ [(doc, sig)])
  | none => (prepared, signed)

/-- `submit_next_signature` -/
def Device.submit (d : Device) (sig : Nat) : Device :=
  match d.st with
  | .signing prepared signed status =>
    ({ d with st := .signing (attach prepared signed sig).1 (attach prepared signed sig).2 status } : Device).finalizeIfComplete
  | _ => d

/-- `retrieve_response` -/
def Device.retrieve (d : Device) : Device × Option Msg :=
  match d.st with
  | .ready m => ({ d with st := .awaiting }, some m)
  | _ => (d, none)

/-- `new_request` / `build_request` -/
def Reader.newRequest (r : Reader) : Reader × Option Msg :=
  if atMax r.encCtr then (r, none) else    -- "unable to encrypt request"
  let c' := bump r.encCtr
  ({ r with encCtr := c' }, some (.ct true r.sess c'.toNat .request false))

/-- `handle_response` up to and including decryption -/
def Reader.handleResponse (r : Reader) : Msg → Reader × Outcome
  | .garbage => (r, .parsingError)
  | .noData => (r, .statusOnly)
  | .ct fr s n p t =>
    if atMax r.decCtr then (r, .decryptionError) else
    let c' := bump r.decCtr
    let r := { r with decCtr := c' }
    if accepts false r.sess c' fr s n t then (r, .accepted p) else (r, .decryptionError)

/-- one call of the public API of either role (the alphabet of C07/C13's quantifier);
`restore*` is stringify followed by parse. -/
inductive Op where
  | newRequest
  | handleRequest (m : Msg)
  | prepare (docs : List Nat)
  | getNext
  | submit (sig : Nat)
  | responseReady
  | retrieve
  | handleResponse (m : Msg)
  | restoreDevice
  | restoreReader
  deriving DecidableEq, Repr

structure World where
  dev : Device
  rdr : Reader
  /-- ghost: every encryption performed, in order: (by reader?, counter inside the IV, IV bytes) -/
  log : List (Bool × UInt32 × Bytes)
  deriving DecidableEq, Repr

def ivOf (reader : Bool) (before : UInt32) : Bytes := (Generated.getInitializationVector before reader).2

/-- record an encryption if the device's counter moved -/
def World.withDev (w : World) (d : Device) : World :=
  if d.encCtr == w.dev.encCtr then { w with dev := d }
  else { w with dev := d, log := w.log ++ [(false, d.encCtr, ivOf false w.dev.encCtr)] }

def World.step (w : World) : Op → World
  | .newRequest =>
    match w.rdr.newRequest with
    | (r, some _) => { w with rdr := r, log := w.log ++ [(true, r.encCtr, ivOf true w.rdr.encCtr)] }
    | (_, none) => w
  | .handleRequest m => w.withDev (w.dev.handleRequest m).1
  | .prepare docs => w.withDev (w.dev.prepare docs)
  | .getNext => w
  | .submit sig => w.withDev (w.dev.submit sig)
  | .responseReady => w
  | .retrieve => { w with dev := (w.dev.retrieve).1 }
  | .handleResponse m => { w with rdr := (w.rdr.handleResponse m).1 }
  -- stringify followed by parse of the role's object (serde layer of Model/StateCodec.lean; the
  -- base64 and CBOR byte layers have their own round-trip theorems).  `restore_device_some` /
  -- `restore_reader_some` (Lemmas/Session.lean) prove the `none` branches dead.
  | .restoreDevice => match StateCodec.devOfCbor (StateCodec.devToCbor w.dev) with
    | some d => { w with dev := d }
    | none => w
  | .restoreReader => match StateCodec.rdrOfCbor (StateCodec.rdrToCbor w.rdr) with
    | some r => { w with rdr := r }
    | none => w

def World.run (w : World) (ops : List Op) : World := ops.foldl World.step w

/-- state right after session establishment: the reader has sent message 1 (inside
SessionEstablishment) and the device has consumed it. -/
def World.established (sess : Nat) : World :=
  { dev := { sess := sess, encCtr := 0, decCtr := 1, st := .awaiting },
    rdr := { sess := sess, encCtr := 1, decCtr := 0 },
    log := [(true, 1, ivOf true 0)] }

end IsoMdl.Session
