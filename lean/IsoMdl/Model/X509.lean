/-
M9 — `definitions::x509::validation` (mod.rs, extensions/*.rs, names.rs, validity.rs,
trust_anchor.rs) over an abstract certificate: what DER decoding (x509-cert) and signature
verification (p256) deliver is data of the abstract certificate; isomdl's own logic — the three
rule sets, the required-extension loop with `found` flags, disallowed and unknown-critical
extensions, per-extension checks, the trust-anchor candidate filter chain, name matching — is
modelled as written.  Time: `now = 0`; validity bounds are relative to the validation instant.
-/
namespace IsoMdl.X509

/-- extension identities the validators distinguish -/
inductive ExtId where
  | ski | ku | eku | bc | crldp | ian | aki
  | disallowed (n : Nat)     -- PolicyMappings, NameConstraints, PolicyConstraints, InhibitAnyPolicy, FreshestCrl
  | other (n : Nat)
  deriving DecidableEq, Repr

structure DistPoint where
  uriFullName : Bool         -- distribution point is a full name containing a URI
  reasons : Bool
  crlIssuer : Bool
  deriving DecidableEq, Repr

/-- decoded payload of an extension (`undecodable`: `from_der` fails) -/
inductive Payload where
  | undecodable
  | ski (id : Nat)
  | ku (flags : List Nat)                 -- sorted list of KeyUsages bit positions
  | eku (oids : List Nat)                 -- 2 = DS (1.0.18013.5.1.2), 6 = reader (1.0.18013.5.1.6), others by number
  | bc (ca : Bool) (pathLen : Option Nat)
  | crldp (points : List DistPoint)
  | ian (onlyEmailOrUri : Bool)
  | aki (keyId : Option Nat)
  | opaque
  deriving DecidableEq, Repr

structure Ext where
  id : ExtId
  critical : Bool
  payload : Payload
  deriving DecidableEq, Repr

structure Cert where
  notBefore : Int            -- seconds relative to now
  notAfter : Int
  subject : Nat              -- distinguished name (identity of the whole Name)
  issuer : Nat
  countries : List Nat       -- countryName attribute values of the subject, in order
  states : List Nat          -- stateOrProvinceName attribute values of the subject
  keyHash : Nat              -- SHA-1 of the subject public key bits
  keyIsP256 : Bool           -- SPKI parses as a P-256 key
  signedBy : List Nat        -- key hashes of the P-256 keys under which this certificate's signature verifies
  exts : List Ext
  deriving DecidableEq, Repr

inductive Purpose where | iaca | readerCa
  deriving DecidableEq, Repr

structure Anchor where
  cert : Cert
  purpose : Purpose
  deriving DecidableEq, Repr

inductive Ruleset where | mdl | aamvaMdl | mdlReaderOneStep
  deriving DecidableEq, Repr

inductive Err where
  | expired | notYetValid
  | notAllowed (n : Nat)
  | unknownCritical (id : ExtId)
  | requiredNotFound (id : ExtId)
  | extInvalid (id : ExtId)
  | noTrustAnchor
  | nameMissing | nameMultiple | nameMismatch
  deriving DecidableEq, Repr

/-- `check_validity_period` -/
def checkValidity (c : Cert) : List Err :=
  (if c.notAfter < 0 then [.expired] else []) ++ (if c.notBefore > 0 then [.notYetValid] else [])

/-- which roles a leaf / anchor is validated as -/
inductive Role where | ds | reader | iaca
  deriving DecidableEq, Repr

def requiredIds : Role → List ExtId
  | .ds => [.ski, .eku, .ku, .crldp, .ian]
  | .reader => [.ski, .eku, .ku, .crldp, .ian]
  | .iaca => [.ski, .ku, .bc, .crldp, .ian]

/-- per-extension check of the validator for `id` in role `role`; number of errors it reports -/
def extErrors (role : Role) (c : Cert) (e : Ext) : Nat :=
  match e.id, e.payload with
  | _, .undecodable => 1
  | .ski, .ski id => if id = c.keyHash then 0 else 1
  | .ku, .ku flags =>
    let expected := match role with | .iaca => [5, 6] | _ => [0]      -- keyCertSign(5)+cRLSign(6) / digitalSignature(0)
    if flags = expected then 0 else 1
  | .eku, .eku oids =>
    let want := match role with | .reader => 6 | _ => 2
    if !(oids.all (· = want)) then 1 else if oids.isEmpty then 1 else 0
  | .bc, .bc ca pl => if (match pl with | some 0 => false | _ => true) || !ca then 1 else 0
  | .crldp, .crldp pts =>
    if pts.isEmpty then 1 else
    (pts.map fun p => (if p.crlIssuer then 1 else 0) + (if p.reasons then 1 else 0) + (if p.uriFullName then 0 else 1)).sum
  | .ian, .ian ok => if ok then 0 else 1
  | _, _ => 1      -- payload of another shape under this OID: decoding as the expected type fails

/-- `check_for_disallowed_x509_extensions` -/
def disallowedErrors (c : Cert) : List Err :=
  c.exts.filterMap fun e => match e.id with | .disallowed n => some (.notAllowed n) | _ => none

/-- `ExtensionValidators::validate_extensions`: every extension goes to the validator with its OID
(if any), else it is an error when critical; afterwards every validator that was never used
reports its extension as missing. -/
def validateExtensions (role : Role) (c : Cert) : List Err :=
  let req := requiredIds role
  let perExt := c.exts.flatMap fun e =>
    if req.contains e.id then List.replicate (extErrors role c e) (.extInvalid e.id)
    else if e.critical then [.unknownCritical e.id] else []
  let missing := req.filterMap fun id => if c.exts.any (·.id == id) then none else some (.requiredNotFound id)
  perExt ++ missing

def roleErrors (role : Role) (c : Cert) : List Err := disallowedErrors c ++ validateExtensions role c

/-- `key_identifier_check`: some decodable AKI of the subject with a key id equal to some decodable SKI of the issuer -/
def keyIdentifierCheck (issuer subject : Cert) : Bool :=
  let skis := issuer.exts.filterMap fun e => match e.id, e.payload with | .ski, .ski id => some id | _, _ => none
  let akis := subject.exts.filterMap fun e => match e.id, e.payload with | .aki, .aki (some k) => some k | _, _ => none
  akis.any fun k => skis.contains k

/-- `issuer_signed_subject` -/
def issuerSigned (subject issuer : Cert) : Bool := issuer.keyIsP256 && subject.signedBy.contains issuer.keyHash

/-- `find_trust_anchor_candidates` -/
def candidates (subject : Cert) (anchors : List Anchor) (p : Purpose) : List Cert :=
  ((anchors.filterMap fun a => if a.purpose = p then some a.cert else none)
    |>.filter (fun c => c.subject = subject.issuer)
    |>.filter (fun c => keyIdentifierCheck c subject)
    |>.filter (fun c => issuerSigned subject c)
    |>.filter (fun c => (checkValidity c).isEmpty))

/-- `name_matches` -/
def nameMatches (this that : List Nat) : Option Err :=
  match this, that with
  | [], _ => some .nameMissing
  | _ :: _, [] => some .nameMissing
  | [a], [b] => if a = b then none else some .nameMismatch
  | _, _ => some .nameMultiple

def mdlInner (leaf : Cert) (anchors : List Anchor) : List Err × Option Cert :=
  let errs := checkValidity leaf ++ roleErrors .ds leaf
  match candidates leaf anchors .iaca with
  | [] => (errs ++ [.noTrustAnchor], none)
  | iaca :: _ =>
    (errs ++ (match nameMatches leaf.countries iaca.countries with | some e => [e] | none => []) ++ roleErrors .iaca iaca, some iaca)

/-- `ValidationRuleset::validate(..).errors` -/
def validate (rs : Ruleset) (leaf : Cert) (anchors : List Anchor) : List Err :=
  match rs with
  | .mdl =>
    match mdlInner leaf anchors with
    | (errs, none) => errs
    | (errs, some iaca) =>
      if !leaf.states.isEmpty || !iaca.states.isEmpty then
        errs ++ (match nameMatches leaf.states iaca.states with | some e => [e] | none => [])
      else errs
  | .aamvaMdl =>
    match mdlInner leaf anchors with
    | (errs, none) => errs
    | (errs, some iaca) => errs ++ (match nameMatches leaf.states iaca.states with | some e => [e] | none => [])
  | .mdlReaderOneStep =>
    let errs := checkValidity leaf ++ roleErrors .reader leaf
    match candidates leaf anchors .readerCa with
    | [] => errs ++ [.noTrustAnchor]
    | _ :: _ => errs

end IsoMdl.X509
