import IsoMdl.Model.Util
/-
Model of `presentation::device::{nearest_age_attestation, parse_age_from_element_identifier,
AgeOver::try_from}` (src/presentation/device.rs).  Items are abstract (`α`): the function only
moves them around.  `isTrue` is the test `element_value == ciborium::Value::Bool(true)`.
-/
namespace IsoMdl.Age
open IsoMdl

inductive Err where
  | prefix    -- `Error::PrefixError`
  | parseInt  -- `Error::ParsingError` (from `ParseIntError`)
  deriving DecidableEq, Repr

def digitVal (b : UInt8) : Option Nat :=
  if 48 ≤ b.toNat ∧ b.toNat ≤ 57 then some (b.toNat - 48) else none

/-- digits of `u8::from_str` after the optional sign: every byte a digit, accumulate with
overflow check against 255 (Rust reports `PosOverflow`). -/
def parseDigits : Bytes → Nat → Option Nat
  | [], acc => some acc
  | b :: rest, acc =>
    match digitVal b with
    | none => none
    | some d => if acc * 10 + d > 255 then none else parseDigits rest (acc * 10 + d)

/-- Rust `str::parse::<u8>`: empty is an error, a single leading `+` is accepted (a lone sign is
an error), `-` is not a digit for unsigned types. -/
def parseU8 (s : Bytes) : Option Nat :=
  match s with
  | [] => none
  | [b] => if b == 43 || b == 45 then none else parseDigits [b] 0
  | b :: rest => if b == 43 then parseDigits rest 0 else parseDigits (b :: rest) 0

def agePrefix : Bytes := [97,103,101,95,111,118,101,114,95]   -- "age_over_"
def ageNeedle : Bytes := [97,103,101,95,111,118,101,114]      -- "age_over"

/-- `AgeOver::try_from` / `parse_age_from_element_identifier`. -/
def ageOf (id : Bytes) : Except Err Nat :=
  match stripPrefixB agePrefix id with
  | none => .error .prefix
  | some x => match parseU8 x with
    | none => .error .parseInt
    | some n => .ok n

structure Claim (α : Type) where
  age : Nat
  isTrue : Bool
  item : α

/-- the `.map(..).collect::<Result<Vec<_>,_>>()` : first error wins. -/
def numerical {α} : List (Bytes × Bool × α) → Except Err (List (Claim α))
  | [] => .ok []
  | (id, t, it) :: rest =>
    match ageOf id with
    | .error e => .error e
    | .ok a => match numerical rest with
      | .error e => .error e
      | .ok cs => .ok ({ age := a, isTrue := t, item := it } :: cs)

/-- `Iterator::min_by_key` : the first minimal element. -/
def minByAge {α} : List (Claim α) → Option (Claim α)
  | [] => none
  | c :: rest => some (rest.foldl (fun best x => if x.age < best.age then x else best) c)

/-- `Iterator::max_by_key` : the last maximal element. -/
def maxByAge {α} : List (Claim α) → Option (Claim α)
  | [] => none
  | c :: rest => some (rest.foldl (fun best x => if x.age ≥ best.age then x else best) c)

def select {α} (n : Nat) (cs : List (Claim α)) : Option (Claim α) :=
  match minByAge ((cs.filter (·.isTrue)).filter (fun c => c.age ≥ n)) with
  | some c => some c
  | none => maxByAge ((cs.filter (fun c => !c.isTrue)).filter (fun c => c.age ≤ n))

/-- `nearest_age_attestation`; `items` is the `BTreeMap` content in key order. -/
def nearest {α} (req : Bytes) (items : List (Bytes × Bool × α)) : Except Err (Option α) :=
  match ageOf req with
  | .error e => .error e
  | .ok n =>
    match numerical (items.filter (fun e => containsB ageNeedle e.1)) with
    | .error e => .error e
    | .ok cs => .ok ((select n cs).map (·.item))

end IsoMdl.Age
