import IsoMdl.Model.Cbor
/-
M13 — what the reader REPORTS: `parse_namespaces` / `parse_response` of src/presentation/reader.rs,
the conversion of the disclosed element values of the mDL document into the JSON handed to the
application (`ResponseAuthenticationOutcome.response`).

  * only the two namespaces `org.iso.18013.5.1` and `org.iso.18013.5.1.aamva` of the FIRST document of
    type mDL are looked at;
  * an element whose value has no JSON form (float, null, undefined, a tag around anything but text, …)
    is left out, the others are entered under their identifier — a later item with the same identifier
    replaces an earlier one (`BTreeMap::insert`);
  * text → string, tag(text) → string (full-date, tdate), byte string → array of numbers, integer →
    number, bool → bool, array → array (all elements must convert), map → object (entries with a
    non-text key are skipped, values must convert, later duplicate keys replace earlier ones; keys come
    out in byte order: `serde_json::Map` is a `BTreeMap`).
-/
namespace IsoMdl.Report
open IsoMdl

inductive RJson where
  | str (b : Bytes)          -- UTF-8
  | num (i : Int)
  | bool (b : Bool)
  | arr (l : List RJson)
  | obj (kvs : List (Bytes × RJson))
  deriving Repr, Inhabited

/-- byte-wise lexicographic order (Rust `String: Ord`) -/
def bytesLt : Bytes → Bytes → Bool
  | [], [] => false
  | [], _ :: _ => true
  | _ :: _, [] => false
  | a :: as, b :: bs => if a.toNat < b.toNat then true else if b.toNat < a.toNat then false else bytesLt as bs

/-- put an entry with a NEW key at its place in a list kept in increasing key order -/
def place {α : Type} (k : Bytes) (v : α) : List (Bytes × α) → List (Bytes × α)
  | [] => [(k, v)]
  | (k', v') :: rest => if bytesLt k k' then (k, v) :: (k', v') :: rest else (k', v') :: place k v rest

/-- `BTreeMap::insert`: an existing entry with this key is replaced; keys stay strictly increasing -/
def insertKey {α : Type} (k : Bytes) (v : α) (l : List (Bytes × α)) : List (Bytes × α) :=
  place k v (l.filter fun e => e.1 != k)

/-- inserting the entries left to right = an EARLIER entry only survives if no later one has its key -/
def insertLate (k : Bytes) (j : RJson) (later : List (Bytes × RJson)) : List (Bytes × RJson) :=
  if later.any (fun e => e.1 == k) then later else insertKey k j later

mutual
/-- `parse_response` -/
def reportValue : Cbor → Option RJson
  | .text s => some (.str s)
  | .tag _ (.text d) => some (.str d)
  | .tag _ _ => none
  | .array xs => (reportList xs).map .arr
  | .map kvs => (reportPairs kvs).map .obj
  | .bytes b => some (.arr (b.map fun x => .num x.toNat))
  | .simple 20 => some (.bool false)
  | .simple 21 => some (.bool true)
  | .uint n => some (.num n)
  | .nint n => some (.num (-1 - (n : Int)))
  | _ => none
def reportList : List Cbor → Option (List RJson)
  | [] => some []
  | x :: xs => match reportValue x, reportList xs with
    | some j, some js => some (j :: js)
    | _, _ => none
/-- entries in source order; the object is built by successive inserts (see `objOf`) -/
def reportPairs : List (Cbor × Cbor) → Option (List (Bytes × RJson))
  | [] => some []
  | (k, v) :: kvs =>
    match k with
    | .text kb => match reportValue v, reportPairs kvs with
      | some j, some js => some (insertLate kb j js)
      | _, _ => none
    | _ => reportPairs kvs     -- an entry whose key is not text is skipped, its value is not even converted
end

/-- the disclosed items of one namespace: (identifier, value) in the order sent -/
def namespaceObject (items : List (Bytes × Cbor)) : List (Bytes × RJson) :=
  items.foldl (fun acc it => match reportValue it.2 with
    | some j => insertKey it.1 j acc
    | none => acc) []

def coreNs : Bytes := "org.iso.18013.5.1".toList.map fun c => UInt8.ofNat c.toNat
def aamvaNs : Bytes := "org.iso.18013.5.1.aamva".toList.map fun c => UInt8.ofNat c.toNat

def lookupNs (ns : Bytes) : List (Bytes × List (Bytes × Cbor)) → Option (List (Bytes × Cbor))
  | [] => none
  | (n, items) :: rest => if n == ns then some items else lookupNs ns rest

/-- `parse_namespaces` on the (already selected) mDL document's issuer-signed namespaces -/
def report (nss : List (Bytes × List (Bytes × Cbor))) : List (Bytes × List (Bytes × RJson)) :=
  (match lookupNs coreNs nss with | some items => [(coreNs, namespaceObject items)] | none => []) ++
  (match lookupNs aamvaNs nss with | some items => [(aamvaNs, namespaceObject items)] | none => [])

/-! ### canonical text form (used to compare with the real `serde_json::Value`) -/
def hexChars (b : Bytes) : List Char :=
  b.foldr (fun x acc => hexDigit (x.toNat / 16) :: hexDigit (x.toNat % 16) :: acc) []

def intChars (i : Int) : List Char := (toString i).toList

mutual
def renderJ : RJson → List Char
  | .str b => 's' :: hexChars b
  | .num i => 'n' :: intChars i
  | .bool b => ['b', if b then 't' else 'f']
  | .arr l => '[' :: renderList l ++ [']']
  | .obj kvs => '{' :: renderPairs kvs ++ ['}']
def renderList : List RJson → List Char
  | [] => []
  | [x] => renderJ x
  | x :: xs => renderJ x ++ ',' :: renderList xs
def renderPairs : List (Bytes × RJson) → List Char
  | [] => []
  | [(k, v)] => hexChars k ++ ':' :: renderJ v
  | (k, v) :: kvs => hexChars k ++ ':' :: renderJ v ++ ',' :: renderPairs kvs
end

def renderReport : List (Bytes × List (Bytes × RJson)) → List Char
  | [] => []
  | [(ns, obj)] => hexChars ns ++ '=' :: renderJ (.obj obj)
  | (ns, obj) :: rest => hexChars ns ++ '=' :: renderJ (.obj obj) ++ ';' :: renderReport rest

end IsoMdl.Report
