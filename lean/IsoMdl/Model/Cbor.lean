import IsoMdl.Model.Util
/-
M1 — RFC 8949 data model as isomdl sees it through `ciborium::Value`.
`enc` is ciborium's encoder for `Value` (shortest heads, definite lengths, map entries in the
order given; floats are kept at the width they were decoded with, so `enc` never has to choose).
`dec` is a fuelled decoder that also accepts what ciborium accepts on input: non-minimal heads
and indefinite-length strings, arrays and maps.
-/
namespace IsoMdl

inductive Cbor where
  | uint (n : Nat)
  | nint (n : Nat)                 -- the integer -1 - n
  | bytes (b : Bytes)
  | text (b : Bytes)               -- UTF-8 bytes
  | array (xs : List Cbor)
  | map (kvs : List (Cbor × Cbor))
  | tag (t : Nat) (v : Cbor)
  | simple (n : Nat)               -- 20 false, 21 true, 22 null, 23 undefined
  | float (w : Nat) (bits : Nat)   -- w = 2, 4 or 8 bytes; IEEE bits
  deriving Repr, Inhabited

namespace Cbor

def head (mt : Nat) (n : Nat) : Bytes :=
  if n < 24 then [UInt8.ofNat (mt * 32 + n)]
  else if n < 256 then UInt8.ofNat (mt * 32 + 24) :: beBytes 1 n
  else if n < 65536 then UInt8.ofNat (mt * 32 + 25) :: beBytes 2 n
  else if n < 4294967296 then UInt8.ofNat (mt * 32 + 26) :: beBytes 4 n
  else UInt8.ofNat (mt * 32 + 27) :: beBytes 8 n

def floatAi (w : Nat) : Nat := if w = 2 then 25 else if w = 4 then 26 else 27

mutual
def enc : Cbor → Bytes
  | .uint n => head 0 n
  | .nint n => head 1 n
  | .bytes b => head 2 b.length ++ b
  | .text b => head 3 b.length ++ b
  | .array xs => head 4 xs.length ++ encList xs
  | .map kvs => head 5 kvs.length ++ encPairs kvs
  | .tag t v => head 6 t ++ enc v
  | .simple n => head 7 n
  | .float w bits => UInt8.ofNat (7 * 32 + floatAi w) :: beBytes w bits
def encList : List Cbor → Bytes
  | [] => []
  | x :: xs => enc x ++ encList xs
def encPairs : List (Cbor × Cbor) → Bytes
  | [] => []
  | (k, v) :: kvs => enc k ++ enc v ++ encPairs kvs
end

/-- argument of a head: `(major type, additional info, argument, rest)`; `ai = 31` has argument 0 -/
def decHead : Bytes → Option (Nat × Nat × Nat × Bytes)
  | [] => none
  | b :: rest =>
    let mt := b.toNat / 32
    let ai := b.toNat % 32
    if ai < 24 then some (mt, ai, ai, rest)
    else if ai = 31 then some (mt, ai, 0, rest)
    else
      let k := if ai = 24 then 1 else if ai = 25 then 2 else if ai = 26 then 4 else if ai = 27 then 8 else 0
      if k = 0 then none
      else if rest.length < k then none
      else some (mt, ai, fromBe (rest.take k), rest.drop k)

/-- chunks of an indefinite-length string: definite strings of the same major type until 0xff -/
def decChunks (mt : Nat) : Nat → Bytes → Option (Bytes × Bytes)
  | 0, _ => none
  | fuel+1, bs =>
    match bs with
    | [] => none
    | b :: rest =>
      if b = 0xff then some ([], rest)
      else match decHead (b :: rest) with
        | none => none
        | some (mt', ai, n, r) =>
          if mt' ≠ mt ∨ ai = 31 then none
          else if r.length < n then none
          else match decChunks mt fuel (r.drop n) with
            | none => none
            | some (more, r') => some (r.take n ++ more, r')

mutual
def dec : Nat → Bytes → Option (Cbor × Bytes)
  | 0, _ => none
  | fuel+1, bs =>
    match decHead bs with
    | none => none
    | some (mt, ai, n, rest) =>
      match mt with
      | 0 => if ai = 31 then none else some (.uint n, rest)
      | 1 => if ai = 31 then none else some (.nint n, rest)
      | 2 => if ai = 31 then (decChunks 2 fuel rest).map fun (b, r) => (.bytes b, r)
             else if rest.length < n then none else some (.bytes (rest.take n), rest.drop n)
      | 3 => if ai = 31 then (decChunks 3 fuel rest).map fun (b, r) => (.text b, r)
             else if rest.length < n then none else some (.text (rest.take n), rest.drop n)
      | 4 => if ai = 31 then (decListIndef fuel rest).map fun (xs, r) => (.array xs, r)
             else (decList fuel n rest).map fun (xs, r) => (.array xs, r)
      | 5 => if ai = 31 then (decPairsIndef fuel rest).map fun (xs, r) => (.map xs, r)
             else (decPairs fuel n rest).map fun (xs, r) => (.map xs, r)
      | 6 => if ai = 31 then none else (dec fuel rest).map fun (v, r) => (.tag n v, r)
      | _ =>
        if ai < 24 then some (.simple n, rest)
        else if ai = 24 then some (.simple n, rest)
        else if ai = 25 then some (.float 2 n, rest)
        else if ai = 26 then some (.float 4 n, rest)
        else if ai = 27 then some (.float 8 n, rest)
        else none
def decList : Nat → Nat → Bytes → Option (List Cbor × Bytes)
  | _, 0, bs => some ([], bs)
  | 0, _+1, _ => none
  | fuel+1, k+1, bs =>
    match dec fuel bs with
    | none => none
    | some (x, r) => (decList fuel k r).map fun (xs, r') => (x :: xs, r')
def decPairs : Nat → Nat → Bytes → Option (List (Cbor × Cbor) × Bytes)
  | _, 0, bs => some ([], bs)
  | 0, _+1, _ => none
  | fuel+1, k+1, bs =>
    match dec fuel bs with
    | none => none
    | some (a, r) =>
      match dec fuel r with
      | none => none
      | some (b, r2) => (decPairs fuel k r2).map fun (xs, r') => ((a, b) :: xs, r')
def decListIndef : Nat → Bytes → Option (List Cbor × Bytes)
  | 0, _ => none
  | fuel+1, bs =>
    match bs with
    | [] => none
    | b :: rest =>
      if b = 0xff then some ([], rest)
      else match dec fuel (b :: rest) with
        | none => none
        | some (x, r) => (decListIndef fuel r).map fun (xs, r') => (x :: xs, r')
def decPairsIndef : Nat → Bytes → Option (List (Cbor × Cbor) × Bytes)
  | 0, _ => none
  | fuel+1, bs =>
    match bs with
    | [] => none
    | b :: rest =>
      if b = 0xff then some ([], rest)
      else match dec fuel (b :: rest) with
        | none => none
        | some (k, r) =>
          match dec fuel r with
          | none => none
          | some (v, r2) => (decPairsIndef fuel r2).map fun (xs, r') => ((k, v) :: xs, r')
end

/-- decode one item from the front (trailing bytes ignored, as `ciborium::from_reader` does) -/
def decode (bs : Bytes) : Option Cbor := (dec (2 * bs.length + 1) bs).map (·.1)

/-- decode exactly one item with nothing left over -/
def decodeAll (bs : Bytes) : Option Cbor :=
  match dec (2 * bs.length + 1) bs with
  | some (v, []) => some v
  | _ => none

mutual
def wf : Cbor → Prop
  | .uint n => n < 2^64
  | .nint n => n < 2^64
  | .bytes b => b.length < 2^64
  | .text b => b.length < 2^64
  | .array xs => xs.length < 2^64 ∧ wfList xs
  | .map kvs => kvs.length < 2^64 ∧ wfPairs kvs
  | .tag t v => t < 2^64 ∧ wf v
  | .simple n => n < 24 ∨ (32 ≤ n ∧ n < 256)
  | .float w bits => (w = 2 ∨ w = 4 ∨ w = 8) ∧ bits < 256 ^ w
def wfList : List Cbor → Prop
  | [] => True
  | x :: xs => wf x ∧ wfList xs
def wfPairs : List (Cbor × Cbor) → Prop
  | [] => True
  | (k, v) :: kvs => wf k ∧ wf v ∧ wfPairs kvs
end

mutual
def size : Cbor → Nat
  | .array xs => 1 + sizeList xs
  | .map kvs => 1 + sizePairs kvs
  | .tag _ v => 1 + size v
  | _ => 1
def sizeList : List Cbor → Nat
  | [] => 0
  | x :: xs => 1 + size x + sizeList xs
def sizePairs : List (Cbor × Cbor) → Nat
  | [] => 0
  | (k, v) :: kvs => 1 + size k + size v + sizePairs kvs
end

/- structural equality (decidable, executable) -/
mutual
def beq : Cbor → Cbor → Bool
  | .uint a, .uint b => a == b
  | .nint a, .nint b => a == b
  | .bytes a, .bytes b => a == b
  | .text a, .text b => a == b
  | .array a, .array b => beqList a b
  | .map a, .map b => beqPairs a b
  | .tag s a, .tag t b => s == t && beq a b
  | .simple a, .simple b => a == b
  | .float w a, .float v b => w == v && a == b
  | _, _ => false
def beqList : List Cbor → List Cbor → Bool
  | [], [] => true
  | a :: as, b :: bs => beq a b && beqList as bs
  | _, _ => false
def beqPairs : List (Cbor × Cbor) → List (Cbor × Cbor) → Bool
  | [], [] => true
  | (a, x) :: as, (b, y) :: bs => beq a b && beq x y && beqPairs as bs
  | _, _ => false
end

instance : BEq Cbor := ⟨beq⟩

def cfalse : Cbor := .simple 20
def ctrue : Cbor := .simple 21
def cnull : Cbor := .simple 22
def ofBool (b : Bool) : Cbor := if b then ctrue else cfalse
def ofInt (i : Int) : Cbor := if i ≥ 0 then .uint i.toNat else .nint (-1 - i).toNat
def ofText (s : String) : Cbor := .text (asciiBytes s)

/-- map lookup by key (first match) -/
def lookup (k : Cbor) : List (Cbor × Cbor) → Option Cbor
  | [] => none
  | (k', v) :: rest => if beq k k' then some v else lookup k rest

end Cbor
end IsoMdl
