import IsoMdl.Model.Schema
/-
M14 — the ISO/IEC 18013-5 wire structures as schemas (instances of Model/Schema.lean), written
from the Rust type definitions (serde field order = declaration order; hand-written `From<T> for
Value` impls in their push order).  Each instance is validated on every run: for every generated
message of the type, `norm` of the bytes must equal what the real library re-encodes
(`to_vec(from_slice::<T>(bytes))`), also for foreign field orders, unknown entries and null options.
-/
namespace IsoMdl.WireSchemas
open IsoMdl IsoMdl.Cbor IsoMdl.Schema

def tx (s : String) : Cbor := .text (asciiBytes s)

/-- field-list and alternative-list notation -/
def fields : List (Cbor × Sch × Bool) → Fields
  | [] => .nil
  | (k, s, o) :: rest => .cons k s o (fields rest)
def alts : List Sch → SchList
  | [] => .nil
  | s :: rest => .cons s (alts rest)

def req (k : String) (s : Sch) : Cbor × Sch × Bool := (tx k, s, false)
def opt (k : String) (s : Sch) : Cbor × Sch × Bool := (tx k, s, true)

/-- COSE_Key as emitted: {1: kty, -1: crv, -2: x, -3: y / sign bit} -/
def coseKey : Sch := .struct (fields [(.uint 1, .uint, false), (.nint 0, .int, false), (.nint 1, .bytes, false),
  (.nint 2, .oneOf (alts [.bytes, .bool]), true)])

/-- COSE_Sign1 / COSE_Mac0 as a 4-array, with or without its tag (`MaybeTagged`) -/
def cose4 : Sch := .tuple (alts [.bytes, .any, .oneOf (alts [.bytes, .null]), .bytes])
def maybeTagged (t : Nat) : Sch := .oneOf (alts [.tagged t cose4, cose4])

def sessionData : Sch := .struct (fields [opt "data" .bytes, opt "status" .uint])
def sessionEstablishment : Sch := .struct (fields [req "eReaderKey" (.embedded coseKey), req "data" .bytes])

def itemsRequest : Sch := .struct (fields [req "docType" .text,
  req "nameSpaces" (.dict .text (.dict .text .bool true) true), opt "requestInfo" (.dict .text .any false)])
def docRequest : Sch := .struct (fields [req "itemsRequest" (.embedded itemsRequest), opt "readerAuth" (maybeTagged 18)])
def deviceRequest : Sch := .struct (fields [req "version" .text, req "docRequests" (.arr docRequest true)])

def issuerSignedItem : Sch := .struct (fields [req "digestID" .int, req "random" .bytes,
  req "elementIdentifier" .text, req "elementValue" .any])
def issuerSigned : Sch := .struct (fields [
  opt "nameSpaces" (.dict .text (.arr (.embedded issuerSignedItem) true) true), req "issuerAuth" (maybeTagged 18)])
def deviceAuth : Sch := .struct (fields [opt "deviceSignature" (maybeTagged 18), opt "deviceMac" (maybeTagged 17)])
def deviceSigned : Sch := .struct (fields [
  req "nameSpaces" (.embedded (.dict .text (.dict .text .any true) false)), req "deviceAuth" deviceAuth])
def errorsMap : Sch := .dict .text (.dict .text .int true) true
def document : Sch := .struct (fields [req "docType" .text, req "issuerSigned" issuerSigned,
  req "deviceSigned" deviceSigned, opt "errors" errorsMap])
def deviceResponse : Sch := .struct (fields [req "version" .text, opt "documents" (.arr document true),
  opt "documentErrors" (.arr (.dict .text .int false) true), req "status" .uint])

def tdate : Sch := .tagged 0 .text
def validityInfo : Sch := .struct (fields [req "signed" tdate, req "validFrom" tdate, req "validUntil" tdate, opt "expectedUpdate" tdate])
def keyAuthorizations : Sch := .struct (fields [opt "nameSpaces" (.arr .text true),
  opt "dataElements" (.dict .text (.arr .text true) true)])
def deviceKeyInfo : Sch := .struct (fields [req "deviceKey" coseKey, opt "keyAuthorizations" keyAuthorizations,
  opt "keyInfo" (.dict .int .any false)])
def mso : Sch := .struct (fields [req "version" .text, req "digestAlgorithm" .text,
  req "valueDigests" (.dict .text (.dict .int .bytes false) false), req "deviceKeyInfo" deviceKeyInfo,
  req "docType" .text, req "validityInfo" validityInfo])

/-- DeviceEngagement as emitted: {0: version, 1: [suite, EDeviceKeyBytes], 2: methods?, 3: server?}
(the RFU entry 4 and unknown entries are read and not re-emitted) -/
-- [type, version, options]: BLE options are emitted peripheral-mode entries first (1, 11, 0, 10, 20); the three transports are told
-- apart by the literal type, not by the outermost kind, so the fixed-point theorem's side condition does not cover this schema
def bleOptions : Sch := .struct (fields [(.uint 1, .bool, false), (.uint 11, .bytes, true), (.uint 0, .bool, false), (.uint 10, .bytes, true), (.uint 20, .bytes, true)])
def nfcOptions : Sch := .struct (fields [(.uint 0, .uint, false), (.uint 1, .uint, false)])
def wifiOptions : Sch := .struct (fields [(.uint 0, .text, true), (.uint 1, .uint, true), (.uint 2, .uint, true), (.uint 3, .bytes, true)])
def retrievalMethod : Sch := .oneOf (alts [.tuple (alts [.lit (.uint 2), .uint, bleOptions]), .tuple (alts [.lit (.uint 1), .uint, nfcOptions]),
  .tuple (alts [.lit (.uint 3), .uint, wifiOptions])])
def serverRetrieval : Sch := .struct (fields [opt "webApi" (.tuple (alts [.uint, .text, .text])), opt "oidc" (.tuple (alts [.uint, .text, .text]))])
def deviceEngagement : Sch := .struct (fields [(.uint 0, .lit (tx "1.0"), false),
  (.uint 1, .tuple (alts [.uint, .embedded coseKey]), false), (.uint 2, .arr retrievalMethod true, true),
  (.uint 3, serverRetrieval, true)])

/-- QR: null; NFC: [bstr, bstr / null]; OID4VP: [tstr, tstr] (the two array forms are told apart by their element kinds) -/
def handover : Sch := .oneOf (alts [.null, .tuple (alts [.oneOf (alts [.bytes, .text]), .oneOf (alts [.bytes, .text, .null])])])

/-- the named schemas the driver and the theorems range over -/
def all : List (String × Sch) := [
  ("SessionData", sessionData), ("SessionEstablishment", sessionEstablishment), ("CoseKey", coseKey),
  ("ItemsRequest", itemsRequest), ("DocRequest", docRequest), ("DeviceRequest", deviceRequest),
  ("IssuerSignedItem", issuerSignedItem), ("IssuerSigned", issuerSigned), ("DeviceSigned", deviceSigned),
  ("Document", document), ("DeviceResponse", deviceResponse), ("ValidityInfo", validityInfo),
  ("KeyAuthorizations", keyAuthorizations), ("DeviceKeyInfo", deviceKeyInfo), ("Mso", mso),
  ("DeviceEngagement", deviceEngagement), ("Handover", handover)]

def byName (n : String) : Option Sch := (all.find? (·.1 == n)).map (·.2)

end IsoMdl.WireSchemas
