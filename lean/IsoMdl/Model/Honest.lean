import IsoMdl.Model.Session
import IsoMdl.Model.Disclosure
import IsoMdl.Model.ReaderAuth
import IsoMdl.Model.KeyDerivation
/-
M11 — the honest presentation: the composition of the session model (M2), the disclosure model
(M5), the reader's authentication logic (M8) and the key derivation (M6) along an unmodified run
of engagement, establishment and N request/response rounds.
-/
namespace IsoMdl.Honest
open IsoMdl IsoMdl.Session

/-- the holder signs the offered documents one after the other (last prepared first) -/
def signAll : Nat → Device → List Nat → Device
  | 0, d, _ => d
  | _, d, [] => d
  | k+1, d, s :: sigs => signAll k (d.submit s) sigs

/-- answer the request that has been handled: prepare `docs`, sign each with `sigs`, retrieve the
response and hand it to the reader -/
def answer (d : Device) (r : Reader) (docs sigs : List Nat) : Device × Reader × Option Outcome :=
  let d1 := d.prepare docs
  let d2 := signAll docs.length d1 sigs
  match d2.retrieve with
  | (d3, some m) => let (r', o) := r.handleResponse m; (d3, r', some o)
  | (d3, none) => (d3, r, none)

/-- one further round: the reader sends a request, the device handles it and answers (no request
and nothing else happens when the reader's send counter is used up) -/
def round (d : Device) (r : Reader) (docs sigs : List Nat) : Device × Reader × Option Outcome × Option Outcome :=
  match r.newRequest with
  | (r1, some m) =>
    let (d1, o1) := d.handleRequest m
    let (d2, r2, o2) := answer d1 r1 docs sigs
    (d2, r2, some o1, o2)
  | (r1, none) => (d, r1, none, none)

/-- `n` more messages fit in each direction before a message counter is used up -/
def Room (d : Device) (r : Reader) (n : Nat) : Prop :=
  r.encCtr.toNat + n < 2^32 ∧ d.encCtr.toNat + n < 2^32

/-- the two roles are in step: same session keys, each decryption counter equals the peer's
encryption counter, the device is idle -/
def InStep (d : Device) (r : Reader) : Prop :=
  d.sess = r.sess ∧ d.decCtr = r.encCtr ∧ d.encCtr = r.decCtr ∧ d.st = .awaiting

/-- the (document, signature) pairs an answer carries: last prepared document first -/
def pairsOf (docs sigs : List Nat) : List (Nat × Nat) := docs.reverse.zip sigs

/-- a round's inputs: the prepared documents (non-empty) and one signature each -/
structure RoundIn where
  docs : List Nat
  sigs : List Nat
  deriving Repr

def RoundIn.Ok (x : RoundIn) : Prop := x.docs ≠ [] ∧ x.sigs.length = x.docs.length

/-- all further rounds, collecting what each end reports -/
def rounds : Device → Reader → List RoundIn → List (Option Session.Outcome × Option Session.Outcome)
  | _, _, [] => []
  | d, r, x :: xs =>
    let (d', r', o1, o2) := round d r x.docs x.sigs
    (o1, o2) :: rounds d' r' xs


end IsoMdl.Honest
