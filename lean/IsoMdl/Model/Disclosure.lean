/-
M7 (disclosure part) — `presentation::device::filter_permitted` and the default
`DeviceSession::prepare_response` (src/presentation/device.rs), as functions over association
lists.  Keys (document types, namespaces, element identifiers) and items are abstract naturals:
the code only compares keys for equality and moves items around.  Lists that come out of a
`BTreeMap` are in key order; the model keeps whatever order it is given (the harness passes
`BTreeMap` iteration order).
-/
namespace IsoMdl.Disclosure

abbrev Key := Nat

/-- `RequestedItems = Vec<ItemsRequest>`: (docType, namespaces → requested identifiers) -/
abbrev Request := List (Key × List (Key × List Key))
/-- `PermittedItems = BTreeMap<DocType, BTreeMap<Namespace, Vec<ElementIdentifier>>>` -/
abbrev Permitted := List (Key × List (Key × List Key))

/-- a held document: can its device key sign (`signature_algorithm().is_some()`), and its items -/
structure Doc where
  canSign : Bool
  namespaces : List (Key × List (Key × Nat))   -- namespace → identifier → item (abstract handle)
  deriving Repr, DecidableEq

abbrev Held := List (Key × Doc)

def lookup {β} (k : Key) : List (Key × β) → Option β
  | [] => none
  | (k', v) :: rest => if k' = k then some v else lookup k rest

/-- `request.iter().find(|item| item.doc_type == doc_type)` : the FIRST request for the doc type -/
def firstRequest (req : Request) (d : Key) : Option (List (Key × List Key)) := lookup d req

/-- `filter_permitted` -/
def filterPermitted (req : Request) (perm : Permitted) : Permitted :=
  perm.filterMap fun (d, nss) =>
    (firstRequest req d).map fun rns =>
      (d, nss.filterMap fun (ns, elems) =>
        (lookup ns rns).map fun relems => (ns, elems.filter fun e => relems.contains e))

structure PreparedDoc where
  docType : Key
  disclosed : List (Key × List Nat)         -- namespace → disclosed items, in order
  errors : List (Key × List Key)            -- namespace → identifiers reported with DataNotReturned
  deriving Repr, DecidableEq

/-- `BTreeMap<String, NonEmptyVec<_>>::get_mut(..).push / insert` -/
def pushAt (ns : Key) (x : Nat) : List (Key × List Nat) → List (Key × List Nat)
  | [] => [(ns, [x])]
  | (k, xs) :: rest => if k = ns then (k, xs ++ [x]) :: rest else (k, xs) :: pushAt ns x rest

/-- `BTreeMap::insert` of a key: kept sorted, no duplicates -/
def insertSorted (e : Key) : List Key → List Key
  | [] => [e]
  | x :: xs => if e < x then e :: x :: xs else if e = x then x :: xs else x :: insertSorted e xs

/-- `NonEmptyMap::insert` into the per-namespace error map (a `BTreeMap` keyed by identifier) -/
def insertErr (ns : Key) (e : Key) : List (Key × List Key) → List (Key × List Key)
  | [] => [(ns, [e])]
  | (k, es) :: rest =>
    if k = ns then (k, insertSorted e es) :: rest else (k, es) :: insertErr ns e rest

/-- the inner loops of `prepare_response` for one document -/
def collect (doc : Doc) : List (Key × List Key) → List (Key × List Nat) × List (Key × List Key) →
    List (Key × List Nat) × List (Key × List Key)
  | [], acc => acc
  | (ns, elems) :: rest, (dis, errs) =>
    let acc' :=
      match lookup ns doc.namespaces with
      | some items =>
        elems.foldl (fun (acc : List (Key × List Nat) × List (Key × List Key)) e =>
          match lookup e items with
          | some it => (pushAt ns it acc.1, acc.2)
          | none => (acc.1, insertErr ns e acc.2)) (dis, errs)
      | none => elems.foldl (fun acc e => (acc.1, insertErr ns e acc.2)) (dis, errs)
    collect doc rest acc'

/-- `prepare_response`: prepared documents (in `filter_permitted` order) and document errors -/
def prepareStep (held : Held) (acc : List PreparedDoc × List Key) (x : Key × List (Key × List Key)) :
    List PreparedDoc × List Key :=
  match lookup x.1 held with
  | none => (acc.1, acc.2 ++ [x.1])
  | some doc =>
    if !doc.canSign then (acc.1, acc.2 ++ [x.1])
    else
      (acc.1 ++ [{ docType := x.1, disclosed := (collect doc x.2 ([], [])).1,
                   errors := (collect doc x.2 ([], [])).2 }], acc.2)

def prepare (held : Held) (req : Request) (perm : Permitted) : List PreparedDoc × List Key :=
  (filterPermitted req perm).foldl (prepareStep held) ([], [])

end IsoMdl.Disclosure
