import IsoMdl.Model.Cose
/-
M8 — decision logic of `presentation::reader::SessionManager::handle_response`
(decrypt_response, parse, get_document, parse_namespaces, validate_response) and of
`presentation::authentication::mdoc::{issuer_authentication, device_authentication}`.
Everything that is not isomdl's own logic is an input *fact* about the received message:
whether it decrypts/decodes (C06/C16), what chain validation reports (C12), whether the signature
primitive accepts a signature over the RFC 8152 structure rebuilt from the received bytes (C17).
The COSE verification itself is `Cose.verifySign1` of Model/Cose.lean.
-/
namespace IsoMdl.ReaderAuth
open IsoMdl IsoMdl.Cose

inductive Status where | unchecked | invalid | valid
  deriving DecidableEq, Repr

/-- the device key found in the MSO, as far as `device_authentication` distinguishes -/
inductive DevKey where
  | p256 (onCurve : Bool)      -- EC2 key with explicit 32-byte coordinates
  | ecBadLength                -- EC2 key with explicit coordinates of another length (P-384/P-521 or malformed)
  | compressed                 -- EC2 key with a sign bit instead of y: no JWK form
  | okp                        -- OKP key
  deriving DecidableEq, Repr

structure Facts where
  decrypts : Bool              -- SessionData decodes, carries data, AES-GCM accepts it
  decodes : Bool               -- plaintext decodes as DeviceResponse
  hasDocuments : Bool
  hasMdlDoc : Bool             -- a document with docType org.iso.18013.5.1.mDL
  x5chainPresent : Bool        -- label 33 in the UNPROTECTED issuerAuth header
  x5chainParses : Bool
  namespacesPresent : Bool     -- issuerSigned.nameSpaces present (optional; not required since the C01 `fix:` commit)
  coreNamespacePresent : Bool  -- a namespace the reader reports (core or AAMVA) is among them
  chainErrors : Nat            -- number of errors of ValidationRuleset::Mdl.validate
  issuerKeyParses : Bool       -- end-entity SPKI is a P-256 key
  issuerAlg : ProtAlg
  issuerPayloadAttached : Bool
  issuerSigParses : Bool
  issuerSigAccepts : Bool      -- primitive accepts signature over Sig_structure(protected, "", payload) under the leaf key
  msoDecodes : Bool            -- payload is #6.24(bstr .cbor MSO)
  deviceKey : DevKey
  deviceAuthIsSignature : Bool -- deviceSignature (true) or deviceMac (false)
  deviceAlg : ProtAlg
  devicePayloadAttached : Bool -- deviceSignature carries a payload (it must not: detached)
  deviceSigParses : Bool
  deviceSigAccepts : Bool      -- primitive accepts over Sig_structure(protected, "", DeviceAuthenticationBytes(reader's transcript, docType, deviceNameSpacesBytes))
  -- ISO 18013-5 9.1.2.4 issuer data authentication (`issuer_data_authentication`):
  digestsMatch : Bool          -- every disclosed item's digest equals the MSO valueDigests entry
  docTypeMatches : Bool        -- MSO docType = document docType
  deriving DecidableEq, Repr

inductive ErrKey where
  | decryption | parsing | deviceAuth | certificate | issuerAuth
  deriving DecidableEq, Repr

structure Outcome where
  issuer : Status
  device : Status
  errors : List ErrKey
  hasData : Bool               -- the response map is non-empty
  deriving DecidableEq, Repr

def prim (parses accepts : Bool) : Bytes → Bytes → Option Bool :=
  fun _ _ => if parses then some accepts else none

/-- `issuer_authentication` followed by `issuer_data_authentication` -/
def issuerAuthentication (f : Facts) : Bool :=
  f.issuerKeyParses &&
  verifySign1 (-7) (prim f.issuerSigParses f.issuerSigAccepts)
    ⟨[], if f.issuerPayloadAttached then some [] else none, [], false⟩ f.issuerAlg none none == .success &&
  f.msoDecodes && f.docTypeMatches && f.digestsMatch

/-- `device_authentication` (coordinates of a wrong length are an error since the C15 `fix:`
commit; at the pinned commit they panicked in `GenericArray::from_slice`, see Model/Partial.lean) -/
def deviceAuthentication (f : Facts) : Bool :=
  if !f.issuerPayloadAttached then false else
  if !f.msoDecodes then false else
  match f.deviceKey with
  | .compressed => false
  | .okp => false
  | .ecBadLength => false
  | .p256 onCurve =>
    if !onCurve then false else
    if !f.deviceAuthIsSignature then false else
    (verifySign1 (-7) (prim f.deviceSigParses f.deviceSigAccepts)
      ⟨[], if f.devicePayloadAttached then some [] else none, [], false⟩ f.deviceAlg (some []) none == .success)

/-- `handle_response` -/
def handleResponse (f : Facts) : Outcome :=
  if !(f.decrypts && f.decodes) then ⟨.unchecked, .unchecked, [.decryption], false⟩ else
  if !(f.hasDocuments && f.hasMdlDoc && f.x5chainPresent && f.x5chainParses) then
    ⟨.unchecked, .unchecked, [.parsing], false⟩
  else
    let dev := deviceAuthentication f
    let (issuer, ierrs) :=
      if f.chainErrors == 0 then
        if issuerAuthentication f then (Status.valid, []) else (Status.invalid, [ErrKey.issuerAuth])
      else (Status.invalid, [ErrKey.certificate])
    ⟨issuer, if dev then .valid else .invalid, (if dev then [] else [.deviceAuth]) ++ ierrs, f.namespacesPresent && f.coreNamespacePresent⟩

end IsoMdl.ReaderAuth
