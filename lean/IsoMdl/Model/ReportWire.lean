import IsoMdl.Model.Report
import IsoMdl.Model.ResponseFacts
/-
From the `issuerSigned.nameSpaces` item of the mDL document AS SENT (tag-24 IssuerSignedItemBytes) to what
the reader reports: the extraction step in front of Model/Report.lean.
-/
namespace IsoMdl.Report
open IsoMdl IsoMdl.ResponseFacts

/-- (identifier, value) of one IssuerSignedItemBytes -/
def itemOf : Cbor → Option (Bytes × Cbor)
  | .tag 24 (.bytes b) => match decodeValue b with
    | some iv => match fget iv "elementIdentifier", fget iv "elementValue" with
      | some (.text id), some v => some (id, v)
      | _, _ => none
    | none => none
  | _ => none

def itemsOf : List Cbor → Option (List (Bytes × Cbor))
  | [] => some []
  | it :: rest => match itemOf it, itemsOf rest with
    | some x, some xs => some (x :: xs)
    | _, _ => none

def namespaceEntries : List (Cbor × Cbor) → Option (List (Bytes × List (Bytes × Cbor)))
  | [] => some []
  | (k, v) :: rest =>
    match k, v, namespaceEntries rest with
    | .text ns, .array items, some r => (itemsOf items).map fun its => (ns, its) :: r
    | _, _, _ => none

/-- `IssuerSigned.nameSpaces`: namespace ↦ items; of a repeated namespace key the last one counts (BTreeMap) -/
def namespacesOf : Cbor → Option (List (Bytes × List (Bytes × Cbor)))
  | .map m => (namespaceEntries m).map List.reverse
  | _ => none

end IsoMdl.Report
