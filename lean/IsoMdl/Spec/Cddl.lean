import IsoMdl.Model.Cbor
/-
M12 — the ISO/IEC 18013-5 message definitions (§8.2.1.1, §8.3.2.1.2, §9.1.1.4, §9.1.2.4) and the
RFC 8152 COSE structures they embed, as decidable predicates over the CBOR data model.  Written
from the standard's CDDL (DESIGN.md Appendix A), deliberately NOT derived from isomdl's encoders
or decoders: this is the independent structural validator of C18.
-/
namespace IsoMdl.Cddl
open IsoMdl IsoMdl.Cbor

def tx (s : String) : Cbor := .text (asciiBytes s)

def isText : Cbor → Bool | .text _ => true | _ => false
def isBytes : Cbor → Bool | .bytes _ => true | _ => false
def isUint : Cbor → Bool | .uint _ => true | _ => false
def isInt : Cbor → Bool | .uint _ => true | .nint _ => true | _ => false
def isBool : Cbor → Bool | .simple 20 => true | .simple 21 => true | _ => false
def isNull : Cbor → Bool | .simple 22 => true | _ => false

def keys (m : List (Cbor × Cbor)) : List Cbor := m.map (·.1)

def noDup : List Cbor → Bool
  | [] => true
  | k :: ks => !(ks.any (beq k)) && noDup ks

def get (k : Cbor) (m : List (Cbor × Cbor)) : Option Cbor := lookup k m

/-- every key of the map is one of `allowed`, no key twice -/
def onlyKeys (allowed : List Cbor) (m : List (Cbor × Cbor)) : Bool :=
  noDup (keys m) && (keys m).all (fun k => allowed.any (beq k))

/-- required key present and satisfying `p` -/
def req (k : Cbor) (p : Cbor → Bool) (m : List (Cbor × Cbor)) : Bool :=
  match get k m with | some v => p v | none => false

/-- optional key: if present it satisfies `p` -/
def opt (k : Cbor) (p : Cbor → Bool) (m : List (Cbor × Cbor)) : Bool :=
  match get k m with | some v => p v | none => true

def arrayOf (p : Cbor → Bool) (nonEmpty : Bool) : Cbor → Bool
  | .array xs => (!nonEmpty || !xs.isEmpty) && xs.all p
  | _ => false

def mapOf (pk pv : Cbor → Bool) (nonEmpty : Bool) : Cbor → Bool
  | .map kvs => (!nonEmpty || !kvs.isEmpty) && noDup (keys kvs) && kvs.all (fun kv => pk kv.1 && pv kv.2)
  | _ => false

/-- `#6.24(bstr .cbor T)` : tag 24 around a byte string whose content is one CBOR item satisfying `p` -/
def tag24 (p : Cbor → Bool) : Cbor → Bool
  | .tag 24 (.bytes b) => match decodeAll b with | some v => p v | none => false
  | _ => false

def isTextEq (s : String) (c : Cbor) : Bool := beq c (tx s)

/-- tdate = #6.0(tstr) in RFC 3339 form `YYYY-MM-DDThh:mm:ssZ` (UTC, no fraction) -/
def isDigit (b : UInt8) : Bool := 48 ≤ b.toNat && b.toNat ≤ 57
def tdateText (b : Bytes) : Bool :=
  b.length == 20 &&
  ((List.range 20).zip b).all fun (i, c) =>
    if i == 4 || i == 7 then c == 45 else if i == 10 then c == 84 else if i == 13 || i == 16 then c == 58
    else if i == 19 then c == 90 else isDigit c
def tdate : Cbor → Bool
  | .tag 0 (.text b) => tdateText b
  | _ => false

/-! ### COSE -/

/-- COSE_Key: EC2 {1:2, -1: crv ∈ {1,2,3,8}, -2: bstr, -3: bstr/bool}; OKP {1:1, -1: crv ∈ 4..7, -2: bstr} -/
def coseKey : Cbor → Bool
  | .map m =>
    noDup (keys m) &&
    (match get (.uint 1) m with
     | some (.uint 2) =>
       req (.nint 0) (fun c => match c with | .uint n => n == 1 || n == 2 || n == 3 || n == 8 | _ => false) m &&
       req (.nint 1) isBytes m && req (.nint 2) (fun c => isBytes c || isBool c) m
     | some (.uint 1) =>
       req (.nint 0) (fun c => match c with | .uint n => 4 ≤ n && n ≤ 7 | _ => false) m &&
       req (.nint 1) isBytes m
     | _ => false)
  | _ => false

/-- header maps: labels are ints or text -/
def headerMap : Cbor → Bool
  | .map m => noDup (keys m) && (keys m).all (fun k => isInt k || isText k)
  | _ => false

/-- protected header: bstr wrapping a header map (or empty bstr) -/
def protectedHeader : Cbor → Bool
  | .bytes [] => true
  | .bytes b => match decodeAll b with | some v => headerMap v | none => false
  | _ => false

/-- COSE_Sign1 / COSE_Mac0 = [protected, unprotected, payload / nil, signature-or-tag], optionally tagged -/
def cose4 (tagNo : Nat) (c : Cbor) : Bool :=
  let body := match c with | .tag t v => if t == tagNo then some v else none | v => some v
  match body with
  | some (.array [p, u, pl, s]) => protectedHeader p && headerMap u && (isBytes pl || isNull pl) && isBytes s
  | _ => false
def coseSign1 : Cbor → Bool := cose4 18
def coseMac0 : Cbor → Bool := cose4 17

/-- the algorithm named in a protected header -/
def protectedAlg : Cbor → Option Cbor
  | .array (.bytes b :: _) => match decodeAll b with | some (.map m) => get (.uint 1) m | _ => none
  | .tag _ (.array (.bytes b :: _)) => match decodeAll b with | some (.map m) => get (.uint 1) m | _ => none
  | _ => none

def payloadIsNil : Cbor → Bool
  | .array [_, _, pl, _] => isNull pl
  | .tag _ (.array [_, _, pl, _]) => isNull pl
  | _ => false

/-- RFC 9053 / ISO 18013-5 table: signature algorithm fixed by the key's curve -/
def algForKey : Cbor → Option Cbor
  | .map m =>
    match get (.uint 1) m, get (.nint 0) m with
    | some (.uint 2), some (.uint 1) => some (.nint 6)    -- P-256  → ES256 (-7)
    | some (.uint 2), some (.uint 2) => some (.nint 34)   -- P-384  → ES384 (-35)
    | some (.uint 2), some (.uint 3) => some (.nint 35)   -- P-521  → ES512 (-36)
    | some (.uint 1), some (.uint 6) => some (.nint 7)    -- Ed25519 → EdDSA (-8)
    | some (.uint 1), some (.uint 7) => some (.nint 7)    -- Ed448   → EdDSA (-8)
    | some (.uint 2), some (.uint 8) => some (.nint 46)   -- secp256k1 → ES256K (-47)
    | _, _ => none
  | _ => none

/-- IANA COSE registries, by the variant names the crate uses: curve ↦ (kty, crv), algorithm ↦ n of `-1 - n` -/
def curveIds : List (List Nat × Nat × Nat) :=
  [("P256".toList.map (·.toNat), 2, 1), ("P384".toList.map (·.toNat), 2, 2), ("P521".toList.map (·.toNat), 2, 3),
   ("P256K".toList.map (·.toNat), 2, 8), ("X25519".toList.map (·.toNat), 1, 4), ("X448".toList.map (·.toNat), 1, 5),
   ("Ed25519".toList.map (·.toNat), 1, 6), ("Ed448".toList.map (·.toNat), 1, 7)]
def algIds : List (List Nat × Nat) :=
  [("ES256".toList.map (·.toNat), 6), ("ES384".toList.map (·.toNat), 34), ("ES512".toList.map (·.toNat), 35),
   ("EdDSA".toList.map (·.toNat), 7), ("ES256K".toList.map (·.toNat), 46)]

/-- a row (key type, curve, algorithm) of the crate's `signature_algorithm` table agrees with the registry -/
def sigAlgRowOk (row : List Nat × List Nat × List Nat) : Bool :=
  match curveIds.find? (·.1 == row.2.1), algIds.find? (·.1 == row.2.2) with
  | some (_, kty, crv), some (_, a) =>
    (row.1 == (if kty == 2 then "EC2".toList.map (·.toNat) else "OKP".toList.map (·.toNat))) &&
    (match algForKey (.map [(.uint 1, .uint kty), (.nint 0, .uint crv)]) with
     | some (.nint b) => a == b
     | _ => false)
  | _, _ => false

/-! ### Device engagement (§8.2.1.1) -/

def uuidBytes : Cbor → Bool | .bytes b => b.length == 16 | _ => false

def bleOptions : Cbor → Bool
  | .map m =>
    onlyKeys [.uint 0, .uint 1, .uint 10, .uint 11, .uint 20] m &&
    req (.uint 0) isBool m && req (.uint 1) isBool m &&
    -- the UUID of a mode is present iff the mode is supported
    (match get (.uint 0) m with | some (.simple 21) => req (.uint 10) uuidBytes m | _ => (get (.uint 10) m).isNone) &&
    (match get (.uint 1) m with | some (.simple 21) => req (.uint 11) uuidBytes m | _ => (get (.uint 11) m).isNone) &&
    opt (.uint 20) isBytes m
  | _ => false

def wifiOptions : Cbor → Bool
  | .map m => onlyKeys [.uint 0, .uint 1, .uint 2, .uint 3] m &&
    opt (.uint 0) isText m && opt (.uint 1) isUint m && opt (.uint 2) isUint m && opt (.uint 3) isBytes m
  | _ => false

def nfcOptions : Cbor → Bool
  | .map m => onlyKeys [.uint 0, .uint 1] m && req (.uint 0) isUint m && req (.uint 1) isUint m
  | _ => false

def retrievalMethod : Cbor → Bool
  | .array [.uint 1, .uint 1, o] => nfcOptions o
  | .array [.uint 2, .uint 1, o] => bleOptions o
  | .array [.uint 3, .uint 1, o] => wifiOptions o
  | _ => false

def serverMethod : Cbor → Bool
  | .array [v, u, t] => isUint v && isText u && isText t
  | _ => false

def serverRetrieval : Cbor → Bool
  | .map m => onlyKeys [tx "webApi", tx "oidc"] m && opt (tx "webApi") serverMethod m && opt (tx "oidc") serverMethod m
  | _ => false

def security : Cbor → Bool
  | .array [.uint 1, k] => tag24 coseKey k
  | _ => false

def deviceEngagement : Cbor → Bool
  | .map m =>
    noDup (keys m) && (keys m).all isInt &&
    req (.uint 0) (isTextEq "1.0") m && req (.uint 1) security m &&
    opt (.uint 2) (arrayOf retrievalMethod true) m && opt (.uint 3) serverRetrieval m
  | _ => false

/-! ### Session establishment / data (§9.1.1.4) -/

def sessionEstablishment : Cbor → Bool
  | .map m => onlyKeys [tx "eReaderKey", tx "data"] m && req (tx "eReaderKey") (tag24 coseKey) m && req (tx "data") isBytes m
  | _ => false

def sessionStatus : Cbor → Bool
  | .uint n => n == 10 || n == 11 || n == 20
  | _ => false

/-- `data` is the output of AES-256-GCM: the encrypted message followed by the 16-byte tag -/
def isCiphertext : Cbor → Bool
  | .bytes b => 16 ≤ b.length
  | _ => false

/-- at least one of data / status; `data`, when present, is a ciphertext; a message whose status
reports that the sender could not produce or read a message (10 session encryption error, 11 CBOR
decoding error) is status-only: it carries no `data` member at all (20, session termination, may
accompany data) -/
def sessionData : Cbor → Bool
  | .map m => onlyKeys [tx "data", tx "status"] m && opt (tx "data") isCiphertext m && opt (tx "status") sessionStatus m &&
    ((get (tx "data") m).isSome || (get (tx "status") m).isSome) &&
    (match get (tx "status") m with
     | some (.uint 10) => (get (tx "data") m).isNone
     | some (.uint 11) => (get (tx "data") m).isNone
     | _ => true)
  | _ => false

/-! ### Device request (§8.3.2.1.2.1) -/

def itemsRequest : Cbor → Bool
  | .map m => onlyKeys [tx "docType", tx "nameSpaces", tx "requestInfo"] m &&
    req (tx "docType") isText m &&
    req (tx "nameSpaces") (mapOf isText (mapOf isText isBool true) true) m &&
    opt (tx "requestInfo") (mapOf isText (fun _ => true) false) m
  | _ => false

def docRequest : Cbor → Bool
  | .map m => onlyKeys [tx "itemsRequest", tx "readerAuth"] m &&
    req (tx "itemsRequest") (tag24 itemsRequest) m && opt (tx "readerAuth") coseSign1 m
  | _ => false

def deviceRequest : Cbor → Bool
  | .map m => onlyKeys [tx "version", tx "docRequests"] m &&
    req (tx "version") (isTextEq "1.0") m && req (tx "docRequests") (arrayOf docRequest true) m
  | _ => false

/-! ### Device response (§8.3.2.1.2.2) -/

def issuerSignedItem : Cbor → Bool
  | .map m => onlyKeys [tx "digestID", tx "random", tx "elementIdentifier", tx "elementValue"] m &&
    req (tx "digestID") isUint m && req (tx "random") isBytes m && req (tx "elementIdentifier") isText m &&
    (get (tx "elementValue") m).isSome
  | _ => false

def issuerSigned : Cbor → Bool
  | .map m => onlyKeys [tx "nameSpaces", tx "issuerAuth"] m &&
    opt (tx "nameSpaces") (mapOf isText (arrayOf (tag24 issuerSignedItem) true) true) m &&
    req (tx "issuerAuth") coseSign1 m
  | _ => false

/-- deviceAuth: exactly one of deviceSignature (COSE_Sign1) / deviceMac (COSE_Mac0), detached payload -/
def deviceAuth : Cbor → Bool
  | .map [(k, v)] =>
    (beq k (tx "deviceSignature") && coseSign1 v && payloadIsNil v) ||
    (beq k (tx "deviceMac") && coseMac0 v && payloadIsNil v)
  | _ => false

def deviceSigned : Cbor → Bool
  | .map m => onlyKeys [tx "nameSpaces", tx "deviceAuth"] m &&
    req (tx "nameSpaces") (tag24 (mapOf isText (mapOf isText (fun _ => true) true) false)) m &&
    req (tx "deviceAuth") deviceAuth m
  | _ => false

def errorCode : Cbor → Bool := isInt

def document : Cbor → Bool
  | .map m => onlyKeys [tx "docType", tx "issuerSigned", tx "deviceSigned", tx "errors"] m &&
    req (tx "docType") isText m && req (tx "issuerSigned") issuerSigned m && req (tx "deviceSigned") deviceSigned m &&
    opt (tx "errors") (mapOf isText (mapOf isText errorCode true) true) m
  | _ => false

def responseStatus : Cbor → Bool
  | .uint n => n == 0 || n == 10 || n == 11 || n == 12
  | _ => false

def deviceResponse : Cbor → Bool
  | .map m => onlyKeys [tx "version", tx "documents", tx "documentErrors", tx "status"] m &&
    req (tx "version") (isTextEq "1.0") m &&
    opt (tx "documents") (arrayOf document true) m &&
    -- DocumentError = { DocType => ErrorCode }: ONE entry per array element
    opt (tx "documentErrors") (arrayOf (fun e => mapOf isText errorCode true e && (match e with | .map [_] => true | _ => false)) true) m &&
    req (tx "status") responseStatus m
  | _ => false

/-! ### Mobile security object (§9.1.2.4) -/

def digestAlg (c : Cbor) : Option Nat :=
  if isTextEq "SHA-256" c then some 32 else if isTextEq "SHA-384" c then some 48 else if isTextEq "SHA-512" c then some 64 else none

def keyAuthorizations : Cbor → Bool
  | .map m => onlyKeys [tx "nameSpaces", tx "dataElements"] m &&
    opt (tx "nameSpaces") (arrayOf isText true) m &&
    opt (tx "dataElements") (mapOf isText (arrayOf isText true) true) m
  | _ => false

def deviceKeyInfo : Cbor → Bool
  | .map m => onlyKeys [tx "deviceKey", tx "keyAuthorizations", tx "keyInfo"] m &&
    req (tx "deviceKey") coseKey m && opt (tx "keyAuthorizations") keyAuthorizations m &&
    opt (tx "keyInfo") (mapOf isInt (fun _ => true) false) m
  | _ => false

def validityInfo : Cbor → Bool
  | .map m => onlyKeys [tx "signed", tx "validFrom", tx "validUntil", tx "expectedUpdate"] m &&
    req (tx "signed") tdate m && req (tx "validFrom") tdate m && req (tx "validUntil") tdate m && opt (tx "expectedUpdate") tdate m
  | _ => false

def mso : Cbor → Bool
  | .map m =>
    onlyKeys [tx "version", tx "digestAlgorithm", tx "valueDigests", tx "deviceKeyInfo", tx "docType", tx "validityInfo"] m &&
    req (tx "version") (isTextEq "1.0") m &&
    (match (get (tx "digestAlgorithm") m).bind digestAlg with
     | some len =>
       req (tx "valueDigests") (mapOf isText (mapOf isUint (fun d => match d with | .bytes b => b.length == len | _ => false) true) true) m
     | none => false) &&
    req (tx "deviceKeyInfo") deviceKeyInfo m && req (tx "docType") isText m && req (tx "validityInfo") validityInfo m
  | _ => false

/-- device-signature algorithm matches the device key's curve: checked on a Document given the MSO
carried in its issuerAuth payload -/
def deviceAlgMatchesKey (doc : Cbor) : Bool :=
  match doc with
  | .map m =>
    match get (tx "issuerSigned") m, get (tx "deviceSigned") m with
    | some (.map is), some (.map ds) =>
      let issuerAuth := get (tx "issuerAuth") is
      let payload := match issuerAuth with
        | some (.array [_, _, .bytes p, _]) => some p
        | some (.tag _ (.array [_, _, .bytes p, _])) => some p
        | _ => none
      let key := match payload.bind decodeAll with
        | some (.tag 24 (.bytes b)) =>
          (match decodeAll b with
           | some (.map mm) => (match get (tx "deviceKeyInfo") mm with
             | some (.map dk) => get (tx "deviceKey") dk
             | _ => none)
           | _ => none)
        | _ => none
      let alg := match get (tx "deviceAuth") ds with
        | some (.map [(_, c)]) => protectedAlg c
        | _ => none
      match key.bind algForKey, alg with
      | some a, some b => beq a b
      | _, _ => false
    | _, _ => false
  | _ => false

end IsoMdl.Cddl
