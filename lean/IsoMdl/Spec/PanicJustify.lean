import IsoMdl.Generated.PanicSites
/-
S-C15 — the justification table over the GENERATED inventory of panic-capable sites
(`Generated/PanicSites.lean`: every unwrap/expect/from_slice/index/arithmetic/assert/unreachable in
non-test library code, regenerated from /repo/src on every run).  `table` is keyed by the site's
generated name (`PanicSite.key`); `C15_inventory_justified` proves that EVERY site of the regenerated
inventory has an entry: a site that appears in the source without an entry here fails that theorem and
the C15 check reports it.  An entry whose site is no longer in the source is simply unused - removing a
panic-capable site cannot break the property, so it must not raise an alarm (it did, until a
behaviour-preserving refactoring that dropped two `unwrap`s showed it; `unusedEntries` lists such entries).  A site is identified by
its file, its kind and the SHAPE of its operand (for `x.a().b(c).unwrap()` the last call `.b(c)`; callee
paths, method names, literals; local names blanked), so renaming locals, merging identical calls or moving code into a helper of the same
file does not disturb the table; sites whose operand consists of locals only stay tied to their
function and text.

The classes (each entry names why the operand cannot be chosen by the peer or by stored data so
that the primitive panics):
-/
namespace IsoMdl.Spec.C15
open IsoMdl.Generated

inductive Justification where
  /-- the operand has a fixed size/shape that does not depend on any input -/
  | constantOperand (why : String)
  /-- the operand was produced by the crate itself from an already validated value; the type's
  invariant (non-empty vector/map) or the C16 round trip carries the argument -/
  | ownOutput (why : String)
  /-- preceded by an explicit test of the failing condition on the same value -/
  | guarded (why : String)
  /-- never called from non-test code -/
  | deadCode (why : String)
  /-- consumes values of the local application (issuance, provisioning, JSON records), not the
  peer's or stored bytes; those inputs are C19's subject -/
  | localApi (why : String)
  /-- reachable with hostile input; modelled in Model/Partial.lean and covered by a theorem -/
  | modelled (thm : String)
  deriving Repr

open Justification in
def table : List (String × Justification) := [
  ("definitions_device_engagement__unwrap_9cc689", ownOutput "security.0 is a u64: serialising an integer into a ciborium Value cannot fail"),
  ("definitions_device_engagement__unwrap_e4f59e", ownOutput "security.1 is a Tag24<CoseKey> already holding its encoded bytes: serialisation emits tag 24 + bstr"),
  ("definitions_helpers_non_empty_vec__unwrap_38e54e", ownOutput "`try_into` of the element-wise (try-)map of a NonEmptyVec: the length stays >= 1 (in the fallible form the `?` before it returns on any element error)"),
  ("definitions_namespaces_org_iso_18013_5_1_tdate__unwrap_a91186", constantOperand "replace_millisecond(0): 0 is always a valid millisecond"),
  ("definitions_session__unwrap_1d9b50", guarded "`if public_key_opt.is_none().into() { return Err }` immediately before"),
  ("definitions_session__unwrap_91a0ee", constantOperand "HKDF-SHA-256 expand into a 32-byte buffer: 32 <= 255*32"),
  ("definitions_session__arithadd_073ffc", modelled "C15_counter_never_panics (callers refuse at u32::MAX before the increment)"),
  ("definitions_x509_x5chain__index_d237ce", ownOutput "X5Chain wraps a NonEmptyVec: index 0 exists"),
  ("presentation_device__unwrap_eb71d6", ownOutput "decodes the bytes `cbor::to_vec(&response)` has just produced (C16 round trip of DeviceResponse)"),
  ("presentation_device__assert_eq_3c1ccc", ownOutput "re-encoding of the value decoded from the crate's own encoding (C16 round trip of DeviceResponse)"),
  ("presentation_device__unreachable_9a556d", guarded "`matches!(&self.state, State::Signing(..))` on the same state immediately before"),
  ("presentation_device__unreachable_b58ed3", guarded "`if self.response_ready()` i.e. state is ReadyToRespond, then `mem::take` of the same state"),
  ("presentation_device__unwrap_6f3d02", localApi "provisioning (`Document::from(Mdoc)`): `try_into` of the keyed collection of a NonEmptyVec of elements / of the mapped NonEmptyMap of namespaces, both non-empty"),
  ("presentation_reader__unwrap_df4803", deadCode "`_validate_request` has no caller")]

def Justification.isModelled : Justification → Bool
  | .modelled _ => true
  | _ => false

def justifyKey (k : String) : Option Justification := (table.find? fun e => e.1 == k).map (·.2)

/-- the justification of a site of the regenerated inventory, if the table has one -/
def justify? (s : PanicSite) : Option Justification := justifyKey s.key

/-- table entries whose site is no longer in the source (informational) -/
def unusedEntries : List String := (table.map (·.1)).filter fun k => !(PanicSite.all.map PanicSite.key).contains k

/-- sites whose safety rests on a theorem of Props/C15 rather than on a local argument -/
def modelledKeys : List String :=
  ["definitions_session__arithadd_073ffc"]

end IsoMdl.Spec.C15
