import IsoMdl.Generated.PanicSites
/-
S-C15 — the justification table over the GENERATED inventory of panic-capable sites
(`Generated/PanicSites.lean`: every unwrap/expect/from_slice/index/arithmetic/assert/unreachable in
non-test library code, regenerated from /repo/src on every run).  `justify` is a TOTAL function on
the generated type: a site that appears in the source without an entry here, or an entry whose site
is no longer in the source, does not compile, and the C15 check reports it.

The classes (each entry names why the operand cannot be chosen by the peer or by stored data so
that the primitive panics):
-/
namespace IsoMdl.Spec.C15
open IsoMdl.Generated

inductive Justification where
  /-- the operand has a fixed size/shape that does not depend on any input -/
  | constantOperand (why : String)
  /-- the operand was produced by the crate itself from an already validated value; the type's
  invariant (non-empty vector/map) or the C16 round trip carries the argument -/
  | ownOutput (why : String)
  /-- preceded by an explicit test of the failing condition on the same value -/
  | guarded (why : String)
  /-- never called from non-test code -/
  | deadCode (why : String)
  /-- consumes values of the local application (issuance, provisioning, JSON records), not the
  peer's or stored bytes; those inputs are C19's subject -/
  | localApi (why : String)
  /-- reachable with hostile input; modelled in Model/Partial.lean and covered by a theorem -/
  | modelled (thm : String)
  deriving Repr

open Justification in
def justify : PanicSite → Justification
  | .definitions_device_engagement__from__unwrap_6106ec => ownOutput "security.0 is a u64: serialising an integer into a ciborium Value cannot fail"
  | .definitions_device_engagement__from__unwrap_5e2ae9 => ownOutput "security.1 is a Tag24<CoseKey> already holding its encoded bytes: serialisation emits tag 24 + bstr"
  | .definitions_helpers_non_empty_vec__into__unwrap_d3bc36 => ownOutput "element-wise map of a NonEmptyVec keeps its length >= 1"
  | .definitions_helpers_non_empty_vec__try_into__unwrap_09cd47 => ownOutput "element-wise try-map of a NonEmptyVec keeps its length >= 1 (the `?` before it returns on any element error)"
  | .definitions_namespaces_org_iso_18013_5_1_tdate__from_json__unwrap_0665b6 => constantOperand "replace_millisecond(0): 0 is always a valid millisecond"
  | .definitions_session__get_shared_secret__unwrap_1643e7 => guarded "`if public_key_opt.is_none().into() { return Err }` immediately before"
  | .definitions_session__derive_session_key__unwrap_e905f1 => constantOperand "HKDF-SHA-256 expand into a 32-byte buffer: 32 <= 255*32"
  | .definitions_session__derive_session_key__unwrap_34fefa => constantOperand "HKDF-SHA-256 expand into a 32-byte buffer: 32 <= 255*32"
  | .definitions_session__get_initialization_vector__arithadd_c6d741 => modelled "C15_counter_never_panics (callers refuse at u32::MAX before the increment)"
  | .definitions_x509_x5chain__end_entity_certificate__index_815be4 => ownOutput "X5Chain wraps a NonEmptyVec: index 0 exists"
  | .presentation_device__finalize_if_complete__unwrap_aefa73 => ownOutput "decodes the bytes `cbor::to_vec(&response)` has just produced (C16 round trip of DeviceResponse)"
  | .presentation_device__finalize_if_complete__assert_eq_f7aa61 => ownOutput "re-encoding of the value decoded from the crate's own encoding (C16 round trip of DeviceResponse)"
  | .presentation_device__finalize_if_complete__unreachable_29f540 => guarded "`matches!(&self.state, State::Signing(..))` on the same state immediately before"
  | .presentation_device__retrieve_response__unreachable_16f28e => guarded "`if self.response_ready()` i.e. state is ReadyToRespond, then `mem::take` of the same state"
  | .presentation_device__extract__unwrap_92406f => localApi "provisioning (`Document::from(Mdoc)`): element list is a NonEmptyVec, its keyed collection is non-empty"
  | .presentation_device__from__unwrap_e7a63b => localApi "provisioning (`Document::from(Mdoc)`): namespaces is a NonEmptyMap, its mapped collection is non-empty"
  | .presentation_reader__validate_request__unwrap_ff10b7 => deadCode "`_validate_request` has no caller"

/-- sites whose safety rests on a theorem of Props/C15 rather than on a local argument -/
def modelledSites : List PanicSite :=
  [.definitions_session__get_initialization_vector__arithadd_c6d741]

end IsoMdl.Spec.C15
