import IsoMdl.Model.DeviceAuthReq
import IsoMdl.Spec.ReaderAuth
namespace IsoMdl.DeviceAuthReq
open IsoMdl.ReaderAuth

/-- C11 on a real verdict: Valid iff every document request's reader authentication is valid
(for a message that decrypted and decoded) -/
def c11Ok (reqs : List ReqFacts) (status : Status) : Bool :=
  (status == .valid) == (reqs.all fun r =>
    r.present && r.x5chainPresent && r.x5chainParses && r.chainErrors == 0 && r.keyParses && algOk r.alg &&
    !r.payloadAttached && r.sigParses && r.sigAccepts)

end IsoMdl.DeviceAuthReq
