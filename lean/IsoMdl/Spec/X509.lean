import IsoMdl.Model.X509
/-
C12 stated declaratively: the Annex B certificate profiles and trust anchoring, independent of
the loop structure of the implementation.
-/
namespace IsoMdl.X509

def roleOid : Role → Nat | .reader => 6 | _ => 2
def roleKu : Role → List Nat | .iaca => [5, 6] | _ => [0]

/-- a required extension carries the value its role requires -/
def ExtGood (role : Role) (c : Cert) (e : Ext) : Prop :=
  match e.id with
  | .ski => e.payload = .ski c.keyHash
  | .ku => e.payload = .ku (roleKu role)
  | .eku => ∃ oids, e.payload = .eku oids ∧ oids ≠ [] ∧ ∀ o ∈ oids, o = roleOid role
  | .bc => e.payload = .bc true (some 0)
  | .crldp => ∃ pts, e.payload = .crldp pts ∧ pts ≠ [] ∧
      ∀ p ∈ pts, p.uriFullName = true ∧ p.reasons = false ∧ p.crlIssuer = false
  | .ian => e.payload = .ian true
  | _ => True

/-- the profile of a role: no prohibited extension, no critical extension outside the required
set, every required extension present, every occurrence of a required extension good -/
def ProfileOk (role : Role) (c : Cert) : Prop :=
  (∀ e ∈ c.exts, ∀ n, e.id ≠ .disallowed n) ∧
  (∀ e ∈ c.exts, e.id ∉ requiredIds role → e.critical = false) ∧
  (∀ id ∈ requiredIds role, ∃ e ∈ c.exts, e.id = id) ∧
  (∀ e ∈ c.exts, e.id ∈ requiredIds role → ExtGood role c e)

def WithinValidity (c : Cert) : Prop := 0 ≤ c.notAfter ∧ c.notBefore ≤ 0

/-- `a` anchors `leaf` for purpose `p` -/
def Anchors (leaf : Cert) (p : Purpose) (a : Anchor) : Prop :=
  a.purpose = p ∧ a.cert.subject = leaf.issuer ∧ keyIdentifierCheck a.cert leaf = true ∧
  issuerSigned leaf a.cert = true ∧ WithinValidity a.cert

def SingleEqual (this that : List Nat) : Prop := ∃ v, this = [v] ∧ that = [v]

/-! Executable form of the same declarative statement, evaluated by the driver on the verdict the
REAL library returned for a generated chain (`spec.c12`); `Props/C12.lean` proves it equivalent to
the propositions above. -/

def extGoodB (role : Role) (c : Cert) (e : Ext) : Bool :=
  match e.id with
  | .ski => e.payload == .ski c.keyHash
  | .ku => e.payload == .ku (roleKu role)
  | .eku => match e.payload with | .eku oids => !oids.isEmpty && oids.all (· == roleOid role) | _ => false
  | .bc => e.payload == .bc true (some 0)
  | .crldp => match e.payload with
    | .crldp pts => !pts.isEmpty && pts.all fun p => p.uriFullName && !p.reasons && !p.crlIssuer
    | _ => false
  | .ian => e.payload == .ian true
  | _ => true

def isDisallowed : ExtId → Bool | .disallowed _ => true | _ => false

def profileOkB (role : Role) (c : Cert) : Bool :=
  c.exts.all (fun e => !isDisallowed e.id) &&
  c.exts.all (fun e => (requiredIds role).contains e.id || !e.critical) &&
  (requiredIds role).all (fun id => c.exts.any (fun e => e.id == id)) &&
  c.exts.all (fun e => !(requiredIds role).contains e.id || extGoodB role c e)

def withinValidityB (c : Cert) : Bool := decide (0 ≤ c.notAfter) && decide (c.notBefore ≤ 0)

def anchorsB (leaf : Cert) (p : Purpose) (a : Anchor) : Bool :=
  a.purpose == p && a.cert.subject == leaf.issuer && keyIdentifierCheck a.cert leaf &&
  issuerSigned leaf a.cert && withinValidityB a.cert

def singleEqualB (this that : List Nat) : Bool :=
  match this, that with
  | [v], [w] => v == w
  | _, _ => false

/-- the whole verdict: "no error" is expected exactly here -/
def conformsB (rs : Ruleset) (leaf : Cert) (anchors : List Anchor) : Bool :=
  match rs with
  | .mdlReaderOneStep =>
    withinValidityB leaf && profileOkB .reader leaf && anchors.any (anchorsB leaf .readerCa)
  | .mdl =>
    withinValidityB leaf && profileOkB .ds leaf &&
    match anchors.find? (anchorsB leaf .iaca) with
    | none => false
    | some a => singleEqualB leaf.countries a.cert.countries && profileOkB .iaca a.cert &&
        ((leaf.states.isEmpty && a.cert.states.isEmpty) || singleEqualB leaf.states a.cert.states)
  | .aamvaMdl =>
    withinValidityB leaf && profileOkB .ds leaf &&
    match anchors.find? (anchorsB leaf .iaca) with
    | none => false
    | some a => singleEqualB leaf.countries a.cert.countries && profileOkB .iaca a.cert &&
        singleEqualB leaf.states a.cert.states

end IsoMdl.X509
