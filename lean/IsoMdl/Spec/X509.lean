import IsoMdl.Model.X509
/-
C12 stated declaratively: the Annex B certificate profiles and trust anchoring, independent of
the loop structure of the implementation.
-/
namespace IsoMdl.X509

def roleOid : Role → Nat | .reader => 6 | _ => 2
def roleKu : Role → List Nat | .iaca => [5, 6] | _ => [0]

/-- a required extension carries the value its role requires -/
def ExtGood (role : Role) (c : Cert) (e : Ext) : Prop :=
  match e.id with
  | .ski => e.payload = .ski c.keyHash
  | .ku => e.payload = .ku (roleKu role)
  | .eku => ∃ oids, e.payload = .eku oids ∧ oids ≠ [] ∧ ∀ o ∈ oids, o = roleOid role
  | .bc => e.payload = .bc true (some 0)
  | .crldp => ∃ pts, e.payload = .crldp pts ∧ pts ≠ [] ∧
      ∀ p ∈ pts, p.uriFullName = true ∧ p.reasons = false ∧ p.crlIssuer = false
  | .ian => e.payload = .ian true
  | _ => True

/-- the profile of a role: no prohibited extension, no critical extension outside the required
set, every required extension present, every occurrence of a required extension good -/
def ProfileOk (role : Role) (c : Cert) : Prop :=
  (∀ e ∈ c.exts, ∀ n, e.id ≠ .disallowed n) ∧
  (∀ e ∈ c.exts, e.id ∉ requiredIds role → e.critical = false) ∧
  (∀ id ∈ requiredIds role, ∃ e ∈ c.exts, e.id = id) ∧
  (∀ e ∈ c.exts, e.id ∈ requiredIds role → ExtGood role c e)

def WithinValidity (c : Cert) : Prop := 0 ≤ c.notAfter ∧ c.notBefore ≤ 0

/-- `a` anchors `leaf` for purpose `p` -/
def Anchors (leaf : Cert) (p : Purpose) (a : Anchor) : Prop :=
  a.purpose = p ∧ a.cert.subject = leaf.issuer ∧ keyIdentifierCheck a.cert leaf = true ∧
  issuerSigned leaf a.cert = true ∧ WithinValidity a.cert

def SingleEqual (this that : List Nat) : Prop := ∃ v, this = [v] ∧ that = [v]

end IsoMdl.X509
