import IsoMdl.Model.Util
/-
ISO/IEC 18013-5 §9.1.1.5: IV = 8-byte identifier (all zero for the mdoc reader, 00..01 for the
mdoc) ‖ 4-byte big-endian message counter, counters starting at 1.  Written from the standard,
not from the code.
-/
namespace IsoMdl.Spec
open IsoMdl

def ivIdentifier (reader : Bool) : Bytes :=
  if reader then [0, 0, 0, 0, 0, 0, 0, 0] else [0, 0, 0, 0, 0, 0, 0, 1]

def isoIv (reader : Bool) (n : Nat) : Bytes := ivIdentifier reader ++ beBytes 4 n

/-- executable check used on real observations -/
def isIsoIv (reader : Bool) (n : Nat) (iv : Bytes) : Bool := iv == isoIv reader n

end IsoMdl.Spec
