import IsoMdl.Model.Namespaces
import IsoMdl.Spec.Time
/-
S-C19 — the data models as the standards give them (ISO/IEC 18013-5:2021 Table 5 for
`org.iso.18013.5.1`; AAMVA mDL Implementation Guidelines for `org.iso.18013.5.1.aamva`), written by
hand and independent of the source, and the predicate the check evaluates on what the REAL
library returned for a JSON record:

  accepted  ⇒  exactly one element per supplied field of the data model (every `age_over_NN`,
               every `biometric_template_xx`) and nothing else, each under the standard identifier,
               with the prescribed CBOR type and denoting the supplied value;
  rejected  ⇒  a mandatory field is missing or some supplied value is outside its domain;
  never a panic.

Date-times are compared as INSTANTS with the civil-date arithmetic of Spec/Time.lean (not with the
model's day-stepping), full dates and text byte for byte.
-/
namespace IsoMdl.Spec.Ns
open IsoMdl IsoMdl.Cbor IsoMdl.Ns

/-- value kinds of the two data models -/
inductive Kind where
  | latin1        -- tstr, Latin-1, at most 150 characters
  | text          -- tstr
  | uint          -- uint (32 bit in this library)
  | fullDate      -- #6.1004(tstr) full-date
  | tdate         -- #6.0(tstr) date-time, UTC, no fraction
  | tdateOrFullDate
  | bstr          -- bstr, supplied as base64
  | codeStr (table : String) (fold : Nat)   -- tstr from a code table; fold 0 exact, 1 ASCII case-insensitive→lower, 2 →upper
  | codeInt (codes : List Nat)
  | present       -- the value 1
  | county        -- three digits
  | nested (ty : String)                    -- structured value (privileges): delegated to the model's interpreter
  deriving Repr

structure Elem where
  name : String
  kind : Kind
  mandatory : Bool
  deriving Repr

/-- ISO/IEC 18013-5:2021 7.2.1 Table 5 -/
def isoMdl : List Elem := [
  ⟨"family_name", .latin1, true⟩, ⟨"given_name", .latin1, true⟩, ⟨"birth_date", .fullDate, true⟩,
  ⟨"issue_date", .tdateOrFullDate, true⟩, ⟨"expiry_date", .tdateOrFullDate, true⟩,
  ⟨"issuing_country", .codeStr "Alpha2" 0, true⟩, ⟨"issuing_authority", .latin1, true⟩,
  ⟨"document_number", .latin1, true⟩, ⟨"portrait", .bstr, true⟩,
  ⟨"driving_privileges", .nested "DrivingPrivileges", true⟩, ⟨"un_distinguishing_sign", .text, true⟩,
  ⟨"administrative_number", .latin1, false⟩, ⟨"sex", .codeInt [0, 1, 2, 9], false⟩,
  ⟨"height", .uint, false⟩, ⟨"weight", .uint, false⟩,
  ⟨"eye_colour", .codeStr "EyeColour" 1, false⟩, ⟨"hair_colour", .codeStr "HairColour" 1, false⟩,
  ⟨"birth_place", .latin1, false⟩, ⟨"resident_address", .latin1, false⟩,
  ⟨"portrait_capture_date", .tdate, false⟩, ⟨"age_in_years", .uint, false⟩, ⟨"age_birth_year", .uint, false⟩,
  ⟨"nationality", .codeStr "Alpha2" 0, false⟩, ⟨"resident_city", .latin1, false⟩,
  ⟨"resident_state", .latin1, false⟩, ⟨"resident_postal_code", .latin1, false⟩,
  ⟨"resident_country", .codeStr "Alpha2" 0, false⟩,
  ⟨"family_name_national_character", .text, false⟩, ⟨"given_name_national_character", .text, false⟩,
  ⟨"signature_usual_mark", .bstr, false⟩ ]
  -- plus: age_over_NN (bool, NN two digits), biometric_template_xx (bstr),
  -- issuing_jurisdiction (tstr starting with issuing_country)

/-- AAMVA mDL Implementation Guidelines, namespace org.iso.18013.5.1.aamva -/
def aamva : List Elem := [
  ⟨"domestic_driving_privileges", .nested "DomesticDrivingPrivileges", true⟩,
  ⟨"name_suffix", .codeStr "NameSuffix" 0, false⟩, ⟨"organ_donor", .present, false⟩, ⟨"veteran", .present, false⟩,
  ⟨"family_name_truncation", .codeStr "NameTruncation" 0, true⟩, ⟨"given_name_truncation", .codeStr "NameTruncation" 0, true⟩,
  ⟨"aka_family_name.v2", .latin1, false⟩, ⟨"aka_given_name.v2", .latin1, false⟩,
  ⟨"aka_suffix", .codeStr "NameSuffix" 0, false⟩, ⟨"weight_range", .codeInt [0, 1, 2, 3, 4, 5, 6, 7, 8, 9], false⟩,
  ⟨"race_ethnicity", .codeStr "RaceAndEthnicity" 0, false⟩, ⟨"EDL_credential", .codeInt [1, 2], false⟩,
  ⟨"sex", .codeInt [1, 2, 9], true⟩, ⟨"DHS_compliance", .codeStr "DHSCompliance" 0, true⟩,
  ⟨"resident_county", .county, false⟩, ⟨"hazmat_endorsement_expiration_date", .fullDate, false⟩,
  ⟨"CDL_indicator", .present, false⟩, ⟨"DHS_compliance_text", .text, false⟩,
  ⟨"DHS_temporary_lawful_status", .present, false⟩ ]

/-- small code tables restated from the standards (the two large ones, ISO 3166-1 alpha-2 and the
UN distinguishing signs, are taken from the regenerated tables) -/
def codesOf (table : String) : List Str :=
  match table with
  | "EyeColour" => ["black", "blue", "brown", "dichromatic", "grey", "green", "hazel", "maroon", "pink", "unknown"].map strOfLit
  | "HairColour" => ["bald", "black", "blond", "brown", "grey", "red", "auburn", "sandy", "white", "unknown"].map strOfLit
  | "NameSuffix" => ["JR", "SR", "1ST", "I", "2ND", "II", "3RD", "III", "4TH", "IV", "5TH", "V", "6TH", "VI", "7TH", "VII", "8TH", "VIII", "9TH", "IX"].map strOfLit
  | "NameTruncation" => ["T", "N", "U"].map strOfLit
  | "RaceAndEthnicity" => ["AI", "AP", "BK", "H", "O", "U", "W"].map strOfLit
  | "DHSCompliance" => ["F", "N"].map strOfLit
  | "Alpha2" => match Generated.Ns.tables.find? (fun t => t.ty == "Alpha2" && t.func == "from_str") with
    | some t => t.arms.filterMap fun a => match a.1 with | .s b => some (ofAscii b) | _ => none
    | none => []
  | _ => []

def foldStr (fold : Nat) (s : Str) : Str :=
  if fold == 1 then s.flatMap lowerAscii else if fold == 2 then s.map upperAscii else s

/-! instants -/
def instantOf (p : Rfc3339) : Int :=
  IsoMdl.Spec.daysFromCivil p.y p.mo p.d * 86400 + ((p.h * 3600 + p.mi * 60 + (if p.sec == 60 then 59 else p.sec) : Nat) : Int) - p.offMin * 60

def minInstant : Int := IsoMdl.Spec.daysFromCivil 0 1 1 * 86400
def maxInstant : Int := IsoMdl.Spec.daysFromCivil 9999 12 31 * 86400 + 86399

/-- a leap second may only be written for the last second of a month in UTC -/
def leapOk (p : Rfc3339) : Bool :=
  p.sec != 60 ||
    (let t := instantOf p
     (t % 86400 == 86399) &&
      -- the UTC day of `t` is the last of its month: the next second starts a first of month
      ((List.range 12).any fun m => [-1, 0, 1].any fun (dy : Int) =>
          IsoMdl.Spec.daysFromCivil ((p.y : Int) + dy) (m + 1) 1 * 86400 == t + 1))

/-- does the emitted text `t` (20 characters `YYYY-MM-DDTHH:MM:SSZ`) denote the instant of input `s`? -/
def tdateOk (s : Str) (out : Bytes) : Bool :=
  match parseRfc3339 s with
  | none => false
  | some p => leapOk p && minInstant ≤ instantOf p && instantOf p ≤ maxInstant &&
      out.length == 20 && IsoMdl.Spec.tdateDenotes out (instantOf p)

def tdateInDomain (s : Str) : Bool :=
  match parseRfc3339 s with
  | none => false
  | some p => leapOk p && minInstant ≤ instantOf p && instantOf p ≤ maxInstant

def fullDateInDomain (s : Str) : Bool := (parseFullDate s).isSome

/-- base64 alphabet re-encoding (no padding) — the independent direction of `base64Decode` -/
def b64char (n : Nat) : Nat := if n < 26 then n + 65 else if n < 52 then n + 71 else if n < 62 then n - 4 else if n == 62 then 43 else 47
def b64Encode : Bytes → Str
  | a :: b :: c :: rest =>
    let n := a.toNat * 65536 + b.toNat * 256 + c.toNat
    b64char (n / 262144) :: b64char (n / 4096 % 64) :: b64char (n / 64 % 64) :: b64char (n % 64) :: b64Encode rest
  | [a, b] => let n := a.toNat * 1024 + b.toNat * 4; [b64char (n / 4096), b64char (n / 64 % 64), b64char (n % 64)]
  | [a] => let n := a.toNat * 16; [b64char (n / 64), b64char (n % 64)]
  | [] => []

def stripPad (s : Str) : Str := s.take (s.length - (s.reverse.takeWhile (· == 61)).length)

/-- `c` is the prescribed CBOR form of the supplied JSON value `j` of kind `k` -/
def valueOk (module : String) (k : Kind) (j : Json) (c : Cbor) : Bool :=
  match k, j, c with
  | .latin1, .str s, .text b => s.length ≤ 150 && s.all isLatin1 && b == utf8Enc s
  | .text, .str s, .text b => b == utf8Enc s
  | .uint, .uint n, .uint m => n == m && n < 2 ^ 32
  | .fullDate, .str s, .tag 1004 (.text b) => fullDateInDomain s && b == utf8Enc s
  | .tdate, .str s, .tag 0 (.text b) => tdateOk s b
  | .tdateOrFullDate, .str s, .tag 0 (.text b) => tdateOk s b
  | .tdateOrFullDate, .str s, .tag 1004 (.text b) => !tdateInDomain s && fullDateInDomain s && b == utf8Enc s
  | .bstr, .str s, .bytes b => b64Encode b == stripPad s && (base64Decode s).isSome
  | .codeStr t fold, .str s, .text b => (codesOf t).contains (foldStr fold s) && b == utf8Enc (foldStr fold s)
  | .codeInt codes, .uint n, .uint m => n == m && codes.contains n
  | .present, .uint 1, .uint 1 => true
  | .county, .str s, .text b => s.length == 3 && s.all (fun c => (digitOf c).isSome) && b == utf8Enc s
  | .nested ty, j, c => leaf module 64 ty j == some c
  | _, _, _ => false

/-- the supplied value is inside the domain of kind `k` -/
def inDomain (module : String) (k : Kind) (j : Json) : Bool :=
  match k, j with
  | .latin1, .str s => s.length ≤ 150 && s.all isLatin1
  | .text, .str _ => true
  | .uint, .uint n => n < 2 ^ 32
  | .fullDate, .str s => fullDateInDomain s
  | .tdate, .str s => tdateInDomain s
  | .tdateOrFullDate, .str s => tdateInDomain s || fullDateInDomain s
  | .bstr, .str s => (base64Decode s).isSome
  | .codeStr t fold, .str s => (codesOf t).contains (foldStr fold s)
  | .codeInt codes, .uint n => codes.contains n
  | .present, .uint n => n == 1
  | .county, .str s => s.length == 3 && s.all (fun c => (digitOf c).isSome)
  | .nested ty, j => (leaf module 64 ty j).isSome
  | _, _ => false

def isAgeOverKey (k : Str) : Bool := ((stripPrefixS ageOverPrefix k).bind toAge).isSome
def isBioKey (k : Str) : Bool := (stripPrefixS bioPrefix k).isSome

def lookupOut (out : List (Cbor × Cbor)) (k : Str) : Option Cbor := Cbor.lookup (.text (utf8Enc k)) out

/-- the keys an accepted record must produce -/
def expectedKeys (model : List Elem) (isMdl : Bool) (kvs : List (Str × Json)) : List Str :=
  (model.filterMap fun e => match jget kvs (strOfLit e.name) with | some .null => none | some _ => some (strOfLit e.name) | none => none) ++
  (if isMdl then (kvs.filter fun kv => isAgeOverKey kv.1 || isBioKey kv.1).map (·.1) ++
    (match jget kvs (strOfLit "issuing_jurisdiction") with | some .null => [] | some _ => [strOfLit "issuing_jurisdiction"] | none => []) else [])

def jurisdictionOk (kvs : List (Str × Json)) : Bool :=
  match jget kvs (strOfLit "issuing_jurisdiction"), jget kvs (strOfLit "issuing_country") with
  | none, _ => true
  | some (.str js), some (.str cs) => js.take cs.length == cs
  | some _, _ => false

/-- the record as a whole is inside the data model's domain -/
def recordInDomain (module : String) (model : List Elem) (isMdl : Bool) (kvs : List (Str × Json)) : Bool :=
  (model.all fun e => match jget kvs (strOfLit e.name) with
    | none => !e.mandatory
    | some .null => !e.mandatory
    | some v => inDomain module e.kind v) &&
  (!isMdl ||
    ((kvs.all fun kv => (!isAgeOverKey kv.1 || (match kv.2 with | .bool _ => true | _ => false)) &&
                        (!isBioKey kv.1 || (match kv.2 with | .str s => (base64Decode s).isSome | _ => false))) &&
     jurisdictionOk kvs))

/-- the predicate on the real observation: `real` is `none` for a rejection, `some out` for the
returned namespace map (decoded from the bytes the library produced) -/
def specOk (module : String) (isMdl : Bool) (j : Json) (real : Option (List (Cbor × Cbor))) : Bool :=
  let model := if isMdl then isoMdl else aamva
  match j with
  | .obj kvs =>
    match real with
    | none => !recordInDomain module model isMdl kvs
    | some out =>
      let exp := expectedKeys model isMdl kvs
      -- exactly the expected identifiers, once each
      out.length == exp.length && (exp.all fun k => (lookupOut out k).isSome) &&
      (out.all fun kv => match kv.1 with | .text _ => true | _ => false) &&
      -- each with the prescribed type and the supplied value
      (model.all fun e => match jget kvs (strOfLit e.name), lookupOut out (strOfLit e.name) with
        | some .null, none => true
        | none, none => true
        | some v, some c => valueOk module e.kind v c
        | _, _ => false) &&
      (!isMdl ||
        ((kvs.all fun kv =>
          (!isAgeOverKey kv.1 || (match kv.2, lookupOut out kv.1 with | .bool b, some c => c == ofBool b | _, _ => false)) &&
          (!isBioKey kv.1 || (match kv.2, lookupOut out kv.1 with | .str s, some (.bytes b) => b64Encode b == stripPad s | _, _ => false))) &&
         (match jget kvs (strOfLit "issuing_jurisdiction"), lookupOut out (strOfLit "issuing_jurisdiction") with
          | none, none => true
          | some (.str js), some (.text b) => b == utf8Enc js && jurisdictionOk kvs
          | _, _ => false)))
  | _ => real.isNone

end IsoMdl.Spec.Ns
