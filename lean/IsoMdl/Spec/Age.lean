import IsoMdl.Model.Age
/-
Specification of C20, independent of how the selection is computed: stated over the set of
held claims.  `Nearest n cs r` is the property's sentence.
-/
namespace IsoMdl.Age
variable {α : Type}

def TrueAtLeast (n : Nat) (c : Claim α) : Prop := c.isTrue = true ∧ n ≤ c.age
def FalseAtMost (n : Nat) (c : Claim α) : Prop := c.isTrue = false ∧ c.age ≤ n

/-- "the true claim with the smallest age that is at least NN if one exists, otherwise the false
claim with the largest age that is at most NN if one exists, otherwise nothing". -/
def Nearest (n : Nat) (cs : List (Claim α)) (r : Option (Claim α)) : Prop :=
  ((∃ c ∈ cs, TrueAtLeast n c) →
      ∃ x, r = some x ∧ x ∈ cs ∧ TrueAtLeast n x ∧ ∀ c ∈ cs, TrueAtLeast n c → x.age ≤ c.age) ∧
  ((¬ ∃ c ∈ cs, TrueAtLeast n c) → (∃ c ∈ cs, FalseAtMost n c) →
      ∃ x, r = some x ∧ x ∈ cs ∧ FalseAtMost n x ∧ ∀ c ∈ cs, FalseAtMost n c → c.age ≤ x.age) ∧
  ((¬ ∃ c ∈ cs, TrueAtLeast n c) → (¬ ∃ c ∈ cs, FalseAtMost n c) → r = none)

/-- executable form used on the *real* output by the driver (ages, truth values, index of the
returned item in the holdings or none). -/
def nearestOk (n : Nat) (cs : List (Nat × Bool)) (r : Option Nat) : Bool :=
  let ts := cs.filter (fun c => c.2 && n ≤ c.1)
  let fs := cs.filter (fun c => !c.2 && c.1 ≤ n)
  if !ts.isEmpty then
    match r with
    | none => false
    | some i => match cs[i]? with
      | none => false
      | some x => x.2 && n ≤ x.1 && ts.all (fun c => x.1 ≤ c.1)
  else if !fs.isEmpty then
    match r with
    | none => false
    | some i => match cs[i]? with
      | none => false
      | some x => !x.2 && x.1 ≤ n && fs.all (fun c => c.1 ≤ x.1)
  else r.isNone

end IsoMdl.Age
