import IsoMdl.Model.ReaderAuth
/-
C03 / C04 / C05 as predicates on (facts about the delivered message, statuses the real reader
reported).  These are the right-hand sides of the `_iff` theorems, evaluated on real outcomes.
-/
namespace IsoMdl.ReaderAuth
open IsoMdl.Cose

def algOk (a : ProtAlg) : Bool := match a with | .assigned n => n == -7 | _ => true

/-- C03: Valid iff everything the statement lists holds -/
def issuerValidExpected (f : Facts) : Bool :=
  f.decrypts && f.decodes && f.hasDocuments && f.hasMdlDoc && f.x5chainPresent && f.x5chainParses &&
  f.chainErrors == 0 && f.issuerKeyParses && algOk f.issuerAlg &&
  f.issuerPayloadAttached && f.issuerSigParses && f.issuerSigAccepts &&
  f.msoDecodes && f.docTypeMatches && f.digestsMatch

def c03Ok (f : Facts) (issuer : Status) (errorsEmpty : Bool) : Bool :=
  ((issuer == .valid) == issuerValidExpected f) && (issuer == .valid || !errorsEmpty)

/-- C04: Valid only if the disclosed items and the docType are bound to the signed MSO -/
def c04Ok (f : Facts) (issuer : Status) : Bool :=
  !(issuer == .valid) || (f.digestsMatch && f.docTypeMatches)

/-- C05 -/
def deviceValidExpected (f : Facts) : Bool :=
  f.decrypts && f.decodes && f.hasDocuments && f.hasMdlDoc && f.x5chainPresent && f.x5chainParses &&
  f.issuerPayloadAttached && f.msoDecodes &&
  f.deviceKey == .p256 true && f.deviceAuthIsSignature && algOk f.deviceAlg && !f.devicePayloadAttached &&
  f.deviceSigParses && f.deviceSigAccepts

def c05Ok (f : Facts) (device : Status) : Bool := (device == .valid) == deviceValidExpected f

end IsoMdl.ReaderAuth
