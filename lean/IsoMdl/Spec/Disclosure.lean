import IsoMdl.Model.Disclosure
/-
C02 stated declaratively over (held documents, request, permission, output).
-/
namespace IsoMdl.Disclosure

/-- some document request of the message names (d, ns, e) -/
def RequestedAny (req : Request) (d ns e : Key) : Prop :=
  ∃ rns, (d, rns) ∈ req ∧ ∃ es, (ns, es) ∈ rns ∧ e ∈ es

/-- the holder permitted (d, ns, e) -/
def PermittedElem (perm : Permitted) (d ns e : Key) : Prop :=
  ∃ nss, (d, nss) ∈ perm ∧ ∃ es, (ns, es) ∈ nss ∧ e ∈ es

/-- the device holds item `it` as (d, ns, e) -/
def Holds (held : Held) (d ns e : Key) (it : Nat) : Prop :=
  ∃ doc, lookup d held = some doc ∧ ∃ items, lookup ns doc.namespaces = some items ∧ lookup e items = some it

/-- executable soundness check on a real `PreparedDeviceResponse` / decoded `DeviceResponse`:
every returned document has a requested and permitted document type; every disclosed
(d, ns, e, item) is requested, permitted and the held item; every reported
element error is requested, permitted; every document error is requested and permitted.
`out`: docType → namespace → disclosed (identifier, item); `errs`: docType → namespace → identifiers -/
def soundOk (held : Held) (req : Request) (perm : Permitted)
    (out : List (Key × List (Key × List (Key × Nat)))) (errs : List (Key × List (Key × List Key)))
    (docErrs : List Key) : Bool :=
  let requested := fun (d ns e : Key) => req.any fun (d', rns) => d' == d && rns.any fun (ns', es) => ns' == ns && es.contains e
  let permitted := fun (d ns e : Key) => perm.any fun (d', nss) => d' == d && nss.any fun (ns', es) => ns' == ns && es.contains e
  let holds := fun (d ns e : Key) (it : Nat) =>
    match lookup d held with
    | some doc => match lookup ns doc.namespaces with
      | some items => lookup e items == some it
      | none => false
    | none => false
  -- no unrequested (or unpermitted) document type appears, not even with nothing disclosed in it
  -- (`C02_nothing_else`, first part)
  out.all (fun (d, _) => req.any (fun (d', _) => d' == d) && perm.any (fun (d', _) => d' == d)) &&
  out.all (fun (d, nss) => nss.all fun (ns, items) => items.all fun (e, it) =>
    requested d ns e && permitted d ns e && holds d ns e it) &&
  errs.all (fun (d, nss) => nss.all fun (ns, es) => es.all fun e => requested d ns e && permitted d ns e) &&
  docErrs.all (fun d => req.any (fun (d', _) => d' == d) && perm.any (fun (d', _) => d' == d))

/-- executable completeness check (request with pairwise distinct docTypes): every requested and
permitted (d, ns, e) is disclosed as the held item, or listed as an element error, or its
document is listed as a document error. -/
def completeOk (held : Held) (req : Request) (perm : Permitted)
    (out : List (Key × List (Key × List (Key × Nat)))) (errs : List (Key × List (Key × List Key)))
    (docErrs : List Key) : Bool :=
  perm.all fun (d, nss) => nss.all fun (ns, es) => es.all fun e =>
    let requested := match lookup d req with
      | some rns => match lookup ns rns with
        | some res => res.contains e
        | none => false
      | none => false
    !requested ||
      (docErrs.contains d ||
       (match lookup d errs with
        | some ens => match lookup ns ens with
          | some l => l.contains e
          | none => false
        | none => false) ||
       (match lookup d held, lookup d out with
        | some doc, some ons =>
          (match lookup ns doc.namespaces, lookup ns ons with
           | some items, some dis => match lookup e items with
             | some it => dis.contains (e, it)
             | none => false
           | _, _ => false)
        | _, _ => false))

end IsoMdl.Disclosure
