import IsoMdl.Model.Session
/-
Reference reading of the documented device state diagram (README "Device perspective",
src/lib.rs): AwaitingRequest --request--> (prepare) Signing --all signed--> ReadyToRespond
--retrieve--> AwaitingRequest.  Predicates of C13 stated over the abstract device state.
-/
namespace IsoMdl.Session

/-- documents still unsigned -/
def DevState.unsigned : DevState → List Nat
  | .signing p _ _ => p
  | _ => []

def DevState.isSigning : DevState → Bool
  | .signing .. => true
  | _ => false

def DevState.isReady : DevState → Bool
  | .ready _ => true
  | _ => false

/-- "a response with nothing to sign is retrievable without inventing a signature": a state that
is Signing with no unsigned document must not exist (it is neither offering a payload nor ready). -/
def DevState.stuck : DevState → Bool
  | .signing [] _ _ => true
  | _ => false

/-- the documented transitions (plus no-ops): a request is answered by a prepared response
(Signing) or, when there is nothing to sign (error response, nothing to return), by a response
that is ready at once; signatures are attached one by one; the completed response is retrieved -/
inductive Documented : DevState → DevState → Prop
  | refl (s) : Documented s s
  | prepare (s p) : p ≠ [] → Documented s (.signing p [] 0)
  | respondNow (s m) : Documented s (.ready m)
  | sign (p s st d sig) : p.getLast? = some d → p.dropLast ≠ [] →
      Documented (.signing p s st) (.signing p.dropLast (s ++ [(d, sig)]) st)
  | retrieve (m) : Documented (.ready m) .awaiting

end IsoMdl.Session

namespace IsoMdl.Session
/-! Executable forms, applied by the driver to *real* observations (state read from the
stringified session, return values of the six methods). -/

def offeredOk (offered : Option Nat) (st : DevState) : Bool :=
  match offered with
  | some d => st.unsigned.getLast? == some d
  | none => st.unsigned.isEmpty

def readyOk (b : Bool) (st : DevState) : Bool := b == st.isReady

def retrieveOk (got : Option Msg) (before after : DevState) : Bool :=
  match before with
  | .ready m => got == some m && after == .awaiting
  | _ => got == none && after == before

/-- after a decryptable request that is not a valid DeviceRequest: a response with status 11 or
12 and no document is ready to be retrieved -/
def malformedOk : DevState → Bool
  | .ready (.ct false _ _ (.response st []) false) => st == 11 || st == 12
  | _ => false

/-- after `prepare_response` for the documents `expected` (those of the request that the holder holds and permits): the device is
signing exactly those documents, none signed yet, status 0 - or, with nothing to sign, the (empty, status 0) response is ready.
Whatever was pending before - a half-signed response, a finished one not yet collected - is superseded. -/
def prepareOk (expected : List Nat) (after : DevState) : Bool :=
  match expected, after with
  | [], .ready (.ct false _ _ (.response 0 []) false) => true
  | [], _ => false
  | _, .signing p [] 0 => p.length == expected.length && expected.all p.contains && p.all expected.contains
  | _, _ => false

/-- `offered` is what get_next_signature_payload showed before the call -/
def submitOk (before after : DevState) (offered : Option Nat) (sig : Nat) : Bool :=
  match before, offered with
  | .signing p s st, some d =>
    if p.dropLast.isEmpty then
      match after with
      | .ready (.ct false _ _ (.response st' signed) false) => st' == st && signed == s ++ [(d, sig)]
      | _ => false
    else after == .signing p.dropLast (s ++ [(d, sig)]) st
  | .signing .., none => false        -- a Signing state always offers a payload
  | b, _ => after == b

end IsoMdl.Session
