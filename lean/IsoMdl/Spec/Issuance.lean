import IsoMdl.Model.Issuance
/-
C09 stated over an issued namespace as observed: the disclosed item byte strings and the MSO's
valueDigests for that namespace.  Independent of how the issuer computed them.
-/
namespace IsoMdl.Issuance
open IsoMdl IsoMdl.Cbor

/-- typed view of IssuerSignedItemBytes (any key order) -/
def parseItem (b : Bytes) : Option Item :=
  match decodeAll b with
  | some (.map kvs) =>
    match lookup (tx "digestID") kvs, lookup (tx "random") kvs, lookup (tx "elementIdentifier") kvs,
          lookup (tx "elementValue") kvs with
    | some idc, some (.bytes r), some (.text i), some v =>
      match idc with
      | .uint n => some { digestId := n, random := r, ident := i, value := v }
      | .nint n => some { digestId := -1 - (n : Int), random := r, ident := i, value := v }
      | _ => none
    | _, _, _, _ => none
  | _ => none

def nodupInts : List Int → Bool
  | [] => true
  | x :: xs => !xs.contains x && nodupInts xs

/-- The namespace part of C09 on observed data.
`supplied`: (identifier, encoded value) as handed to the issuer, in map order;
`items`: IssuerSignedItemBytes in issued order; `digests`: valueDigests[namespace];
`decoys`: whether decoys were enabled. -/
def namespaceOk (h : Bytes → Bytes) (dlen : Nat) (supplied : List (Bytes × Bytes)) (items : List Bytes)
    (digests : List (Int × Bytes)) (decoys : Bool) : Bool :=
  match items.mapM parseItem with
  | none => false
  | some its =>
    -- every supplied element exactly once, in order, identifier and value as supplied
    (its.map fun it => (it.ident, enc it.value)) == supplied &&
    -- at least 16 random bytes each
    its.all (fun it => it.random.length ≥ 16) &&
    -- digest ids unique within the namespace and within 0 .. 2^31-1
    nodupInts (its.map (·.digestId)) &&
    its.all (fun it => 0 ≤ it.digestId && it.digestId ≤ 2147483647) &&
    digests.all (fun d => 0 ≤ d.1 && d.1 ≤ 2147483647) &&
    nodupInts (digests.map (·.1)) &&
    -- valueDigests[id] is the declared hash of the item's tag-24 bytes
    (its.zip items).all (fun (it, b) => (digests.lookup it.digestId) == some (digestOfItemBytes h b)) &&
    digests.all (fun d => d.2.length == dlen) &&
    -- decoys: none when disabled; when enabled they correspond to no element
    (if decoys then
        (digests.filter (fun d => !(its.map (·.digestId)).contains d.1)).all
          (fun d => !(items.map (digestOfItemBytes h)).contains d.2)
        && digests.length > its.length
     else digests.length == its.length)

end IsoMdl.Issuance

namespace IsoMdl.Issuance
/-- "empty namespaces or contradictory key authorizations are refused", on an observed outcome:
`sizes` = elements per supplied namespace, `ns`/`de` = authorised namespaces / namespaces with
per-element authorisations. -/
def refusalOk (sizes : List Nat) (ns de : Option (List Nat)) (refused : Bool) : Bool :=
  let contradictory := match ns, de with
    | some n, some d => n.any (fun x => d.contains x)
    | _, _ => false
  let bad := contradictory || sizes.isEmpty || sizes.contains 0
  !bad || refused
end IsoMdl.Issuance
