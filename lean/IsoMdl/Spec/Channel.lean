/-
C06 on real observations: a delivery that is not the peer's next honest message must be rejected
as a decryption error, carry no plaintext-derived data and leave the receiver's state alone; an
honest in-sequence delivery must be accepted.
-/
namespace IsoMdl.Spec

def rejectInertOk (honest : Bool) (outcome : String) (unchanged : Bool) (hasData : Bool) : Bool :=
  if honest then outcome.startsWith "accepted"
  else outcome == "decryption" && unchanged && !hasData

/-- whole-message mutations may also fail to parse as SessionData -/
def rejectOrUnparsedOk (outcome : String) (unchanged : Bool) (hasData : Bool) : Bool :=
  (outcome == "decryption" || outcome == "parsing" || outcome == "statusonly") && unchanged && !hasData

end IsoMdl.Spec

namespace IsoMdl.Spec
/-- Sequence oracle (safety): an accepted ciphertext must come from the peer (`dirOk`), from this
session (`sessOk`), be unmodified, carry a counter `n` above everything accepted before, and may
skip at most as many counter values as ciphertexts were rejected since (a rejected attempt burns
one value; nothing else may). -/
def acceptWindowOk (accepted dirOk sessOk tampered : Bool) (n maxAcc rejSince : Nat) : Bool :=
  !accepted || (dirOk && sessOk && !tampered && maxAcc < n && n ≤ maxAcc + 1 + rejSince)
end IsoMdl.Spec
