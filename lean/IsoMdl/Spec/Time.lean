import IsoMdl.Model.Util
/-
RFC 3339 UTC date-times without fraction (`YYYY-MM-DDThh:mm:ssZ`) and the instant they denote,
by the civil-from-days algorithm.  Executable oracle for "validity times are emitted in UTC
without fractional seconds denoting the same instant to the second" (C16); validated against the
`time` crate by the correspondence run, not proved.
-/
namespace IsoMdl.Spec

def digit? (b : UInt8) : Option Nat := if 48 ≤ b.toNat ∧ b.toNat ≤ 57 then some (b.toNat - 48) else none

def num? (bs : List UInt8) : Option Nat := bs.foldlM (fun acc b => (digit? b).map (acc * 10 + ·)) 0

/-- days since 1970-01-01 of a proleptic Gregorian date (Howard Hinnant's `days_from_civil`) -/
def daysFromCivil (y m d : Int) : Int :=
  let y' := if m ≤ 2 then y - 1 else y
  let era := (if y' ≥ 0 then y' else y' - 399) / 400
  let yoe := y' - era * 400
  let mp := (m + 9) % 12
  let doy := (153 * mp + 2) / 5 + d - 1
  let doe := yoe * 365 + yoe / 4 - yoe / 100 + doy
  era * 146097 + doe - 719468

/-- unix seconds of `YYYY-MM-DDThh:mm:ssZ`; none if the text has any other shape -/
def utcSeconds? (t : List UInt8) : Option Int :=
  if t.length ≠ 20 then none else
  if t[4]! ≠ 45 ∨ t[7]! ≠ 45 ∨ t[10]! ≠ 84 ∨ t[13]! ≠ 58 ∨ t[16]! ≠ 58 ∨ t[19]! ≠ 90 then none else
  match num? (t.take 4), num? ((t.drop 5).take 2), num? ((t.drop 8).take 2), num? ((t.drop 11).take 2),
        num? ((t.drop 14).take 2), num? ((t.drop 17).take 2) with
  | some y, some mo, some d, some h, some mi, some s =>
    if 1 ≤ mo ∧ mo ≤ 12 ∧ 1 ≤ d ∧ d ≤ 31 ∧ h < 24 ∧ mi < 60 ∧ s < 61 then
      some (daysFromCivil y mo d * 86400 + h * 3600 + mi * 60 + s)
    else none
  | _, _, _, _, _, _ => none

/-- the emitted text denotes `floor(instant)` in UTC with no fraction -/
def tdateDenotes (t : List UInt8) (unixSeconds : Int) : Bool := utcSeconds? t == some unixSeconds

end IsoMdl.Spec
