import IsoMdl.Model.Sha2
import IsoMdl.Model.P256
/-
S-C08 — ISO/IEC 18013-5 9.1.1.5 and 8.3.3.1.1.3 in RFC 5869 / RFC 2104 terms, written out
independently of the model's HKDF: for an output of at most one hash block (L ≤ 32) HKDF is
  PRK = HMAC-SHA-256(salt, IKM)          OKM = first L bytes of HMAC-SHA-256(PRK, info ‖ 0x01).
The labels are spelled as bytes.
-/
namespace IsoMdl.Spec.KeyDerivation
open IsoMdl IsoMdl.Sha2

def hkdfOneBlock (salt ikm info : Bytes) (len : Nat) : Bytes :=
  (hmac256 (hmac256 salt ikm) (info ++ [1])).take len

/-- "SKReader" / "SKDevice" -/
def skLabel (reader : Bool) : Bytes :=
  if reader then [0x53, 0x4b, 0x52, 0x65, 0x61, 0x64, 0x65, 0x72] else [0x53, 0x4b, 0x44, 0x65, 0x76, 0x69, 0x63, 0x65]
/-- "BLEIdent" -/
def bleLabel : Bytes := [0x42, 0x4c, 0x45, 0x49, 0x64, 0x65, 0x6e, 0x74]

/-- SKReader / SKDevice: IKM = Z_AB, salt = SHA-256(SessionTranscriptBytes), L = 32 -/
def IsoSessionKey (zab sessionTranscriptBytes : Bytes) (reader : Bool) : Bytes :=
  hkdfOneBlock (sha256 sessionTranscriptBytes) zab (skLabel reader) 32

/-- BLE ident: IKM = EDeviceKeyBytes, no salt, L = 16 -/
def IsoBleIdent (eDeviceKeyBytes : Bytes) : Bytes :=
  hkdfOneBlock [] eDeviceKeyBytes bleLabel 16

/-- a valid P-256 public key: affine coordinates in the field, on the curve (the point at infinity
has no affine coordinates, so it is excluded by construction) -/
def ValidP256Point (x y : Nat) : Prop :=
  x < P256.p ∧ y < P256.p ∧ (y * y) % P256.p = (x * x % P256.p * x + (P256.p - 3) * x + P256.b) % P256.p

end IsoMdl.Spec.KeyDerivation
