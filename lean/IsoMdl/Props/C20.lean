import IsoMdl.Lemmas.Age
import IsoMdl.Spec.Age
/-
C20 — Age attestation selection returns the nearest truthful claim.
Property theorems only; helper lemmas are in `Lemmas/Age.lean`.
-/
namespace IsoMdl.Age
variable {α : Type}

/-- The selection among parsed claims is exactly the property's sentence, for every list of
claims of any size. -/
theorem C20_select_nearest (n : Nat) (cs : List (Claim α)) : Nearest n cs (select n cs) := by
  unfold Nearest select
  refine ⟨?_, ?_, ?_⟩
  · intro ⟨c, hc, ht, hn⟩
    cases hm : minByAge ((cs.filter (·.isTrue)).filter (fun c => c.age ≥ n)) with
    | none =>
      have := (minByAge_none _).mp hm
      have hmem : c ∈ (cs.filter (·.isTrue)).filter (fun c => c.age ≥ n) := by
        simp [List.mem_filter, hc, ht, hn]
      rw [this] at hmem; cases hmem
    | some x =>
      obtain ⟨hx, hmin⟩ := minByAge_some _ _ hm
      simp only [List.mem_filter, decide_eq_true_eq] at hx
      refine ⟨x, rfl, hx.1.1, ⟨hx.1.2, hx.2⟩, ?_⟩
      intro c hc ⟨ht, hn⟩
      apply hmin
      simp [List.mem_filter, hc, ht, hn]
  · intro hno ⟨c, hc, hf, hn⟩
    have hnil : (cs.filter (·.isTrue)).filter (fun c => c.age ≥ n) = [] := by
      apply List.eq_nil_iff_forall_not_mem.mpr
      intro a ha
      simp only [List.mem_filter, decide_eq_true_eq] at ha
      exact hno ⟨a, ha.1.1, ha.1.2, ha.2⟩
    simp only [hnil, minByAge]
    cases hm : maxByAge ((cs.filter (fun c => !c.isTrue)).filter (fun c => c.age ≤ n)) with
    | none =>
      have := (maxByAge_none _).mp hm
      have hmem : c ∈ (cs.filter (fun c => !c.isTrue)).filter (fun c => c.age ≤ n) := by
        simp [List.mem_filter, hc, hf, hn]
      rw [this] at hmem; cases hmem
    | some x =>
      obtain ⟨hx, hmax⟩ := maxByAge_some _ _ hm
      simp only [List.mem_filter, decide_eq_true_eq, Bool.not_eq_true'] at hx
      refine ⟨x, rfl, hx.1.1, ⟨hx.1.2, hx.2⟩, ?_⟩
      intro c hc ⟨hf, hn⟩
      apply hmax
      simp [List.mem_filter, hc, hf, hn]
  · intro hno hno2
    have hnil : (cs.filter (·.isTrue)).filter (fun c => c.age ≥ n) = [] := by
      apply List.eq_nil_iff_forall_not_mem.mpr
      intro a ha
      simp only [List.mem_filter, decide_eq_true_eq] at ha
      exact hno ⟨a, ha.1.1, ha.1.2, ha.2⟩
    have hnil2 : (cs.filter (fun c => !c.isTrue)).filter (fun c => c.age ≤ n) = [] := by
      apply List.eq_nil_iff_forall_not_mem.mpr
      intro a ha
      simp only [List.mem_filter, decide_eq_true_eq, Bool.not_eq_true'] at ha
      exact hno2 ⟨a, ha.1.1, ha.1.2, ha.2⟩
    simp [hnil, hnil2, minByAge, maxByAge]

/-- "It never returns a claim that does not answer the request." -/
theorem C20_answers_request (n : Nat) (cs : List (Claim α)) (x : Claim α)
    (h : select n cs = some x) : x ∈ cs ∧ (TrueAtLeast n x ∨ FalseAtMost n x) := by
  unfold select at h
  cases hm : minByAge ((cs.filter (·.isTrue)).filter (fun c => c.age ≥ n)) with
  | some y =>
    simp only [hm, Option.some.injEq] at h; subst h
    obtain ⟨hx, _⟩ := minByAge_some _ _ hm
    simp only [List.mem_filter, decide_eq_true_eq] at hx
    exact ⟨hx.1.1, Or.inl ⟨hx.1.2, hx.2⟩⟩
  | none =>
    simp only [hm] at h
    obtain ⟨hx, _⟩ := maxByAge_some _ _ h
    simp only [List.mem_filter, decide_eq_true_eq, Bool.not_eq_true'] at hx
    exact ⟨hx.1.1, Or.inr ⟨hx.1.2, hx.2⟩⟩

/-- Whole function: a malformed request identifier is rejected with an error, whatever is held. -/
theorem C20_malformed_request_rejected (req : Bytes) (items : List (Bytes × Bool × α)) (e : Err)
    (h : ageOf req = .error e) : nearest req items = .error e := by
  simp [nearest, h]

/-- Whole function on well-formed holdings (every identifier that contains `age_over` is an
`age_over_<u8>`): the result is the `Nearest` claim among the held age claims, and the item
returned is one of the held items, unchanged. -/
theorem C20_nearest_spec (req : Bytes) (n : Nat) (items : List (Bytes × Bool × α))
    (hreq : ageOf req = .ok n)
    (hwf : ∀ e ∈ items, containsB ageNeedle e.1 = true → ∃ a, ageOf e.1 = .ok a) :
    ∃ cs r, numerical (items.filter (fun e => containsB ageNeedle e.1)) = .ok cs ∧
      Nearest n cs r ∧ nearest req items = .ok (r.map (·.item)) ∧
      (∀ x, r = some x → ∃ e ∈ items, ageOf e.1 = .ok x.age ∧ e.2.1 = x.isTrue ∧ e.2.2 = x.item) := by
  cases hnum : numerical (items.filter (fun e => containsB ageNeedle e.1)) with
  | error e =>
    obtain ⟨x, hx, e', he'⟩ := (numerical_err _).mp ⟨e, hnum⟩
    simp only [List.mem_filter] at hx
    obtain ⟨a, ha⟩ := hwf x hx.1 hx.2
    rw [ha] at he'; cases he'
  | ok cs =>
    refine ⟨cs, select n cs, rfl, C20_select_nearest n cs, by simp [nearest, hreq, hnum], ?_⟩
    intro x hx
    obtain ⟨hmem, _⟩ := C20_answers_request n cs x hx
    obtain ⟨_, _, h3⟩ := numerical_ok _ cs hnum
    obtain ⟨e, he, h1, h2, h3⟩ := h3 x hmem
    exact ⟨e, (List.mem_filter.mp he).1, h1, h2.symm, h3.symm⟩

/-- The hypothesis of `C20_nearest_spec` is forced by the code, not chosen: one held identifier
that contains `age_over` but does not parse makes the whole call fail. -/
theorem C20_malformed_holding_fails (req : Bytes) (n : Nat) (items : List (Bytes × Bool × α))
    (hreq : ageOf req = .ok n)
    (hbad : ∃ e ∈ items, containsB ageNeedle e.1 = true ∧ ∃ err, ageOf e.1 = .error err) :
    ∃ err, nearest req items = .error err := by
  obtain ⟨e, he, hc, err, herr⟩ := hbad
  have : ∃ e', numerical (items.filter (fun e => containsB ageNeedle e.1)) = .error e' :=
    (numerical_err _).mpr ⟨e, List.mem_filter.mpr ⟨he, hc⟩, err, herr⟩
  obtain ⟨e', he'⟩ := this
  exact ⟨e', by simp [nearest, hreq, he']⟩

/-- The executable checker the driver applies to the real library's answers is sound for the
model as well: what the model selects passes it (index form). Non-vacuity: concrete holdings. -/
example : nearest (asciiBytes "age_over_20")
    [(asciiBytes "age_over_18", true, 0), (asciiBytes "age_over_21", true, 1),
     (asciiBytes "age_over_25", true, 2), (asciiBytes "age_over_65", false, 3),
     (asciiBytes "family_name", false, 4)] = .ok (some 1) := by decide
example : nearest (asciiBytes "age_over_30")
    [(asciiBytes "age_over_18", true, 0), (asciiBytes "age_over_21", false, 1),
     (asciiBytes "age_over_25", false, 2), (asciiBytes "age_over_65", false, 3)] = .ok (some 2) := by
  decide
example : nearest (asciiBytes "age_over_20")
    [(asciiBytes "age_over_18", true, 0), (asciiBytes "age_over_21", false, 1)]
    = .ok (none : Option Nat) := by decide
example : ageOf (asciiBytes "age_over_2x") = .error .parseInt := by decide
example : ageOf (asciiBytes "ageover_21") = .error .prefix := by decide

end IsoMdl.Age
