import IsoMdl.Props.C03
import IsoMdl.Lemmas.Report
import IsoMdl.Model.ResponseFacts
import IsoMdl.Lemmas.Cbor
import IsoMdl.Model.ReportWire
/-
C04 — Elements reported as issuer-authenticated are bound to the signed MSO.
Holds since the `fix:` commit that added `issuer_data_authentication` (ISO 18013-5 9.1.2.4 digest
and docType comparison) to the reader; before it the reader verified only the COSE signature and
`{ honest with digestsMatch := false }` was a counterexample (recorded under "fixed" in
known_findings.json).
-/
namespace IsoMdl.ReaderAuth
open IsoMdl IsoMdl.Cose

/-- FULL-STRENGTH: whenever issuer authentication is reported Valid, the MSO decoded from the
SIGNED payload has the document's docType and every disclosed item hashes, under the MSO's digest
algorithm, to the valueDigests entry for its namespace and digestID. -/
theorem C04_issuer_valid_binds (f : Facts)
    (h : (handleResponse f).issuer = .valid) :
    f.msoDecodes = true ∧ f.digestsMatch = true ∧ f.docTypeMatches = true := by
  obtain ⟨_, _, _, _, _, _, _, _, _, _, _, _, hm, hdt, hdg⟩ := (C03_issuer_valid_iff f).mp h
  exact ⟨hm, hdg, hdt⟩

/-- An altered value / identifier / random / digestID, a moved or injected item (some digest no
longer matches) or a mismatching docType is never reported as issuer-authenticated. -/
theorem C04_altered_not_valid (f : Facts)
    (h : f.digestsMatch = false ∨ f.docTypeMatches = false) : (handleResponse f).issuer ≠ .valid := by
  intro hv
  obtain ⟨_, h1, h2⟩ := C04_issuer_valid_binds f hv
  rcases h with h | h <;> simp_all

/-- … and it is reported with an error entry (from C03). -/
theorem C04_altered_has_error (f : Facts)
    (h : f.digestsMatch = false ∨ f.docTypeMatches = false) : (handleResponse f).errors ≠ [] :=
  C03_nonvalid_has_error f (C04_altered_not_valid f h)

/-- the signature over the MSO itself is checked as well -/
theorem C04_mso_signature_checked (f : Facts)
    (h : (handleResponse f).issuer = .valid) : f.issuerSigAccepts = true ∧ f.issuerPayloadAttached = true := by
  obtain ⟨_, _, _, _, _, _, _, _, _, hp, _, ha, _⟩ := (C03_issuer_valid_iff f).mp h
  exact ⟨ha, hp⟩

section WireFacts
open IsoMdl.ResponseFacts

/-- THE FACT `digestsMatch`, AS THE MODEL COMPUTES IT FROM THE WIRE BYTES, MEANS WHAT C04 SAYS: when the
executable check accepts a document against an MSO, every disclosed item of every namespace is a
tag-24 item whose digest, under the MSO's algorithm and taken over the item exactly as sent,
equals the MSO's valueDigests entry for that namespace and the item's digestID. -/
theorem C04_wire_digest_check_sound (doc mso is : Cbor) (nss : List (Cbor × Cbor)) (ns : Cbor) (items : List Cbor) (it : Cbor)
    (h : digestsMatch doc mso = true)
    (his : fget doc "issuerSigned" = some is) (hns : fget is "nameSpaces" = some (.map nss))
    (hmem : (ns, .array items) ∈ nss) (hit : it ∈ items) :
    ∃ nsb b iv id vdm want, ns = .text nsb ∧ it = .tag 24 (.bytes b) ∧ decodeValue b = some iv ∧ fget iv "digestID" = some id ∧
      ((∃ n, id = .uint n) ∨ (∃ n, id = .nint n)) ∧
      ((fget mso "valueDigests").bind fun v => mget v ns) = some vdm ∧ mget vdm id = some (.bytes want) ∧
      want = hashWith ((fget mso "digestAlgorithm").getD (.simple 22)) (Cbor.enc it) := by
  unfold digestsMatch at h
  simp only [his, hns, List.all_eq_true] at h
  have h1 := h (ns, .array items) hmem
  simp only [List.all_eq_true] at h1
  have h2 := h1 it hit
  cases it with
  | tag t v =>
    cases v with
    | bytes b =>
      by_cases ht : t = 24
      · subst ht
        simp only at h2
        cases hd : decodeValue b with
        | none => simp [hd] at h2
        | some iv =>
          simp only [hd] at h2
          cases hid : fget iv "digestID" with
          | none => simp [hid] at h2
          | some id =>
            cases ns with
            | text nsb =>
              simp only [hid] at h2
              cases hvd : ((fget mso "valueDigests").bind fun v => mget v (.text nsb)) with
              | none => simp [hvd] at h2
              | some vdm =>
                simp only [hvd] at h2
                cases id with
                | uint n =>
                  simp only at h2
                  cases hw : mget vdm (.uint n) with
                  | none => simp [hw] at h2
                  | some w =>
                    cases w with
                    | bytes want =>
                      simp only [hw] at h2
                      exact ⟨nsb, b, iv, _, vdm, want, rfl, rfl, hd, hid, Or.inl ⟨n, rfl⟩, rfl, hw, by simpa using h2⟩
                    | _ => simp [hw] at h2
                | nint n =>
                  simp only at h2
                  cases hw : mget vdm (.nint n) with
                  | none => simp [hw] at h2
                  | some w =>
                    cases w with
                    | bytes want =>
                      simp only [hw] at h2
                      exact ⟨nsb, b, iv, _, vdm, want, rfl, rfl, hd, hid, Or.inr ⟨n, rfl⟩, rfl, hw, by simpa using h2⟩
                    | _ => simp [hw] at h2
                | _ => simp at h2
            | _ => simp [hid] at h2
      · simp [ht] at h2
    | _ => simp at h2
  | _ => simp at h2

/-- the reader of the wire model gives back what an encoder put there: an item encoded from a value `v`
that a `ciborium::Value` can hold (UTF-8 text, the four known simple values) is read as `v`, whatever
follows it - so the hypotheses `decodeValue b = some iv` of the theorems here are met by every honestly
encoded item, and the item the digest is compared for is the item that was encoded. -/
theorem C04_wire_reads_back (v : Cbor) (rest : Bytes) (hw : Cbor.wf v) (ht : textOk v = true) :
    decodeValue (Cbor.enc v ++ rest) = some v := by
  unfold decodeValue
  rw [Cbor.decode_enc_append v rest hw]
  simp [ht]

/-- SUBSTITUTION NEEDS A HASH COLLISION: two items accepted against the SAME MSO in the same namespace under
the same digestID - the item the issuer signed and anything an attacker sends in its place, in
whichever document - have the same digest under the MSO's algorithm over their bytes as sent.  So a
different item passing the check is a second preimage of the signed digest. -/
theorem C04_substitution_needs_collision (doc doc' mso is is' : Cbor) (nss nss' : List (Cbor × Cbor)) (ns : Cbor)
    (items items' : List Cbor) (b b' : Bytes) (iv iv' id : Cbor)
    (h : digestsMatch doc mso = true) (h' : digestsMatch doc' mso = true)
    (his : fget doc "issuerSigned" = some is) (hns : fget is "nameSpaces" = some (.map nss))
    (his' : fget doc' "issuerSigned" = some is') (hns' : fget is' "nameSpaces" = some (.map nss'))
    (hmem : (ns, .array items) ∈ nss) (hmem' : (ns, .array items') ∈ nss')
    (hit : Cbor.tag 24 (.bytes b) ∈ items) (hit' : Cbor.tag 24 (.bytes b') ∈ items')
    (hd : decodeValue b = some iv) (hd' : decodeValue b' = some iv')
    (hid : fget iv "digestID" = some id) (hid' : fget iv' "digestID" = some id) :
    hashWith ((fget mso "digestAlgorithm").getD (.simple 22)) (Cbor.enc (.tag 24 (.bytes b))) =
    hashWith ((fget mso "digestAlgorithm").getD (.simple 22)) (Cbor.enc (.tag 24 (.bytes b'))) := by
  obtain ⟨_, b1, iv1, id1, vdm1, want1, _, e1, d1, i1, _, v1, m1, w1⟩ :=
    C04_wire_digest_check_sound doc mso is nss ns items _ h his hns hmem hit
  obtain ⟨_, b2, iv2, id2, vdm2, want2, _, e2, d2, i2, _, v2, m2, w2⟩ :=
    C04_wire_digest_check_sound doc' mso is' nss' ns items' _ h' his' hns' hmem' hit'
  simp only [Cbor.tag.injEq, Cbor.bytes.injEq, true_and] at e1 e2
  subst e1 e2
  rw [hd] at d1; rw [hd'] at d2
  simp only [Option.some.injEq] at d1 d2
  subst d1 d2
  rw [hid] at i1; rw [hid'] at i2
  simp only [Option.some.injEq] at i1 i2
  subst i1 i2
  rw [v1] at v2
  simp only [Option.some.injEq] at v2
  subst v2
  rw [m1] at m2
  simp only [Option.some.injEq, Cbor.bytes.injEq] at m2
  rw [← w1, ← w2, m2]

/-- SELECTIVE DISCLOSURE KEEPS THE CHECK: if a document passes the digest comparison against an MSO, so does any
document that discloses, namespace by namespace, a subset of its items (any order, any subset of the
namespaces) - what the device does when it releases only what was requested and permitted (C02).  The
reader's acceptance never depends on an item that was withheld. -/
theorem C04_subset_disclosure_passes (doc doc' mso is is' : Cbor) (nss nss' : List (Cbor × Cbor))
    (h : digestsMatch doc mso = true)
    (his : fget doc "issuerSigned" = some is) (hns : fget is "nameSpaces" = some (.map nss))
    (his' : fget doc' "issuerSigned" = some is') (hns' : fget is' "nameSpaces" = some (.map nss'))
    (hsub : ∀ ns items', (ns, Cbor.array items') ∈ nss' → ∃ items, (ns, Cbor.array items) ∈ nss ∧ ∀ x ∈ items', x ∈ items) :
    digestsMatch doc' mso = true := by
  unfold digestsMatch at h ⊢
  simp only [his, hns, his', hns', List.all_eq_true] at h ⊢
  intro e he
  obtain ⟨ns, v⟩ := e
  cases v with
  | array items' =>
    obtain ⟨items, hm, hin⟩ := hsub ns items' he
    have h1 := h (ns, .array items) hm
    simp only [List.all_eq_true] at h1 ⊢
    intro x hx
    exact h1 x (hin x hx)
  | _ => rfl

end WireFacts

section Report
open IsoMdl.Report

/-- WHAT IS REPORTED IS WHAT WAS DISCLOSED: every element the reader hands to the application
(`ResponseAuthenticationOutcome.response`, model `Report.report`) stands under one of the two mDL
namespaces, and its JSON value is the conversion of the value of a disclosed item of THAT namespace
with THAT identifier — the items whose digests the issuer-data authentication above compares with
the signed MSO.  Nothing is reported that is not such an item (no other namespace, no other
document, no invented or defaulted value). -/
theorem C04_reported_is_disclosed_item (nss : List (Bytes × List (Bytes × Cbor))) (ns : Bytes)
    (obj : List (Bytes × RJson)) (id : Bytes) (j : RJson) (h : (ns, obj) ∈ report nss) (hj : (id, j) ∈ obj) :
    (ns = coreNs ∨ ns = aamvaNs) ∧
    ∃ items v, lookupNs ns nss = some items ∧ (id, v) ∈ items ∧ reportValue v = some j := by
  have key : ∀ (n : Bytes) (items : List (Bytes × Cbor)), (id, j) ∈ namespaceObject items →
      ∃ v, (id, v) ∈ items ∧ reportValue v = some j := by
    intro n items hm
    have := fold_sound items [] [] (by intro _ _ h; cases h) id j (by rw [← namespaceObject_eq]; exact hm)
    simpa using this
  unfold report at h
  rcases List.mem_append.mp h with h | h
  · cases hc : lookupNs coreNs nss with
    | none => simp [hc] at h
    | some items =>
      simp only [hc, List.mem_singleton, Prod.mk.injEq] at h
      obtain ⟨rfl, rfl⟩ := h
      obtain ⟨v, hv1, hv2⟩ := key coreNs items hj
      exact ⟨Or.inl rfl, items, v, hc, hv1, hv2⟩
  · cases hc : lookupNs aamvaNs nss with
    | none => simp [hc] at h
    | some items =>
      simp only [hc, List.mem_singleton, Prod.mk.injEq] at h
      obtain ⟨rfl, rfl⟩ := h
      obtain ⟨v, hv1, hv2⟩ := key aamvaNs items hj
      exact ⟨Or.inr rfl, items, v, hc, hv1, hv2⟩

/-- each identifier is reported at most once per namespace (keys strictly increasing) -/
theorem C04_report_identifiers_unique (nss : List (Bytes × List (Bytes × Cbor))) (ns : Bytes)
    (obj : List (Bytes × RJson)) (h : (ns, obj) ∈ report nss) : Sorted obj := by
  have key : ∀ items : List (Bytes × Cbor), Sorted (namespaceObject items) := fun items => by
    rw [namespaceObject_eq]; exact fold_sorted items [] trivial
  unfold report at h
  rcases List.mem_append.mp h with h | h
  · cases hc : lookupNs coreNs nss with
    | none => simp [hc] at h
    | some items => simp only [hc, List.mem_singleton, Prod.mk.injEq] at h; rw [h.2]; exact key items
  · cases hc : lookupNs aamvaNs nss with
    | none => simp [hc] at h
    | some items => simp only [hc, List.mem_singleton, Prod.mk.injEq] at h; rw [h.2]; exact key items

/-- of several disclosed items with one identifier the LAST one with a JSON form is the one reported -/
theorem C04_last_convertible_item_is_reported (pre post : List (Bytes × Cbor)) (id : Bytes) (v : Cbor) (j : RJson)
    (hv : reportValue v = some j) (hpost : ∀ it ∈ post, it.1 = id → reportValue it.2 = none) :
    (id, j) ∈ namespaceObject (pre ++ (id, v) :: post) := by
  rw [namespaceObject_eq, List.foldl_append, List.foldl_cons]
  apply fold_keeps post _ id j _ hpost
  unfold foldStep
  simp only [hv]
  exact (mem_insertKey id j _ id j).mpr (Or.inl ⟨rfl, rfl⟩)

/-- non-vacuity: a nested value, a tagged date, a byte string, a value without JSON form (left
out), a repeated identifier (last wins), an item of another namespace (ignored) -/
example : renderReport (report [(coreNs, [([98], .text [65]), ([97], .tag 1004 (.text [50])), ([99], .bytes [1, 2]),
                            ([100], .float 4 0), ([98], .map [(.text [107], .uint 7), (.uint 1, .float 4 0)])]),
                  ([120], [([97], .uint 1)])]) =
    "6f72672e69736f2e31383031332e352e31={61:s32,62:{6b:n7},63:[n1,n2]}".toList := by decide +kernel

end Report

section EndToEnd
open IsoMdl.Report IsoMdl.ResponseFacts

theorem mem_itemsOf : ∀ (l : List Cbor) (r : List (Bytes × Cbor)), itemsOf l = some r → ∀ x ∈ r, ∃ it ∈ l, itemOf it = some x
  | [], r, h, x, hx => by simp [itemsOf] at h; subst h; cases hx
  | it :: rest, r, h, x, hx => by
    simp only [itemsOf] at h
    cases hi : itemOf it with
    | none => simp [hi] at h
    | some y =>
      cases hr : itemsOf rest with
      | none => simp [hi, hr] at h
      | some ys =>
        simp only [hi, hr, Option.some.injEq] at h
        subst h
        rcases List.mem_cons.mp hx with rfl | hx'
        · exact ⟨it, by simp, hi⟩
        · obtain ⟨it', hm, he⟩ := mem_itemsOf rest ys hr x hx'
          exact ⟨it', List.mem_cons_of_mem _ hm, he⟩

theorem mem_namespaceEntries : ∀ (m : List (Cbor × Cbor)) (r : List (Bytes × List (Bytes × Cbor))), namespaceEntries m = some r →
    ∀ ns items, (ns, items) ∈ r → ∃ itemsC, (Cbor.text ns, Cbor.array itemsC) ∈ m ∧ itemsOf itemsC = some items
  | [], r, h, ns, items, hx => by simp [namespaceEntries] at h; subst h; cases hx
  | (k, v) :: rest, r, h, ns, items, hx => by
    simp only [namespaceEntries] at h
    split at h
    · rename_i ns' itemsC r' hr'
      cases hi : itemsOf itemsC with
      | none => simp [hi] at h
      | some its =>
        simp only [hi, Option.map_some, Option.some.injEq] at h
        subst h
        rcases List.mem_cons.mp hx with he | hx'
        · cases he
          exact ⟨itemsC, by simp, hi⟩
        · obtain ⟨c, hm, he⟩ := mem_namespaceEntries rest r' hr' ns items hx'
          exact ⟨c, List.mem_cons_of_mem _ hm, he⟩
    · cases h

theorem lookupNs_mem : ∀ (l : List (Bytes × List (Bytes × Cbor))) (ns : Bytes) (items : List (Bytes × Cbor)),
    lookupNs ns l = some items → (ns, items) ∈ l
  | [], _, _, h => by simp [lookupNs] at h
  | (n, its) :: rest, ns, items, h => by
    simp only [lookupNs] at h
    split at h
    · rename_i he
      have : n = ns := by simpa using he
      cases h; subst this; simp
    · exact List.mem_cons_of_mem _ (lookupNs_mem rest ns items h)

/-- END TO END, FROM THE WIRE: take the mDL document as sent.  If the model's digest check accepts it
against an MSO (`digestsMatch`, the fact that issuer-data authentication establishes), then EVERY
element value the reader reports is the JSON form of the `elementValue` of a tag-24 item of that
namespace, carrying that identifier, whose digest - over the item exactly as sent, under the MSO's
algorithm - is the MSO's valueDigests entry for its namespace and digestID.  Reported data is
signed data. -/
theorem C04_reported_value_is_signed (doc mso is : Cbor) (m : List (Cbor × Cbor))
    (nss : List (Bytes × List (Bytes × Cbor))) (ns : Bytes) (obj : List (Bytes × RJson)) (id : Bytes) (j : RJson)
    (hd : digestsMatch doc mso = true)
    (his : fget doc "issuerSigned" = some is) (hns : fget is "nameSpaces" = some (.map m))
    (hx : namespacesOf (.map m) = some nss) (hr : (ns, obj) ∈ report nss) (hj : (id, j) ∈ obj) :
    ∃ itemsC it b iv v did vdm want,
      (Cbor.text ns, Cbor.array itemsC) ∈ m ∧ it ∈ itemsC ∧ it = .tag 24 (.bytes b) ∧ decodeValue b = some iv ∧
      fget iv "elementIdentifier" = some (.text id) ∧ fget iv "elementValue" = some v ∧
      reportValue v = some j ∧
      fget iv "digestID" = some did ∧ ((∃ n, did = .uint n) ∨ (∃ n, did = .nint n)) ∧
      ((fget mso "valueDigests").bind fun vd => mget vd (.text ns)) = some vdm ∧ mget vdm did = some (.bytes want) ∧
      want = hashWith ((fget mso "digestAlgorithm").getD (.simple 22)) (Cbor.enc it) := by
  obtain ⟨_, items, v, hl, hv, hrv⟩ := C04_reported_is_disclosed_item nss ns obj id j hr hj
  -- the namespace and the item as sent
  simp only [namespacesOf] at hx
  cases he : namespaceEntries m with
  | none => simp [he] at hx
  | some r =>
    simp only [he, Option.map_some, Option.some.injEq] at hx
    have hmem : (ns, items) ∈ r := by
      have := lookupNs_mem nss ns items hl
      rw [← hx] at this
      exact List.mem_reverse.mp this
    obtain ⟨itemsC, hm, hio⟩ := mem_namespaceEntries m r he ns items hmem
    obtain ⟨it, hit, hitem⟩ := mem_itemsOf itemsC items hio (id, v) hv
    -- the digest of that item
    obtain ⟨_, b, iv, did, vdm, want, _, hb, hdec, hdid, hint, hvd, hw, hwant⟩ :=
      C04_wire_digest_check_sound doc mso is m (.text ns) itemsC it hd his hns hm hit
    subst hb
    simp only [itemOf, hdec] at hitem
    cases hid : fget iv "elementIdentifier" with
    | none => simp [hid] at hitem
    | some idc =>
      cases hev : fget iv "elementValue" with
      | none => cases idc <;> simp [hid, hev] at hitem
      | some v' =>
        cases idc with
        | text idb =>
          simp only [hid, hev, Option.some.injEq, Prod.mk.injEq] at hitem
          obtain ⟨rfl, rfl⟩ := hitem
          exact ⟨itemsC, _, b, iv, v', did, vdm, want, hm, hit, rfl, hdec, hid, hev, hrv, hdid, hint, hvd, hw, hwant⟩
        | _ => simp [hid, hev] at hitem

end EndToEnd

/-- non-vacuity: the former counterexamples are now Invalid with an issuer-authentication error -/
example : (handleResponse { honest with digestsMatch := false }) = ⟨.invalid, .valid, [.issuerAuth], true⟩ := by decide
example : (handleResponse { honest with docTypeMatches := false }).issuer = .invalid := by decide
example : (handleResponse honest).issuer = .valid := by decide

end IsoMdl.ReaderAuth
