import IsoMdl.Props.C03
/-
C04 — Elements reported as issuer-authenticated are bound to the signed MSO.
Holds since the `fix:` commit that added `issuer_data_authentication` (ISO 18013-5 9.1.2.4 digest
and docType comparison) to the reader; before it the reader verified only the COSE signature and
`{ honest with digestsMatch := false }` was a counterexample (recorded under "fixed" in
known_findings.json).
-/
namespace IsoMdl.ReaderAuth
open IsoMdl IsoMdl.Cose

/-- FULL-STRENGTH: whenever issuer authentication is reported Valid, the MSO decoded from the
SIGNED payload has the document's docType and every disclosed item hashes, under the MSO's digest
algorithm, to the valueDigests entry for its namespace and digestID. -/
theorem C04_issuer_valid_binds (f : Facts)
    (h : (handleResponse f).issuer = .valid) :
    f.msoDecodes = true ∧ f.digestsMatch = true ∧ f.docTypeMatches = true := by
  obtain ⟨_, _, _, _, _, _, _, _, _, _, _, _, hm, hdt, hdg⟩ := (C03_issuer_valid_iff f).mp h
  exact ⟨hm, hdg, hdt⟩

/-- An altered value / identifier / random / digestID, a moved or injected item (some digest no
longer matches) or a mismatching docType is never reported as issuer-authenticated. -/
theorem C04_altered_not_valid (f : Facts)
    (h : f.digestsMatch = false ∨ f.docTypeMatches = false) : (handleResponse f).issuer ≠ .valid := by
  intro hv
  obtain ⟨_, h1, h2⟩ := C04_issuer_valid_binds f hv
  rcases h with h | h <;> simp_all

/-- … and it is reported with an error entry (from C03). -/
theorem C04_altered_has_error (f : Facts)
    (h : f.digestsMatch = false ∨ f.docTypeMatches = false) : (handleResponse f).errors ≠ [] :=
  C03_nonvalid_has_error f (C04_altered_not_valid f h)

/-- the signature over the MSO itself is checked as well -/
theorem C04_mso_signature_checked (f : Facts)
    (h : (handleResponse f).issuer = .valid) : f.issuerSigAccepts = true ∧ f.issuerPayloadAttached = true := by
  obtain ⟨_, _, _, _, _, _, _, _, _, hp, _, ha, _⟩ := (C03_issuer_valid_iff f).mp h
  exact ⟨ha, hp⟩

/-- non-vacuity: the former counterexamples are now Invalid with an issuer-authentication error -/
example : (handleResponse { honest with digestsMatch := false }) = ⟨.invalid, .valid, [.issuerAuth], true⟩ := by decide
example : (handleResponse { honest with docTypeMatches := false }).issuer = .invalid := by decide
example : (handleResponse honest).issuer = .valid := by decide

end IsoMdl.ReaderAuth
