import IsoMdl.Props.C03
import IsoMdl.Lemmas.Report
import IsoMdl.Model.ResponseFacts
/-
C04 — Elements reported as issuer-authenticated are bound to the signed MSO.
Holds since the `fix:` commit that added `issuer_data_authentication` (ISO 18013-5 9.1.2.4 digest
and docType comparison) to the reader; before it the reader verified only the COSE signature and
`{ honest with digestsMatch := false }` was a counterexample (recorded under "fixed" in
known_findings.json).
-/
namespace IsoMdl.ReaderAuth
open IsoMdl IsoMdl.Cose

/-- FULL-STRENGTH: whenever issuer authentication is reported Valid, the MSO decoded from the
SIGNED payload has the document's docType and every disclosed item hashes, under the MSO's digest
algorithm, to the valueDigests entry for its namespace and digestID. -/
theorem C04_issuer_valid_binds (f : Facts)
    (h : (handleResponse f).issuer = .valid) :
    f.msoDecodes = true ∧ f.digestsMatch = true ∧ f.docTypeMatches = true := by
  obtain ⟨_, _, _, _, _, _, _, _, _, _, _, _, hm, hdt, hdg⟩ := (C03_issuer_valid_iff f).mp h
  exact ⟨hm, hdg, hdt⟩

/-- An altered value / identifier / random / digestID, a moved or injected item (some digest no
longer matches) or a mismatching docType is never reported as issuer-authenticated. -/
theorem C04_altered_not_valid (f : Facts)
    (h : f.digestsMatch = false ∨ f.docTypeMatches = false) : (handleResponse f).issuer ≠ .valid := by
  intro hv
  obtain ⟨_, h1, h2⟩ := C04_issuer_valid_binds f hv
  rcases h with h | h <;> simp_all

/-- … and it is reported with an error entry (from C03). -/
theorem C04_altered_has_error (f : Facts)
    (h : f.digestsMatch = false ∨ f.docTypeMatches = false) : (handleResponse f).errors ≠ [] :=
  C03_nonvalid_has_error f (C04_altered_not_valid f h)

/-- the signature over the MSO itself is checked as well -/
theorem C04_mso_signature_checked (f : Facts)
    (h : (handleResponse f).issuer = .valid) : f.issuerSigAccepts = true ∧ f.issuerPayloadAttached = true := by
  obtain ⟨_, _, _, _, _, _, _, _, _, hp, _, ha, _⟩ := (C03_issuer_valid_iff f).mp h
  exact ⟨ha, hp⟩

section WireFacts
open IsoMdl.ResponseFacts

/-- THE FACT `digestsMatch`, AS THE MODEL COMPUTES IT FROM THE WIRE BYTES, MEANS WHAT C04 SAYS: when the
executable check accepts a document against an MSO, every disclosed item of every namespace is a
tag-24 item whose digest, under the MSO's algorithm and taken over the item exactly as sent,
equals the MSO's valueDigests entry for that namespace and the item's digestID. -/
theorem C04_wire_digest_check_sound (doc mso is : Cbor) (nss : List (Cbor × Cbor)) (ns : Cbor) (items : List Cbor) (it : Cbor)
    (h : digestsMatch doc mso = true)
    (his : mget doc (ResponseFacts.tx "issuerSigned") = some is) (hns : mget is (ResponseFacts.tx "nameSpaces") = some (.map nss))
    (hmem : (ns, .array items) ∈ nss) (hit : it ∈ items) :
    ∃ b iv id vdm want, it = .tag 24 (.bytes b) ∧ decodeValue b = some iv ∧ mget iv (ResponseFacts.tx "digestID") = some id ∧
      ((mget mso (ResponseFacts.tx "valueDigests")).bind fun v => mget v ns) = some vdm ∧ mget vdm id = some (.bytes want) ∧
      want = hashWith ((mget mso (ResponseFacts.tx "digestAlgorithm")).getD (.simple 22)) (Cbor.enc it) := by
  unfold digestsMatch at h
  simp only [his, hns, List.all_eq_true] at h
  have h1 := h (ns, .array items) hmem
  simp only [List.all_eq_true] at h1
  have h2 := h1 it hit
  cases it with
  | tag t v =>
    cases v with
    | bytes b =>
      by_cases ht : t = 24
      · subst ht
        simp only at h2
        cases hd : decodeValue b with
        | none => simp [hd] at h2
        | some iv =>
          simp only [hd] at h2
          cases hid : mget iv (ResponseFacts.tx "digestID") with
          | none => simp [hid] at h2
          | some id =>
            cases hvd : ((mget mso (ResponseFacts.tx "valueDigests")).bind fun v => mget v ns) with
            | none => simp [hid, hvd] at h2
            | some vdm =>
              simp only [hid, hvd] at h2
              cases hw : mget vdm id with
              | none => simp [hw] at h2
              | some w =>
                cases w with
                | bytes want =>
                  simp only [hw] at h2
                  exact ⟨b, iv, id, vdm, want, rfl, hd, hid, rfl, hw, by simpa using h2⟩
                | _ => simp [hw] at h2
      · simp [ht] at h2
    | _ => simp at h2
  | _ => simp at h2

end WireFacts

section Report
open IsoMdl.Report

/-- WHAT IS REPORTED IS WHAT WAS DISCLOSED: every element the reader hands to the application
(`ResponseAuthenticationOutcome.response`, model `Report.report`) stands under one of the two mDL
namespaces, and its JSON value is the conversion of the value of a disclosed item of THAT namespace
with THAT identifier — the items whose digests the issuer-data authentication above compares with
the signed MSO.  Nothing is reported that is not such an item (no other namespace, no other
document, no invented or defaulted value). -/
theorem C04_reported_is_disclosed_item (nss : List (Bytes × List (Bytes × Cbor))) (ns : Bytes)
    (obj : List (Bytes × RJson)) (id : Bytes) (j : RJson) (h : (ns, obj) ∈ report nss) (hj : (id, j) ∈ obj) :
    (ns = coreNs ∨ ns = aamvaNs) ∧
    ∃ items v, lookupNs ns nss = some items ∧ (id, v) ∈ items ∧ reportValue v = some j := by
  have key : ∀ (n : Bytes) (items : List (Bytes × Cbor)), (id, j) ∈ namespaceObject items →
      ∃ v, (id, v) ∈ items ∧ reportValue v = some j := by
    intro n items hm
    have := fold_sound items [] [] (by intro _ _ h; cases h) id j (by rw [← namespaceObject_eq]; exact hm)
    simpa using this
  unfold report at h
  rcases List.mem_append.mp h with h | h
  · cases hc : lookupNs coreNs nss with
    | none => simp [hc] at h
    | some items =>
      simp only [hc, List.mem_singleton, Prod.mk.injEq] at h
      obtain ⟨rfl, rfl⟩ := h
      obtain ⟨v, hv1, hv2⟩ := key coreNs items hj
      exact ⟨Or.inl rfl, items, v, hc, hv1, hv2⟩
  · cases hc : lookupNs aamvaNs nss with
    | none => simp [hc] at h
    | some items =>
      simp only [hc, List.mem_singleton, Prod.mk.injEq] at h
      obtain ⟨rfl, rfl⟩ := h
      obtain ⟨v, hv1, hv2⟩ := key aamvaNs items hj
      exact ⟨Or.inr rfl, items, v, hc, hv1, hv2⟩

/-- each identifier is reported at most once per namespace (keys strictly increasing) -/
theorem C04_report_identifiers_unique (nss : List (Bytes × List (Bytes × Cbor))) (ns : Bytes)
    (obj : List (Bytes × RJson)) (h : (ns, obj) ∈ report nss) : Sorted obj := by
  have key : ∀ items : List (Bytes × Cbor), Sorted (namespaceObject items) := fun items => by
    rw [namespaceObject_eq]; exact fold_sorted items [] trivial
  unfold report at h
  rcases List.mem_append.mp h with h | h
  · cases hc : lookupNs coreNs nss with
    | none => simp [hc] at h
    | some items => simp only [hc, List.mem_singleton, Prod.mk.injEq] at h; rw [h.2]; exact key items
  · cases hc : lookupNs aamvaNs nss with
    | none => simp [hc] at h
    | some items => simp only [hc, List.mem_singleton, Prod.mk.injEq] at h; rw [h.2]; exact key items

/-- of several disclosed items with one identifier the LAST one with a JSON form is the one reported -/
theorem C04_last_convertible_item_is_reported (pre post : List (Bytes × Cbor)) (id : Bytes) (v : Cbor) (j : RJson)
    (hv : reportValue v = some j) (hpost : ∀ it ∈ post, it.1 = id → reportValue it.2 = none) :
    (id, j) ∈ namespaceObject (pre ++ (id, v) :: post) := by
  rw [namespaceObject_eq, List.foldl_append, List.foldl_cons]
  apply fold_keeps post _ id j _ hpost
  unfold foldStep
  simp only [hv]
  exact (mem_insertKey id j _ id j).mpr (Or.inl ⟨rfl, rfl⟩)

/-- non-vacuity: a nested value, a tagged date, a byte string, a value without JSON form (left
out), a repeated identifier (last wins), an item of another namespace (ignored) -/
example : renderReport (report [(coreNs, [([98], .text [65]), ([97], .tag 1004 (.text [50])), ([99], .bytes [1, 2]),
                            ([100], .float 4 0), ([98], .map [(.text [107], .uint 7), (.uint 1, .float 4 0)])]),
                  ([120], [([97], .uint 1)])]) =
    "6f72672e69736f2e31383031332e352e31={61:s32,62:{6b:n7},63:[n1,n2]}".toList := by decide +kernel

end Report

/-- non-vacuity: the former counterexamples are now Invalid with an issuer-authentication error -/
example : (handleResponse { honest with digestsMatch := false }) = ⟨.invalid, .valid, [.issuerAuth], true⟩ := by decide
example : (handleResponse { honest with docTypeMatches := false }).issuer = .invalid := by decide
example : (handleResponse honest).issuer = .valid := by decide

end IsoMdl.ReaderAuth
