import IsoMdl.Props.C03
/-
C04 — Elements reported as issuer-authenticated are bound to the signed MSO.
-/
namespace IsoMdl.ReaderAuth
open IsoMdl IsoMdl.Cose

/-- FULL-STRENGTH statement: whenever issuer authentication is reported Valid, every reported
element's digest matches the MSO entry and the MSO docType equals the document's docType. -/
def IssuerValidBinds : Prop :=
  ∀ f : Facts, (handleResponse f).panics = false → (handleResponse f).issuer = .valid →
    f.digestsMatch = true ∧ f.docTypeMatches = true

/-- It is FALSE of the code as modelled: the reader verifies the COSE signature over the MSO and
never compares the disclosed items or the docType with it.  Witness: an otherwise authentic
response whose disclosed item was altered after issuance by the holder (who re-signs device
authentication and re-encrypts). -/
theorem C04_full_fails : ¬ IssuerValidBinds := by
  intro h
  have := h { honest with digestsMatch := false } (by decide) (by decide)
  simp at this

/-- the same for a docType mismatch between document and MSO -/
theorem C04_full_fails_doctype : ¬ (∀ f : Facts, (handleResponse f).panics = false →
    (handleResponse f).issuer = .valid → f.docTypeMatches = true) := by
  intro h
  have := h { honest with docTypeMatches := false } (by decide) (by decide)
  simp at this

/-- What does hold (partial): the outcome does not depend on the two ignored facts at all, i.e.
the reported status says nothing about them — precisely the defect. -/
theorem C04_outcome_ignores_binding_partial (f : Facts) (a b : Bool) :
    handleResponse { f with digestsMatch := a, docTypeMatches := b } = handleResponse f := by
  unfold handleResponse deviceAuthentication issuerAuthentication
  rfl

/-- … while the signature over the MSO itself IS checked (C03): Valid implies the primitive
accepted the issuer signature over the attached MSO bytes. -/
theorem C04_mso_signature_checked_partial (f : Facts) (hnp : (handleResponse f).panics = false)
    (h : (handleResponse f).issuer = .valid) : f.issuerSigAccepts = true ∧ f.issuerPayloadAttached = true := by
  obtain ⟨_, _, _, _, _, _, _, _, _, _, _, hp, _, ha⟩ := (C03_issuer_valid_iff f hnp).mp h
  exact ⟨ha, hp⟩

end IsoMdl.ReaderAuth
