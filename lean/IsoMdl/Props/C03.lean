import IsoMdl.Model.ReaderAuth
import IsoMdl.Model.ResponseFacts
/-
C03 — Reader accepts an issuer signature only from a trusted document signer.
-/
namespace IsoMdl.ReaderAuth
open IsoMdl IsoMdl.Cose

/-- what "the issuerAuth verifies under the first x5chain certificate's key over the attached MSO
bytes and protected header" means in terms of the facts -/
def IssuerSignatureOk (f : Facts) : Prop :=
  f.issuerKeyParses = true ∧ (∀ a, f.issuerAlg = .assigned a → a = -7) ∧
  f.issuerPayloadAttached = true ∧ f.issuerSigParses = true ∧ f.issuerSigAccepts = true ∧
  -- and the disclosed data is bound to that MSO (C04)
  f.msoDecodes = true ∧ f.docTypeMatches = true ∧ f.digestsMatch = true

theorem issuerAuthentication_iff (f : Facts) : issuerAuthentication f = true ↔ IssuerSignatureOk f := by
  unfold issuerAuthentication IssuerSignatureOk verifySign1 sign1Body selectPayload prim algMismatch
  cases hk : f.issuerKeyParses <;> cases ha : f.issuerAlg <;> cases hp : f.issuerPayloadAttached <;>
    cases hs : f.issuerSigParses <;> cases hacc : f.issuerSigAccepts <;> cases hm : f.msoDecodes <;>
    cases hdt : f.docTypeMatches <;> cases hdg : f.digestsMatch <;> simp
  all_goals
    (rename_i a
     by_cases h : a = -7 <;> simp [h])

/-- Issuer authentication is reported Valid exactly when the message decrypts and decodes, carries
an mDL document with a decodable x5chain in the unprotected header and the core namespace, chain
validation against the IACA anchors reports no error, and the COSE_Sign1 verifies under the leaf
key over the attached payload and protected header. -/
theorem C03_issuer_valid_iff (f : Facts) :
    (handleResponse f).issuer = .valid ↔
      f.decrypts = true ∧ f.decodes = true ∧ f.hasDocuments = true ∧ f.hasMdlDoc = true ∧
      f.x5chainPresent = true ∧ f.x5chainParses = true ∧ f.chainErrors = 0 ∧ IssuerSignatureOk f := by
  rw [← issuerAuthentication_iff]
  unfold handleResponse
  by_cases h1 : (f.decrypts && f.decodes) = true
  · by_cases h2 : (f.hasDocuments && f.hasMdlDoc && f.x5chainPresent && f.x5chainParses) = true
    · simp only [h1, h2, Bool.not_true, Bool.false_eq_true, if_false]
      simp only [Bool.and_eq_true] at h1 h2
      by_cases hc : f.chainErrors = 0
      · cases hi : issuerAuthentication f <;> simp [hc, hi, h1, h2]
      · have : (f.chainErrors == 0) = false := by simpa using hc
        simp [this, hc]
    · simp only [h1, h2, Bool.not_true, Bool.false_eq_true, if_false, Bool.not_false, if_true]
      simp only [Bool.and_eq_true, not_and, Bool.not_eq_true] at h2
      constructor
      · intro h; cases h
      · rintro ⟨_, _, a, b, c, d, _⟩
        have := h2 (by simp [a, b, c]); simp_all
  · simp only [h1, Bool.not_false, if_true]
    simp only [Bool.and_eq_true, not_and, Bool.not_eq_true] at h1
    constructor
    · intro h; cases h
    · rintro ⟨a, b, _⟩; simp_all

/-- Any non-Valid issuer status comes with an error entry. -/
theorem C03_nonvalid_has_error (f : Facts)
    (h : (handleResponse f).issuer ≠ .valid) : (handleResponse f).errors ≠ [] := by
  unfold handleResponse at *
  by_cases h1 : (f.decrypts && f.decodes) = true
  · by_cases h2 : (f.hasDocuments && f.hasMdlDoc && f.x5chainPresent && f.x5chainParses) = true
    · simp only [h1, h2, Bool.not_true, Bool.false_eq_true, if_false] at *
      by_cases hc : (f.chainErrors == 0) = true
      · cases hi : issuerAuthentication f
        · simp [hc, hi]
        · simp [hc, hi] at h
      · simp [hc]
    · simp [h1, h2]
  · simp [h1]

/-- The alterations of the statement, each as a corollary: an altered MSO / protected header /
signature (the primitive no longer accepts), a substituted or untrusted certificate (chain
errors, or a key under which the primitive does not accept), a missing or undecodable x5chain. -/
theorem C03_not_valid_cases (f : Facts)
    (h : f.issuerSigAccepts = false ∨ f.issuerSigParses = false ∨ f.chainErrors ≠ 0 ∨
         f.x5chainPresent = false ∨ f.x5chainParses = false ∨ f.issuerKeyParses = false ∨
         f.issuerPayloadAttached = false) :
    (handleResponse f).issuer ≠ .valid := by
  intro hv
  have := (C03_issuer_valid_iff f).mp hv
  obtain ⟨_, _, _, _, hx, hxp, hc, hk, _, hp, hs, ha, _, _, _⟩ := this
  rcases h with h | h | h | h | h | h | h <;> simp_all

section Wire
open IsoMdl.ResponseFacts

/-- THE ISSUER SIGNATURE FROM THE WIRE: when the model's `isa` fact holds for a response, the key is the
one handed in (the first x5chain certificate's - whether that certificate chains to a trusted IACA is
the separate fact `chainErrors`, C12), the document judged is the first mDL document, and the
signature in its issuerAuth verifies under that key over Sig_structure(protected, payload) with the
payload ATTACHED in that same COSE_Sign1. -/
theorem C03_wire_issuer_signature_bound (resp transcript : Cbor) (ikey : Option (Nat × Nat))
    (h : (compute resp transcript ikey).isa = true) :
    ∃ doc x y, firstMdl resp = some doc ∧ ikey = some (x, y) ∧
      ecdsaVerify x y
        (ResponseFacts.sigStructure (match issuerAuthOf doc with | some (.bytes p :: _) => p | _ => [])
          ((issuerPayload doc).getD []))
        (match issuerAuthOf doc with | some [_, _, _, .bytes s] => s | _ => []) = true := by
  unfold compute at h
  cases hd : firstMdl resp with
  | none => simp [hd] at h
  | some doc =>
    simp only [hd] at h
    cases ikey with
    | none => simp at h
    | some k => exact ⟨doc, k.1, k.2, rfl, rfl, h⟩

/-- THE MSO JUDGED IS THE SIGNED ONE: the MSO against which the digests, the docType and the device key are
taken (`mso`, `dig`, `dt`, `dkey`, `dsa` of the model's facts) is decoded from the payload of that same
issuerAuth - the bytes the issuer signature covers - and from nothing else in the response. -/
theorem C03_wire_mso_is_signed_payload (resp transcript : Cbor) (ikey : Option (Nat × Nat))
    (h : (compute resp transcript ikey).mso = true) :
    ∃ doc u1 u2 payload u3 m, firstMdl resp = some doc ∧ issuerAuthOf doc = some [u1, u2, .bytes payload, u3] ∧
      msoOf payload = some m ∧
      (compute resp transcript ikey).dig = digestsMatch doc m ∧
      (compute resp transcript ikey).dkey = (deviceKeyOf (some m)).1 ∧
      (compute resp transcript ikey).dsa = deviceSigAccepts doc transcript (deviceKeyOf (some m)).2 := by
  unfold compute at h ⊢
  cases hd : firstMdl resp with
  | none => simp [hd] at h
  | some doc =>
    simp only [hd] at h ⊢
    cases hm : msoOfDoc doc with
    | none => simp [hm] at h
    | some m =>
      unfold msoOfDoc at hm
      cases hp : issuerPayload doc with
      | none => simp [hp] at hm
      | some payload =>
        simp only [hp, Option.bind_some] at hm
        unfold issuerPayload at hp
        split at hp
        · rename_i u1 u2 p u3 hia
          simp only [Option.some.injEq] at hp
          subst hp
          refine ⟨doc, u1, u2, p, u3, m, rfl, hia, hm, ?_, ?_, ?_⟩ <;> simp
        · simp at hp

end Wire

/-- non-vacuity: an honest response is Valid/Valid without errors; one flipped fact is not. -/

def honest : Facts :=
  { decrypts := true, decodes := true, hasDocuments := true, hasMdlDoc := true, x5chainPresent := true,
    x5chainParses := true, namespacesPresent := true, coreNamespacePresent := true, chainErrors := 0,
    issuerKeyParses := true, issuerAlg := .assigned (-7), issuerPayloadAttached := true, issuerSigParses := true,
    issuerSigAccepts := true, msoDecodes := true, deviceKey := .p256 true, deviceAuthIsSignature := true,
    deviceAlg := .assigned (-7), devicePayloadAttached := false, deviceSigParses := true, deviceSigAccepts := true,
    digestsMatch := true, docTypeMatches := true }

example : handleResponse honest = ⟨.valid, .valid, [], true⟩ := by decide
example : (handleResponse { honest with issuerSigAccepts := false }).issuer = .invalid := by decide
example : (handleResponse { honest with chainErrors := 2 }).errors = [.certificate] := by decide

end IsoMdl.ReaderAuth
