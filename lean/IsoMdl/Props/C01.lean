import IsoMdl.Lemmas.Honest
import IsoMdl.Props.C02
import IsoMdl.Props.C05
import IsoMdl.Props.C08
import IsoMdl.Props.C09
/-
C01 — Honest presentation delivers exactly the agreed data, authenticated.

A composition theorem: along an unmodified run the session layer accepts every message in every
round (for any number of rounds), the response of each round carries exactly the requested ∩
permitted ∩ held items (C02), both authentication verdicts are Valid under the stated trust
configuration (C03–C05), and both roles derive the session keys from the same inputs (C08).
The end-to-end harness runs real sessions over issued documents of the whole data model and
evaluates the same statements on what the reader actually reports.
-/
namespace IsoMdl.Honest
open IsoMdl IsoMdl.Session IsoMdl.Disclosure IsoMdl.ReaderAuth

/-- EVERY MESSAGE DECRYPTS, IN EVERY ROUND: from roles in step (in particular right after session
establishment), for ANY number of rounds that fits the 32-bit message counters, each with any
non-empty set of documents, the device accepts every request and the reader accepts every
response, which has status 0 and pairs every prepared document with the signature made for it. -/
theorem C01_every_round_accepted (xs : List RoundIn) (hx : ∀ x ∈ xs, x.Ok) (d : Device) (r : Reader) (hs : InStep d r)
    (hroom : Room d r xs.length) :
    rounds d r xs = xs.map fun x => (some (Session.Outcome.accepted .request), some (Session.Outcome.accepted (.response 0 (pairsOf x.docs x.sigs)))) := by
  induction xs generalizing d r with
  | nil => rfl
  | cons x xs ih =>
    obtain ⟨hne, hl⟩ := hx x List.mem_cons_self
    obtain ⟨d', r', hr, hs', hroom'⟩ := round_ok d r x.docs x.sigs hs xs.length (by simpa using hroom) hne hl
    simp only [rounds, hr, List.map_cons]
    rw [ih (fun y hy => hx y (List.mem_cons_of_mem _ hy)) d' r' hs' hroom']

/-- in particular: every session of fewer than 2^32 - 1 rounds after establishment -/
theorem C01_every_round_accepted_established (s : Nat) (xs : List RoundIn) (hx : ∀ x ∈ xs, x.Ok)
    (hlen : xs.length + 1 < 2^32) :
    rounds (World.established s).dev (World.established s).rdr xs =
      xs.map fun x => (some (Session.Outcome.accepted .request), some (Session.Outcome.accepted (.response 0 (pairsOf x.docs x.sigs)))) := by
  apply C01_every_round_accepted xs hx _ _ ⟨rfl, rfl, rfl, rfl⟩
  constructor
  · show (1 : UInt32).toNat + xs.length < 2^32
    simp; omega
  · show (0 : UInt32).toNat + xs.length < 2^32
    simp; omega

/-- the state right after establishment is in step, and the first response (to the request that
travelled inside the SessionEstablishment) is accepted as well -/
theorem C01_first_response_accepted (s : Nat) (x : RoundIn) (hx : x.Ok) :
    InStep (World.established s).dev (World.established s).rdr ∧
    ∃ d' r', answer (World.established s).dev (World.established s).rdr x.docs x.sigs =
      (d', r', some (.accepted (.response 0 (pairsOf x.docs x.sigs)))) ∧ InStep d' r' := by
  refine ⟨⟨rfl, rfl, rfl, rfl⟩, ?_⟩
  obtain ⟨hne, hl⟩ := hx
  obtain ⟨n, hn⟩ : ∃ n, x.docs.length = n + 1 := by
    cases h : x.docs with
    | nil => exact absurd h hne
    | cons a t => exact ⟨t.length, by simp⟩
  refine ⟨_, _, answer_ok n _ _ x.docs x.sigs hn hl rfl rfl rfl, ?_⟩
  simp [InStep, World.established]

/-- EXACTLY THE AGREED DATA: in the response to a request, an item of a held, signable document is
disclosed under (namespace, identifier) exactly … -/
theorem C01_disclosed_is_agreed (held : Held) (req : Request) (perm : Permitted) (pd : PreparedDoc)
    (hpd : pd ∈ (prepare held req perm).1) (ns : Key) (it : Nat) (hin : In ns it pd.disclosed) :
    ∃ e, RequestedAny req pd.docType ns e ∧ PermittedElem perm pd.docType ns e ∧ Holds held pd.docType ns e it :=
  C02_disclosure_sound held req perm pd hpd ns it hin

/-- … and every requested, permitted and held element IS disclosed, as the issued item -/
theorem C01_agreed_is_disclosed (held : Held) (req : Request) (perm : Permitted) (d ns e : Key)
    (nss : List (Key × List Key)) (es : List Key) (hperm : (d, nss) ∈ perm) (hes : (ns, es) ∈ nss) (he : e ∈ es)
    (rns : List (Key × List Key)) (res : List Key)
    (hreq : firstRequest req d = some rns) (hres : lookup ns rns = some res) (hre : e ∈ res)
    (doc : Doc) (hheld : lookup d held = some doc) (hsign : doc.canSign = true)
    (items : List (Key × Nat)) (hns : lookup ns doc.namespaces = some items) (it : Nat) (hit : lookup e items = some it) :
    ∃ pd ∈ (prepare held req perm).1, pd.docType = d ∧ ∃ it', Holds held d ns e it' ∧ In ns it' pd.disclosed := by
  rcases C02_disclosure_complete held req perm d ns e nss es hperm hes he rns res hreq hres hre with hde | ⟨pd, hpd, hdt, h⟩
  · -- a document error is impossible: the document is held and can sign
    exfalso
    obtain ⟨_, hd2, _⟩ := C02_nothing_else held req perm
    rw [prepare_eq] at hde
    obtain ⟨⟨d', nss'⟩, _, hp⟩ := List.mem_filterMap.mp hde
    simp only [prepErr] at hp
    cases hl : lookup d' held with
    | none =>
      simp only [hl] at hp
      injection hp with hp; subst hp; rw [hheld] at hl; cases hl
    | some doc' =>
      simp only [hl] at hp
      split at hp
      · injection hp with hp; subst hp; rw [hheld] at hl; injection hl with hl; subst hl
        rename_i hc; simp [hsign] at hc
      · cases hp
  · refine ⟨pd, hpd, hdt, ?_⟩
    rcases h with herr | h
    · -- an element error is impossible: the element is held
      exfalso
      rw [prepare_eq] at hpd
      obtain ⟨⟨d', nss'⟩, _, hprep⟩ := List.mem_filterMap.mp hpd
      simp only [prepDoc] at hprep
      cases hl : lookup d' held with
      | none => simp [hl] at hprep
      | some doc' =>
        simp only [hl] at hprep
        split at hprep
        · cases hprep
        · injection hprep with hprep
          subst hprep
          simp only at hdt; subst hdt
          rw [hheld] at hl; injection hl with hl; subst hl
          rcases (collect_err doc nss' ([], []) ns e).mp herr with ⟨xs, hm, _⟩ | ⟨es', _, _, hnone⟩
          · cases hm
          · simp [heldItem, hns, hit] at hnone
    · exact h

section IssuedDisclosedAccepted
open IsoMdl.ResponseFacts IsoMdl.Issuance

/-- ISSUED, PARTLY DISCLOSED, ACCEPTED (issuance model + disclosure + the reader's wire model): take what the
issuer put into the MSO for the items `nsl` it issued (hypotheses of
`C09_issued_passes_reader_digest_check`).  Then ANY response that carries, per namespace, a subset of
those items exactly as issued - what an honest device sends after intersecting the held items with
the request and the holder's permission (C02: every disclosed item is the exact held item) - passes the
reader's digest comparison against that MSO, for every number of namespaces and items and every
choice of subset. -/
theorem C01_disclosed_subset_of_issued_passes (doc' mso is' vd : Cbor) (nsl nsl' : List (Bytes × List Item))
    (his : fget doc' "issuerSigned" = some is')
    (hns : fget is' "nameSpaces" = some (.map (nsl'.map fun e => (Cbor.text e.1, Cbor.array (e.2.map wireItem)))))
    (hvd : fget mso "valueDigests" = some vd)
    (hent : ∀ e ∈ nsl, ∀ it ∈ e.2, ∃ entries, mget vd (.text e.1) = some (.map entries) ∧ (entries.map (·.1)).Nodup ∧
      digestEntry (hashWith ((fget mso "digestAlgorithm").getD (.simple 22))) it ∈ entries)
    (hok : ∀ e ∈ nsl, ∀ it ∈ e.2, Cbor.wf it.toCbor ∧ textOk it.toCbor = true)
    (hsub : ∀ e' ∈ nsl', ∀ it ∈ e'.2, ∃ e ∈ nsl, e.1 = e'.1 ∧ it ∈ e.2) :
    digestsMatch doc' mso = true := by
  apply C09_issued_passes_reader_digest_check doc' mso is' vd nsl' his hns hvd
  · intro e' he' it hit
    obtain ⟨e, he, hname, hin⟩ := hsub e' he' it hit
    obtain ⟨entries, h1, h2, h3⟩ := hent e he it hin
    exact ⟨entries, by rw [← hname]; exact h1, h2, h3⟩
  · intro e' he' it hit
    obtain ⟨e, he, _, hin⟩ := hsub e' he' it hit
    exact hok e he it hin

/-- THE WHOLE HONEST PATH, FROM THE DISCLOSURE MODEL: a document the device prepares (`prepare`, C02's model)
from what it holds, for ANY request and ANY permission, sent with its items as issued, passes the
reader's digest comparison against the issuer's MSO - provided the device holds what was issued
(every held item, read through the interpretation `nsName` / `item` of the abstract handles, is
one of the issued items of that namespace).  The proof goes through `C02_disclosure_sound`: every
disclosed item is the exact held item. -/
theorem C01_prepared_document_passes_reader (held : Held) (req : Request) (perm : Permitted) (pd : PreparedDoc)
    (hpd : pd ∈ (prepare held req perm).1)
    (nsName : Key → Bytes) (item : Nat → Item) (nsl : List (Bytes × List Item))
    (hheld : ∀ ns e it, Holds held pd.docType ns e it → ∃ its, (nsName ns, its) ∈ nsl ∧ item it ∈ its)
    (doc' mso is' vd : Cbor)
    (his : fget doc' "issuerSigned" = some is')
    (hns : fget is' "nameSpaces" = some (.map ((pd.disclosed.map fun d => (nsName d.1, d.2.map item)).map
      fun e => (Cbor.text e.1, Cbor.array (e.2.map wireItem)))))
    (hvd : fget mso "valueDigests" = some vd)
    (hent : ∀ e ∈ nsl, ∀ it ∈ e.2, ∃ entries, mget vd (.text e.1) = some (.map entries) ∧ (entries.map (·.1)).Nodup ∧
      digestEntry (hashWith ((fget mso "digestAlgorithm").getD (.simple 22))) it ∈ entries)
    (hok : ∀ e ∈ nsl, ∀ it ∈ e.2, Cbor.wf it.toCbor ∧ textOk it.toCbor = true) :
    digestsMatch doc' mso = true := by
  apply C01_disclosed_subset_of_issued_passes doc' mso is' vd nsl _ his hns hvd hent hok
  intro e' he' it hit
  obtain ⟨d, hd, rfl⟩ := List.mem_map.mp he'
  obtain ⟨n, hn, rfl⟩ := List.mem_map.mp hit
  obtain ⟨e, _, _, hholds⟩ := C02_disclosure_sound held req perm pd hpd d.1 n ⟨d.2, hd, hn⟩
  obtain ⟨its, hmem, hin⟩ := hheld d.1 e n hholds
  exact ⟨(nsName d.1, its), hmem, rfl, hin⟩

/-- non-vacuity of the composition: the held set, request and permission of `C02_second_request_for_same_doctype_ignored`,
the one-item issuance of C09's example -/
example : digestsMatch exDoc exMso = true :=
  C01_prepared_document_passes_reader
    [(0, { canSign := true, namespaces := [(0, [(1, 11), (2, 22)])] })] [(0, [(0, [1])]), (0, [(0, [2])])] [(0, [(0, [1, 2])])]
    { docType := 0, disclosed := [(0, [11])], errors := [] } (by decide)
    (fun _ => [110]) (fun _ => exItem) [([110], [exItem])]
    (fun _ _ _ _ => ⟨[exItem], by simp, by simp⟩)
    exDoc exMso exIs exVd rfl rfl rfl ex_hent ex_hok

end IssuedDisclosedAccepted

/-- AUTHENTICATED: when the response reaches validation, the issuer's chain validates against a
configured trust anchor with no error, the issuer signature and the digests check, and the holder
signed with the issued device key over this session's transcript, BOTH statuses are Valid and no
error is reported. -/
theorem C01_both_valid (f : Facts)
    (hreach : f.decrypts = true ∧ f.decodes = true ∧ f.hasDocuments = true ∧ f.hasMdlDoc = true ∧
      f.x5chainPresent = true ∧ f.x5chainParses = true)
    (hchain : f.chainErrors = 0) (hi : IssuerSignatureOk f) (hd : DeviceSignatureOk f) :
    handleResponse f = ⟨.valid, .valid, [], f.namespacesPresent && f.coreNamespacePresent⟩ := by
  obtain ⟨h1, h2, h3, h4, h5, h6⟩ := hreach
  have hI := (issuerAuthentication_iff f).mpr hi
  have hD := (deviceAuthentication_iff f).mpr hd
  simp [handleResponse, h1, h2, h3, h4, h5, h6, hchain, hI, hD]

/-- SAME KEYS: both roles compute SKReader / SKDevice as the same function of the shared secret and
of the transcript bytes; given the same ECDH secret (symmetry of ECDH is observed on every run,
not proved) and the same bytes on the wire they hold the same keys, which are the ISO ones (C08). -/
theorem C01_same_keys (zDev zRdr tDev tRdr : Bytes) (hz : zDev = zRdr) (ht : tDev = tRdr) (reader : Bool) :
    KeyDerivation.sessionKey zDev tDev reader = KeyDerivation.sessionKey zRdr tRdr reader ∧
    KeyDerivation.sessionKey zDev tDev reader =
      Spec.KeyDerivation.IsoSessionKey zDev (Cbor.enc (.tag 24 (.bytes tDev))) reader := by
  subst hz; subst ht
  exact ⟨rfl, KeyDerivation.C08_session_key_formula _ _ _⟩

/-! non-vacuity -/
example : rounds (World.established 7).dev (World.established 7).rdr [⟨[1, 2], [10, 20]⟩, ⟨[1], [30]⟩] =
    [(some (.accepted .request), some (.accepted (.response 0 [(2, 10), (1, 20)]))),
     (some (.accepted .request), some (.accepted (.response 0 [(1, 30)])))] := by decide
example : handleResponse honest = ⟨.valid, .valid, [], true⟩ := by decide

end IsoMdl.Honest
