import IsoMdl.Lemmas.Session
import IsoMdl.Spec.Device
/-
C13 — Device session follows its state machine; every prepared response is retrievable.
All statements are about `Device` of Model/Session.lean for arbitrary states / operation lists.
Full strength since the `fix:` commit that stages a response as soon as nothing is left to sign
(`finalize_if_complete`); before it, `Signing` with no unsigned document was reachable
(known finding F-C13, now under "fixed").
-/
namespace IsoMdl.Session

/-- what a completed response is staged as: the encrypted response — or, when the send counter
is used up, the bare "session encryption error" status message (`Msg.noData`) -/
def staged (d : Device) (st : Nat) (s : List (Nat × Nat)) : Msg :=
  if atMax d.encCtr then .noData else .ct false d.sess (bump d.encCtr).toNat (.response st s) false

theorem finalize_st (d : Device) :
    (∃ s st, d.st = .signing [] s st ∧ d.finalizeIfComplete.st = .ready (staged d st s)) ∨
    ((∀ s st, d.st ≠ .signing [] s st) ∧ d.finalizeIfComplete = d) := by
  unfold Device.finalizeIfComplete
  cases h : d.st with
  | awaiting => right; exact ⟨(by intro s st hc; cases hc), rfl⟩
  | ready m => right; exact ⟨(by intro s st hc; cases hc), rfl⟩
  | signing p s st =>
    cases p with
    | nil =>
      left; refine ⟨s, st, rfl, ?_⟩
      simp only [staged]
      split <;> rfl
    | cons a l => right; exact ⟨(by intro s' st' hc; cases hc), rfl⟩

theorem finalize_not_stuck (d : Device) : d.finalizeIfComplete.st.stuck = false := by
  rcases finalize_st d with ⟨s, st, _, h2⟩ | ⟨h1, h2⟩
  · rw [h2]; rfl
  · rw [h2]
    cases h : d.st with
    | awaiting => rfl
    | ready m => rfl
    | signing p s st =>
      cases p with
      | nil => exact absurd h (h1 s st)
      | cons a l => rfl

/-- A signature payload is offered exactly while a prepared response has unsigned documents. -/
theorem C13_payload_offered_iff (d : Device) :
    d.getNext.isSome = true ↔ ∃ p s st, d.st = .signing p s st ∧ p ≠ [] := by
  unfold Device.getNext
  cases h : d.st with
  | awaiting => simp
  | ready m => simp
  | signing p s st =>
    cases p with
    | nil => simp
    | cons a l => simp [List.getLast?_isSome]

/-- Each submitted signature is attached, unchanged, to the document whose payload was offered,
and that document stops being unsigned; when it was the last one the response is ready. -/
theorem C13_submit_pairs (d : Device) (doc sig : Nat) (p : List Nat) (s : List (Nat × Nat)) (st : Nat)
    (hst : d.st = .signing p s st) (hn : d.getNext = some doc) :
    ((d.submit sig).st = .signing p.dropLast (s ++ [(doc, sig)]) st ∧ p.dropLast ≠ []) ∨
    ((d.submit sig).st = .ready (staged d st (s ++ [(doc, sig)])) ∧ p.dropLast = []) := by
  unfold Device.getNext at hn
  rw [hst] at hn
  simp only at hn
  unfold Device.submit
  rw [hst]
  simp only [attach, hn]
  by_cases hl : p.dropLast = []
  · right
    refine ⟨?_, hl⟩
    simp only [Device.finalizeIfComplete, hl, staged]
    split <;> rfl
  · left
    refine ⟨?_, hl⟩
    unfold Device.finalizeIfComplete
    cases hd : p.dropLast with
    | nil => exact absurd hd hl
    | cons a l => rfl

/-- The response becomes ready exactly when no unsigned document remains after the submission. -/
theorem C13_ready_iff (d : Device) (sig : Nat) :
    (d.submit sig).responseReady = true ↔
      d.responseReady = true ∨ ∃ p s st, d.st = .signing p s st ∧ p.dropLast = [] := by
  unfold Device.submit Device.responseReady
  cases h : d.st with
  | awaiting => simp [h]
  | ready m => simp [h]
  | signing p s st =>
    simp only [attach]
    cases hp : p.getLast? with
    | none =>
      have : p = [] := by simpa using hp
      subst this
      cases he : atMax d.encCtr <;> simp [Device.finalizeIfComplete, he]
    | some doc =>
      simp only
      cases hd : p.dropLast with
      | nil =>
        cases he : atMax d.encCtr <;> simp [Device.finalizeIfComplete, he, hd]
      | cons a l => simp [Device.finalizeIfComplete, hd]

/-- It is handed out exactly once, after which the device awaits the next request. -/
theorem C13_retrieve_once (d d' : Device) (m : Msg) (h : d.retrieve = (d', some m)) :
    d.st = .ready m ∧ d'.st = .awaiting ∧ d'.retrieve = (d', none) := by
  unfold Device.retrieve at h
  cases hs : d.st with
  | awaiting => simp [hs] at h
  | signing p s st => simp [hs] at h
  | ready m' =>
    simp only [hs, Prod.mk.injEq, Option.some.injEq] at h
    obtain ⟨h1, h2⟩ := h
    subst h1 h2
    simp [Device.retrieve]

/-- Submitting or retrieving when nothing is pending has no effect. -/
theorem C13_noops (d : Device) (sig : Nat) :
    (d.st.isSigning = false → d.submit sig = d) ∧ (d.st.isReady = false → d.retrieve = (d, none)) := by
  constructor
  · intro h; unfold Device.submit; cases hs : d.st <;> simp_all [DevState.isSigning]
  · intro h; unfold Device.retrieve; cases hs : d.st <;> simp_all [DevState.isReady]

/-- A request that decrypts but is not a valid DeviceRequest leads, at once, to a retrievable
response carrying status 11 or 12 (and no document). -/
theorem C13_malformed_request_status (d : Device) (n : Nat) (p : Payload)
    (hp : p = .notCbor ∨ p = .notRequest)
    (hacc : n = d.decCtr.toNat + 1) (hn : n < 2^32) :
    ∃ st, (st = 11 ∨ st = 12) ∧
      ((d.handleRequest (.ct true d.sess n p false)).1).st = .ready (staged d st []) ∧
      ((d.handleRequest (.ct true d.sess n p false)).1).responseReady = true := by
  have hm : atMax d.decCtr = false := by
    cases h : atMax d.decCtr
    · rfl
    · have := (atMax_iff _).mp h; omega
  have hb := bump_toNat _ (not_atMax _ hm)
  rcases hp with rfl | rfl
  · refine ⟨11, Or.inl rfl, ?_, ?_⟩ <;>
      cases he : atMax d.encCtr <;>
      simp [Device.handleRequest, accepts, hacc, hm, hb, Device.finalizeIfComplete, staged, Device.responseReady, he]
  · refine ⟨12, Or.inr rfl, ?_, ?_⟩ <;>
      cases he : atMax d.encCtr <;>
      simp [Device.handleRequest, accepts, hacc, hm, hb, Device.finalizeIfComplete, staged, Device.responseReady, he]

/-- A response with nothing to sign is retrievable without inventing a signature. -/
theorem C13_nothing_to_sign_is_ready (d : Device) :
    (d.prepare []).responseReady = true ∧ (d.prepare []).getNext = none ∧
    ((d.prepare []).retrieve).2 = some (staged d 0 []) := by
  cases he : atMax d.encCtr <;>
    simp [Device.prepare, Device.finalizeIfComplete, Device.responseReady, Device.getNext,
      Device.retrieve, staged, he]

/-- `prepare_response` supersedes whatever was pending: from ANY state - awaiting, half signed, a finished response not yet
collected - the device is afterwards signing exactly the given documents with nothing signed yet, or (nothing to sign) the
empty response is staged.  This is the predicate `prepareOk` that the check evaluates on the real device after every
prepare_response (with the documents computed from the request). -/
theorem C13_prepare_supersedes (d : Device) (docs : List Nat) (h : atMax d.encCtr = false) :
    prepareOk docs (d.prepare docs).st = true := by
  cases docs with
  | nil => simp [Device.prepare, Device.finalizeIfComplete, h, prepareOk]
  | cons a l =>
    simp only [Device.prepare, Device.finalizeIfComplete, prepareOk]
    simp
    intro x hx; exact Or.inr hx

/-! ### Every prepared response is retrievable — for ANY number of documents

After `prepare_response` over any non-empty list of documents, submitting one signature per document
(whatever the signatures are) leaves a ready response; it pairs every document with the signature
submitted while that document's payload was on offer (last prepared document first), and
`retrieve_response` hands out exactly that response. -/

theorem submit_nonfinal (d : Device) (doc sig : Nat) (p : List Nat) (s : List (Nat × Nat)) (st : Nat)
    (hst : d.st = .signing p s st) (hl : p.getLast? = some doc) (hd : p.dropLast ≠ []) :
    d.submit sig = { d with st := .signing p.dropLast (s ++ [(doc, sig)]) st } := by
  unfold Device.submit
  rw [hst]
  simp only [attach, hl]
  unfold Device.finalizeIfComplete
  cases hp : p.dropLast with
  | nil => exact absurd hp hd
  | cons a l => rfl

theorem submitAll_signing (sigs : List Nat) : ∀ (d : Device) (p : List Nat) (s : List (Nat × Nat)) (st : Nat),
    d.st = .signing p s st → p ≠ [] → sigs.length = p.length →
    (sigs.foldl Device.submit d).st = .ready (staged d st (s ++ p.reverse.zip sigs)) := by
  induction sigs with
  | nil => intro d p s st _ hne hl; cases p with
    | nil => exact absurd rfl hne
    | cons a l => simp at hl
  | cons sig sigs ih =>
    intro d p s st hst hne hl
    obtain ⟨doc, hdoc⟩ : ∃ doc, p.getLast? = some doc := by
      cases hp : p.getLast? with
      | none => exact absurd (List.getLast?_eq_none_iff.mp hp) hne
      | some x => exact ⟨x, rfl⟩
    have hn : d.getNext = some doc := by unfold Device.getNext; rw [hst]; exact hdoc
    have hpd : p = p.dropLast ++ [doc] := by
      obtain ⟨ys, hys⟩ := List.getLast?_eq_some_iff.mp hdoc
      rw [hys]; simp
    have hrev : p.reverse = doc :: p.dropLast.reverse := by
      conv => lhs; rw [hpd]
      simp
    have hlen : p.dropLast.length = sigs.length := by
      simp only [List.length_dropLast, List.length_cons] at hl ⊢; omega
    simp only [List.foldl_cons]
    by_cases hd : p.dropLast = []
    · have hs0 : sigs = [] := by
        rw [hd] at hlen; exact List.length_eq_zero_iff.mp hlen.symm
      subst hs0
      rcases C13_submit_pairs d doc sig p s st hst hn with ⟨_, h2⟩ | ⟨h1, _⟩
      · exact absurd hd h2
      · simp only [List.foldl_nil, h1, hrev, hd, List.reverse_nil, List.zip_cons_cons, List.zip_nil_right]
    · rw [submit_nonfinal d doc sig p s st hst hdoc hd]
      have := ih { d with st := .signing p.dropLast (s ++ [(doc, sig)]) st } p.dropLast (s ++ [(doc, sig)]) st rfl hd hlen.symm
      rw [this, hrev]
      simp [staged]

theorem C13_sign_all_then_retrievable (d : Device) (docs sigs : List Nat) (hne : docs ≠ [])
    (hl : sigs.length = docs.length) :
    (sigs.foldl Device.submit (d.prepare docs)).responseReady = true ∧
    (sigs.foldl Device.submit (d.prepare docs)).getNext = none ∧
    ((sigs.foldl Device.submit (d.prepare docs)).retrieve).2 = some (staged d 0 (docs.reverse.zip sigs)) := by
  have hp : d.prepare docs = { d with st := .signing docs [] 0 } := by
    unfold Device.prepare Device.finalizeIfComplete
    cases docs with
    | nil => exact absurd rfl hne
    | cons a l => rfl
  have h := submitAll_signing sigs (d.prepare docs) docs [] 0 (by rw [hp]) hne hl
  have hs : staged (d.prepare docs) 0 ([] ++ docs.reverse.zip sigs) = staged d 0 (docs.reverse.zip sigs) := by
    rw [hp]; simp [staged]
  rw [hs] at h
  simp [Device.responseReady, Device.getNext, Device.retrieve, h]

/-- non-vacuity: three documents, three signatures; the last prepared document is signed first -/
example :
    ((([7, 8, 9].foldl Device.submit ((World.established 1).dev.prepare [0, 1, 2])).retrieve).2) =
      some (staged (World.established 1).dev 0 [(2, 7), (1, 8), (0, 9)]) := by decide

/-- FULL-STRENGTH: in every reachable state of every call sequence, a Signing state has an
unsigned document (it offers a payload); i.e. the response is ready exactly when no unsigned
document remains, and nothing is ever stuck waiting for an invented signature. -/
theorem C13_step_not_stuck (w : World) (op : Op) (h : w.dev.st.stuck = false) :
    (w.step op).dev.st.stuck = false := by
  have hwd : ∀ d : Device, (w.withDev d).dev = d := by
    intro d; unfold World.withDev; split <;> rfl
  cases op with
  | newRequest => simp only [World.step]; split <;> exact h
  | handleRequest m =>
    simp only [World.step, hwd]
    cases m with
    | garbage => exact h
    | noData => exact h
    | ct fr s n p t =>
      simp only [Device.handleRequest]
      split
      · exact h
      · split
        · cases p
          · exact h
          · exact finalize_not_stuck _
          · exact finalize_not_stuck _
          · exact finalize_not_stuck _
        · exact h
  | prepare docs => simp only [World.step, hwd]; exact finalize_not_stuck _
  | getNext => exact h
  | submit sig =>
    simp only [World.step, hwd]
    unfold Device.submit
    split
    · exact finalize_not_stuck _
    · exact h
  | responseReady => exact h
  | retrieve =>
    simp only [World.step, Device.retrieve]
    split
    · rfl
    · exact h
  | handleResponse m => exact h
  | restoreDevice => rw [step_restoreDevice]; exact h
  | restoreReader => rw [step_restoreReader]; exact h

theorem C13_never_stuck (s : Nat) (ops : List Op) : ((World.established s).run ops).dev.st.stuck = false := by
  have : ∀ (w : World), w.dev.st.stuck = false → (w.run ops).dev.st.stuck = false := by
    induction ops with
    | nil => intro w h; exact h
    | cons op ops ih => intro w h; exact ih _ (C13_step_not_stuck w op h)
  exact this _ rfl

/-- consequently: in every reachable state a payload is offered iff the state is Signing -/
theorem C13_signing_iff_offered (s : Nat) (ops : List Op) :
    ((World.established s).run ops).dev.getNext.isSome = ((World.established s).run ops).dev.st.isSigning := by
  have h := C13_never_stuck s ops
  generalize ((World.established s).run ops).dev = d at h
  unfold Device.getNext DevState.isSigning
  cases hs : d.st with
  | awaiting => rfl
  | ready m => rfl
  | signing p sg st =>
    cases p with
    | nil => simp [hs, DevState.stuck] at h
    | cons a l => simp [List.getLast?_isSome]

/-- Every transition of every operation is one of the documented ones or a no-op. -/
theorem C13_refines_diagram (w : World) (op : Op) : Documented w.dev.st (w.step op).dev.st := by
  have hwd : ∀ d : Device, (w.withDev d).dev = d := by
    intro d; unfold World.withDev; split <;> rfl
  have hfin : ∀ d : Device, Documented w.dev.st d.st → Documented w.dev.st d.finalizeIfComplete.st := by
    intro d hd
    rcases finalize_st d with ⟨s, st, _, h2⟩ | ⟨_, h2⟩
    · rw [h2]; exact .respondNow _ _
    · rw [h2]; exact hd
  cases op with
  | newRequest => simp only [World.step]; split <;> exact .refl _
  | handleRequest m =>
    simp only [World.step, hwd]
    cases m with
    | garbage => exact .refl _
    | noData => exact .refl _
    | ct fr s n p t =>
      simp only [Device.handleRequest]
      split
      · exact .refl _
      · split
        · cases p
          · exact .refl _
          · simp only [Device.finalizeIfComplete]; split <;> exact .respondNow _ _
          · simp only [Device.finalizeIfComplete]; split <;> exact .respondNow _ _
          · simp only [Device.finalizeIfComplete]; split <;> exact .respondNow _ _
        · exact .refl _
  | prepare docs =>
    simp only [World.step, hwd, Device.prepare]
    cases docs with
    | nil => simp only [Device.finalizeIfComplete]; split <;> exact .respondNow _ _
    | cons a l => simp [Device.finalizeIfComplete]; exact .prepare _ _ (by simp)
  | getNext => exact .refl _
  | submit sig =>
    simp only [World.step, hwd]
    unfold Device.submit
    cases hs : w.dev.st with
    | awaiting => simp only [hs]; rw [← hs]; exact .refl _
    | ready m => simp only [hs]; rw [← hs]; exact .refl _
    | signing p s st =>
      simp only [attach]
      cases hp : p.getLast? with
      | none =>
        have : p = [] := by simpa using hp
        subst this
        simp only [Device.finalizeIfComplete]; split <;> exact .respondNow _ _
      | some doc =>
        simp only
        cases hd : p.dropLast with
        | nil => simp only [Device.finalizeIfComplete]; split <;> exact .respondNow _ _
        | cons a l =>
          simp only [Device.finalizeIfComplete]
          rw [← hd]
          exact .sign _ _ _ _ _ hp (by rw [hd]; simp)
  | responseReady => exact .refl _
  | retrieve =>
    simp only [World.step, Device.retrieve]
    cases hs : w.dev.st with
    | awaiting => simp only [hs]; rw [← hs]; exact .refl _
    | signing p s st => simp only [hs]; rw [← hs]; exact .refl _
    | ready m => simp only [hs]; exact .retrieve _
  | handleResponse m => exact .refl _
  | restoreDevice => rw [step_restoreDevice]; exact .refl _
  | restoreReader => rw [step_restoreReader]; exact .refl _

/-- non-vacuity: a two-document response signed in the offered order and retrieved once; an
error response and an empty response retrievable at once. -/
example :
    let w := (World.established 3).run [.prepare [4, 9]]
    w.dev.getNext = some 9 ∧
    ((w.run [.submit 70]).dev.getNext = some 4) ∧
    ((w.run [.submit 70, .submit 71]).dev.st =
        .ready (.ct false 3 1 (.response 0 [(9, 70), (4, 71)]) false)) ∧
    ((w.run [.submit 70, .submit 71, .retrieve, .retrieve]).dev.st = .awaiting) := by decide
example :
    let d := ((World.established 1).run [.handleRequest (.ct true 1 2 .notCbor false)]).dev
    d.getNext = none ∧ d.responseReady = true ∧ (d.retrieve).2 = some (.ct false 1 1 (.response 11 []) false) := by
  decide

end IsoMdl.Session
