import IsoMdl.Lemmas.Session
import IsoMdl.Spec.Device
/-
C13 — Device session follows its state machine; every prepared response is retrievable.
All statements are about `Device` of Model/Session.lean for arbitrary states / operation lists.
-/
namespace IsoMdl.Session

/-- A signature payload is offered exactly while a prepared response has unsigned documents. -/
theorem C13_payload_offered_iff (d : Device) :
    d.getNext.isSome = true ↔ ∃ p s st, d.st = .signing p s st ∧ p ≠ [] := by
  unfold Device.getNext
  cases h : d.st with
  | awaiting => simp
  | ready m => simp
  | signing p s st =>
    cases p with
    | nil => simp
    | cons a l => simp [List.getLast?_isSome]

/-- Each submitted signature is attached, unchanged, to the document whose payload was offered,
and that document stops being unsigned. -/
theorem C13_submit_pairs (d : Device) (doc sig : Nat) (p : List Nat) (s : List (Nat × Nat)) (st : Nat)
    (hst : d.st = .signing p s st) (hn : d.getNext = some doc) :
    ((d.submit sig).st = .signing p.dropLast (s ++ [(doc, sig)]) st ∧ p.dropLast ≠ []) ∨
    (∃ c, (d.submit sig).st = .ready (.ct false d.sess c (.response st (s ++ [(doc, sig)])) false) ∧
          p.dropLast = []) := by
  unfold Device.getNext at hn
  rw [hst] at hn
  simp only at hn
  unfold Device.submit
  rw [hst]
  simp only [hn]
  by_cases hl : p.dropLast = []
  · right; simp [hl]
  · left; simp [hl]

/-- The response becomes ready exactly when no unsigned document remains after the submission. -/
theorem C13_ready_iff (d : Device) (sig : Nat) :
    (d.submit sig).responseReady = true ↔
      d.responseReady = true ∨ ∃ p s st, d.st = .signing p s st ∧ p.dropLast = [] := by
  unfold Device.submit Device.responseReady
  cases h : d.st with
  | awaiting => simp [h]
  | ready m => simp [h]
  | signing p s st =>
    simp only [h]
    cases hp : p.getLast? with
    | none =>
      have : p = [] := by simpa using hp
      subst this
      simp
    | some doc =>
      simp only
      by_cases hl : p.dropLast = [] <;> simp [hl]

/-- It is handed out exactly once, after which the device awaits the next request. -/
theorem C13_retrieve_once (d d' : Device) (m : Msg) (h : d.retrieve = (d', some m)) :
    d.st = .ready m ∧ d'.st = .awaiting ∧ d'.retrieve = (d', none) := by
  unfold Device.retrieve at h
  cases hs : d.st with
  | awaiting => simp [hs] at h
  | signing p s st => simp [hs] at h
  | ready m' =>
    simp only [hs, Prod.mk.injEq, Option.some.injEq] at h
    obtain ⟨h1, h2⟩ := h
    subst h1 h2
    simp [Device.retrieve]

/-- Submitting or retrieving when nothing is pending has no effect. -/
theorem C13_noops (d : Device) (sig : Nat) :
    (d.st.isSigning = false → d.submit sig = d) ∧ (d.st.isReady = false → d.retrieve = (d, none)) := by
  constructor
  · intro h; unfold Device.submit; cases hs : d.st <;> simp_all [DevState.isSigning]
  · intro h; unfold Device.retrieve; cases hs : d.st <;> simp_all [DevState.isReady]

/-- A request that decrypts but is not a valid DeviceRequest leads to a response carrying status
11 or 12 … -/
theorem C13_malformed_request_status (d : Device) (n : Nat) (p : Payload)
    (hp : p = .notCbor ∨ p = .notRequest)
    (hacc : n = (bump d.decCtr).toNat) :
    ∃ st, (st = 11 ∨ st = 12) ∧ ((d.handleRequest (.ct true d.sess n p false)).1).st = .signing [] [] st := by
  simp only [Device.handleRequest, accepts, hacc]
  rcases hp with rfl | rfl
  · exact ⟨11, Or.inl rfl, by simp⟩
  · exact ⟨12, Or.inr rfl, by simp⟩

/-- … which becomes retrievable, with that status, after one `submit_next_signature` call
(whatever bytes are passed): this is what the code does. -/
theorem C13_error_response_after_submit (d : Device) (s : List (Nat × Nat)) (st sig : Nat)
    (h : d.st = .signing [] s st) :
    ∃ c, (d.submit sig).st = .ready (.ct false d.sess c (.response st s) false) := by
  unfold Device.submit
  simp [h]

/-- Every transition of every operation is one of the documented ones or a no-op. -/
theorem C13_refines_diagram (w : World) (op : Op) : Documented w.dev.st (w.step op).dev.st := by
  cases op with
  | newRequest => exact .refl _
  | handleRequest m =>
    cases m with
    | garbage => exact .refl _
    | noData => exact .refl _
    | ct fr s n p t =>
      simp only [World.step, Device.handleRequest]
      split
      · cases p <;> first | exact .refl _ | exact .malformed _ _
      · exact .refl _
  | prepare docs => exact .prepare _ _
  | getNext => exact .refl _
  | submit sig =>
    have key : Documented w.dev.st (w.dev.submit sig).st := by
      unfold Device.submit
      cases hs : w.dev.st with
      | awaiting => simp only [hs]; rw [← hs]; exact .refl _
      | ready m => simp only [hs]; rw [← hs]; exact .refl _
      | signing p s st =>
        simp only [hs]
        cases hp : p.getLast? with
        | none =>
          have : p = [] := by simpa using hp
          subst this
          simp only [List.isEmpty_nil, if_true]
          exact .complete _ _ _ _ rfl
        | some doc =>
          simp only
          by_cases hl : p.dropLast = []
          · simp only [hl, List.isEmpty_nil, if_true]; exact .complete _ _ _ _ hl
          · simp only [List.isEmpty_iff, hl, if_false]; exact .sign _ _ _ _ _ hp hl
    simp only [World.step]
    split <;> exact key
  | responseReady => exact .refl _
  | retrieve =>
    simp only [World.step, Device.retrieve]
    cases hs : w.dev.st with
    | awaiting => simp only [hs]; rw [← hs]; exact .refl _
    | signing p s st => simp only [hs]; rw [← hs]; exact .refl _
    | ready m => simp only [hs]; exact .retrieve _
  | handleResponse m => exact .refl _
  | restoreDevice => exact .refl _
  | restoreReader => exact .refl _

/-- FULL-STRENGTH claim of the property's last sentence, and of "ready exactly when no unsigned
document remains": no reachable state is Signing with nothing left to sign.  It is FALSE of the
code as modelled: -/
def NeverStuck : Prop :=
  ∀ (s : Nat) (ops : List Op), ((World.established s).run ops).dev.st.stuck = false

/-- witness: a correctly encrypted request whose plaintext is not CBOR leaves the device in
Signing with nothing to sign; no payload is offered, it is not ready, nothing can be retrieved. -/
theorem C13_full_fails : ¬ NeverStuck := by
  intro h
  have := h 1 [.handleRequest (.ct true 1 2 .notCbor false)]
  revert this
  decide

/-- same witness, spelled out on the API: payload not offered, not ready, retrieve gives nothing. -/
theorem C13_full_fails_observable :
    let d := ((World.established 1).run [.handleRequest (.ct true 1 2 .notCbor false)]).dev
    d.getNext = none ∧ d.responseReady = false ∧ (d.retrieve).2 = none := by decide

/-- what does hold (partial): the only stuck states are those reached by an error response or a
prepare with zero preparable documents, and one submit call always un-sticks them. -/
theorem C13_ready_when_nothing_unsigned_partial (d : Device) (sig : Nat) (h : d.st.stuck = true) :
    (d.submit sig).responseReady = true := by
  unfold DevState.stuck at h
  cases hs : d.st with
  | awaiting => simp [hs] at h
  | ready m => simp [hs] at h
  | signing p s st =>
    cases p with
    | nil => simp [Device.submit, Device.responseReady, hs]
    | cons a l => simp [hs] at h

/-- non-vacuity: a two-document response signed in the offered order and retrieved once. -/
example :
    let w := (World.established 3).run [.prepare [4, 9]]
    w.dev.getNext = some 9 ∧
    ((w.run [.submit 70]).dev.getNext = some 4) ∧
    ((w.run [.submit 70, .submit 71]).dev.st =
        .ready (.ct false 3 1 (.response 0 [(9, 70), (4, 71)]) false)) ∧
    ((w.run [.submit 70, .submit 71, .retrieve, .retrieve]).dev.st = .awaiting) := by decide

end IsoMdl.Session
