import IsoMdl.Lemmas.Disclosure
import IsoMdl.Spec.Disclosure
/-
C02 — Device discloses only requested, permitted and held elements.
`prepare` has no argument besides the held documents, the request being answered and the
permission: nothing from an earlier request can appear (a type-level fact of the model; on the
real code it is checked by multi-request sessions in the correspondence run).
-/
namespace IsoMdl.Disclosure

/-- `filter_permitted` is an intersection: whatever survives was permitted and was requested by
the (first) document request for that document type. -/
theorem C02_filter_sound (req : Request) (perm : Permitted) (d ns e : Key)
    (h : ∃ nss, (d, nss) ∈ filterPermitted req perm ∧ ∃ es, (ns, es) ∈ nss ∧ e ∈ es) :
    PermittedElem perm d ns e ∧ RequestedAny req d ns e := by
  obtain ⟨nss', hm, es', hns, he⟩ := h
  obtain ⟨nss, rns, hp, hr, rfl⟩ := (mem_filterPermitted req perm d nss').mp hm
  obtain ⟨es, res, hes, hres, rfl⟩ := (mem_filtered_ns rns nss ns es').mp hns
  simp only [List.mem_filter] at he
  refine ⟨⟨nss, hp, es, hes, he.1⟩, ⟨rns, lookup_mem d req rns hr, res, lookup_mem ns rns res hres, ?_⟩⟩
  simpa using he.2

/-- Disclosure is sound: every disclosed item was requested in the request being answered, was
permitted, and is exactly the held item for that document type, namespace and identifier. -/
theorem C02_disclosure_sound (held : Held) (req : Request) (perm : Permitted) (pd : PreparedDoc)
    (hpd : pd ∈ (prepare held req perm).1) (ns : Key) (it : Nat) (hin : In ns it pd.disclosed) :
    ∃ e, RequestedAny req pd.docType ns e ∧ PermittedElem perm pd.docType ns e ∧ Holds held pd.docType ns e it := by
  rw [prepare_eq] at hpd
  obtain ⟨⟨d, nss⟩, hF, hprep⟩ := List.mem_filterMap.mp hpd
  simp only [prepDoc] at hprep
  cases hl : lookup d held with
  | none => simp [hl] at hprep
  | some doc =>
    simp only [hl] at hprep
    split at hprep
    · cases hprep
    · cases hprep
      rcases (collect_dis doc nss ([], []) ns it).mp hin with ⟨xs, hm, _⟩ | ⟨es, hes, e, he, hheld⟩
      · cases hm
      · obtain ⟨hperm, hreq⟩ := C02_filter_sound req perm d ns e ⟨nss, hF, es, hes, he⟩
        refine ⟨e, hreq, hperm, doc, hl, ?_⟩
        unfold heldItem at hheld
        cases hn : lookup ns doc.namespaces with
        | none => simp [hn] at hheld
        | some items => exact ⟨items, rfl, by simpa [hn] using hheld⟩

/-- Reported element errors and document errors also concern only requested and permitted data;
a document type that was not both requested and permitted yields neither a document nor an error. -/
theorem C02_nothing_else (held : Held) (req : Request) (perm : Permitted) :
    (∀ pd ∈ (prepare held req perm).1, (∃ rns, (pd.docType, rns) ∈ req) ∧ (∃ nss, (pd.docType, nss) ∈ perm)) ∧
    (∀ d ∈ (prepare held req perm).2, (∃ rns, (d, rns) ∈ req) ∧ (∃ nss, (d, nss) ∈ perm)) ∧
    (∀ pd ∈ (prepare held req perm).1, ∀ ns e, In ns e pd.errors →
        RequestedAny req pd.docType ns e ∧ PermittedElem perm pd.docType ns e) := by
  rw [prepare_eq]
  refine ⟨?_, ?_, ?_⟩
  · intro pd hpd
    obtain ⟨⟨d, nss'⟩, hF, hprep⟩ := List.mem_filterMap.mp hpd
    obtain ⟨nss, rns, hp, hr, _⟩ := (mem_filterPermitted req perm d nss').mp hF
    have : pd.docType = d := by
      simp only [prepDoc] at hprep
      cases hl : lookup d held with
      | none => simp [hl] at hprep
      | some doc => simp only [hl] at hprep; split at hprep <;> cases hprep; rfl
    rw [this]
    exact ⟨⟨rns, lookup_mem d req rns hr⟩, ⟨nss, hp⟩⟩
  · intro d hd
    obtain ⟨⟨d', nss'⟩, hF, hprep⟩ := List.mem_filterMap.mp hd
    obtain ⟨nss, rns, hp, hr, _⟩ := (mem_filterPermitted req perm d' nss').mp hF
    have : d = d' := by
      simp only [prepErr] at hprep
      cases hl : lookup d' held with
      | none => simp [hl] at hprep; exact hprep.symm
      | some doc => simp only [hl] at hprep; split at hprep <;> cases hprep; rfl
    rw [this]
    exact ⟨⟨rns, lookup_mem d' req rns hr⟩, ⟨nss, hp⟩⟩
  · intro pd hpd ns e hin
    obtain ⟨⟨d, nss⟩, hF, hprep⟩ := List.mem_filterMap.mp hpd
    simp only [prepDoc] at hprep
    cases hl : lookup d held with
    | none => simp [hl] at hprep
    | some doc =>
      simp only [hl] at hprep
      split at hprep
      · cases hprep
      · cases hprep
        rcases (collect_err doc nss ([], []) ns e).mp hin with ⟨xs, hm, _⟩ | ⟨es, hes, he, _⟩
        · cases hm
        · have := C02_filter_sound req perm d ns e ⟨nss, hF, es, hes, he⟩
          exact ⟨this.2, this.1⟩

/-- Completeness: every element that the (first) request for its document type asks for and the
holder permitted is either disclosed as the exact held item, or listed with an error code, or its
document type is listed as a document error (not held / key cannot sign). -/
theorem C02_disclosure_complete (held : Held) (req : Request) (perm : Permitted) (d ns e : Key)
    (nss : List (Key × List Key)) (es : List Key)
    (hperm : (d, nss) ∈ perm) (hes : (ns, es) ∈ nss) (he : e ∈ es)
    (rns : List (Key × List Key)) (res : List Key)
    (hreq : firstRequest req d = some rns) (hres : lookup ns rns = some res) (hre : e ∈ res) :
    d ∈ (prepare held req perm).2 ∨
    ∃ pd ∈ (prepare held req perm).1, pd.docType = d ∧
      (In ns e pd.errors ∨ ∃ it, Holds held d ns e it ∧ In ns it pd.disclosed) := by
  rw [prepare_eq]
  let nss' := nss.filterMap fun (p : Key × List Key) =>
      (lookup p.1 rns).map fun relems => (p.1, p.2.filter fun e => relems.contains e)
  have hF : (d, nss') ∈ filterPermitted req perm :=
    (mem_filterPermitted req perm d nss').mpr ⟨nss, rns, hperm, hreq, rfl⟩
  have hns : (ns, es.filter (fun e => res.contains e)) ∈ nss' :=
    (mem_filtered_ns rns nss ns _).mpr ⟨es, res, hes, hres, rfl⟩
  have he' : e ∈ es.filter (fun e => res.contains e) := by
    simp [List.mem_filter, he, hre]
  cases hl : lookup d held with
  | none =>
    left
    exact List.mem_filterMap.mpr ⟨(d, nss'), hF, by simp [prepErr, hl]⟩
  | some doc =>
    cases hc : doc.canSign with
    | false =>
      left
      exact List.mem_filterMap.mpr ⟨(d, nss'), hF, by simp [prepErr, hl, hc]⟩
    | true =>
      right
      refine ⟨_, List.mem_filterMap.mpr ⟨(d, nss'), hF, by simp [prepDoc, hl, hc]; rfl⟩, rfl, ?_⟩
      cases hh : heldItem doc ns e with
      | none =>
        left
        exact (collect_err doc nss' ([], []) ns e).mpr (Or.inr ⟨_, hns, he', hh⟩)
      | some it =>
        right
        refine ⟨it, ⟨doc, hl, ?_⟩, (collect_dis doc nss' ([], []) ns it).mpr (Or.inr ⟨_, hns, e, he', hh⟩)⟩
        unfold heldItem at hh
        cases hn : lookup ns doc.namespaces with
        | none => simp [hn] at hh
        | some items => exact ⟨items, rfl, by simpa [hn] using hh⟩

/-- A requested, permitted document type the device does not hold is listed as a document error. -/
theorem C02_not_held_is_document_error (held : Held) (req : Request) (perm : Permitted) (d : Key)
    (nss : List (Key × List Key)) (rns : List (Key × List Key))
    (hperm : (d, nss) ∈ perm) (hreq : firstRequest req d = some rns) (hnot : lookup d held = none) :
    d ∈ (prepare held req perm).2 := by
  rw [prepare_eq]
  refine List.mem_filterMap.mpr ⟨(d, _), (mem_filterPermitted req perm d _).mpr ⟨nss, rns, hperm, hreq, rfl⟩, ?_⟩
  simp [prepErr, hnot]

/-- What the code does with a second document request for an already requested document type:
it is ignored (only the first one is consulted).  Stated so that the hypothesis `firstRequest`
above is visibly the code's choice; see DESIGN.md (observation O-C02). -/
theorem C02_second_request_for_same_doctype_ignored :
    prepare [(0, { canSign := true, namespaces := [(0, [(1, 11), (2, 22)])] })]
      [(0, [(0, [1])]), (0, [(0, [2])])] [(0, [(0, [1, 2])])]
    = ([{ docType := 0, disclosed := [(0, [11])], errors := [] }], []) := by decide

/-- non-vacuity: two documents, one not held, an unheld element, a superset permission. -/
example :
    prepare [(0, { canSign := true, namespaces := [(0, [(1, 11), (2, 22)]), (1, [(5, 55)])] })]
      [(0, [(0, [1, 3]), (1, [5])]), (7, [(0, [1])])]
      [(0, [(0, [1, 2, 3]), (2, [9])]), (7, [(0, [1])]), (8, [(0, [1])])]
    = ([{ docType := 0, disclosed := [(0, [11])], errors := [(0, [3])] }], [7]) := by decide

end IsoMdl.Disclosure
