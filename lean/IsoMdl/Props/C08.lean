import IsoMdl.Lemmas.KeyDerivation
/-
C08 — Session keys and BLE ident are derived exactly as ISO 18013-5 specifies.

`Model/KeyDerivation.lean` is the independent implementation the property asks for: SHA-256, HMAC,
HKDF and P-256 are executable Lean definitions, run by the driver on the bytes of the wire of every
generated session and compared with the keys found in both session objects.  The theorems below
state what that implementation computes, in the terms of the standard (Spec/KeyDerivation.lean).
Not proved (validated on every run instead): that the Lean SHA-256 / P-256 arithmetic agree with
FIPS 180-4 / SP 800-186 (standard vectors + thousands of agreements with sha2 / p256), and the
symmetry of ECDH (both roles' keys are compared on every generated session).
-/
namespace IsoMdl.KeyDerivation
open IsoMdl IsoMdl.Cbor IsoMdl.Wire IsoMdl.Sha2 IsoMdl.Spec.KeyDerivation

/-- SKReader / SKDevice are HKDF-SHA-256 with IKM = Z_AB, salt = SHA-256 of the
SessionTranscriptBytes `#6.24(bstr .cbor SessionTranscript)`, info = "SKReader" / "SKDevice",
length 32 — for every shared secret, transcript and role. -/
theorem C08_session_key_formula (z transcriptInner : Bytes) (reader : Bool) :
    sessionKey z transcriptInner reader =
      IsoSessionKey z (enc (.tag 24 (.bytes transcriptInner))) reader := by
  unfold sessionKey IsoSessionKey transcriptBytesEncoded
  rw [hkdf_one_block _ _ _ 32 (by omega) (by omega), labels]

/-- the BLE ident is HKDF-SHA-256 with IKM = EDeviceKeyBytes `#6.24(bstr .cbor EDeviceKey)`,
empty salt, info = "BLEIdent", length 16 -/
theorem C08_ble_ident_formula (eDeviceKeyInner : Bytes) :
    bleIdent eDeviceKeyInner = IsoBleIdent (enc (.tag 24 (.bytes eDeviceKeyInner))) := by
  unfold bleIdent IsoBleIdent
  rw [hkdf_one_block _ _ _ 16 (by omega) (by omega)]
  rfl

/-- the two directions never share a label -/
theorem C08_labels_distinct : skLabel true ≠ skLabel false := by decide

/-- "as exchanged": the SessionTranscript bytes determine the engagement bytes, the EReaderKey
bytes and the handover — any difference in what was exchanged is a different salt input. -/
theorem C08_transcript_injective (e e' k k' : Bytes) (h h' : Cbor)
    (hw : wf (.array [.tag 24 (.bytes e), .tag 24 (.bytes k), h]))
    (hw' : wf (.array [.tag 24 (.bytes e'), .tag 24 (.bytes k'), h']))
    (heq : transcriptOfWire e k h = transcriptOfWire e' k' h') : e = e' ∧ k = k' ∧ h = h' := by
  unfold transcriptOfWire at heq
  have := enc_injective _ _ hw hw' heq
  simpa using this

/-! A peer key that is not a valid P-256 point is refused rather than used. -/

/-- whatever `peerPoint` lets through is a valid P-256 public key: coordinates in the field and
on the curve; in particular never the identity and never an off-curve pair -/
theorem C08_accepted_peer_is_valid_point (k : CoseKey) (x y : Nat) (h : peerPoint k = .ok (x, y)) :
    ValidP256Point x y := by
  have hon : P256.onCurve x y = true := by
    unfold peerPoint at h
    split at h
    · split at h
      · cases h
      · split at h
        · rename_i hc; injection h with h; injection h with h1 h2; subst h1; subst h2; exact hc
        · cases h
    · split at h
      · cases h
      · split at h
        · rename_i yy hd; injection h with h; injection h with h1 h2; subst h1; subst h2
          exact decompress_onCurve _ _ _ hd
        · cases h
    · cases h
    · cases h
  unfold P256.onCurve at hon
  simp only [Bool.and_eq_true, decide_eq_true_eq, beq_iff_eq] at hon
  exact ⟨hon.1.1, hon.1.2, hon.2⟩

/-- a key labelled with any other curve, or of another key type, is refused whatever its
coordinates are (even if they happen to be a P-256 point) -/
theorem C08_wrong_curve_refused (crv : EC2Curve) (hc : crv ≠ .P256) (x : Bytes) (y : EC2Y) :
    peerPoint (.ec2 crv x y) = .refused .invalidCoseKey := by
  cases crv <;> simp [peerPoint] at hc ⊢

theorem C08_okp_refused (crv : OKPCurve) (x : Bytes) : peerPoint (.okp crv x) = .refused .invalidCoseKey := rfl

/-- a refused peer key yields no shared secret, hence no session keys -/
theorem C08_refused_no_keys (e k : Bytes) (h : Cbor) (s : Nat) (key : CoseKey) (r : Refusal)
    (hk : coseKeyOfBytes k = some key) (hr : peerPoint key = .refused r) :
    deviceSession e k h s = .refused r := by
  simp [deviceSession, hk, sharedSecret, hr]

/-- the derivation never panics (see also C15) -/
theorem C08_peerPoint_never_panics (k : CoseKey) : peerPoint k ≠ .panic := by
  unfold peerPoint
  split
  · split
    · simp
    · split <;> simp
  · split
    · simp
    · split <;> simp
  · simp
  · simp

/-! non-vacuity / witnesses -/
-- the all-zero pair ("identity" in some encodings) and an off-curve pair are refused
example : peerPoint (.ec2 .P256 (List.replicate 32 0) (.value (List.replicate 32 0))) = .refused .notOnCurve := by decide
-- the generator is accepted
example : ∃ x y, peerPoint (.ec2 .P256 (beBytes 32 P256.gx) (.value (beBytes 32 P256.gy))) = .ok (x, y) :=
  ⟨P256.gx, P256.gy, by decide⟩

end IsoMdl.KeyDerivation
