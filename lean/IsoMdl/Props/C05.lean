import IsoMdl.Props.C03
import IsoMdl.Lemmas.Cbor
import IsoMdl.Model.ResponseFacts
/-
C05 — Device authentication is bound to the issued key, this session and this document.
-/
namespace IsoMdl.ReaderAuth
open IsoMdl IsoMdl.Cbor IsoMdl.Cose

/-- DeviceAuthenticationBytes = #6.24(bstr .cbor ["DeviceAuthentication", SessionTranscript, docType,
DeviceNameSpacesBytes]); the transcript and the device namespaces enter as the CBOR items
received (tag-24 byte strings are kept verbatim, C10). -/
def deviceAuthenticationBytes (transcript : Cbor) (docType : Bytes) (deviceNameSpaces : Cbor) : Bytes :=
  enc (.tag 24 (.bytes (enc (.array [Cose.tx "DeviceAuthentication", transcript, .text docType, deviceNameSpaces]))))

/-- the bytes handed to the holder's key: Sig_structure with empty AAD over the detached
DeviceAuthenticationBytes and the protected header naming the device key's algorithm -/
def deviceToBeSigned (protectedBytes : Bytes) (transcript : Cbor) (docType : Bytes) (deviceNameSpaces : Cbor) : Bytes :=
  sigStructure protectedBytes [] (deviceAuthenticationBytes transcript docType deviceNameSpaces)

def DeviceSignatureOk (f : Facts) : Prop :=
  f.issuerPayloadAttached = true ∧ f.msoDecodes = true ∧ f.deviceKey = .p256 true ∧
  f.deviceAuthIsSignature = true ∧ (∀ a, f.deviceAlg = .assigned a → a = -7) ∧
  f.devicePayloadAttached = false ∧ f.deviceSigParses = true ∧ f.deviceSigAccepts = true

theorem deviceAuthentication_iff (f : Facts) : deviceAuthentication f = true ↔ DeviceSignatureOk f := by
  unfold deviceAuthentication DeviceSignatureOk verifySign1 sign1Body selectPayload prim algMismatch
  cases hp : f.issuerPayloadAttached <;> cases hm : f.msoDecodes <;> simp
  cases hk : f.deviceKey with
  | compressed => simp
  | okp => simp
  | ecBadLength => simp
  | p256 oc =>
    cases oc <;> cases hs : f.deviceAuthIsSignature <;> simp
    cases ha : f.deviceAlg <;> cases hd : f.devicePayloadAttached <;> cases hsp : f.deviceSigParses <;>
      cases hacc : f.deviceSigAccepts <;> simp
    all_goals
      (rename_i a
       by_cases h : a = -7 <;> simp [h])

/-- Device authentication is reported Valid exactly when the response reaches validation and the
device signature verifies, under the P-256 device key found in the issuer-signed MSO, over the
DeviceAuthentication structure of THIS reader's transcript, the document's docType and its
device namespaces (that is what `deviceSigAccepts` is a fact about). -/
theorem C05_device_valid_iff (f : Facts) :
    (handleResponse f).device = .valid ↔
      f.decrypts = true ∧ f.decodes = true ∧ f.hasDocuments = true ∧ f.hasMdlDoc = true ∧
      f.x5chainPresent = true ∧ f.x5chainParses = true ∧ DeviceSignatureOk f := by
  rw [← deviceAuthentication_iff]
  unfold handleResponse
  by_cases h1 : (f.decrypts && f.decodes) = true
  · by_cases h2 : (f.hasDocuments && f.hasMdlDoc && f.x5chainPresent && f.x5chainParses) = true
    · simp only [h1, h2, Bool.not_true, Bool.false_eq_true, if_false]
      simp only [Bool.and_eq_true] at h1 h2
      cases hd : deviceAuthentication f <;> simp [h1, h2]
    · simp only [h1, h2, Bool.not_true, Bool.false_eq_true, if_false, Bool.not_false, if_true]
      simp only [Bool.and_eq_true, not_and, Bool.not_eq_true] at h2
      constructor
      · intro h; cases h
      · rintro ⟨_, _, a, b, c, d, _⟩
        have := h2 (by simp [a, b, c]); simp_all
  · simp only [h1, Bool.not_false, if_true]
    simp only [Bool.and_eq_true, not_and, Bool.not_eq_true] at h1
    constructor
    · intro h; cases h
    · rintro ⟨a, b, _⟩; simp_all

/-- another key, corrupted signature bytes, a MAC instead of a signature, an attached payload:
not Valid -/
theorem C05_not_valid_cases (f : Facts)
    (h : f.deviceSigAccepts = false ∨ f.deviceSigParses = false ∨ f.deviceAuthIsSignature = false ∨
         f.devicePayloadAttached = true ∨ f.deviceKey ≠ .p256 true ∨ f.msoDecodes = false) :
    (handleResponse f).device ≠ .valid := by
  intro hv
  obtain ⟨_, _, _, _, _, _, _, hm, hk, hs, _, hp, hsp, ha⟩ := (C05_device_valid_iff f).mp hv
  rcases h with h | h | h | h | h | h <;> simp_all

/-- The to-be-signed structure determines the session transcript, the docType and the device
namespaces: a signature made in another session, for another docType or other device namespaces
is a signature over DIFFERENT bytes (so, for an unforgeable primitive, `deviceSigAccepts` is
false for it and device authentication is not Valid by the theorem above). -/
theorem C05_transcript_injective (p : Bytes) (t t' : Cbor) (d d' : Bytes) (n n' : Cbor)
    (hw : wf (.array [Cose.tx "DeviceAuthentication", t, .text d, n]))
    (hw' : wf (.array [Cose.tx "DeviceAuthentication", t', .text d', n']))
    (hl : (enc (.array [Cose.tx "DeviceAuthentication", t, .text d, n])).length < 2^64)
    (hl' : (enc (.array [Cose.tx "DeviceAuthentication", t', .text d', n'])).length < 2^64)
    (h : deviceAuthenticationBytes t d n = deviceAuthenticationBytes t' d' n') : t = t' ∧ d = d' ∧ n = n' := by
  unfold deviceAuthenticationBytes at h
  have h1 := enc_injective _ _ (by simp [wf, hl]) (by simp [wf, hl']) h
  simp only [Cbor.tag.injEq, Cbor.bytes.injEq, true_and] at h1
  have h2 := enc_injective _ _ hw hw' h1
  simpa using h2


section Wire
open IsoMdl.ResponseFacts

/-- THE HOLDER'S KEY IS THE ISSUED ONE, FROM THE WIRE: the key under which the model checks the device
signature is read from `deviceKeyInfo.deviceKey` of the MSO, is an EC2 key (kty 2) with two 32-byte
coordinates, and is a point of P-256. -/
theorem C05_wire_device_key (mso : Option Cbor) (x y : Nat) (h : (deviceKeyOf mso).2 = some (x, y)) :
    ∃ m ki kv xb yb, mso = some m ∧ fget m "deviceKeyInfo" = some ki ∧ fget ki "deviceKey" = some kv ∧
      mget kv (.uint 1) = some (.uint 2) ∧ mget kv (.nint 1) = some (.bytes xb) ∧ mget kv (.nint 2) = some (.bytes yb) ∧
      xb.length = 32 ∧ yb.length = 32 ∧ x = fromBe xb ∧ y = fromBe yb ∧ P256.onCurve x y = true := by
  unfold deviceKeyOf at h
  cases mso with
  | none => simp at h
  | some m =>
    simp only [Option.bind_some] at h
    cases hki : fget m "deviceKeyInfo" with
    | none => simp [hki] at h
    | some ki =>
      simp only [hki, Option.bind_some] at h
      cases hkv : fget ki "deviceKey" with
      | none => simp [hkv] at h
      | some kv =>
        simp only [hkv] at h
        cases kv with
        | map kvs =>
          simp only at h
          split at h
          · rename_i xb yb h1 h2 h3
            split at h
            · simp at h
            · rename_i hlen
              split at h
              · rename_i hon
                simp only [Option.some.injEq, Prod.mk.injEq] at h
                obtain ⟨rfl, rfl⟩ := h
                simp only [bne_iff_ne, ne_eq, Bool.or_eq_true, not_or, Decidable.not_not] at hlen
                exact ⟨m, ki, .map kvs, xb, yb, rfl, hki, hkv, h1, h2, h3, hlen.1, hlen.2, rfl, rfl, hon⟩
              · simp at h
          · simp at h
          · simp at h
          · simp at h
        | _ => simp at h

/-- DEVICE AUTHENTICATION FROM THE WIRE: when the model's `dsa` fact holds for a response, the document
judged is the first mDL document; the key is the one named by the MSO decoded from THAT document's
issuer-signed payload (`C05_wire_device_key` says what it is); and the signature verifies under it
over Sig_structure(protected, DeviceAuthenticationBytes) built from THIS session's transcript, THIS
document's docType and ITS DeviceNameSpacesBytes as received. -/
theorem C05_wire_device_signature_bound (resp transcript : Cbor) (ikey : Option (Nat × Nat))
    (h : (compute resp transcript ikey).dsa = true) :
    ∃ doc x y dprot u1 u2 dsig docType dns,
      firstMdl resp = some doc ∧ (deviceKeyOf (msoOfDoc doc)).2 = some (x, y) ∧
      ((((fget doc "deviceSigned").bind fun s => fget s "deviceAuth").bind fun a => fget a "deviceSignature").bind coseArr)
        = some [.bytes dprot, u1, u2, .bytes dsig] ∧
      fget doc "docType" = some docType ∧ ((fget doc "deviceSigned").bind fun s => fget s "nameSpaces") = some dns ∧
      ecdsaVerify x y (ResponseFacts.sigStructure dprot (deviceAuthBytes transcript docType dns)) dsig = true := by
  unfold compute at h
  cases hd : firstMdl resp with
  | none => simp [hd] at h
  | some doc =>
    simp only [hd] at h
    unfold deviceSigAccepts at h
    dsimp only at h
    split at h
    · rename_i dprot u1 u2 dsig x y docType dns h1 h2 h3 h4
      exact ⟨doc, x, y, dprot, u1, u2, dsig, docType, dns, rfl, h2, h1, h3, h4, h⟩
    · simp at h

/-- the bytes of the wire model are the DeviceAuthenticationBytes of the definitions above, so
`C05_transcript_injective` applies to them: another transcript, docType or namespaces = other bytes -/
theorem C05_wire_bytes_eq (t : Cbor) (d : Bytes) (n : Cbor) :
    deviceAuthBytes t (.text d) n = deviceAuthenticationBytes t d n := rfl

/-- what any signature the model's verifier accepts looks like: exactly 64 bytes r ‖ s with 0 < r, s < n, under
a key that is a point of the curve - truncated, extended, zero or out-of-range signatures and
off-curve keys are refused whatever the message (the malformed-signature rows of the C03 / C05 / C11
correspondence are instances) -/
theorem C05_wire_accepted_signature_shape (x y : Nat) (msg sig : Bytes) (h : ecdsaVerify x y msg sig = true) :
    sig.length = 64 ∧ 0 < fromBe (sig.take 32) ∧ fromBe (sig.take 32) < P256.n ∧
    0 < fromBe (sig.drop 32) ∧ fromBe (sig.drop 32) < P256.n ∧ P256.onCurve x y = true := by
  unfold ecdsaVerify at h
  split at h
  · simp at h
  · rename_i hlen
    dsimp only at h
    split at h
    · simp at h
    · rename_i hr
      simp only [bne_iff_ne, ne_eq, Decidable.not_not] at hlen
      simp only [Bool.or_eq_true, beq_iff_eq, decide_eq_true_eq, Bool.not_eq_true', not_or, Nat.not_le, Bool.not_eq_false] at hr
      obtain ⟨⟨⟨⟨h1, h2⟩, h3⟩, h4⟩, h5⟩ := hr
      exact ⟨hlen, by omega, h2, by omega, h4, h5⟩

end Wire

/-- non-vacuity -/
example : (handleResponse { honest with deviceSigAccepts := false }).device = .invalid ∧
    (handleResponse { honest with deviceSigAccepts := false }).errors = [.deviceAuth] := by decide
example : (handleResponse { honest with deviceAuthIsSignature := false }).device = .invalid := by decide

end IsoMdl.ReaderAuth
