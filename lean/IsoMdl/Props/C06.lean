import IsoMdl.Lemmas.Session
/-
C06 — Session channel rejects tampered, replayed, reordered and reflected messages.
Ciphertexts are symbolic (`Msg.ct fromReader sess n payload tampered`): a ciphertext decrypts
iff it was made by the peer (direction), under this session's keys, with the IV the receiver
computes (counter `n` = receiver's pre-incremented counter) and was not modified — the AEAD
integrity assumption, stated once in `accepts`.  What is proved is the library's own part: which
IV the receiver computes at which point, and that a rejection is inert.
-/
namespace IsoMdl.Session

/-- Device: a message is accepted iff it is the peer's next message of this session, unmodified. -/
theorem C06_device_accept_iff (d : Device) (fr : Bool) (s n : Nat) (p : Payload) (t : Bool) :
    (d.handleRequest (.ct fr s n p t)).2 = .accepted p ↔
      (fr = true ∧ s = d.sess ∧ n = (bump d.decCtr).toNat ∧ t = false) := by
  rw [← accepts_iff]
  cases h : accepts true d.sess (bump d.decCtr) fr s n t
  · rw [handleRequest_rej d fr s n p t h]; simp
  · rw [handleRequest_acc d fr s n p t h]; simp

/-- Reader: same, for the device-to-reader direction. -/
theorem C06_reader_accept_iff (r : Reader) (fr : Bool) (s n : Nat) (p : Payload) (t : Bool) :
    (r.handleResponse (.ct fr s n p t)).2 = .accepted p ↔
      (fr = false ∧ s = r.sess ∧ n = (bump r.decCtr).toNat ∧ t = false) := by
  rw [← accepts_iff]
  cases h : accepts false r.sess (bump r.decCtr) fr s n t
  · rw [handleResponse_rej r fr s n p t h]; simp
  · rw [handleResponse_acc r fr s n p t h]; simp

/-- Anything else that is a ciphertext is reported as a decryption error … -/
theorem C06_device_reject (d : Device) (fr : Bool) (s n : Nat) (p : Payload) (t : Bool)
    (h : ¬ (fr = true ∧ s = d.sess ∧ n = (bump d.decCtr).toNat ∧ t = false)) :
    (d.handleRequest (.ct fr s n p t)).2 = .decryptionError := by
  rw [← accepts_iff] at h
  rw [handleRequest_rej d fr s n p t (by simpa using h)]

theorem C06_reader_reject (r : Reader) (fr : Bool) (s n : Nat) (p : Payload) (t : Bool)
    (h : ¬ (fr = false ∧ s = r.sess ∧ n = (bump r.decCtr).toNat ∧ t = false)) :
    (r.handleResponse (.ct fr s n p t)).2 = .decryptionError := by
  rw [← accepts_iff] at h
  rw [handleResponse_rej r fr s n p t (by simpa using h)]

/-- … and a rejection is inert: the outcome carries no payload, the device state (in particular:
not Signing, nothing prepared), its encryption counter and session are untouched; only the
receive counter moved. -/
theorem C06_device_reject_inert (d : Device) (m : Msg)
    (h : (d.handleRequest m).2 = .decryptionError ∨ (d.handleRequest m).2 = .parsingError) :
    (d.handleRequest m).1.st = d.st ∧ (d.handleRequest m).1.encCtr = d.encCtr ∧
    (d.handleRequest m).1.sess = d.sess := by
  cases m with
  | garbage => exact ⟨rfl, rfl, rfl⟩
  | noData => exact ⟨rfl, rfl, rfl⟩
  | ct fr s n p t =>
    cases hacc : accepts true d.sess (bump d.decCtr) fr s n t
    · rw [handleRequest_rej d fr s n p t hacc]; exact ⟨rfl, rfl, rfl⟩
    · rw [handleRequest_acc d fr s n p t hacc] at h; simp at h

theorem C06_reader_reject_inert (r : Reader) (m : Msg) :
    (r.handleResponse m).1.encCtr = r.encCtr ∧ (r.handleResponse m).1.sess = r.sess := by
  cases m with
  | garbage => exact ⟨rfl, rfl⟩
  | noData => exact ⟨rfl, rfl⟩
  | ct fr s n p t =>
    cases hacc : accepts false r.sess (bump r.decCtr) fr s n t
    · rw [handleResponse_rej r fr s n p t hacc]; exact ⟨rfl, rfl⟩
    · rw [handleResponse_acc r fr s n p t hacc]; exact ⟨rfl, rfl⟩

/-- Corollaries spelled as in the statement (device side; `hlt`: counter below overflow). -/
theorem C06_tampered_rejected (d : Device) (fr : Bool) (s n : Nat) (p : Payload) :
    (d.handleRequest (.ct fr s n p true)).2 = .decryptionError :=
  C06_device_reject d fr s n p true (by simp)

theorem C06_other_session_rejected (d : Device) (fr : Bool) (s n : Nat) (p : Payload) (t : Bool)
    (h : s ≠ d.sess) : (d.handleRequest (.ct fr s n p t)).2 = .decryptionError :=
  C06_device_reject d fr s n p t (by intro ⟨_, h2, _⟩; exact h h2)

theorem C06_reflected_rejected (d : Device) (s n : Nat) (p : Payload) (t : Bool) :
    (d.handleRequest (.ct false s n p t)).2 = .decryptionError :=
  C06_device_reject d false s n p t (by simp)

/-- replay / reordering: any message whose counter is not the next one is rejected; in
particular every message the device has already attempted (`n ≤ decCtr`). -/
theorem C06_out_of_sequence_rejected (d : Device) (fr : Bool) (s n : Nat) (p : Payload) (t : Bool)
    (hlt : d.decCtr.toNat + 1 < 2^32) (h : n ≠ d.decCtr.toNat + 1) :
    (d.handleRequest (.ct fr s n p t)).2 = .decryptionError :=
  C06_device_reject d fr s n p t (by
    intro ⟨_, _, h3, _⟩; rw [bump_toNat _ hlt] at h3; exact h h3)

/-- the receive counter never goes back: it moves by exactly one per decrypt attempt. -/
theorem C06_decCtr_step (d : Device) (m : Msg) :
    (d.handleRequest m).1.decCtr = d.decCtr ∨ (d.handleRequest m).1.decCtr = bump d.decCtr := by
  cases m with
  | garbage => left; rfl
  | noData => left; rfl
  | ct fr s n p t =>
    right
    cases hacc : accepts true d.sess (bump d.decCtr) fr s n t
    · rw [handleRequest_rej d fr s n p t hacc]
    · simp only [Device.handleRequest, hacc, if_true]
      cases p <;> rfl

/-- non-vacuity: an honest exchange is accepted; the same ciphertext replayed, a modified one,
one from another session and a reflected one are all rejected and leave the state alone. -/
example :
    let w := World.established 5
    let (r1, m) := w.rdr.newRequest
    let (d1, o1) := w.dev.handleRequest m
    o1 = .accepted .request ∧
    (d1.handleRequest m).2 = .decryptionError ∧
    (w.dev.handleRequest (.ct true 5 2 .request true)).2 = .decryptionError ∧
    (w.dev.handleRequest (.ct true 6 2 .request false)).2 = .decryptionError ∧
    (w.dev.handleRequest (.ct false 5 2 .request false)).2 = .decryptionError ∧
    r1.encCtr = 2 := by decide

end IsoMdl.Session
