import IsoMdl.Lemmas.Session
/-
C06 — Session channel rejects tampered, replayed, reordered and reflected messages.
Ciphertexts are symbolic (`Msg.ct fromReader sess n payload tampered`): a ciphertext decrypts
iff it was made by the peer (direction), under this session's keys, with the IV the receiver
computes (counter `n` = receiver's pre-incremented counter) and was not modified — the AEAD
integrity assumption, stated once in `accepts`.  What is proved is the library's own part: which
IV the receiver computes at which point, and that a rejection is inert.
-/
namespace IsoMdl.Session

/-- Device: a message is accepted iff it is the peer's next message of this session, unmodified
(and the receive counter is not used up: at `u32::MAX` the code refuses instead of wrapping, so
"next" is plain successor on naturals — no message is ever accepted under a wrapped counter). -/
theorem C06_device_accept_iff (d : Device) (fr : Bool) (s n : Nat) (p : Payload) (t : Bool) :
    (d.handleRequest (.ct fr s n p t)).2 = .accepted p ↔
      (fr = true ∧ s = d.sess ∧ n = d.decCtr.toNat + 1 ∧ n < 2^32 ∧ t = false) := by
  cases hm : atMax d.decCtr
  · have hlt := not_atMax _ hm
    have hb := bump_toNat _ hlt
    cases h : accepts true d.sess (bump d.decCtr) fr s n t
    · rw [handleRequest_rej d fr s n p t hm h]
      have := mt (accepts_iff true d.sess (bump d.decCtr) fr s n t).mpr (by simp [h])
      rw [hb] at this
      simp only [reduceCtorEq, false_iff]
      intro ⟨a, b, c, _, e⟩; exact this ⟨a, b, c, e⟩
    · rw [handleRequest_acc d fr s n p t hm h]
      have := (accepts_iff true d.sess (bump d.decCtr) fr s n t).mp h
      rw [hb] at this
      simp only [true_iff]
      obtain ⟨a, b, c, e⟩ := this
      exact ⟨a, b, c, by omega, e⟩
  · rw [handleRequest_exhausted d fr s n p t hm]
    have := (atMax_iff _).mp hm
    simp only [reduceCtorEq, false_iff]
    intro ⟨_, _, c, l, _⟩; omega

/-- Reader: same, for the device-to-reader direction. -/
theorem C06_reader_accept_iff (r : Reader) (fr : Bool) (s n : Nat) (p : Payload) (t : Bool) :
    (r.handleResponse (.ct fr s n p t)).2 = .accepted p ↔
      (fr = false ∧ s = r.sess ∧ n = r.decCtr.toNat + 1 ∧ n < 2^32 ∧ t = false) := by
  cases hm : atMax r.decCtr
  · have hlt := not_atMax _ hm
    have hb := bump_toNat _ hlt
    cases h : accepts false r.sess (bump r.decCtr) fr s n t
    · rw [handleResponse_rej r fr s n p t hm h]
      have := mt (accepts_iff false r.sess (bump r.decCtr) fr s n t).mpr (by simp [h])
      rw [hb] at this
      simp only [reduceCtorEq, false_iff]
      intro ⟨a, b, c, _, e⟩; exact this ⟨a, b, c, e⟩
    · rw [handleResponse_acc r fr s n p t hm h]
      have := (accepts_iff false r.sess (bump r.decCtr) fr s n t).mp h
      rw [hb] at this
      simp only [true_iff]
      obtain ⟨a, b, c, e⟩ := this
      exact ⟨a, b, c, by omega, e⟩
  · rw [handleResponse_exhausted r fr s n p t hm]
    have := (atMax_iff _).mp hm
    simp only [reduceCtorEq, false_iff]
    intro ⟨_, _, c, l, _⟩; omega

/-- every ciphertext has exactly two outcomes: accepted with its own payload, or decryption error -/
theorem C06_device_outcomes (d : Device) (fr : Bool) (s n : Nat) (p : Payload) (t : Bool) :
    (d.handleRequest (.ct fr s n p t)).2 = .accepted p ∨
    (d.handleRequest (.ct fr s n p t)).2 = .decryptionError := by
  cases hm : atMax d.decCtr
  · cases h : accepts true d.sess (bump d.decCtr) fr s n t
    · right; rw [handleRequest_rej d fr s n p t hm h]
    · left; exact handleRequest_acc d fr s n p t hm h
  · right; rw [handleRequest_exhausted d fr s n p t hm]

theorem C06_reader_outcomes (r : Reader) (fr : Bool) (s n : Nat) (p : Payload) (t : Bool) :
    (r.handleResponse (.ct fr s n p t)).2 = .accepted p ∨
    (r.handleResponse (.ct fr s n p t)).2 = .decryptionError := by
  cases hm : atMax r.decCtr
  · cases h : accepts false r.sess (bump r.decCtr) fr s n t
    · right; rw [handleResponse_rej r fr s n p t hm h]
    · left; rw [handleResponse_acc r fr s n p t hm h]
  · right; rw [handleResponse_exhausted r fr s n p t hm]

/-- Anything else that is a ciphertext is reported as a decryption error … -/
theorem C06_device_reject (d : Device) (fr : Bool) (s n : Nat) (p : Payload) (t : Bool)
    (h : ¬ (fr = true ∧ s = d.sess ∧ n = d.decCtr.toNat + 1 ∧ n < 2^32 ∧ t = false)) :
    (d.handleRequest (.ct fr s n p t)).2 = .decryptionError := by
  rcases C06_device_outcomes d fr s n p t with ha | hr
  · exact absurd ((C06_device_accept_iff d fr s n p t).mp ha) h
  · exact hr

theorem C06_reader_reject (r : Reader) (fr : Bool) (s n : Nat) (p : Payload) (t : Bool)
    (h : ¬ (fr = false ∧ s = r.sess ∧ n = r.decCtr.toNat + 1 ∧ n < 2^32 ∧ t = false)) :
    (r.handleResponse (.ct fr s n p t)).2 = .decryptionError := by
  rcases C06_reader_outcomes r fr s n p t with ha | hr
  · exact absurd ((C06_reader_accept_iff r fr s n p t).mp ha) h
  · exact hr

/-- … and a rejection is inert: the outcome carries no payload, the device state (in particular:
not Signing, nothing prepared), its encryption counter and session are untouched; only the
receive counter moved. -/
theorem C06_device_reject_inert (d : Device) (m : Msg)
    (h : (d.handleRequest m).2 = .decryptionError ∨ (d.handleRequest m).2 = .parsingError) :
    (d.handleRequest m).1.st = d.st ∧ (d.handleRequest m).1.encCtr = d.encCtr ∧
    (d.handleRequest m).1.sess = d.sess := by
  cases m with
  | garbage => exact ⟨rfl, rfl, rfl⟩
  | noData => exact ⟨rfl, rfl, rfl⟩
  | ct fr s n p t =>
    cases hm : atMax d.decCtr
    · cases hacc : accepts true d.sess (bump d.decCtr) fr s n t
      · rw [handleRequest_rej d fr s n p t hm hacc]; exact ⟨rfl, rfl, rfl⟩
      · rw [handleRequest_acc d fr s n p t hm hacc] at h; simp at h
    · rw [handleRequest_exhausted d fr s n p t hm]; exact ⟨rfl, rfl, rfl⟩

theorem C06_reader_reject_inert (r : Reader) (m : Msg) :
    (r.handleResponse m).1.encCtr = r.encCtr ∧ (r.handleResponse m).1.sess = r.sess := by
  cases m with
  | garbage => exact ⟨rfl, rfl⟩
  | noData => exact ⟨rfl, rfl⟩
  | ct fr s n p t =>
    cases hm : atMax r.decCtr
    · cases hacc : accepts false r.sess (bump r.decCtr) fr s n t
      · rw [handleResponse_rej r fr s n p t hm hacc]; exact ⟨rfl, rfl⟩
      · rw [handleResponse_acc r fr s n p t hm hacc]; exact ⟨rfl, rfl⟩
    · rw [handleResponse_exhausted r fr s n p t hm]; exact ⟨rfl, rfl⟩

/-- Corollaries spelled as in the statement (device side). -/
theorem C06_tampered_rejected (d : Device) (fr : Bool) (s n : Nat) (p : Payload) :
    (d.handleRequest (.ct fr s n p true)).2 = .decryptionError :=
  C06_device_reject d fr s n p true (by simp)

theorem C06_other_session_rejected (d : Device) (fr : Bool) (s n : Nat) (p : Payload) (t : Bool)
    (h : s ≠ d.sess) : (d.handleRequest (.ct fr s n p t)).2 = .decryptionError :=
  C06_device_reject d fr s n p t (by intro ⟨_, h2, _⟩; exact h h2)

theorem C06_reflected_rejected (d : Device) (s n : Nat) (p : Payload) (t : Bool) :
    (d.handleRequest (.ct false s n p t)).2 = .decryptionError :=
  C06_device_reject d false s n p t (by simp)

/-- replay / reordering: any message whose counter is not the next one is rejected; in
particular every message the device has already attempted (`n ≤ decCtr`). -/
theorem C06_out_of_sequence_rejected (d : Device) (fr : Bool) (s n : Nat) (p : Payload) (t : Bool)
    (h : n ≠ d.decCtr.toNat + 1) :
    (d.handleRequest (.ct fr s n p t)).2 = .decryptionError :=
  C06_device_reject d fr s n p t (by intro ⟨_, _, h3, _⟩; exact h h3)

/-- once the receive counter is used up nothing is accepted any more (no wrap-around to IV 0) -/
theorem C06_exhausted_rejects_all (d : Device) (fr : Bool) (s n : Nat) (p : Payload) (t : Bool)
    (hm : d.decCtr.toNat = 2^32 - 1) :
    (d.handleRequest (.ct fr s n p t)).2 = .decryptionError :=
  C06_device_reject d fr s n p t (by intro ⟨_, _, h3, h4, _⟩; omega)

/-- the receive counter never goes back: it moves by exactly one per decrypt attempt. -/
theorem C06_decCtr_step (d : Device) (m : Msg) :
    (d.handleRequest m).1.decCtr = d.decCtr ∨
    (d.handleRequest m).1.decCtr.toNat = d.decCtr.toNat + 1 := by
  cases m with
  | garbage => left; rfl
  | noData => left; rfl
  | ct fr s n p t =>
    cases hm : atMax d.decCtr
    · right
      rw [← bump_toNat _ (not_atMax _ hm)]
      cases hacc : accepts true d.sess (bump d.decCtr) fr s n t
      · rw [handleRequest_rej d fr s n p t hm hacc]
      · simp only [Device.handleRequest, hm, hacc, if_true, Bool.false_eq_true, if_false]
        cases p <;> simp
    · left; rw [handleRequest_exhausted d fr s n p t hm]

/-! ### History level: no ciphertext is ever accepted twice

Over ANY history of public API calls of both roles (requests handled, responses prepared, signed and
retrieved, failed decryptions, store/restore cycles, in any order and of any length) the counters of
the ciphertexts the device accepted form a strictly increasing sequence.  A ciphertext carries one
counter (it is bound into the IV), so a ciphertext that was accepted once is never accepted again,
and two accepted ciphertexts were accepted in the order of their counters (no reordering). -/

/-- the counter of the ciphertext, if `handle_request` accepts it in state `d` -/
def acceptedCtr (d : Device) : Msg → Option Nat
  | .ct fr s n p t => match (d.handleRequest (.ct fr s n p t)).2 with
    | .accepted _ => some n
    | _ => none
  | _ => none

/-- counters of all ciphertexts the device accepts along a history, in order of acceptance -/
def devAccepted (w : World) : List Op → List Nat
  | [] => []
  | .handleRequest m :: ops => (acceptedCtr w.dev m).toList ++ devAccepted (w.step (.handleRequest m)) ops
  | op :: ops => devAccepted (w.step op) ops

theorem acceptedCtr_some (d : Device) (m : Msg) (n : Nat) (h : acceptedCtr d m = some n) :
    n = d.decCtr.toNat + 1 ∧ (d.handleRequest m).1.decCtr.toNat = n := by
  cases m with
  | garbage => simp [acceptedCtr] at h
  | noData => simp [acceptedCtr] at h
  | ct fr s k p t =>
    cases hm : atMax d.decCtr
    · cases hacc : accepts true d.sess (bump d.decCtr) fr s k t
      · simp [acceptedCtr, handleRequest_rej d fr s k p t hm hacc] at h
      · have hb := bump_toNat _ (not_atMax _ hm)
        have hk := ((accepts_iff true d.sess (bump d.decCtr) fr s k t).mp hacc).2.2.1
        simp only [acceptedCtr, handleRequest_acc d fr s k p t hm hacc, Option.some.injEq] at h
        subst h
        refine ⟨by omega, ?_⟩
        simp only [Device.handleRequest, hm, hacc, if_true, Bool.false_eq_true, if_false]
        cases p <;> simp [hk]
    · simp [acceptedCtr, handleRequest_exhausted d fr s k p t hm] at h

theorem withDev_dev (w : World) (d : Device) : (w.withDev d).dev = d := by
  unfold World.withDev; split <;> rfl

theorem step_decCtr_mono (w : World) (op : Op) : w.dev.decCtr.toNat ≤ (w.step op).dev.decCtr.toNat := by
  cases op with
  | newRequest => simp only [World.step]; split <;> exact Nat.le_refl _
  | handleRequest m =>
    simp only [World.step, withDev_dev]
    rcases C06_decCtr_step w.dev m with h | h
    · rw [h]; exact Nat.le_refl _
    · omega
  | prepare docs => simp [World.step, withDev_dev, Device.prepare]
  | getNext => exact Nat.le_refl _
  | submit sig =>
    simp only [World.step, withDev_dev, Device.submit]
    split <;> simp
  | responseReady => exact Nat.le_refl _
  | retrieve => simp only [World.step, Device.retrieve]; split <;> exact Nat.le_refl _
  | handleResponse m => exact Nat.le_refl _
  | restoreDevice => rw [step_restoreDevice]; exact Nat.le_refl _
  | restoreReader => rw [step_restoreReader]; exact Nat.le_refl _

theorem devAccepted_gt (w : World) (ops : List Op) : ∀ n ∈ devAccepted w ops, w.dev.decCtr.toNat < n := by
  induction ops generalizing w with
  | nil => intro n h; cases h
  | cons op ops ih =>
    intro n hn
    have hmono := step_decCtr_mono w op
    cases op with
    | handleRequest m =>
      simp only [devAccepted, List.mem_append, Option.mem_toList] at hn
      rcases hn with h | h
      · have := (acceptedCtr_some w.dev m n h).1; omega
      · have := ih _ n h; omega
    | _ => (simp only [devAccepted] at hn; have := ih _ n hn; omega)

theorem C06_accepted_counters_strictly_increase (w : World) (ops : List Op) :
    (devAccepted w ops).Pairwise (· < ·) := by
  induction ops generalizing w with
  | nil => exact List.Pairwise.nil
  | cons op ops ih =>
    cases op with
    | handleRequest m =>
      simp only [devAccepted]
      cases h : acceptedCtr w.dev m with
      | none => simpa using ih _
      | some n =>
        simp only [Option.toList_some, List.singleton_append, List.pairwise_cons]
        refine ⟨fun k hk => ?_, ih _⟩
        have h1 := devAccepted_gt _ ops k hk
        have h2 := (acceptedCtr_some w.dev m n h).2
        simp only [World.step, withDev_dev] at h1
        omega
    | _ => (simp only [devAccepted]; exact ih _)

/-- consequently: no counter — hence no ciphertext — is accepted twice in any history -/
theorem C06_no_ciphertext_accepted_twice (w : World) (ops : List Op) : (devAccepted w ops).Nodup :=
  (C06_accepted_counters_strictly_increase w ops).imp (fun h => Nat.ne_of_lt h)

/-! the same for the reader and the device-to-reader direction -/

def rdrAcceptedCtr (r : Reader) : Msg → Option Nat
  | .ct fr s n p t => match (r.handleResponse (.ct fr s n p t)).2 with
    | .accepted _ => some n
    | _ => none
  | _ => none

def rdrAccepted (w : World) : List Op → List Nat
  | [] => []
  | .handleResponse m :: ops => (rdrAcceptedCtr w.rdr m).toList ++ rdrAccepted (w.step (.handleResponse m)) ops
  | op :: ops => rdrAccepted (w.step op) ops

theorem rdrAcceptedCtr_some (r : Reader) (m : Msg) (n : Nat) (h : rdrAcceptedCtr r m = some n) :
    n = r.decCtr.toNat + 1 ∧ (r.handleResponse m).1.decCtr.toNat = n := by
  cases m with
  | garbage => simp [rdrAcceptedCtr] at h
  | noData => simp [rdrAcceptedCtr] at h
  | ct fr s k p t =>
    cases hm : atMax r.decCtr
    · cases hacc : accepts false r.sess (bump r.decCtr) fr s k t
      · simp [rdrAcceptedCtr, handleResponse_rej r fr s k p t hm hacc] at h
      · have hb := bump_toNat _ (not_atMax _ hm)
        have hk := ((accepts_iff false r.sess (bump r.decCtr) fr s k t).mp hacc).2.2.1
        simp only [rdrAcceptedCtr, handleResponse_acc r fr s k p t hm hacc, Option.some.injEq] at h
        subst h
        refine ⟨by omega, ?_⟩
        simp only [Reader.handleResponse, hm, Bool.false_eq_true, if_false, hk]
        split <;> rfl
    · simp [rdrAcceptedCtr, handleResponse_exhausted r fr s k p t hm] at h

theorem handleResponse_decCtr_mono (r : Reader) (m : Msg) :
    r.decCtr.toNat ≤ (r.handleResponse m).1.decCtr.toNat := by
  cases m with
  | garbage => exact Nat.le_refl _
  | noData => exact Nat.le_refl _
  | ct fr s k p t =>
    cases hm : atMax r.decCtr
    · have hb := bump_toNat _ (not_atMax _ hm)
      cases hacc : accepts false r.sess (bump r.decCtr) fr s k t <;>
        simp [Reader.handleResponse, hm, hacc, hb]
    · rw [handleResponse_exhausted r fr s k p t hm]; exact Nat.le_refl _

theorem step_rdr_decCtr_mono (w : World) (op : Op) : w.rdr.decCtr.toNat ≤ (w.step op).rdr.decCtr.toNat := by
  cases op with
  | newRequest =>
    simp only [World.step, Reader.newRequest]
    split <;> rename_i h <;> split at h <;> simp at h <;> (try obtain ⟨h1, _⟩ := h; try subst h1) <;> simp
  | handleRequest m => simp only [World.step, World.withDev]; split <;> exact Nat.le_refl _
  | prepare docs => simp only [World.step, World.withDev]; split <;> exact Nat.le_refl _
  | getNext => exact Nat.le_refl _
  | submit sig => simp only [World.step, World.withDev]; split <;> exact Nat.le_refl _
  | responseReady => exact Nat.le_refl _
  | retrieve => exact Nat.le_refl _
  | handleResponse m => exact handleResponse_decCtr_mono w.rdr m
  | restoreDevice => rw [step_restoreDevice]; exact Nat.le_refl _
  | restoreReader => rw [step_restoreReader]; exact Nat.le_refl _

theorem rdrAccepted_gt (w : World) (ops : List Op) : ∀ n ∈ rdrAccepted w ops, w.rdr.decCtr.toNat < n := by
  induction ops generalizing w with
  | nil => intro n h; cases h
  | cons op ops ih =>
    intro n hn
    have hmono := step_rdr_decCtr_mono w op
    cases op with
    | handleResponse m =>
      simp only [rdrAccepted, List.mem_append, Option.mem_toList] at hn
      rcases hn with h | h
      · have := (rdrAcceptedCtr_some w.rdr m n h).1; omega
      · have := ih _ n h; omega
    | _ => (simp only [rdrAccepted] at hn; have := ih _ n hn; omega)

theorem C06_reader_accepted_counters_strictly_increase (w : World) (ops : List Op) :
    (rdrAccepted w ops).Pairwise (· < ·) := by
  induction ops generalizing w with
  | nil => exact List.Pairwise.nil
  | cons op ops ih =>
    cases op with
    | handleResponse m =>
      simp only [rdrAccepted]
      cases h : rdrAcceptedCtr w.rdr m with
      | none => simpa using ih _
      | some n =>
        simp only [Option.toList_some, List.singleton_append, List.pairwise_cons]
        refine ⟨fun k hk => ?_, ih _⟩
        have h1 := rdrAccepted_gt _ ops k hk
        have h2 := (rdrAcceptedCtr_some w.rdr m n h).2
        simp only [World.step] at h1
        omega
    | _ => (simp only [rdrAccepted]; exact ih _)

theorem C06_reader_no_ciphertext_accepted_twice (w : World) (ops : List Op) : (rdrAccepted w ops).Nodup :=
  (C06_reader_accepted_counters_strictly_increase w ops).imp (fun h => Nat.ne_of_lt h)

/-- non-vacuity: an honest exchange is accepted; the same ciphertext replayed, a modified one,
one from another session and a reflected one are all rejected and leave the state alone. -/
example :
    let w := World.established 5
    let (r1, m) := (w.rdr.newRequest.1, w.rdr.newRequest.2.getD .garbage)
    let (d1, o1) := w.dev.handleRequest m
    o1 = .accepted .request ∧
    (d1.handleRequest m).2 = .decryptionError ∧
    (w.dev.handleRequest (.ct true 5 2 .request true)).2 = .decryptionError ∧
    (w.dev.handleRequest (.ct true 6 2 .request false)).2 = .decryptionError ∧
    (w.dev.handleRequest (.ct false 5 2 .request false)).2 = .decryptionError ∧
    r1.encCtr = 2 := by decide

/-- non-vacuity of the history theorem: two requests accepted, a replay of each and a reordered
third one in between are not; restores and a full response cycle in between -/
example :
    devAccepted (World.established 5)
      [.handleRequest (.ct true 5 2 .request false), .handleRequest (.ct true 5 2 .request false),
       .prepare [0], .restoreDevice, .submit 3, .retrieve, .handleRequest (.ct true 5 4 .request false),
       .handleRequest (.ct true 5 4 .request false), .handleRequest (.ct true 5 2 .request false)] = [2, 4] := by
  decide

end IsoMdl.Session
