import IsoMdl.Lemmas.Issuance
import IsoMdl.Lemmas.Cbor
import IsoMdl.Spec.Issuance
import IsoMdl.Lemmas.CborEq
import IsoMdl.Model.ResponseFacts
/-
C09 — Issued mdocs are internally consistent and verifiable (issuance model part).
`Generated.digestIdNew` is re-extracted from src/definitions/mso.rs on every run; `toItems`,
`genId`, `genDecoys`, `digestOfItemBytes` are the hand model of src/issuance/mdoc.rs over an
explicit randomness tape.  The issuerAuth / MSO shape and the digests of real issuances are
checked by `namespaceOk` (Spec/Issuance.lean) on the real output.
-/
namespace IsoMdl.Issuance
open IsoMdl IsoMdl.Cbor IsoMdl.Generated

/-- All 2^32 inputs of the digest-id constructor: it never overflows (no panic in any build
profile) and the result lies in 0 .. 2^31-1.  Full strength; holds since the `fix:` commit that
replaced `-i` by a saturating absolute value (before it, `i32::MIN` was a counterexample). -/
theorem C09_digest_id_range (i : Int32) :
    digestIdNew_overflows i = false ∧ 0 ≤ (digestIdNew i).toInt ∧ (digestIdNew i).toInt ≤ 2147483647 := by
  refine ⟨rfl, ?_⟩
  have hlo := Int32.le_toInt i
  have hhi := Int32.toInt_lt i
  unfold digestIdNew
  by_cases hmin : i = Int32.minValue
  · subst hmin; decide
  · have hne' : i.toInt ≠ -2147483648 := by
      intro hc; apply hmin; apply Int32.toInt_inj.mp; simpa using hc
    simp only [beq_iff_eq, hmin, if_false]
    by_cases hneg : i < 0
    · simp only [hneg, decide_true, if_true]
      have hlt : i.toInt < 0 := by
        have := Int32.lt_iff_toInt_lt.mp hneg; simpa using this
      have hlo' : -2147483648 ≤ i.toInt := by simpa using hlo
      rw [Int32.toInt_neg]
      have : (-i.toInt).bmod (2^32) = -i.toInt := by
        apply Int.bmod_eq_of_le <;> omega
      omega
    · simp only [hneg, decide_false, Bool.false_eq_true, if_false]
      have : ¬ i.toInt < 0 := by
        intro hc; apply hneg; apply Int32.lt_iff_toInt_lt.mpr; simpa using hc
      have hhi' : i.toInt < 2147483648 := by simpa using hhi
      omega

/-- Fresh ids: what `generate_digest_id` returns was not used before (for any tape). -/
theorem C09_generated_id_fresh (used tape : List Int32) (id : Int32) (t : List Int32)
    (h : genId used tape = some (id, t)) : id ∉ used := (genId_spec used tape id t h).1

/-- Every supplied element appears exactly once, in map order, with the supplied identifier and
value and its own salt; digest ids are pairwise distinct within the namespace. -/
theorem C09_items_exact_and_ids_unique (elems : List (Bytes × Cbor)) (tape : List Int32)
    (salts : List Bytes) (items : List Item) (t : List Int32)
    (h : toItems elems [] tape salts = some (items, t)) :
    items.map (fun it => (it.ident, it.value)) = elems ∧
    items.map (·.random) = salts.take elems.length ∧
    (items.map (·.digestId)).Nodup := by
  obtain ⟨h1, h2, ids, h3, h4, _⟩ := toItems_spec elems [] tape salts items t h
  refine ⟨h1, h2, ?_⟩
  rw [h3]
  exact nodup_map_inj _ (fun a b hab => Int32.toInt_inj.mp hab) ids h4

/-- Decoy ids are fresh: distinct from every element id of the namespace and from each other. -/
theorem C09_decoys_fresh (n : Nat) (elemIds tape ids t : List Int32)
    (h : genDecoys n elemIds tape = some (ids, t)) :
    ids.length = n ∧ ids.Nodup ∧ ∀ i ∈ ids, i ∉ elemIds := genDecoys_spec n elemIds tape ids t h

/-- The digest is taken over `#6.24(bstr)` of the item bytes: 0xd8 0x18, the shortest byte-string
head, then exactly the item bytes. -/
theorem C09_digest_preimage (h : Bytes → Bytes) (b : Bytes) :
    digestOfItemBytes h b = h ([0xd8, 0x18] ++ head 2 b.length ++ b) := by
  have h6 : head 6 24 = [0xd8, 0x18] := by decide
  simp only [digestOfItemBytes, tag24, enc, h6, List.append_assoc]

/-- and two items with different bytes have different preimages (so, for a collision-resistant
hash, different digests). -/
theorem C09_digest_preimage_injective (a b : Bytes) (ha : a.length < 2^64) (hb : b.length < 2^64)
    (h : enc (tag24 a) = enc (tag24 b)) : a = b := by
  have := enc_injective (tag24 a) (tag24 b) (by simp [tag24, wf, ha]) (by simp [tag24, wf, hb]) h
  simpa [tag24] using this

/-- Empty namespaces, no namespace and contradictory key authorisations are refused. -/
theorem C09_refusals (sizes : List Nat) (ns de : Option (List Nat)) :
    (sizes = [] → prepareAccepts sizes ns de = false) ∧
    (0 ∈ sizes → prepareAccepts sizes ns de = false) ∧
    (∀ n d x, ns = some n → de = some d → x ∈ n → x ∈ d → prepareAccepts sizes ns de = false) := by
  refine ⟨?_, ?_, ?_⟩
  · rintro rfl; simp [prepareAccepts]
  · intro h
    have : sizes.all (· > 0) = false := by
      apply List.all_eq_false.mpr; exact ⟨0, h, by simp⟩
    simp [prepareAccepts, this]
  · rintro n d x rfl rfl hx hd
    have : authValid (some n) (some d) = false := by
      simp only [authValid]
      apply List.all_eq_false.mpr
      exact ⟨x, hx, by simp [hd]⟩
    simp [prepareAccepts, this]

section IssuedPassesReader
open IsoMdl.ResponseFacts

/-- IssuerSignedItemBytes as issued -/
def wireItem (it : Item) : Cbor := tag24 (enc it.toCbor)

/-- the valueDigests entry the issuer computes for an item under hash `h` -/
def digestEntry (h : Bytes → Bytes) (it : Item) : Cbor × Cbor :=
  (ofInt it.digestId, .bytes (digestOfItemBytes h (enc it.toCbor)))

theorem find_key_of_nodup : ∀ (l : List (Cbor × Cbor)) (k v : Cbor), (l.map (·.1)).Nodup → (k, v) ∈ l →
    l.find? (fun e => e.1 == k) = some (k, v)
  | [], _, _, _, h => by cases h
  | (k', v') :: rest, k, v, hnd, hm => by
    simp only [List.map_cons, List.nodup_cons] at hnd
    simp only [List.find?_cons]
    rcases List.mem_cons.mp hm with h | h
    · have hk : k' = k := (Prod.mk.inj h).1.symm
      have hv : v' = v := (Prod.mk.inj h).2.symm
      have : (k' == k) = true := (Cbor.beq_iff k' k).mpr hk
      simp [this, hk, hv]
    · have hne : (k' == k) = false := by
        cases hb : (k' == k) with
        | false => rfl
        | true =>
          have := (Cbor.beq_iff k' k).mp hb
          subst this
          exact absurd (List.mem_map.mpr ⟨(k', v), h, rfl⟩) hnd.1
      simp only [hne]
      exact find_key_of_nodup rest k v hnd.2 h

theorem fget_item_digestID (it : Item) : fget it.toCbor "digestID" = some (ofInt it.digestId) := by
  simp [fget, Item.toCbor, Issuance.tx, asciiBytes]

theorem ofInt_int (i : Int) : (∃ n, ofInt i = .uint n) ∨ (∃ n, ofInt i = .nint n) := by
  unfold ofInt; split
  · exact Or.inl ⟨_, rfl⟩
  · exact Or.inr ⟨_, rfl⟩

/-- WHAT IS ISSUED IS WHAT THE READER ACCEPTS (issuance model against the reader's wire model): a document
whose namespaces carry the items as issued (tag-24 of the item's encoding), with an MSO whose
valueDigests entry for each namespace has pairwise different keys and contains, for every item, the
digest the issuer computes (hash of the encoding of the tag-24 item) under the item's digestID -
decoys and the order of the entries do not matter -, passes the reader's digest comparison
(`ResponseFacts.digestsMatch`, the fact C04's theorems start from).  Items must be encodable and
readable back (`wf`, and text that is UTF-8: every value a `ciborium::Value` holds is). -/
theorem C09_issued_passes_reader_digest_check (doc mso is vd : Cbor) (nsl : List (Bytes × List Item))
    (his : fget doc "issuerSigned" = some is)
    (hns : fget is "nameSpaces" = some (.map (nsl.map fun e => (Cbor.text e.1, Cbor.array (e.2.map wireItem)))))
    (hvd : fget mso "valueDigests" = some vd)
    (hent : ∀ e ∈ nsl, ∀ it ∈ e.2, ∃ entries, mget vd (.text e.1) = some (.map entries) ∧ (entries.map (·.1)).Nodup ∧
      digestEntry (hashWith ((fget mso "digestAlgorithm").getD (.simple 22))) it ∈ entries)
    (hok : ∀ e ∈ nsl, ∀ it ∈ e.2, wf it.toCbor ∧ textOk it.toCbor = true) :
    digestsMatch doc mso = true := by
  unfold digestsMatch
  simp only [his, hns, List.all_eq_true]
  intro x hx
  obtain ⟨e, he, rfl⟩ := List.mem_map.mp hx
  simp only [List.all_eq_true]
  intro w hw
  obtain ⟨it, hit, rfl⟩ := List.mem_map.mp hw
  obtain ⟨entries, hme, hnd, hin⟩ := hent e he it hit
  simp only [hvd, Option.bind_some, hme]
  obtain ⟨hwf, hto⟩ := hok e he it hit
  have hdec : decodeValue (enc it.toCbor) = some it.toCbor := by
    unfold decodeValue
    have := Cbor.decode_enc_append it.toCbor [] hwf
    rw [List.append_nil] at this
    rw [this]; simp [hto]
  have hfind := find_key_of_nodup entries _ _ hnd hin
  simp only [wireItem, tag24, hdec, fget_item_digestID]
  rcases ofInt_int it.digestId with ⟨n, hn⟩ | ⟨n, hn⟩
  · simp only [hn] at hfind ⊢
    simp [mget, hfind, digestOfItemBytes, tag24]
  · simp only [hn] at hfind ⊢
    simp [mget, hfind, digestOfItemBytes, tag24]

/-- non-vacuity of the hypotheses: a one-item document and the MSO the issuer would compute for it -/
def exItem : Item := ⟨5, [1, 2], [97], .uint 7⟩
def exMso : Cbor := .map [(ResponseFacts.tx "digestAlgorithm", ResponseFacts.tx "SHA-256"),
  (ResponseFacts.tx "valueDigests", .map [(.text [110], .map [(.uint 9, .bytes []), digestEntry Sha2.sha256 exItem])])]
def exDoc : Cbor := .map [(ResponseFacts.tx "issuerSigned", .map [(ResponseFacts.tx "nameSpaces", .map [(.text [110], .array [wireItem exItem])])])]

theorem exMso_alg : (fget exMso "digestAlgorithm").getD (.simple 22) = ResponseFacts.tx "SHA-256" := rfl
theorem ex_hash : hashWith (ResponseFacts.tx "SHA-256") = Sha2.sha256 := by
  funext b
  have h1 : (ResponseFacts.tx "SHA-256" == ResponseFacts.tx "SHA-384") = false := by decide +kernel
  have h2 : (ResponseFacts.tx "SHA-256" == ResponseFacts.tx "SHA-512") = false := by decide +kernel
  simp [hashWith, h1, h2]

def exIs : Cbor := .map [(ResponseFacts.tx "nameSpaces", .map [(.text [110], .array [wireItem exItem])])]
def exVd : Cbor := .map [(.text [110], .map [(.uint 9, .bytes []), digestEntry Sha2.sha256 exItem])]

theorem ex_hent : ∀ e ∈ [(([110] : Bytes), [exItem])], ∀ it ∈ e.2, ∃ entries, mget exVd (.text e.1) = some (.map entries) ∧
    (entries.map (·.1)).Nodup ∧ digestEntry (hashWith ((fget exMso "digestAlgorithm").getD (.simple 22))) it ∈ entries := by
  intro e he
  simp only [List.mem_singleton] at he
  subst he
  intro it hit
  simp only [List.mem_singleton] at hit
  subst hit
  refine ⟨[(.uint 9, .bytes []), digestEntry Sha2.sha256 exItem], rfl, by simp [digestEntry, exItem, ofInt], ?_⟩
  rw [exMso_alg, ex_hash]
  simp

theorem ex_hok : ∀ e ∈ [(([110] : Bytes), [exItem])], ∀ it ∈ e.2, wf it.toCbor ∧ textOk it.toCbor = true := by
  intro e he it hit
  simp only [List.mem_singleton] at he
  subst he
  simp only [List.mem_singleton] at hit
  subst hit
  refine ⟨by simp [Item.toCbor, exItem, wf, wfPairs, Issuance.tx, ofInt, asciiBytes], by decide +kernel⟩

example : digestsMatch exDoc exMso = true :=
  C09_issued_passes_reader_digest_check exDoc exMso exIs exVd [([110], [exItem])] rfl rfl rfl ex_hent ex_hok

end IssuedPassesReader

/-- non-vacuity: a concrete tape with a repeated draw and a negative draw. -/
example : (genId [5] [5, -5, -7, 9]) = some (7, [9]) := by decide
example : (toItems [([97], .uint 1), ([98], .uint 2)] [] [3, -3, 4] [[0], [1]]).map
    (fun r => r.1.map (·.digestId)) = some [3, 4] := by decide

end IsoMdl.Issuance
