import IsoMdl.Lemmas.Issuance
import IsoMdl.Lemmas.Cbor
import IsoMdl.Spec.Issuance
/-
C09 — Issued mdocs are internally consistent and verifiable (issuance model part).
`Generated.digestIdNew` is re-extracted from src/definitions/mso.rs on every run; `toItems`,
`genId`, `genDecoys`, `digestOfItemBytes` are the hand model of src/issuance/mdoc.rs over an
explicit randomness tape.  The issuerAuth / MSO shape and the digests of real issuances are
checked by `namespaceOk` (Spec/Issuance.lean) on the real output.
-/
namespace IsoMdl.Issuance
open IsoMdl IsoMdl.Cbor IsoMdl.Generated

/-- All 2^32 inputs of the digest-id constructor: it never overflows (no panic in any build
profile) and the result lies in 0 .. 2^31-1.  Full strength; holds since the `fix:` commit that
replaced `-i` by a saturating absolute value (before it, `i32::MIN` was a counterexample). -/
theorem C09_digest_id_range (i : Int32) :
    digestIdNew_overflows i = false ∧ 0 ≤ (digestIdNew i).toInt ∧ (digestIdNew i).toInt ≤ 2147483647 := by
  refine ⟨rfl, ?_⟩
  have hlo := Int32.le_toInt i
  have hhi := Int32.toInt_lt i
  unfold digestIdNew
  by_cases hmin : i = Int32.minValue
  · subst hmin; decide
  · have hne' : i.toInt ≠ -2147483648 := by
      intro hc; apply hmin; apply Int32.toInt_inj.mp; simpa using hc
    simp only [beq_iff_eq, hmin, if_false]
    by_cases hneg : i < 0
    · simp only [hneg, decide_true, if_true]
      have hlt : i.toInt < 0 := by
        have := Int32.lt_iff_toInt_lt.mp hneg; simpa using this
      have hlo' : -2147483648 ≤ i.toInt := by simpa using hlo
      rw [Int32.toInt_neg]
      have : (-i.toInt).bmod (2^32) = -i.toInt := by
        apply Int.bmod_eq_of_le <;> omega
      omega
    · simp only [hneg, decide_false, Bool.false_eq_true, if_false]
      have : ¬ i.toInt < 0 := by
        intro hc; apply hneg; apply Int32.lt_iff_toInt_lt.mpr; simpa using hc
      have hhi' : i.toInt < 2147483648 := by simpa using hhi
      omega

/-- Fresh ids: what `generate_digest_id` returns was not used before (for any tape). -/
theorem C09_generated_id_fresh (used tape : List Int32) (id : Int32) (t : List Int32)
    (h : genId used tape = some (id, t)) : id ∉ used := (genId_spec used tape id t h).1

/-- Every supplied element appears exactly once, in map order, with the supplied identifier and
value and its own salt; digest ids are pairwise distinct within the namespace. -/
theorem C09_items_exact_and_ids_unique (elems : List (Bytes × Cbor)) (tape : List Int32)
    (salts : List Bytes) (items : List Item) (t : List Int32)
    (h : toItems elems [] tape salts = some (items, t)) :
    items.map (fun it => (it.ident, it.value)) = elems ∧
    items.map (·.random) = salts.take elems.length ∧
    (items.map (·.digestId)).Nodup := by
  obtain ⟨h1, h2, ids, h3, h4, _⟩ := toItems_spec elems [] tape salts items t h
  refine ⟨h1, h2, ?_⟩
  rw [h3]
  exact nodup_map_inj _ (fun a b hab => Int32.toInt_inj.mp hab) ids h4

/-- Decoy ids are fresh: distinct from every element id of the namespace and from each other. -/
theorem C09_decoys_fresh (n : Nat) (elemIds tape ids t : List Int32)
    (h : genDecoys n elemIds tape = some (ids, t)) :
    ids.length = n ∧ ids.Nodup ∧ ∀ i ∈ ids, i ∉ elemIds := genDecoys_spec n elemIds tape ids t h

/-- The digest is taken over `#6.24(bstr)` of the item bytes: 0xd8 0x18, the shortest byte-string
head, then exactly the item bytes. -/
theorem C09_digest_preimage (h : Bytes → Bytes) (b : Bytes) :
    digestOfItemBytes h b = h ([0xd8, 0x18] ++ head 2 b.length ++ b) := by
  have h6 : head 6 24 = [0xd8, 0x18] := by decide
  simp only [digestOfItemBytes, tag24, enc, h6, List.append_assoc]

/-- and two items with different bytes have different preimages (so, for a collision-resistant
hash, different digests). -/
theorem C09_digest_preimage_injective (a b : Bytes) (ha : a.length < 2^64) (hb : b.length < 2^64)
    (h : enc (tag24 a) = enc (tag24 b)) : a = b := by
  have := enc_injective (tag24 a) (tag24 b) (by simp [tag24, wf, ha]) (by simp [tag24, wf, hb]) h
  simpa [tag24] using this

/-- Empty namespaces, no namespace and contradictory key authorisations are refused. -/
theorem C09_refusals (sizes : List Nat) (ns de : Option (List Nat)) :
    (sizes = [] → prepareAccepts sizes ns de = false) ∧
    (0 ∈ sizes → prepareAccepts sizes ns de = false) ∧
    (∀ n d x, ns = some n → de = some d → x ∈ n → x ∈ d → prepareAccepts sizes ns de = false) := by
  refine ⟨?_, ?_, ?_⟩
  · rintro rfl; simp [prepareAccepts]
  · intro h
    have : sizes.all (· > 0) = false := by
      apply List.all_eq_false.mpr; exact ⟨0, h, by simp⟩
    simp [prepareAccepts, this]
  · rintro n d x rfl rfl hx hd
    have : authValid (some n) (some d) = false := by
      simp only [authValid]
      apply List.all_eq_false.mpr
      exact ⟨x, hx, by simp [hd]⟩
    simp [prepareAccepts, this]

/-- non-vacuity: a concrete tape with a repeated draw and a negative draw. -/
example : (genId [5] [5, -5, -7, 9]) = some (7, [9]) := by decide
example : (toItems [([97], .uint 1), ([98], .uint 2)] [] [3, -3, 4] [[0], [1]]).map
    (fun r => r.1.map (·.digestId)) = some [3, 4] := by decide

end IsoMdl.Issuance
