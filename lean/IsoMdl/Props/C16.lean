import IsoMdl.Lemmas.Cbor
import IsoMdl.Model.Wire
import IsoMdl.Model.WireSchemas
import IsoMdl.Lemmas.Schema
import IsoMdl.Generated.WireStructs
import IsoMdl.Generated.Tables
/-
C16 — Wire structures round-trip and have a stable encoding.
Layer 1 (all values of the CBOR data model): `dec (enc v) = v`, `enc` injective, fixed point.
Layer 2 (typed structures of Model/Wire.lean): `fromCbor (toCbor x) = some x`.
Together: decoding the encoding of a typed value gives the value back, and re-encoding reproduces
the bytes.  Types not (yet) modelled in Lean are covered by the correspondence run only (see the
evidence file: `modelled_types` / `correspondence_only_types`).
-/
namespace IsoMdl.Wire
open IsoMdl IsoMdl.Cbor IsoMdl.Generated

/-- Layer 1: every well-formed CBOR value decodes from its encoding to itself, with nothing left. -/
theorem C16_cbor_roundtrip (v : Cbor) (h : wf v) : decodeAll (enc v) = some v := decodeAll_enc v h

/-- … and encoding is a fixed point: re-encoding the decoded value reproduces the same bytes. -/
theorem C16_cbor_fixed_point (v : Cbor) (h : wf v) : (decodeAll (enc v)).map enc = some (enc v) := by
  rw [decodeAll_enc v h]; rfl

/-- … and distinct values have distinct encodings. -/
theorem C16_cbor_enc_injective (a b : Cbor) (ha : wf a) (hb : wf b) (h : enc a = enc b) : a = b :=
  enc_injective a b ha hb h

/-- generic lift: a typed codec that round-trips on trees round-trips on bytes, and its encoding is
a fixed point -/
theorem C16_typed_bytes_roundtrip {α : Type} (toC : α → Cbor) (fromC : Cbor → Option α) (x : α)
    (hwf : wf (toC x)) (hrt : fromC (toC x) = some x) :
    (decodeAll (enc (toC x))).bind fromC = some x ∧
    ((decodeAll (enc (toC x))).bind fromC).map (fun y => enc (toC y)) = some (enc (toC x)) := by
  rw [decodeAll_enc _ hwf]
  simp [hrt]

/-- status code tables (regenerated from the source on every run) map each code back to itself -/
theorem C16_session_status_roundtrip (s : SessionStatus) : SessionStatus.ofNat? s.toNat = some s := by
  cases s <;> rfl

theorem C16_response_status_roundtrip (s : ResponseStatus) : ResponseStatus.ofNat? s.toNat = some s := by
  cases s <;> rfl

/-- and nothing outside the table is accepted -/
theorem C16_session_status_only_table (n : Nat) (s : SessionStatus) (h : SessionStatus.ofNat? n = some s) :
    s.toNat = n := by
  unfold SessionStatus.ofNat? at h
  split at h
  · cases h; simp_all [SessionStatus.toNat]
  · split at h
    · cases h; simp_all [SessionStatus.toNat]
    · split at h
      · cases h; simp_all [SessionStatus.toNat]
      · cases h

theorem C16_response_status_only_table (n : Nat) (s : ResponseStatus) (h : ResponseStatus.ofNat? n = some s) :
    s.toNat = n := by
  unfold ResponseStatus.ofNat? at h
  split at h
  · cases h; simp_all [ResponseStatus.toNat]
  · split at h
    · cases h; simp_all [ResponseStatus.toNat]
    · split at h
      · cases h; simp_all [ResponseStatus.toNat]
      · split at h
        · cases h; simp_all [ResponseStatus.toNat]
        · cases h

theorem C16_sessionData_roundtrip (x : SessionData) : SessionData.fromCbor x.toCbor = some x := by
  obtain ⟨d, s⟩ := x
  cases d <;> cases s <;>
    (simp +decide [SessionData.fromCbor, SessionData.toCbor, optF, getF, lookup, C16_session_status_roundtrip])

theorem C16_ec2curve_roundtrip (c : EC2Curve) : EC2Curve.ofNat? c.toNat = some c := by cases c <;> rfl
theorem C16_okpcurve_roundtrip (c : OKPCurve) : OKPCurve.ofNat? c.toNat = some c := by cases c <;> rfl

theorem C16_coseKey_roundtrip (k : CoseKey) : CoseKey.fromCbor k.toCbor = some k := by
  cases k with
  | ec2 crv x y =>
    cases y with
    | value b => simp +decide [CoseKey.fromCbor, CoseKey.toCbor, EC2Y.toCbor, lookup, C16_ec2curve_roundtrip]
    | signBit b =>
      cases b <;>
        (simp +decide [CoseKey.fromCbor, CoseKey.toCbor, EC2Y.toCbor, lookup, C16_ec2curve_roundtrip, ofBool, ctrue, cfalse])
  | okp crv x => simp +decide [CoseKey.fromCbor, CoseKey.toCbor, lookup, C16_okpcurve_roundtrip]

def CoseKey.WF : CoseKey → Prop
  | .ec2 _ x (.value y) => x.length < 2^64 ∧ y.length < 2^64
  | .ec2 _ x (.signBit _) => x.length < 2^64
  | .okp _ x => x.length < 2^64

theorem CoseKey.toCbor_wf (k : CoseKey) (h : k.WF) : wf k.toCbor := by
  cases k with
  | ec2 crv x y =>
    cases y with
    | value b => cases crv <;> simp_all [CoseKey.WF, CoseKey.toCbor, EC2Y.toCbor, wf, wfPairs, EC2Curve.toNat]
    | signBit b =>
      cases crv <;> cases b <;>
        (simp_all [CoseKey.WF, CoseKey.toCbor, EC2Y.toCbor, wf, wfPairs, EC2Curve.toNat, ofBool, ctrue, cfalse])
  | okp crv x => cases crv <;> simp_all [CoseKey.WF, CoseKey.toCbor, wf, wfPairs, OKPCurve.toNat]

/-- Tag24 round trip: the embedded bytes come back unchanged and the typed view is their decoding. -/
theorem C16_tag24_roundtrip {α : Type} (toC : α → Cbor) (fromC : Cbor → Option α) (a : α)
    (hwf : wf (toC a)) (hrt : fromC (toC a) = some a) :
    Tag24.fromCbor fromC (Tag24.new toC a).toCbor = some (Tag24.new toC a) := by
  simp only [Tag24.fromCbor, Tag24.toCbor, Tag24.new]
  have := decode_enc_append (toC a) [] hwf
  simp only [List.append_nil] at this
  rw [this]
  simp [hrt]

theorem C16_sessionEstablishment_roundtrip (k : CoseKey) (d : Bytes) (hk : k.WF) :
    SessionEstablishment.fromCbor
      (SessionEstablishment.toCbor { eReaderKey := Tag24.new CoseKey.toCbor k, data := d }) =
    some { eReaderKey := Tag24.new CoseKey.toCbor k, data := d } := by
  have h := C16_tag24_roundtrip CoseKey.toCbor CoseKey.fromCbor k (CoseKey.toCbor_wf k hk) (C16_coseKey_roundtrip k)
  simp +decide only [SessionEstablishment.fromCbor, SessionEstablishment.toCbor, getF, lookup]
  simp +decide [h]

theorem C16_errorCode_roundtrip (c : DocumentErrorCode)
    (h : match c with | .applicationSpecific i => i < 0 | .dataNotReturned => True) :
    DocumentErrorCode.ofInt? c.toInt = some c := by
  cases c with
  | dataNotReturned => rfl
  | applicationSpecific i =>
    simp only at h
    have h0 : i ≠ 0 := by omega
    simp [DocumentErrorCode.toInt, DocumentErrorCode.ofInt?, h0, h]

/-- positive (RFU) error codes are rejected, not altered -/
theorem C16_errorCode_rejects_positive (n : Int) (h : 0 < n) : DocumentErrorCode.ofInt? n = none := by
  have h0 : n ≠ 0 := by omega
  have h1 : ¬ n < 0 := by omega
  simp [DocumentErrorCode.ofInt?, h0, h1]

/-- non-vacuity -/
example : SessionData.fromCbor (SessionData.toCbor { data := some [1, 2], status := some .SessionTermination })
    = some { data := some [1, 2], status := some .SessionTermination } := by decide
example : (CoseKey.ec2 .P256 [1] (.value [2])).WF := by simp [CoseKey.WF]

/-! ### Layer 3: every wire structure, through the generic schema model (Model/Schema.lean) -/
section Schemas
open IsoMdl.Schema IsoMdl.WireSchemas

/-- every named wire schema is well-formed (pairwise distinct field keys at every level) -/
theorem C16_wire_schemas_wellformed : all.all (fun p => wfs p.2) = true := by decide +kernel

/-- the schemas whose untagged alternatives are all decided by the outermost kind: all but
DeviceEngagement (its retrieval methods are told apart by a literal transport type) -/
theorem C16_wire_fixed_point_scope : (all.filter fun p => unions p.2).length = 16 ∧ all.length = 17 := by decide +kernel

/-- ENCODING IS A FIXED POINT, for EVERY item of EVERY such wire structure (DeviceRequest and
Response with their nested documents, items, MSO, validity and key info, COSE keys, session
messages, handover): decoding what the typed decode-and-re-encode emitted and emitting again
reproduces the same item — any field order, unknown entries, explicit nulls and unsorted maps on
the way in. -/
theorem C16_wire_fixed_point (name : String) (s : Sch) (hs : (name, s) ∈ all) (hu : unions s = true)
    (c c' : Cbor) (h : norm s c = some c') : norm s c' = some c' := by
  have hw : wfs s = true := (List.all_eq_true.mp C16_wire_schemas_wellformed) (name, s) hs
  exact norm_idem s c c' hw hu h

/-- … and on the level of bytes: re-encoding the decoded re-encoding gives the same bytes -/
theorem C16_wire_bytes_fixed_point (name : String) (s : Sch) (hs : (name, s) ∈ all) (hu : unions s = true)
    (c c' : Cbor) (h : norm s c = some c') (hwf : Cbor.wf c') :
    (decodeAll (enc c')).bind (norm s) = some c' := by
  rw [decodeAll_enc c' hwf]
  exact C16_wire_fixed_point name s hs hu c c' h


/-- serialised field names and optionality of a struct schema -/
def fieldSig : Fields → List (List UInt8 × Bool)
  | .nil => []
  | .cons (.text k) _ o rest => (k, o) :: fieldSig rest
  | .cons _ _ o rest => ([], o) :: fieldSig rest
def schemaSig : Sch → Option (List (List UInt8 × Bool))
  | .struct fs => some (fieldSig fs)
  | _ => none

/-- THE SCHEMAS ARE THE SOURCE'S: for every serde-derived wire struct of the current source (13 structs,
re-extracted on every run: DeviceRequest, DocRequest, ItemsRequest, DeviceResponse, Document,
IssuerSigned, IssuerSignedItem, DeviceSigned, Mso, DeviceKeyInfo, KeyAuthorizations,
SessionEstablishment, SessionData) the schema of the same name has exactly its serialised field
names (after `rename_all` / `rename`), in its declaration order, with the same may-be-absent flags. -/
theorem C16_wire_fields_match_source :
    Generated.wireStructs.all (fun ns => match all.find? (fun p => asciiBytes p.1 == ns.1) with
      | some p => schemaSig p.2 == some ns.2
      | none => false) = true := by decide +kernel

/-- THE CURVE REGISTRIES ARE THE SOURCE'S: the model's curve ↦ integer maps (used by every COSE_Key
theorem here and in C18) are, row for row (in whatever order the arms are written), the `impl From<_> for ciborium::Value`
and `impl TryFrom<i128> for _` tables re-extracted from cose_key.rs on every run; consequently
reading back what was written gives the same curve, for every curve, and nothing else is read. -/
theorem C16_curve_tables_match_source :
    (let exp := (EC2Curve.all.map fun c => ("EC2Curve".toList.map (·.toNat), c.name.toList.map (·.toNat), c.toNat)) ++
        (OKPCurve.all.map fun c => ("OKPCurve".toList.map (·.toNat), c.name.toList.map (·.toNat), c.toNat))
     Generated.curveToInt.all (exp.contains ·) && exp.all (Generated.curveToInt.contains ·) &&
       Generated.curveToInt.length == exp.length) = true ∧
    (let exp := (EC2Curve.all.map fun c => ("EC2Curve".toList.map (·.toNat), c.toNat, c.name.toList.map (·.toNat))) ++
        (OKPCurve.all.map fun c => ("OKPCurve".toList.map (·.toNat), c.toNat, c.name.toList.map (·.toNat)))
     Generated.curveOfInt.all (exp.contains ·) && exp.all (Generated.curveOfInt.contains ·) &&
       Generated.curveOfInt.length == exp.length) = true ∧
    (∀ c : EC2Curve, c ∈ EC2Curve.all ∧ EC2Curve.ofNat? c.toNat = some c) ∧
    (∀ c : OKPCurve, c ∈ OKPCurve.all ∧ OKPCurve.ofNat? c.toNat = some c) ∧
    (∀ n c, EC2Curve.ofNat? n = some c → c.toNat = n) ∧ (∀ n c, OKPCurve.ofNat? n = some c → c.toNat = n) := by
  refine ⟨by decide +kernel, by decide +kernel, fun c => by cases c <;> decide, fun c => by cases c <;> decide, ?_, ?_⟩
  · intro n c h
    unfold EC2Curve.ofNat? at h
    repeat' split at h
    all_goals first | (cases h; subst_vars; rfl) | cases h
  · intro n c h
    unfold OKPCurve.ofNat? at h
    repeat' split at h
    all_goals first | (cases h; subst_vars; rfl) | cases h

theorem C16_wire_structs_count : Generated.wireStructs.length = 13 := by decide +kernel

/-- non-vacuity: a SessionData with an unknown entry, an explicit null and fields out of order is
normalised, and the result is its own normal form -/
example : (norm sessionData (.map [(tx "zz", .uint 1), (tx "status", .uint 20), (tx "data", .simple 22)])
    == some (.map [(tx "status", .uint 20)])) = true := by decide +kernel
example : (norm sessionData (.map [(tx "status", .uint 20)]) == some (.map [(tx "status", .uint 20)])) = true := by decide +kernel
end Schemas

end IsoMdl.Wire
