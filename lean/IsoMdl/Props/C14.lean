import IsoMdl.Lemmas.Session
import IsoMdl.Generated.StateStructs
/-
C14 — Serialized session state resumes the session transparently.
In the session model a restore (stringify followed by parse) is an explicit operation of the
alphabet: `World.step .restoreDevice` runs the state through the serde layer of
Model/StateCodec.lean (one map entry per serialised field of the real struct, under the real field
names) and back.  First part: the codec loses nothing (`C14_parse_stringify_*`, for EVERY state;
the base64 and CBOR byte layers included), and it has exactly the fields, order and enum variants
that the source declares (`C14_state_fields_match_source`, against `Generated/StateStructs.lean`,
re-extracted from src/presentation/{device,reader}.rs on every run).  Second part: restores at ANY
subset of step boundaries of ANY history change no later observation.  That the CONTENT of the
real fields (keys, transcript, documents, prepared COSE structures) survives is what the twin-run
correspondence checks on the real objects (clone vs. stringify→parse copy, all later outputs byte
for byte, plus the stringify fixed point).
-/
namespace IsoMdl.Session

section Codec
open IsoMdl.StateCodec

/-- base64 layer, for ALL byte strings -/
theorem C14_base64_roundtrip (bs : Bytes) : b64Decode (b64Encode bs) = some bs := b64_roundtrip bs

/-- serde layer, for EVERY abstract device / reader state: counters, state variant, documents still
to sign, signatures already attached and a staged response are all written and read back -/
theorem C14_serde_roundtrip (d : Device) (r : Reader) :
    devOfCbor (devToCbor d) = some d ∧ rdrOfCbor (rdrToCbor r) = some r :=
  ⟨devOfCbor_toCbor d, rdrOfCbor_toCbor r⟩

/-- all three layers: `parse (stringify x) = x` for every state whose numbers fit a CBOR head -/
theorem C14_parse_stringify_device (d : Device) (h : DeviceB d) : devParse (devStringify d) = some d :=
  devParse_stringify d (wf_device d h)

theorem C14_parse_stringify_reader (r : Reader) (h : ReaderB r) : rdrParse (rdrStringify r) = some r :=
  rdrParse_stringify r (wf_reader r h)

/-- the stored form is a fixed point: storing a restored session writes the same string again, so
any number of store / restore cycles (a wallet that persists after every step) neither drifts nor
grows — the model-side statement of the harness's stringify fixed-point comparison -/
theorem C14_stringify_fixed_point (d : Device) (r : Reader) (hd : DeviceB d) (hr : ReaderB r) :
    (devParse (devStringify d)).map devStringify = some (devStringify d) ∧
    (rdrParse (rdrStringify r)).map rdrStringify = some (rdrStringify r) := by
  rw [C14_parse_stringify_device d hd, C14_parse_stringify_reader r hr]; exact ⟨rfl, rfl⟩

/-- serialising is deterministic and injective on states: two states with the same stored form are
the same state (nothing of the state is left out of the stored form) -/
theorem C14_stored_form_injective (d d' : Device) (h : devToCbor d = devToCbor d') : d = d' := by
  have := devOfCbor_toCbor d
  rw [h, devOfCbor_toCbor d'] at this
  exact (Option.some.inj this).symm

/-- THE CODEC IS THE SOURCE'S: the stored form of the device session manager, of a prepared
response and of the reader session manager has exactly the fields the structs declare, in
declaration order, none of them carrying a serde attribute (skip / rename / default / with);
`State` has exactly the three variants the codec writes, with the same names and arities. -/
theorem C14_state_fields_match_source (d : Device) (r : Reader) (p : List Nat) (sg : List (Nat × Nat)) (st : Nat) :
    Generated.stateStructs =
      [("device::SessionManager".toList.map (·.toNat), (fieldNames (devToCbor d)).map (·, true)),
       ("device::PreparedDeviceResponse".toList.map (·.toNat), (fieldNames (encPrepared p sg st)).map (·, true)),
       ("reader::SessionManager".toList.map (·.toNat), (fieldNames (rdrToCbor r)).map (·, true))] ∧
    Generated.stateEnum = [("AwaitingRequest".toList.map (·.toNat), 0), ("Signing".toList.map (·.toNat), 1),
                           ("ReadyToRespond".toList.map (·.toNat), 1)] ∧
    encState .awaiting = tx "AwaitingRequest" ∧
    (∃ v, encState (.signing p sg st) = .map [(tx "Signing", v)]) ∧
    (∀ m, ∃ v, encState (.ready m) = .map [(tx "ReadyToRespond", v)]) := by
  refine ⟨?_, by decide +kernel, rfl, ⟨_, rfl⟩, fun m => ⟨_, rfl⟩⟩
  simp only [devToCbor, rdrToCbor, encPrepared, fieldNames, List.filterMap_cons, List.filterMap_nil, tx]
  decide +kernel

/-- non-vacuity: a device in the middle of signing, with numbers at the edge of what a CBOR head
holds, goes through all three layers -/
example : DeviceB ⟨2^64 - 1, 4294967295, 7, .signing [3, 1] [(2, 2^64 - 1)] 0⟩ := by
  simp [DeviceB, StateB, NatsB, PairsB]
example : devParse (devStringify ⟨5, 4294967295, 7, .ready (.ct false 5 9 (.response 0 [(2, 70)]) false)⟩) =
    some ⟨5, 4294967295, 7, .ready (.ct false 5 9 (.response 0 [(2, 70)]) false)⟩ :=
  C14_parse_stringify_device _ (by simp [DeviceB, StateB, MsgB, PayloadB, PairsB])

end Codec

def Op.isRestore : Op → Bool
  | .restoreDevice => true
  | .restoreReader => true
  | _ => false

theorem step_restore (w : World) (op : Op) (h : op.isRestore = true) : w.step op = w := by
  cases op <;> first | exact step_restoreDevice w | exact step_restoreReader w | cases h

/-- Restores inserted at any subset of boundaries of any history change nothing: the run with
them equals the run without them (whole state: both roles, counters, pending signing progress,
prepared responses, ghost log of IVs). -/
theorem C14_transparent (w : World) (ops : List Op) :
    w.run ops = w.run (ops.filter (fun o => !o.isRestore)) := by
  induction ops generalizing w with
  | nil => rfl
  | cons op ops ih =>
    cases h : op.isRestore
    · simp only [World.run, List.foldl_cons, List.filter_cons, h, Bool.not_false, if_true]
      exact ih _
    · simp only [World.run, List.foldl_cons, List.filter_cons, h, Bool.not_true]
      rw [step_restore w op h]
      exact ih _

/-- Single boundary form: at any point of any history. -/
theorem C14_transparent_at (w : World) (ops₁ ops₂ : List Op) (r : Op) (h : r.isRestore = true) :
    w.run (ops₁ ++ r :: ops₂) = w.run (ops₁ ++ ops₂) := by
  simp only [World.run, List.foldl_append, List.foldl_cons]
  rw [step_restore _ r h]

/-- Every later observable (the outputs the driver prints after each operation are functions of
the world) is therefore unchanged as well. -/
theorem C14_observations_equal {α : Type} (obs : World → α) (w : World) (ops₁ ops₂ : List Op)
    (r : Op) (h : r.isRestore = true) :
    ((ops₂.foldl (fun (acc : World × List α) o => (acc.1.step o, acc.2 ++ [obs (acc.1.step o)]))
        (w.run (ops₁ ++ [r]), [])).2) =
    ((ops₂.foldl (fun (acc : World × List α) o => (acc.1.step o, acc.2 ++ [obs (acc.1.step o)]))
        (w.run ops₁, [])).2) := by
  have : w.run (ops₁ ++ [r]) = w.run ops₁ := by
    simpa using C14_transparent_at w ops₁ [] r h
  rw [this]

/-- non-vacuity: restores mid-signing and with a response ready keep the pending work. -/
example :
    ((World.established 1).run [.prepare [0, 1], .submit 8, .restoreDevice, .submit 9, .restoreDevice,
        .restoreReader, .retrieve]).dev =
    ((World.established 1).run [.prepare [0, 1], .submit 8, .submit 9, .retrieve]).dev := by decide

end IsoMdl.Session
