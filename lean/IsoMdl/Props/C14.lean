import IsoMdl.Lemmas.Session
/-
C14 — Serialized session state resumes the session transparently.
In the session model a restore (stringify followed by parse) is an explicit operation of the
alphabet.  The model's restore keeps every field of the state (keys/session id, both counters,
the state variant with pending documents, attached signatures and prepared response); these
theorems say that then no later observation can differ, for restores at ANY subset of step
boundaries.  That the real `Stringify` keeps every field is what the twin-run correspondence
checks on the real objects (clone vs. stringify→parse copy, all later outputs byte for byte,
plus the stringify fixed point).
-/
namespace IsoMdl.Session

def Op.isRestore : Op → Bool
  | .restoreDevice => true
  | .restoreReader => true
  | _ => false

theorem step_restore (w : World) (op : Op) (h : op.isRestore = true) : w.step op = w := by
  cases op <;> first | rfl | cases h

/-- Restores inserted at any subset of boundaries of any history change nothing: the run with
them equals the run without them (whole state: both roles, counters, pending signing progress,
prepared responses, ghost log of IVs). -/
theorem C14_transparent (w : World) (ops : List Op) :
    w.run ops = w.run (ops.filter (fun o => !o.isRestore)) := by
  induction ops generalizing w with
  | nil => rfl
  | cons op ops ih =>
    cases h : op.isRestore
    · simp only [World.run, List.foldl_cons, List.filter_cons, h, Bool.not_false, if_true]
      exact ih _
    · simp only [World.run, List.foldl_cons, List.filter_cons, h, Bool.not_true]
      rw [step_restore w op h]
      exact ih _

/-- Single boundary form: at any point of any history. -/
theorem C14_transparent_at (w : World) (ops₁ ops₂ : List Op) (r : Op) (h : r.isRestore = true) :
    w.run (ops₁ ++ r :: ops₂) = w.run (ops₁ ++ ops₂) := by
  simp only [World.run, List.foldl_append, List.foldl_cons]
  rw [step_restore _ r h]

/-- Every later observable (the outputs the driver prints after each operation are functions of
the world) is therefore unchanged as well. -/
theorem C14_observations_equal {α : Type} (obs : World → α) (w : World) (ops₁ ops₂ : List Op)
    (r : Op) (h : r.isRestore = true) :
    ((ops₂.foldl (fun (acc : World × List α) o => (acc.1.step o, acc.2 ++ [obs (acc.1.step o)]))
        (w.run (ops₁ ++ [r]), [])).2) =
    ((ops₂.foldl (fun (acc : World × List α) o => (acc.1.step o, acc.2 ++ [obs (acc.1.step o)]))
        (w.run ops₁, [])).2) := by
  have : w.run (ops₁ ++ [r]) = w.run ops₁ := by
    simpa using C14_transparent_at w ops₁ [] r h
  rw [this]

/-- non-vacuity: restores mid-signing and with a response ready keep the pending work. -/
example :
    ((World.established 1).run [.prepare [0, 1], .submit 8, .restoreDevice, .submit 9, .restoreDevice,
        .restoreReader, .retrieve]).dev =
    ((World.established 1).run [.prepare [0, 1], .submit 8, .submit 9, .retrieve]).dev := by decide

end IsoMdl.Session
