import IsoMdl.Lemmas.Cbor
import IsoMdl.Model.Wire
import IsoMdl.Spec.Cddl
import IsoMdl.Model.WireSchemas
import IsoMdl.Lemmas.Schema
/-
C18 — Everything emitted conforms to the ISO 18013-5 message definitions.
`Cddl.*` (Spec/Cddl.lean) is the validator written from the standard; `Wire.*.toCbor` is the model
of what the library's encoders emit (status tables regenerated from the source).  The theorems
say: for EVERY value of the modelled type the emitted CBOR passes the validator.  Every message
the real library emits in the generated sessions is additionally fed, as raw bytes, to the same
validator by the correspondence run (all message kinds, modelled or not).
-/
namespace IsoMdl.Wire
open IsoMdl IsoMdl.Cbor IsoMdl.Generated

/-- status codes come from the defined sets: every code the tables can emit is one the standard
defines -/
theorem C18_session_status_defined (s : SessionStatus) : Cddl.sessionStatus (.uint s.toNat) = true := by
  cases s <;> rfl

theorem C18_response_status_defined (s : ResponseStatus) : Cddl.responseStatus (.uint s.toNat) = true := by
  cases s <;> rfl

/-- what the library's three constructions of a SessionData have in common (reader `new_request`,
device `finalize_if_complete` in both of its branches): a ciphertext alone, or a status alone — and
in general: a ciphertext is never shorter than its tag and never accompanies an error status -/
def SessionData.Built (x : SessionData) : Prop :=
  (x.data.isSome ∨ x.status.isSome) ∧ (∀ b, x.data = some b → 16 ≤ b.length) ∧
  (x.data.isSome → x.status = none ∨ x.status = some .SessionTermination)

/-- SessionData: exact keys, data a ciphertext, status from the defined set, no data beside an
error status. -/
theorem C18_sessionData_conforms (x : SessionData) (h : x.Built) :
    Cddl.sessionData x.toCbor = true := by
  obtain ⟨d, s⟩ := x
  obtain ⟨h1, h2, h3⟩ := h
  cases d with
  | none =>
    cases s with
    | none => simp at h1
    | some s => cases s <;> decide
  | some b =>
    have hb : 16 ≤ b.length := h2 b rfl
    rcases h3 rfl with hs | hs
    · simp only at hs; subst hs
      simp +decide [SessionData.toCbor, optF, Cddl.sessionData, Cddl.onlyKeys, Cddl.keys, Cddl.noDup, Cddl.opt,
        Cddl.get, lookup, Cddl.isCiphertext, hb]
    · simp only at hs; subst hs
      simp +decide [SessionData.toCbor, optF, Cddl.sessionData, Cddl.onlyKeys, Cddl.keys, Cddl.noDup, Cddl.opt,
        Cddl.get, lookup, Cddl.isCiphertext, Cddl.sessionStatus, SessionStatus.toNat, hb]

/-- the validator is not vacuous about the new clauses: an empty `data` beside status 10, and a
ciphertext shorter than a GCM tag, are refused -/
example : Cddl.sessionData (.map [(tx "data", .bytes []), (tx "status", .uint 10)]) = false := by decide
example : Cddl.sessionData (.map [(tx "data", .bytes [1, 2, 3])]) = false := by decide
example : Cddl.sessionData (.map [(tx "data", .bytes (List.replicate 16 0)), (tx "status", .uint 20)]) = true := by decide

/-- the device-signature algorithm the crate announces for a device key (`CoseKey::signature_algorithm`,
re-extracted from the source on every run) is, for EVERY key it signs for, the algorithm the COSE
registry fixes for that key's type and curve; keys outside the table get no signature at all -/
theorem C18_signature_algorithm_matches_curve :
    Generated.signatureAlgorithm.all Cddl.sigAlgRowOk = true := by decide +kernel

/-- … and the registry rows that statement is checked against carry the curve numbers the crate
itself writes and reads (`curveToInt`, re-extracted from cose_key.rs): all eight curves, no other -/
theorem C18_curve_registry_matches_source :
    Generated.curveToInt.all (fun r => Cddl.curveIds.contains
      (r.2.1, (if r.1 == "EC2Curve".toList.map (·.toNat) then 2 else 1), r.2.2)) = true ∧
    Generated.curveToInt.length = Cddl.curveIds.length := by decide +kernel

/-- non-vacuity: the table is not empty and a wrong pairing is refused (ES256 for secp256k1) -/
example : Generated.signatureAlgorithm.length = 5 := by decide +kernel
example : Cddl.sigAlgRowOk ("EC2".toList.map (·.toNat), "P256K".toList.map (·.toNat), "ES256".toList.map (·.toNat)) = false := by
  decide +kernel

/-- a status-only message carries no data member at all -/
theorem C18_status_only_has_no_data (s : SessionStatus) :
    getF (tx "data") (SessionData.toCbor { data := none, status := some s }) = none := by
  cases s <;> decide

/-- COSE_Key: key type, curve from the registry, coordinates as byte strings (y possibly a sign bit) -/
theorem C18_coseKey_conforms (k : CoseKey) : Cddl.coseKey k.toCbor = true := by
  cases k with
  | ec2 crv x y =>
    cases y with
    | value b =>
      cases crv <;>
        (simp +decide [CoseKey.toCbor, EC2Y.toCbor, Cddl.coseKey, Cddl.keys, Cddl.noDup, Cddl.req, Cddl.get, lookup,
          Cddl.isBytes, EC2Curve.toNat])
    | signBit b =>
      cases crv <;> cases b <;>
        (simp +decide [CoseKey.toCbor, EC2Y.toCbor, Cddl.coseKey, Cddl.keys, Cddl.noDup, Cddl.req, Cddl.get, lookup,
          Cddl.isBytes, Cddl.isBool, EC2Curve.toNat, ofBool, ctrue, cfalse])
  | okp crv x =>
    cases crv <;>
      (simp +decide [CoseKey.toCbor, Cddl.coseKey, Cddl.keys, Cddl.noDup, Cddl.req, Cddl.get, lookup,
        Cddl.isBytes, OKPCurve.toNat])

/-- SessionEstablishment built by the library (`Tag24::new` of the reader key): exact keys,
eReaderKey a tag-24 wrapped COSE_Key, data a bstr -/
theorem C18_sessionEstablishment_conforms (k : CoseKey) (d : Bytes) (hk : wf k.toCbor) :
    Cddl.sessionEstablishment
      (SessionEstablishment.toCbor { eReaderKey := Tag24.new CoseKey.toCbor k, data := d }) = true := by
  have hdec : decodeAll (enc k.toCbor) = some k.toCbor := decodeAll_enc _ hk
  simp +decide [SessionEstablishment.toCbor, Tag24.toCbor, Tag24.new, Cddl.sessionEstablishment, Cddl.onlyKeys,
    Cddl.keys, Cddl.noDup, Cddl.req, Cddl.get, lookup, Cddl.isBytes, Cddl.tag24, hdec, C18_coseKey_conforms]

/-- non-vacuity: the validator is not trivially true — a renamed key, a wrong status and a
missing tag-24 wrapper are rejected -/
example : Cddl.sessionData (.map [(Cddl.tx "Data", .bytes [1])]) = false := by decide
example : Cddl.sessionData (.map [(Cddl.tx "status", .uint 12)]) = false := by decide
example : Cddl.sessionEstablishment (.map [(Cddl.tx "eReaderKey", .bytes [0xa0]), (Cddl.tx "data", .bytes [])]) = false := by
  decide

/-! ### every wire structure, through the generic schema model -/
section Schemas
open IsoMdl.Schema IsoMdl.WireSchemas

theorem C18_wire_schemas_wellformed : all.all (fun p => wfs p.2) = true := by decide +kernel

/-- WHATEVER IS EMITTED CONFORMS: for every named wire structure (all 17, DeviceEngagement with
its retrieval options included) and every input item the typed decoder accepts, the re-emitted
item satisfies the structure's validator: exactly the declared keys in the declared order, every
required field present, maps in key order without repeated keys, embedded items decodable to their
own structure, arrays non-empty where the definition says so. -/
theorem C18_wire_conforms (name : String) (s : Sch) (hs : (name, s) ∈ all) (c c' : Cbor)
    (h : norm s c = some c') : conf s c' = true := by
  have hw : wfs s = true := (List.all_eq_true.mp C18_wire_schemas_wellformed) (name, s) hs
  exact norm_conf s c c' hw h

/-- non-vacuity: the validator rejects a DeviceResponse without status, a map with a repeated
key, and an empty `documents` array -/
example : conf deviceResponse (.map [(tx "version", tx "1.0")]) = false := by decide +kernel
example : conf (.dict .text .uint false) (.map [(tx "a", .uint 1), (tx "a", .uint 2)]) = false := by decide +kernel
example : conf deviceResponse (.map [(tx "version", tx "1.0"), (tx "documents", .array []), (tx "status", .uint 0)]) = false := by decide +kernel
example : conf deviceResponse (.map [(tx "version", tx "1.0"), (tx "status", .uint 0)]) = true := by decide +kernel
end Schemas

end IsoMdl.Wire
