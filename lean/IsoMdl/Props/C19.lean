import IsoMdl.Lemmas.Namespaces
/-
C19 — mDL / AAMVA element encoding from JSON is faithful and validated.

The data models and code tables the theorems speak about are `Generated.Ns.*`, re-extracted from
src/definitions/namespaces/** on every run; the interpreter (`Model/Namespaces.lean`) is tied to
the real `FromJson` / `ToNamespaceMap` by correspondence over every table code, every optional
subset sample, every out-of-domain class; `Spec/Namespaces.lean` restates the standards' data
models by hand and is evaluated on the REAL output.
-/
namespace IsoMdl.Ns
open IsoMdl IsoMdl.Cbor IsoMdl.Generated.Ns IsoMdl.Spec.Ns

/-! ### the source's data models are the standards' -/

def genPlain (nameB : List UInt8) : List (List Nat × Bool) :=
  match structs.find? (fun s => s.nameB == nameB) with
  | some s => (s.fields.filter (fun f => f.mode == .plain)).map fun f => (ofAscii f.name, f.optional)
  | none => []

def genSpecial (nameB : List UInt8) : List (List Nat × List Nat × Bool) :=
  match structs.find? (fun s => s.nameB == nameB) with
  | some s => (s.fields.filter (fun f => f.mode != .plain)).map fun f => (ofAscii f.name, ofAscii f.tyB, f.mode == .many)
  | none => []

def kindTy : Kind → Option (List Nat)
  | .latin1 => some (strOfLit "Latin1") | .text => none | .uint => some (strOfLit "u32") | .fullDate => some (strOfLit "FullDate")
  | .tdate => some (strOfLit "TDate") | .tdateOrFullDate => some (strOfLit "TDateOrFullDate") | .bstr => some (strOfLit "ByteStr")
  | .codeStr t _ => some (strOfLit t) | .codeInt _ => none | .present => some (strOfLit "Present") | .county => some (strOfLit "CountyCode")
  | .nested t => some (strOfLit t)

def genTypesAgree (nameB : List UInt8) (model : List Elem) : Bool :=
  match structs.find? (fun s => s.nameB == nameB) with
  | some s => ((s.fields.filter (fun f => f.mode == .plain)).zip model).all fun (f, e) =>
      match kindTy e.kind with | some t => ofAscii f.tyB == t | none => true
  | none => false

/-- Identifiers, order, mandatory/optional status and value types of the plain fields of the mDL
namespace struct in the SOURCE are exactly ISO/IEC 18013-5 Table 5 (as restated by hand in
Spec/Namespaces.lean); the only other fields are the two `many` families and the dynamic
issuing_jurisdiction. -/
theorem C19_mdl_schema_is_standard :
    genPlain (asciiBytes "OrgIso1801351") = isoMdl.map (fun e => (strOfLit e.name, !e.mandatory)) ∧
    genTypesAgree (asciiBytes "OrgIso1801351") isoMdl = true ∧
    genSpecial (asciiBytes "OrgIso1801351") =
      [(strOfLit "age_over_xx", strOfLit "AgeOver", true), (strOfLit "issuing_jurisdiction", strOfLit "IssuingJurisdiction", false),
       (strOfLit "biometric_template_xx", strOfLit "BiometricTemplate", true)] := by
  decide +kernel

/-- likewise for the AAMVA namespace (including the renamed identifiers `aka_family_name.v2`,
`EDL_credential`, `DHS_compliance`, …) -/
theorem C19_aamva_schema_is_standard :
    genPlain (asciiBytes "OrgIso1801351Aamva") = aamva.map (fun e => (strOfLit e.name, !e.mandatory)) ∧
    genTypesAgree (asciiBytes "OrgIso1801351Aamva") aamva = true ∧
    genSpecial (asciiBytes "OrgIso1801351Aamva") = [] := by
  decide +kernel

/-! ### every code table maps each code back to itself -/

def armsInverted (a b : List (Tok × Tok)) : Bool :=
  a.all fun (k, v) => match k, v with
    | .bind, _ => true | .other, _ => true | _, .other => true | _, .bind => true
    | k, v => lookupArm b v == some k

/-- For EVERY code table of both namespaces (ISO 3166-1 alpha-2, UN distinguishing signs, eye and
hair colours, sex, name suffixes, truncation, race/ethnicity, weight range, EDL, DHS compliance):
parsing a code and printing the variant gives the code back, and printing a variant and parsing
gives the variant back — first-match semantics, so duplicated or crossed arms are excluded. -/
theorem C19_every_code_maps_back :
    pairs.all (fun (_, parse, print) => armsInverted parse print && armsInverted print parse) = true := by
  decide +kernel

/-- the tables are all there (13 parse/print pairs) -/
theorem C19_tables_present : pairs.length = 12 := by decide +kernel

/-! ### exactly one element per supplied field, and nothing else (any schema, any record) -/

/-- The element identifiers of an accepted record are exactly: the names of the plain fields for
which a non-null value was supplied, plus what the `many` / dynamic fields contribute (one key
per `age_over_DD` / `biometric_template_*` entry of the record, `issuing_jurisdiction`). Unknown
JSON entries contribute nothing. -/
theorem C19_exactly_the_supplied_fields (m : String) (fuel : Nat) (fields : List Field) (kvs : List (Str × Json))
    (out : List (Bytes × Cbor)) (h : structFields m fuel fields kvs [] = some out) (x : Bytes) :
    x ∈ keysOf out ↔ (∃ f ∈ fields, f.mode = .plain ∧ x = f.name ∧ Supplied kvs f) ∨ (∃ f ∈ fields, dynamicKey kvs f x) := by
  have := structFields_keys m fuel fields kvs [] out h x
  simpa [keysOf] using this

/-- … each identifier once -/
theorem C19_one_element_per_identifier (m : String) (fuel : Nat) (fields : List Field) (kvs : List (Str × Json))
    (out : List (Bytes × Cbor)) (h : structFields m fuel fields kvs [] = some out) : (keysOf out).Nodup :=
  structFields_nodup m fuel fields kvs [] out h (by simp [keysOf])

/-- A record in which a mandatory (non-optional plain) field is missing or null is rejected. -/
theorem C19_missing_mandatory_rejected (m : String) (fuel : Nat) (fields : List Field) (kvs : List (Str × Json))
    (f : Field) (hf : f ∈ fields) (hp : f.mode = .plain) (ho : f.optional = false) (hmiss : ¬ Supplied kvs f) :
    structFields m fuel fields kvs [] = none := by
  cases h : structFields m fuel fields kvs [] with
  | none => rfl
  | some out => exact absurd (structFields_mandatory m fuel fields kvs [] out h f hf hp ho) hmiss

/-- A record with a supplied value that its field's type does not accept is rejected, not altered. -/
theorem C19_out_of_domain_rejected (m : String) (fuel : Nat) (fields : List Field) (kvs : List (Str × Json))
    (f : Field) (hf : f ∈ fields) (hp : f.mode = .plain) (v : Json) (hv : jget kvs (ofAscii f.name) = some v) (hnn : v ≠ .null)
    (hbad : ∀ fuel', leaf m fuel' f.ty v = none) : structFields m fuel fields kvs [] = none := by
  cases h : structFields m fuel fields kvs [] with
  | none => rfl
  | some out =>
    obtain ⟨fuel', c, hc⟩ := structFields_converted m fuel fields kvs [] out h f hf hp v hv hnn
    rw [hbad fuel'] at hc; cases hc

/-! ### prescribed CBOR types and supplied values -/

/-- full-date: tag 1004 around EXACTLY the supplied text, which is a valid calendar date
`YYYY-MM-DD` (four-digit year, no sign) -/
theorem C19_full_date (m : String) (f : Nat) (s : Str) (c : Cbor) (h : leaf m (f+1) "FullDate" (.str s) = some c) :
    c = .tag 1004 (text s) ∧ (parseFullDate s).isSome := by
  have : leaf m (f+1) "FullDate" (.str s) = (parseFullDate s).map fun (y, mo, d) => .tag 1004 (text (showFullDate y mo d)) := by
    simp [leaf]
  rw [this] at h
  cases hp : parseFullDate s with
  | none => simp [hp] at h
  | some ymd =>
    obtain ⟨y, mo, d⟩ := ymd
    simp only [hp, Option.map] at h
    injection h with h
    rw [parse_show_fullDate s y mo d hp] at h
    exact ⟨h.symm, rfl⟩

/-- date-time: tag 0 around a 20-character `YYYY-MM-DDTHH:MM:SSZ` text (UTC, no fraction) -/
theorem C19_tdate (m : String) (f : Nat) (s : Str) (c : Cbor) (h : leaf m (f+1) "TDate" (.str s) = some c) :
    ∃ t, parseTDate s = some t ∧ c = .tag 0 (text (showTDate t)) ∧ (showTDate t).length = 20 ∧ (showTDate t).getLast? = some 90 := by
  have : leaf m (f+1) "TDate" (.str s) = (parseTDate s).map fun t => .tag 0 (text (showTDate t)) := by simp [leaf]
  rw [this] at h
  cases hp : parseTDate s with
  | none => simp [hp] at h
  | some t =>
    simp only [hp, Option.map] at h
    injection h with h
    exact ⟨t, rfl, h.symm, by simp [showTDate, pad4, pad2], by simp [showTDate, pad4, pad2]⟩


/-- … and it DENOTES THE SUPPLIED INSTANT: the emitted UTC date-time is a valid calendar date-time
whose instant (by the civil-date arithmetic of Spec/Time.lean) equals the supplied local time minus
the supplied offset — for every accepted input, whatever offset, fraction or month / year boundary
the conversion crosses; a leap second is represented by the second before. -/
theorem C19_tdate_same_instant (m : String) (f : Nat) (s : Str) (c : Cbor) (h : leaf m (f+1) "TDate" (.str s) = some c) :
    ∃ p t, parseRfc3339 s = some p ∧ c = .tag 0 (text (showTDate t)) ∧ dtInstant t = instantOf p ∧
      ValidDate t.y t.mo t.d ∧ t.h < 24 ∧ t.mi < 60 ∧ t.s < 60 := by
  obtain ⟨t, ht, hc, _, _⟩ := C19_tdate m f s c h
  unfold parseTDate at ht
  obtain ⟨p, hp, hu⟩ := Option.bind_eq_some_iff.mp ht
  obtain ⟨hi, hv, h1, h2, h3⟩ := toUtc_instant p t (parseRfc3339_valid s p hp) hu
  exact ⟨p, t, hp, hc, hi, hv, h1, h2, h3⟩

/-- Latin-1 text: accepted exactly when at most 150 CHARACTERS, all in the two printable Latin-1
ranges, and then emitted unchanged -/
theorem C19_latin1 (m : String) (f : Nat) (s : Str) (c : Cbor) :
    leaf m (f+1) "Latin1" (.str s) = some c ↔ (s.length ≤ 150 ∧ s.all isLatin1 = true ∧ c = text s) := by
  have : leaf m (f+1) "Latin1" (.str s) = if s.length > 150 then none else if s.all isLatin1 then some (text s) else none := by
    simp [leaf]
  rw [this]
  by_cases h1 : s.length > 150
  · simp [h1]; omega
  · by_cases h2 : s.all isLatin1 = true
    · simp only [h1, h2, if_false, if_true, Option.some.injEq]
      constructor
      · intro h; exact ⟨by omega, trivial, h.symm⟩
      · rintro ⟨_, _, h⟩; exact h.symm
    · simp [h1, h2]

theorem C19_u32 (m : String) (f : Nat) (n : Nat) (c : Cbor) :
    leaf m (f+1) "u32" (.uint n) = some c ↔ (n < 2 ^ 32 ∧ c = .uint n) := by
  have : leaf m (f+1) "u32" (.uint n) = if n < 2 ^ 32 then some (.uint n) else none := by simp [leaf]
  rw [this]; by_cases h : n < 2 ^ 32 <;> simp [h, eq_comm]

theorem C19_bytes (m : String) (f : Nat) (s : Str) (c : Cbor) (h : leaf m (f+1) "ByteStr" (.str s) = some c) :
    ∃ b, base64Decode s = some b ∧ c = .bytes b := by
  have : leaf m (f+1) "ByteStr" (.str s) = (base64Decode s).map .bytes := by simp [leaf]
  rw [this] at h
  cases hb : base64Decode s with
  | none => simp [hb] at h
  | some b => simp only [hb, Option.map] at h; injection h with h; exact ⟨b, rfl, h.symm⟩

/-- a value of the wrong JSON type is never coerced -/
theorem C19_wrong_type_rejected (m : String) (f : Nat) (n : Nat) (b : Bool) :
    leaf m (f+1) "Latin1" (.uint n) = none ∧ leaf m (f+1) "FullDate" (.uint n) = none ∧ leaf m (f+1) "u32" (.bool b) = none ∧
    leaf m (f+1) "ByteStr" .null = none ∧ leaf m (f+1) "bool" (.uint n) = none := by
  refine ⟨?_, ?_, ?_, ?_, ?_⟩ <;> (unfold leaf; simp [isPrimitive])

/-! ### the pinned commit violated the property — kept as checked witnesses -/

/-- the pinned `FullDate` printed the year without padding: "0999-01-01" came back as "999-01-01" -/
theorem C19_pinned_fulldate_altered :
    fullDatePinned (strOfLit "0999-01-01") = some (strOfLit "999-01-01") := by decide +kernel
/-- … and accepted a signed year -/
theorem C19_pinned_fulldate_signed : fullDatePinned (strOfLit "+2000-01-01") = some (strOfLit "2000-01-01") := by decide +kernel

/-! non-vacuity -/
example : parseFullDate (strOfLit "2000-02-29") = some (2000, 2, 29) := by decide +kernel
example : parseFullDate (strOfLit "2001-02-29") = none := by decide +kernel
example : (parseTDate (strOfLit "2020-01-01T12:00:00+02:00")).map showTDate = some (strOfLit "2020-01-01T10:00:00Z") := by decide +kernel
example : parseTDate (strOfLit "9999-12-31T23:59:59-01:00") = none := by decide +kernel

end IsoMdl.Ns
