import IsoMdl.Lemmas.Session
import IsoMdl.Spec.Iv
/-
C07 — No IV is reused under a session key; IVs follow ISO 18013-5 9.1.1.5.
`Generated.getInitializationVector` is re-extracted from src/definitions/session.rs on every run;
`World.step` is the hand model of the counter discipline of both session managers (tied by
correspondence: the IV actually used by every real ciphertext is identified by trial decryption).
-/
namespace IsoMdl.Session
open IsoMdl IsoMdl.Spec IsoMdl.Generated

/-- The code's IV function is the ISO one: pre-increment, identifier ‖ big-endian counter —
for every counter value that does not overflow. -/
theorem C07_iv_format (c : UInt32) (r : Bool) (h : getInitializationVector_overflows c r = false) :
    getInitializationVector c r = (c + 1, isoIv r (c.toNat + 1)) := by
  rw [gen_ovf] at h
  have hlt : c.toNat + 1 < 2^32 := by
    simp only [decide_eq_false_iff_not] at h; omega
  exact Prod.ext (gen_iv_fst c r) (gen_iv_snd c r hlt)

/-- The only counter value at which the translated function would overflow is 2^32 - 1; the
callers (`encrypt`/`decrypt`, modelled by `atMax` in `Model/Session.lean`) refuse exactly there. -/
theorem C07_overflow_point (c : UInt32) (r : Bool) :
    getInitializationVector_overflows c r = true ↔ c.toNat = 2^32 - 1 := by
  rw [gen_ovf]
  have := c.toNat_lt
  simp only [decide_eq_true_eq]
  omega

/-- ISO IVs with counters below 2^32 determine direction and counter. -/
theorem C07_iv_injective (r r' : Bool) (n n' : Nat) (hn : n < 2^32) (hn' : n' < 2^32)
    (h : isoIv r n = isoIv r' n') : r = r' ∧ n = n' :=
  isoIv_injective r r' n n' hn hn' h

/-- For every sequence of session operations of both roles (including failed decryptions and
stringify/parse restores) — with NO bound on its length — the (k+1)-th message encrypted in
direction `r` used the ISO IV with counter k+1 … -/
theorem C07_nth_iv (s : Nat) (ops : List Op) (r : Bool) (k : Nat)
    (hk : k < (((World.established s).run ops).dirLog r).length) :
    (((World.established s).run ops).dirLog r)[k]? = some (r, UInt32.ofNat (k+1), isoIv r (k+1)) :=
  ((LogOk_run _ ops (LogOk_established s)) r).2 k hk

/-- … and a direction never encrypts 2^32 or more messages: at `u32::MAX` the code refuses to
encrypt (the "fewer than 2^32 messages per direction" premise of the property is enforced, not
assumed). -/
theorem C07_never_wraps (s : Nat) (ops : List Op) (r : Bool) :
    (((World.established s).run ops).dirLog r).length < 2^32 := by
  have h := ((LogOk_run _ ops (LogOk_established s)) r).1
  have := (((World.established s).run ops).encCtr r).toNat_lt
  omega

/-- Consequently no two encryptions in one direction (= under one key) share an IV … -/
theorem C07_no_reuse (s : Nat) (ops : List Op) (r : Bool) (i j : Nat)
    (hi : i < (((World.established s).run ops).dirLog r).length)
    (hj : j < (((World.established s).run ops).dirLog r).length)
    (h : ((((World.established s).run ops).dirLog r)[i]?).map (·.2.2) =
         ((((World.established s).run ops).dirLog r)[j]?).map (·.2.2)) : i = j := by
  have hlen := C07_never_wraps s ops r
  rw [C07_nth_iv s ops r i hi, C07_nth_iv s ops r j hj] at h
  simp only [Option.map_some, Option.some.injEq] at h
  have := (isoIv_injective r r (i+1) (j+1) (by omega) (by omega) h).2
  omega

/-- … and an IV of one direction never equals an IV of the other direction. -/
theorem C07_directions_disjoint (s : Nat) (ops : List Op) (i j : Nat)
    (hi : i < (((World.established s).run ops).dirLog true).length)
    (hj : j < (((World.established s).run ops).dirLog false).length) :
    ((((World.established s).run ops).dirLog true)[i]?).map (·.2.2) ≠
    ((((World.established s).run ops).dirLog false)[j]?).map (·.2.2) := by
  have hr := C07_never_wraps s ops true
  have hd := C07_never_wraps s ops false
  rw [C07_nth_iv s ops true i hi, C07_nth_iv s ops false j hj]
  simp only [Option.map_some, ne_eq, Option.some.injEq]
  intro h
  have := (isoIv_injective true false (i+1) (j+1) (by omega) (by omega) h).1
  cases this

/-- every IV that any history of either role ever used is a 96-bit AES-GCM nonce whose first eight
bytes are the ISO identifier of the sending role (ISO 18013-5 9.1.1.5) — for every history, every
direction and every position of the log. -/
theorem C07_logged_iv_shape (s : Nat) (ops : List Op) (r : Bool) (k : Nat)
    (hk : k < (((World.established s).run ops).dirLog r).length) :
    ∃ iv, ((((World.established s).run ops).dirLog r)[k]?).map (·.2.2) = some iv ∧
      iv.length = 12 ∧ iv.take 8 = ivIdentifier r := by
  refine ⟨isoIv r (k+1), ?_, isoIv_length r (k+1), ?_⟩
  · rw [C07_nth_iv s ops r k hk]; rfl
  · unfold isoIv; cases r <;> simp [ivIdentifier]

/-- the exhaustion guard itself: with the send counter at `u32::MAX` the reader produces no
request and the device's pending response becomes a bare status message; no counter moves. -/
theorem C07_exhausted_reader (r : Reader) (h : r.encCtr.toNat = 2^32 - 1) :
    r.newRequest = (r, none) := by
  simp [Reader.newRequest, (atMax_iff _).mpr h]

theorem C07_exhausted_device (d : Device) (signed : List (Nat × Nat)) (status : Nat)
    (h : d.encCtr.toNat = 2^32 - 1) (hs : d.st = .signing [] signed status) :
    d.finalizeIfComplete = { d with st := .ready .noData } := by
  have hm := (atMax_iff _).mpr h
  simp [Device.finalizeIfComplete, hs, hm]

/-- Serialising and restoring either session object is invisible to the counters and the log
(the model's restore is stringify followed by parse of Model/StateCodec.lean, proved to give the object back; that the real field contents survive is C14's correspondence). -/
theorem C07_restore_transparent (w : World) :
    w.step .restoreDevice = w ∧ w.step .restoreReader = w := ⟨step_restoreDevice w, step_restoreReader w⟩

/-- non-vacuity: a concrete history with failed decryptions and restores in between; both
directions have entries and satisfy the hypotheses above. -/
example :
    let w := (World.established 7).run
      [.handleRequest (.ct true 7 1 .request false), .prepare [0], .restoreDevice, .submit 5, .retrieve,
       .handleResponse (.ct false 7 1 (.response 0 [(0,5)]) true), .newRequest, .restoreReader,
       .handleRequest .garbage, .newRequest, .prepare [], .submit 0]
    (w.dirLog true).map (·.2.1) = [1, 2, 3] ∧ (w.dirLog false).map (·.2.1) = [1, 2] ∧
    (w.dirLog false).map (·.2.2) = [isoIv false 1, isoIv false 2] := by decide

end IsoMdl.Session
