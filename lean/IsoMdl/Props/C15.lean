import IsoMdl.Model.Partial
import IsoMdl.Spec.PanicJustify
import IsoMdl.Props.C07
/-
C15 — Untrusted input never panics the library.

What a theorem can carry here, and what it cannot:
  (1) the crate's OWN panic-capable operations are enumerated from the source on every run
      (Generated/PanicSites.lean); `Spec.C15.justify` must be total on that enumeration;
  (2) the ones that consume attacker-controlled data are modelled with the panic semantics of
      their primitives (Model/Partial.lean) and proved panic-free for EVERY key / byte string /
      counter; the models are tied to the implementation by a systematic correspondence (every
      coordinate length 0..70, every curve and key type) and a structure-aware mutation search;
  (3) panics, aborts and non-termination inside dependencies (ciborium, coset, p256, x509-cert,
      serde) are outside any model of this crate: for those the check is the mutation search under
      catch_unwind with a wall-clock bound — a search, stated as such in the evidence.
-/
namespace IsoMdl.Partial
open IsoMdl IsoMdl.Wire IsoMdl.Generated

theorem fromExactIter_ne_panic (n : Nat) (b : Bytes) : fromExactIter n b ≠ .panic := by
  unfold fromExactIter; split <;> simp

theorem sec1FromBytes_ne_panic (b : Bytes) : sec1FromBytes b ≠ .panic := by
  unfold sec1FromBytes
  split
  · simp
  · split
    · simp
    · split
      · simp
      · split <;> simp

theorem bind_ne_panic {α β} (o : Out α) (f : α → Out β) (ho : o ≠ .panic) (hf : ∀ a, f a ≠ .panic) :
    o.bind f ≠ .panic := by
  cases o with
  | ok a => exact hf a
  | refused => simp [Out.bind]
  | panic => exact absurd rfl ho

/-- `EncodedPoint::try_from(CoseKey)` returns a point or an error for EVERY COSE key: any curve,
any key type, coordinates of any length, explicit y or sign bit. -/
theorem C15_encodedPoint_never_panics (k : CoseKey) : encodedPoint k ≠ .panic := by
  unfold encodedPoint
  split
  · apply bind_ne_panic _ _ (fromExactIter_ne_panic _ _)
    intro xa
    split
    · exact bind_ne_panic _ _ (fromExactIter_ne_panic _ _) (fun _ => by simp)
    · exact sec1FromBytes_ne_panic _
  · simp

/-- what it accepts is a well-formed SEC1 string for P-256 (so `PublicKey::from_encoded_point`
is handed 33 or 65 bytes, never a short buffer) -/
theorem C15_encodedPoint_ok_shape (k : CoseKey) (b : Bytes) (h : encodedPoint k = .ok b) :
    b.length = 65 ∨ b.length = 33 := by
  unfold encodedPoint at h
  split at h
  · rename_i x y
    unfold fromExactIter at h
    by_cases hx : x.length = 32
    · simp only [hx, if_true, Out.bind] at h
      cases y with
      | value y =>
        by_cases hy : y.length = 32
        · simp only [hy, if_true] at h
          injection h with h; subst h; left; simp [hx, hy]
        · simp [hy] at h
      | signBit odd =>
        right
        cases odd <;> simp [sec1FromBytes, hx] at h <;> (subst h; simp [hx])
    · simp [hx, Out.bind] at h
  · simp at h

/-- the MSO device key in `device_authentication` -/
theorem C15_deviceKeyCoordinates_never_panics (k : CoseKey) : deviceKeyCoordinates k ≠ .panic := by
  unfold deviceKeyCoordinates
  split
  · exact bind_ne_panic _ _ (fromExactIter_ne_panic _ _)
      (fun _ => bind_ne_panic _ _ (fromExactIter_ne_panic _ _) (fun _ => by simp))
  · simp
  · simp

/-- the stored ephemeral key in `process_session_establishment` -/
theorem C15_storedScalar_never_panics (b : Bytes) : storedScalar b ≠ .panic :=
  fromExactIter_ne_panic 32 b

/-- `encrypt`/`decrypt` never reach the overflowing increment: at every counter value they either
refuse or hand `get_initialization_vector` a counter at which the translated source does not
overflow (`Generated.getInitializationVector_overflows`, extracted from session.rs). -/
theorem C15_counter_never_panics (c : UInt32) (r : Bool) :
    nextCounter c.toNat ≠ .panic ∧
    (∀ c', nextCounter c.toNat = .ok c' → getInitializationVector_overflows c r = false ∧ c' < 2 ^ 32) := by
  constructor
  · unfold nextCounter; split <;> simp
  · intro c' h
    unfold nextCounter at h
    split at h
    · simp at h
    · rename_i hne
      injection h with h
      have hov := mt (IsoMdl.Session.C07_overflow_point c r).mp hne
      have := c.toNat_lt
      exact ⟨by simpa using hov, by omega⟩

/-- serialising a validity date (MSO / stored document) never panics, whatever year the shift to
UTC lands in -/
theorem C15_validity_date_never_panics (y : Int) : validityYearToUtc y ≠ .panic := by
  unfold validityYearToUtc
  split
  · simp
  · split <;> simp

/-- every site of the generated inventory has a justification in the table, and every site whose
justification is "modelled" is one of the sites the theorems above speak about -/
theorem C15_inventory_justified (s : PanicSite) :
    (Spec.C15.justify? s).isSome = true ∧
    ((Spec.C15.justify? s).any Spec.C15.Justification.isModelled = true → s.key ∈ Spec.C15.modelledKeys) := by
  cases s <;> decide

/-- the enumeration used for reporting lists every site -/
theorem C15_inventory_enumerated (s : PanicSite) : s ∈ PanicSite.all := by
  cases s <;> decide

/-! The pinned commit violated the property — kept as checked witnesses (negation by example): -/

/-- a P-256 key with a 31-byte x coordinate panicked `EncodedPoint::try_from` -/
theorem C15_pinned_encodedPoint_panics :
    encodedPointPinned (.ec2 .P256 (List.replicate 31 1) (.value (List.replicate 32 2))) = .panic := by decide
/-- every OKP key panicked it (slice `[0..42]` then an 8-byte array) -/
theorem C15_pinned_okp_panics (crv : OKPCurve) (x : Bytes) : encodedPointPinned (.okp crv x) = .panic := by
  unfold encodedPointPinned sliceRange
  by_cases h : 42 ≤ x.length
  · have : ((List.take 42 x).drop 0).length = 42 := by simp; omega
    simp [h, Out.bind, fromSlice]
  · simp [h, Out.bind]
theorem C15_pinned_deviceKey_panics :
    deviceKeyCoordinatesPinned (.ec2 .P384 (List.replicate 48 1) (.value (List.replicate 48 2))) = .panic := by decide
theorem C15_pinned_storedScalar_panics : storedScalarPinned [] = .panic := by decide
theorem C15_pinned_validity_date_panics : validityYearToUtcPinned 10000 = .panic := by decide
theorem C15_pinned_counter_panics : nextCounterPinned (2 ^ 32 - 1) = .panic := by decide

/-! non-vacuity: the accepting branches are inhabited -/
example : encodedPoint (.ec2 .P256 (List.replicate 32 1) (.value (List.replicate 32 2))) =
    .ok (4 :: List.replicate 32 1 ++ List.replicate 32 2) := by decide
example : encodedPoint (.ec2 .P256 (List.replicate 32 1) (.signBit true)) = .ok (3 :: List.replicate 32 1) := by decide
example : encodedPoint (.ec2 .P256 (List.replicate 33 1) (.signBit true)) = .refused := by decide
example : nextCounter 41 = .ok 42 := by decide

end IsoMdl.Partial
