import IsoMdl.Lemmas.Cbor
import IsoMdl.Model.Wire
/-
C10 — Issuer-signed bytes survive decoding, storage and transfer byte-for-byte.
`Wire.Tag24` models src/definitions/helpers/tag24.rs: deserialisation keeps the received byte
string next to the typed view, serialisation emits the kept bytes, never a re-encoding.
`CoseSign1` below models what coset keeps of an issuerAuth / deviceSignature.
-/
namespace IsoMdl.Wire
open IsoMdl IsoMdl.Cbor

/-- Re-emission: whatever was accepted as an embedded item is emitted again as exactly the same
CBOR item (same tag, same embedded bytes), whatever encoding choices were made inside the bytes. -/
theorem C10_tag24_reemits {α : Type} (dec : Cbor → Option α) (c : Cbor) (t : Tag24 α)
    (h : Tag24.fromCbor dec c = some t) : t.toCbor = c := by
  unfold Tag24.fromCbor at h
  split at h
  · rename_i b
    split at h
    · rename_i v _
      cases hd : dec v with
      | none => simp [hd] at h
      | some a => simp [hd] at h; subst h; rfl
    · cases h
  · cases h

/-- The typed view is the decoding of those bytes. -/
theorem C10_typed_view_is_decoding {α : Type} (dec : Cbor → Option α) (b : Bytes) (t : Tag24 α)
    (h : Tag24.fromCbor dec (.tag 24 (.bytes b)) = some t) :
    t.bytes = b ∧ ∃ v, decode b = some v ∧ dec v = some t.inner := by
  simp only [Tag24.fromCbor] at h
  cases hv : decode b with
  | none => simp [hv] at h
  | some v =>
    cases hd : dec v with
    | none => simp [hv, hd] at h
    | some a => simp [hv, hd] at h; subst h; exact ⟨rfl, v, rfl, hd⟩

/-- On the wire: with the outer tag-24 byte-string head in its shortest form, decoding and
re-encoding the embedded item reproduces the wire bytes exactly. -/
theorem C10_wire_bytes_preserved {α : Type} (dec : Cbor → Option α) (b : Bytes) (hb : b.length < 2^64)
    (t : Tag24 α) (h : Tag24.fromCbor dec (.tag 24 (.bytes b)) = some t) :
    (decodeAll (enc (.tag 24 (.bytes b)))).bind (Tag24.fromCbor dec) = some t ∧
    enc t.toCbor = enc (.tag 24 (.bytes b)) := by
  have hw : wf (.tag 24 (.bytes b)) := by simp [wf, hb]
  rw [decodeAll_enc _ hw]
  exact ⟨h, by rw [C10_tag24_reemits dec _ t h]⟩

/-- Any number of store/load cycles (encode, decode again) returns the same item: same embedded
bytes, same typed view. -/
def cycle {α : Type} (dec : Cbor → Option α) (t : Tag24 α) : Option (Tag24 α) :=
  (decodeAll (enc t.toCbor)).bind (Tag24.fromCbor dec)

def cycles {α : Type} (dec : Cbor → Option α) : Nat → Tag24 α → Option (Tag24 α)
  | 0, t => some t
  | n+1, t => (cycle dec t).bind (cycles dec n)

theorem C10_cycles {α : Type} (dec : Cbor → Option α) (t : Tag24 α) (hb : t.bytes.length < 2^64)
    (hv : ∃ v, decode t.bytes = some v ∧ dec v = some t.inner) (n : Nat) :
    cycles dec n t = some t := by
  induction n with
  | zero => rfl
  | succ n ih =>
    have hc : cycle dec t = some t := by
      unfold cycle Tag24.toCbor
      have hw : wf (.tag 24 (.bytes t.bytes)) := by simp [wf, hb]
      rw [decodeAll_enc _ hw]
      obtain ⟨v, h1, h2⟩ := hv
      simp [Tag24.fromCbor, h1, h2]
    simp [cycles, hc, ih]

/-- Lifted to a whole namespace (`IssuerSignedItemBytes` array of any length): if every element of
a received array is accepted, re-emitting the accepted elements gives back the received array, item
for item and in the received order — so the digests the reader (or a later holder) computes over
the re-emitted items are the digests of what the issuer signed, for any hash function `H`. -/
theorem C10_array_reemits {α : Type} (dec : Cbor → Option α) (cs : List Cbor) (ts : List (Tag24 α))
    (h : cs.mapM (Tag24.fromCbor dec) = some ts) : ts.map (·.toCbor) = cs := by
  induction cs generalizing ts with
  | nil => simp at h; subst h; rfl
  | cons c cs ih =>
    rw [List.mapM_cons] at h
    cases hc : Tag24.fromCbor dec c with
    | none => simp [hc] at h
    | some t =>
      cases hr : cs.mapM (Tag24.fromCbor dec) with
      | none => simp [hc, hr] at h
      | some tr =>
        simp [hc, hr] at h; subst h
        simp [C10_tag24_reemits dec c t hc, ih tr hr]

theorem C10_array_digests_stable {α : Type} (dec : Cbor → Option α) (H : Bytes → Bytes)
    (cs : List Cbor) (ts : List (Tag24 α)) (h : cs.mapM (Tag24.fromCbor dec) = some ts) :
    ts.map (fun t => H (enc t.toCbor)) = cs.map (fun c => H (enc c)) := by
  rw [← C10_array_reemits dec cs ts h, List.map_map]; rfl

/-- … and to the whole `IssuerNameSpaces` map (any number of namespaces, each with any number of
items, in the received order of namespaces): accepting and re-emitting it gives back the received
map. -/
theorem C10_namespaces_reemit {α κ : Type} (dec : Cbor → Option α) (nss : List (κ × List Cbor))
    (tss : List (κ × List (Tag24 α)))
    (h : nss.mapM (fun kc => (kc.2.mapM (Tag24.fromCbor dec)).map (fun ts => (kc.1, ts))) = some tss) :
    tss.map (fun kt => (kt.1, kt.2.map (·.toCbor))) = nss := by
  induction nss generalizing tss with
  | nil => simp at h; subst h; rfl
  | cons kc nss ih =>
    rw [List.mapM_cons] at h
    cases hc : kc.2.mapM (Tag24.fromCbor dec) with
    | none => simp [hc] at h
    | some ts =>
      cases hr : nss.mapM (fun kc => (kc.2.mapM (Tag24.fromCbor dec)).map (fun ts => (kc.1, ts))) with
      | none => simp [hc, hr] at h
      | some tr =>
        simp [hc, hr] at h; subst h
        simp [C10_array_reemits dec kc.2 ts hc, ih tr hr]

/-- protected-header bytes, payload bytes, signature and every unprotected entry (hence the
x5chain certificate bytes under label 33) are preserved by parse-then-emit -/
theorem C10_cose_preserved (c : Cbor) (s : CoseSign1) (h : CoseSign1.fromCbor c = some s) : s.toCbor = c := by
  unfold CoseSign1.fromCbor at h
  split at h
  · cases h; rfl
  · cases h; rfl
  · cases h

/-- non-vacuity: an item whose inner bytes are NOT this library's own encoding (non-minimal
integer head 0x1800 for 0, indefinite-length text) is kept byte for byte, although re-encoding its
typed view would give different bytes. -/
example :
    let b : Bytes := [0xa1, 0x7f, 0x61, 0x61, 0xff, 0x18, 0x00]      -- {_"a"_: 0 as 1-byte uint}
    (Tag24.fromCbor some (.tag 24 (.bytes b))).map (·.bytes) = some b ∧
    (decode b).map enc = some [0xa1, 0x61, 0x61, 0x00] := by decide

/-- non-vacuity of the array theorem: a two-element array with differently encoded items is accepted. -/
example :
    let c1 : Cbor := .tag 24 (.bytes [0x18, 0x00])
    let c2 : Cbor := .tag 24 (.bytes [0x00])
    (([c1, c2].mapM (Tag24.fromCbor some)).map (fun ts => ts.map (·.bytes))) = some [[0x18, 0x00], [0x00]] := by
  decide

end IsoMdl.Wire
