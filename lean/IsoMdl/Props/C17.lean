import IsoMdl.Model.Cose
import IsoMdl.Lemmas.Cbor
/-
C17 — COSE_Sign1 / COSE_Mac0 signing payloads and verification follow RFC 8152.
-/
namespace IsoMdl.Cose
open IsoMdl IsoMdl.Cbor

/-- Preparation succeeds exactly when one of attached / detached payload is present, and then
the to-be-signed bytes are the RFC 8152 structure over protected bytes, AAD and that payload. -/
theorem C17_prepared_iff (ctx : String) (prot : Bytes) (att det aad : Option Bytes) (tagged : Bool) :
    (∃ p, prepare ctx prot att det aad tagged = .ok p) ↔ (att.isSome ≠ det.isSome) := by
  cases att <;> cases det <;> simp [prepare]

theorem C17_signature_payload (ctx : String) (prot : Bytes) (att det aad : Option Bytes) (tagged : Bool)
    (p : Prepared) (h : prepare ctx prot att det aad tagged = .ok p) :
    ∃ pl, (att = some pl ∧ det = none ∨ att = none ∧ det = some pl) ∧
      p.signaturePayload = enc (.array [tx ctx, .bytes prot, .bytes (aad.getD []), .bytes pl]) ∧
      p.cose.protectedBytes = prot ∧ p.cose.payload = att ∧ p.cose.tagged = tagged := by
  cases att with
  | none =>
    cases det with
    | none => simp [prepare] at h
    | some d => simp [prepare] at h; subst h; exact ⟨d, Or.inr ⟨rfl, rfl⟩, rfl, rfl, rfl, rfl⟩
  | some a =>
    cases det with
    | none => simp [prepare] at h; subst h; exact ⟨a, Or.inl ⟨rfl, rfl⟩, rfl, rfl, rfl, rfl⟩
    | some d => simp [prepare] at h

/-- Finalizing inserts the supplied signature unchanged and touches nothing else. -/
theorem C17_finalize_inserts (p : Prepared) (sig : Bytes) :
    (finalize p sig).signature = sig ∧ (finalize p sig).protectedBytes = p.cose.protectedBytes ∧
    (finalize p sig).payload = p.cose.payload ∧ (finalize p sig).tagged = p.cose.tagged := ⟨rfl, rfl, rfl, rfl⟩

/-- Verification succeeds exactly when: a registered protected algorithm equals the verifier's,
exactly one payload is available, the signature parses, and the primitive accepts it over the
Sig_structure rebuilt from the received protected bytes, the AAD and that payload. -/
theorem C17_verify_iff (valg : Int) (V : Bytes → Bytes → Option Bool) (c : Cose) (alg : ProtAlg)
    (det aad : Option Bytes) :
    verifySign1 valg V c alg det aad = .success ↔
      (∀ a, alg = .assigned a → a = valg) ∧
      ∃ p, (c.payload = some p ∧ det = none ∨ c.payload = none ∧ det = some p) ∧
        V (sigStructure c.protectedBytes (aad.getD []) p) c.signature = some true := by
  have hsel : ∀ p, selectPayload c.payload det = .ok p ↔
      (c.payload = some p ∧ det = none ∨ c.payload = none ∧ det = some p) := by
    intro p; cases hp : c.payload <;> cases det <;> simp [selectPayload]
  have hbody : sign1Body V c det aad = .success ↔
      ∃ p, (c.payload = some p ∧ det = none ∨ c.payload = none ∧ det = some p) ∧
        V (sigStructure c.protectedBytes (aad.getD []) p) c.signature = some true := by
    unfold sign1Body
    cases hs : selectPayload c.payload det with
    | error e =>
      simp only [reduceCtorEq, false_iff, not_exists, not_and]
      intro p hp; rw [← hsel p, hs] at hp; cases hp
    | ok p =>
      simp only
      constructor
      · intro h
        refine ⟨p, (hsel p).mp hs, ?_⟩
        cases hv : V (sigStructure c.protectedBytes (aad.getD []) p) c.signature with
        | none => simp [hv] at h
        | some b => cases b <;> simp [hv] at h ⊢
      · rintro ⟨q, hq, hv⟩
        have : selectPayload c.payload det = .ok q := (hsel q).mpr hq
        rw [hs] at this; cases this
        simp [hv]
  unfold verifySign1
  cases alg with
  | assigned a =>
    by_cases h : a = valg
    · subst h; simp [algMismatch, hbody]
    · simp [algMismatch, h]
  | absent => simp [algMismatch, hbody]
  | privateUse a => simp [algMismatch, hbody]
  | text => simp [algMismatch, hbody]

/-- A protected algorithm different from the verifier's is refused (before any signature check). -/
theorem C17_alg_mismatch_refused (valg a : Int) (V : Bytes → Bytes → Option Bool) (c : Cose)
    (det aad : Option Bytes) (h : a ≠ valg) :
    verifySign1 valg V c (.assigned a) det aad = .failureAlg := by
  simp [verifySign1, algMismatch, h]

/-- Both or neither payload is an error. -/
theorem C17_payload_exclusive (valg : Int) (V : Bytes → Bytes → Option Bool) (c : Cose) (aad : Option Bytes)
    (p q : Bytes) :
    verifySign1 valg V { c with payload := some p } .absent (some q) aad = .error .doublePayload ∧
    verifySign1 valg V { c with payload := none } .absent none aad = .error .noPayload := by
  simp [verifySign1, algMismatch, sign1Body, selectPayload]

/-- The structure determines its parts: different protected bytes, AAD or payload give different
to-be-signed bytes (so a signature over one is not a signature over the other, for an
unforgeable primitive). -/
theorem C17_structure_injective (ctx : String) (p1 a1 d1 p2 a2 d2 : Bytes)
    (hl : p1.length < 2^64 ∧ a1.length < 2^64 ∧ d1.length < 2^64 ∧ p2.length < 2^64 ∧ a2.length < 2^64 ∧ d2.length < 2^64)
    (hc : (asciiBytes ctx).length < 2^64)
    (h : structure_ ctx p1 a1 d1 = structure_ ctx p2 a2 d2) : p1 = p2 ∧ a1 = a2 ∧ d1 = d2 := by
  unfold structure_ at h
  have := enc_injective _ _ (by simp [wf, wfList, tx, hl, hc]) (by simp [wf, wfList, tx, hl, hc]) h
  simpa using this

/-- Mac0: success iff the tag is HMAC-SHA-256 of the MAC_structure (and the algorithm, if
registered, is HMAC 256/256). -/
theorem C17_mac0_verify_iff (key : Bytes) (c : Cose) (alg : ProtAlg) (det aad : Option Bytes) :
    verifyMac0 key c alg det aad = .success ↔
      (∀ a, alg = .assigned a → a = 5) ∧
      ∃ p, (c.payload = some p ∧ det = none ∨ c.payload = none ∧ det = some p) ∧
        Sha2.hmac256 key (macStructure c.protectedBytes (aad.getD []) p) = c.signature := by
  have hsel : ∀ p, selectPayload c.payload det = .ok p ↔
      (c.payload = some p ∧ det = none ∨ c.payload = none ∧ det = some p) := by
    intro p; cases hp : c.payload <;> cases det <;> simp [selectPayload]
  have hbody : mac0Body key c det aad = .success ↔
      ∃ p, (c.payload = some p ∧ det = none ∨ c.payload = none ∧ det = some p) ∧
        Sha2.hmac256 key (macStructure c.protectedBytes (aad.getD []) p) = c.signature := by
    unfold mac0Body
    cases hs : selectPayload c.payload det with
    | error e =>
      simp only [reduceCtorEq, false_iff, not_exists, not_and]
      intro p hp; rw [← hsel p, hs] at hp; cases hp
    | ok p =>
      simp only
      constructor
      · intro h
        refine ⟨p, (hsel p).mp hs, ?_⟩
        by_cases he : Sha2.hmac256 key (macStructure c.protectedBytes (aad.getD []) p) = c.signature
        · exact he
        · simp [he] at h
      · rintro ⟨q, hq, hv⟩
        have : selectPayload c.payload det = .ok q := (hsel q).mpr hq
        rw [hs] at this; cases this
        simp [hv]
  unfold verifyMac0
  cases alg with
  | assigned a =>
    by_cases h : a = 5
    · subst h; simp [algMismatch, hbody]
    · simp [algMismatch, h]
  | absent => simp [algMismatch, hbody]
  | privateUse a => simp [algMismatch, hbody]
  | text => simp [algMismatch, hbody]

/-- non-vacuity (with a toy primitive whose "signature" of m is m reversed): prepare, finalize
with the honest signature, verify; then alter one field at a time -/
def toyV : Bytes → Bytes → Option Bool := fun m s => if s.isEmpty then none else some (s == m.reverse)
def toyTbs : Bytes := sigStructure [0xa1, 0x01, 0x26] [] [9, 9]
def toyC : Cose := ⟨[0xa1, 0x01, 0x26], none, toyTbs.reverse, false⟩

example : prepare "Signature1" [0xa1, 0x01, 0x26] none (some [9, 9]) none false =
    .ok { cose := ⟨[0xa1, 0x01, 0x26], none, [], false⟩, signaturePayload := toyTbs } := by decide
example : verifySign1 (-7) toyV toyC (.assigned (-7)) (some [9, 9]) none = .success := by decide
example : verifySign1 (-7) toyV toyC (.assigned (-7)) (some [9, 8]) none = .failureSig := by decide
example : verifySign1 (-7) toyV toyC (.assigned (-7)) (some [9, 9]) (some [0]) = .failureSig := by decide
example : verifySign1 (-7) toyV { toyC with protectedBytes := [0xa0] } (.assigned (-7)) (some [9, 9]) none = .failureSig := by
  decide
example : verifySign1 (-7) toyV toyC (.assigned (-35)) (some [9, 9]) none = .failureAlg := by decide
example : verifySign1 (-7) toyV { toyC with signature := [] } (.assigned (-7)) (some [9, 9]) none =
    .error .malformedSignature := by decide
example : verifySign1 (-7) toyV toyC (.assigned (-7)) none none = .error .noPayload := by decide

end IsoMdl.Cose
