import IsoMdl.Model.DeviceAuthReq
import IsoMdl.Model.ResponseFacts
import IsoMdl.Lemmas.Cbor
/-
C11 — Device reports reader authentication Valid only for a verified, trusted reader.
-/
namespace IsoMdl.DeviceAuthReq
open IsoMdl IsoMdl.Cose IsoMdl.ReaderAuth

/-- what a valid reader authentication of ONE document request is -/
def ReaderAuthOk (r : ReqFacts) : Prop :=
  r.present = true ∧ r.x5chainPresent = true ∧ r.x5chainParses = true ∧ r.chainErrors = 0 ∧ r.keyParses = true ∧
  (∀ a, r.alg = .assigned a → a = -7) ∧ r.payloadAttached = false ∧ r.sigParses = true ∧ r.sigAccepts = true

theorem C11_readerAuthOk_iff (r : ReqFacts) : readerAuthOk r = true ↔ ReaderAuthOk r := by
  unfold readerAuthOk ReaderAuthOk verifySign1 sign1Body selectPayload prim algMismatch
  cases hp : r.present <;> cases hx : r.x5chainPresent <;> cases hxp : r.x5chainParses <;> cases hk : r.keyParses <;> simp
  by_cases hc : r.chainErrors = 0
  · cases ha : r.alg <;> cases hd : r.payloadAttached <;> cases hs : r.sigParses <;> cases hacc : r.sigAccepts <;> simp [hc]
    all_goals
      (rename_i a
       by_cases h : a = -7 <;> simp [h])
  · simp [hc]

def okReq : ReqFacts := ⟨true, true, true, 0, true, .assigned (-7), false, true, true⟩
def absentReq : ReqFacts := { okReq with present := false }

/-- FULL-STRENGTH: Valid iff EVERY document request of the message carries a valid readerAuth.
Holds since the `fix:` commit that made `validate_request` examine all document requests (before
it only the first one was examined and `[okReq, absentReq]` was a counterexample). -/
theorem C11_valid_iff_all (reqs : List ReqFacts) (hne : reqs ≠ []) :
    validateRequest reqs = .valid ↔ ∀ r ∈ reqs, ReaderAuthOk r := by
  cases reqs with
  | nil => exact absurd rfl hne
  | cons r rest =>
    simp only [validateRequest]
    constructor
    · intro h x hx
      by_cases hall : (r :: rest).all readerAuthOk = true
      · exact (C11_readerAuthOk_iff x).mp (List.all_eq_true.mp hall x hx)
      · simp [hall] at h
    · intro h
      have : (r :: rest).all readerAuthOk = true :=
        List.all_eq_true.mpr (fun x hx => (C11_readerAuthOk_iff x).mpr (h x hx))
      simp [this]

/-- absent / altered / replayed-from-another-session (the primitive does not accept over this
session's ReaderAuthentication bytes) / untrusted reader authentication on ANY document request
is reported as not Valid -/
theorem C11_not_valid_cases (reqs : List ReqFacts) (r : ReqFacts) (hr : r ∈ reqs)
    (h : r.present = false ∨ r.sigAccepts = false ∨ r.sigParses = false ∨ r.chainErrors ≠ 0 ∨
         r.x5chainPresent = false ∨ r.x5chainParses = false ∨ r.keyParses = false ∨ r.payloadAttached = true) :
    validateRequest reqs ≠ .valid := by
  intro hv
  have hne : reqs ≠ [] := by intro e; rw [e] at hr; cases hr
  obtain ⟨h1, h2, h3, h4, h5, _, h7, h8, h9⟩ := (C11_valid_iff_all reqs hne).mp hv r hr
  rcases h with h | h | h | h | h | h | h | h <;> simp_all

/-- a request whose reader authentication is valid (for all its document requests) is reported Valid -/
theorem C11_valid_reported (reqs : List ReqFacts) (hne : reqs ≠ []) (h : ∀ r ∈ reqs, ReaderAuthOk r) :
    requestStatus true true reqs = .valid := by
  simp [requestStatus, (C11_valid_iff_all reqs hne).mpr h]

theorem C11_unchecked_unless_decoded (d1 d2 : Bool) (reqs : List ReqFacts) (h : (d1 && d2) = false) :
    requestStatus d1 d2 reqs = .unchecked := by
  simp [requestStatus, h]

section Wire
open IsoMdl.ResponseFacts

/-- ReaderAuthenticationBytes = #6.24(bstr .cbor ["ReaderAuthentication", SessionTranscript, ItemsRequestBytes]) -/
def readerAuthenticationBytes (transcript : Cbor) (items : Bytes) : Bytes :=
  Cbor.enc (.tag 24 (.bytes (Cbor.enc (.array [ResponseFacts.tx "ReaderAuthentication", transcript, .tag 24 (.bytes items)]))))

/-- READER AUTHENTICATION FROM THE WIRE: when the model's `sigAccepts` fact holds for a document request
(`readerSigAccepts`, compared with the harness's own verification on every request), the signature in
its readerAuth verifies under the given key over Sig_structure(protected,
ReaderAuthenticationBytes) built from THIS session's transcript and the ItemsRequestBytes of THIS
request exactly as received. -/
theorem C11_wire_reader_signature_bound (docRequest transcript : Cbor) (key : Option (Nat × Nat))
    (h : readerSigAccepts docRequest transcript key = true) :
    ∃ items prot u1 u2 sig x y, fget docRequest "itemsRequest" = some (.tag 24 (.bytes items)) ∧
      (fget docRequest "readerAuth").bind coseArr = some [.bytes prot, u1, u2, .bytes sig] ∧ key = some (x, y) ∧
      ecdsaVerify x y (ResponseFacts.sigStructure prot (readerAuthenticationBytes transcript items)) sig = true := by
  unfold readerSigAccepts at h
  split at h
  · rename_i items prot u1 u2 sig x y h1 h2
    exact ⟨items, prot, u1, u2, sig, x, y, h1, h2, rfl, h⟩
  · simp at h

/-- another transcript or other requested items are other bytes: a readerAuth signature made for another
session, or for another items request, is a signature over DIFFERENT bytes -/
theorem C11_wire_bytes_injective (t t' : Cbor) (i i' : Bytes)
    (hw : Cbor.wf (.array [ResponseFacts.tx "ReaderAuthentication", t, .tag 24 (.bytes i)]))
    (hw' : Cbor.wf (.array [ResponseFacts.tx "ReaderAuthentication", t', .tag 24 (.bytes i')]))
    (hl : (Cbor.enc (.array [ResponseFacts.tx "ReaderAuthentication", t, .tag 24 (.bytes i)])).length < 2^64)
    (hl' : (Cbor.enc (.array [ResponseFacts.tx "ReaderAuthentication", t', .tag 24 (.bytes i')])).length < 2^64)
    (h : readerAuthenticationBytes t i = readerAuthenticationBytes t' i') : t = t' ∧ i = i' := by
  unfold readerAuthenticationBytes at h
  have h1 := Cbor.enc_injective _ _ (by simp [Cbor.wf, hl]) (by simp [Cbor.wf, hl']) h
  simp only [Cbor.tag.injEq, Cbor.bytes.injEq, true_and] at h1
  have h2 := Cbor.enc_injective _ _ hw hw' h1
  simpa using h2

end Wire

example : validateRequest [okReq] = .valid := by decide
example : validateRequest [okReq, absentReq] = .invalid := by decide   -- the former counterexample
example : validateRequest [absentReq, okReq] = .invalid := by decide

end IsoMdl.DeviceAuthReq
