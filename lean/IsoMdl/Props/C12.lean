import IsoMdl.Lemmas.X509
/-
C12 — X.509 validation enforces the Annex B profiles and trust anchoring.
-/
namespace IsoMdl.X509

/-- Reader chains (MdlReaderOneStep): validation succeeds exactly when the leaf is within its
validity period, satisfies the reader profile, and SOME registry anchor of the reader-CA purpose
has the leaf's issuer as subject, a subject key identifier equal to the leaf's authority key
identifier, a key that verifies the leaf's signature and a current validity period. -/
theorem C12_reader_ok_iff (leaf : Cert) (anchors : List Anchor) :
    validate .mdlReaderOneStep leaf anchors = [] ↔
      WithinValidity leaf ∧ ProfileOk .reader leaf ∧ ∃ a ∈ anchors, Anchors leaf .readerCa a := by
  simp only [validate]
  cases hc : candidates leaf anchors .readerCa with
  | nil =>
    simp only [List.append_eq_nil_iff, List.cons_ne_self, and_false, false_iff, reduceCtorEq]
    rintro ⟨_, _, a, ha, hA⟩
    have : a.cert ∈ candidates leaf anchors .readerCa := (mem_candidates _ _ _ _).mpr ⟨a, ha, rfl, hA⟩
    rw [hc] at this; cases this
  | cons c rest =>
    simp only [List.append_eq_nil_iff, checkValidity_nil, roleErrors_nil]
    have : c ∈ candidates leaf anchors .readerCa := by rw [hc]; exact List.mem_cons_self
    obtain ⟨a, ha, _, hA⟩ := (mem_candidates _ _ _ _).mp this
    constructor
    · rintro ⟨h1, h2⟩; exact ⟨h1, h2, a, ha, hA⟩
    · rintro ⟨h1, h2, _⟩; exact ⟨h1, h2⟩

/-- Issuer chains (Mdl): success exactly when the leaf is valid and satisfies the document-signer
profile, an IACA-purpose anchor anchors it, and the FIRST such anchor (registry order) satisfies
the IACA profile, has the same single countryName and, when either certificate names a
state/province, the same single stateOrProvinceName. -/
theorem C12_mdl_ok_iff (leaf : Cert) (anchors : List Anchor) :
    validate .mdl leaf anchors = [] ↔
      WithinValidity leaf ∧ ProfileOk .ds leaf ∧
      ∃ iaca rest, candidates leaf anchors .iaca = iaca :: rest ∧
        SingleEqual leaf.countries iaca.countries ∧ ProfileOk .iaca iaca ∧
        ((leaf.states ≠ [] ∨ iaca.states ≠ []) → SingleEqual leaf.states iaca.states) := by
  simp only [validate, mdlInner]
  cases hc : candidates leaf anchors .iaca with
  | nil => simp
  | cons iaca rest =>
    simp only
    cases hn : nameMatches leaf.countries iaca.countries with
    | some e =>
      have : ¬ SingleEqual leaf.countries iaca.countries := by
        rw [← nameMatches_none, hn]; simp
      split <;> simp [this]
    | none =>
      have hcn := (nameMatches_none _ _).mp hn
      by_cases hst : (!leaf.states.isEmpty || !iaca.states.isEmpty) = true
      · simp only [hst, if_true]
        have hst' : leaf.states ≠ [] ∨ iaca.states ≠ [] := by
          simpa [List.isEmpty_iff] using hst
        cases hs : nameMatches leaf.states iaca.states with
        | some e =>
          have : ¬ SingleEqual leaf.states iaca.states := by rw [← nameMatches_none, hs]; simp
          simp only [List.append_eq_nil_iff, List.cons_ne_self, and_false, false_iff, reduceCtorEq, not_and, not_exists]
          rintro _ _ i r heq _ _ hsr
          obtain ⟨rfl, rfl⟩ := List.cons.inj heq
          exact this (hsr hst')
        | none =>
          have hsn := (nameMatches_none _ _).mp hs
          simp only [List.append_nil, List.append_eq_nil_iff, checkValidity_nil, roleErrors_nil]
          constructor
          · rintro ⟨⟨h1, h2⟩, h3⟩; exact ⟨h1, h2, iaca, rest, rfl, hcn, h3, fun _ => hsn⟩
          · rintro ⟨h1, h2, i, r, heq, _, h3, _⟩
            obtain ⟨rfl, rfl⟩ := List.cons.inj heq
            exact ⟨⟨h1, h2⟩, h3⟩
      · simp only [hst, Bool.false_eq_true, if_false]
        have hst' : ¬ (leaf.states ≠ [] ∨ iaca.states ≠ []) := by
          simpa [List.isEmpty_iff] using hst
        simp only [List.append_nil, List.append_eq_nil_iff, checkValidity_nil, roleErrors_nil]
        constructor
        · rintro ⟨⟨h1, h2⟩, h3⟩; exact ⟨h1, h2, iaca, rest, rfl, hcn, h3, fun h => absurd h hst'⟩
        · rintro ⟨h1, h2, i, r, heq, _, h3, _⟩
          obtain ⟨rfl, rfl⟩ := List.cons.inj heq
          exact ⟨⟨h1, h2⟩, h3⟩

/-- AAMVA rule set: as Mdl, with the state/province equality required unconditionally. -/
theorem C12_aamva_ok_iff (leaf : Cert) (anchors : List Anchor) :
    validate .aamvaMdl leaf anchors = [] ↔
      WithinValidity leaf ∧ ProfileOk .ds leaf ∧
      ∃ iaca rest, candidates leaf anchors .iaca = iaca :: rest ∧
        SingleEqual leaf.countries iaca.countries ∧ ProfileOk .iaca iaca ∧ SingleEqual leaf.states iaca.states := by
  simp only [validate, mdlInner]
  cases hc : candidates leaf anchors .iaca with
  | nil => simp
  | cons iaca rest =>
    simp only
    cases hn : nameMatches leaf.countries iaca.countries with
    | some e =>
      have : ¬ SingleEqual leaf.countries iaca.countries := by rw [← nameMatches_none, hn]; simp
      simp [this]
    | none =>
      have hcn := (nameMatches_none _ _).mp hn
      cases hs : nameMatches leaf.states iaca.states with
      | some e =>
        have : ¬ SingleEqual leaf.states iaca.states := by rw [← nameMatches_none, hs]; simp
        simp [this]
      | none =>
        have hsn := (nameMatches_none _ _).mp hs
        simp only [List.append_nil, List.append_eq_nil_iff, checkValidity_nil, roleErrors_nil]
        constructor
        · rintro ⟨⟨h1, h2⟩, h3⟩; exact ⟨h1, h2, iaca, rest, rfl, hcn, h3, hsn⟩
        · rintro ⟨h1, h2, i, r, heq, _, h3, _⟩
          obtain ⟨rfl, rfl⟩ := List.cons.inj heq
          exact ⟨⟨h1, h2⟩, h3⟩

/-- The trust-anchor candidates are exactly the registry anchors of the matching purpose that
anchor the leaf, in registry order. -/
theorem C12_candidates_iff (leaf : Cert) (anchors : List Anchor) (p : Purpose) (c : Cert) :
    c ∈ candidates leaf anchors p ↔ ∃ a ∈ anchors, a.cert = c ∧ Anchors leaf p a := mem_candidates leaf anchors p c

/-- An anchor registered for the other purpose is never used: removing every anchor of another
purpose from the registry changes no verdict. -/
theorem C12_purpose_separation (leaf : Cert) (anchors : List Anchor) (p : Purpose) :
    candidates leaf anchors p = candidates leaf (anchors.filter (fun a => a.purpose = p)) p := by
  unfold candidates
  congr 4
  induction anchors with
  | nil => rfl
  | cons a l ih =>
    by_cases h : a.purpose = p <;> simp [List.filterMap_cons, List.filter_cons, h, ih]

/-- Any single deviation of the leaf from its profile (or from its validity period) produces at
least one error, in every rule set. -/
theorem C12_leaf_deviation_errors (rs : Ruleset) (leaf : Cert) (anchors : List Anchor)
    (h : ¬ WithinValidity leaf ∨ ¬ ProfileOk (match rs with | .mdlReaderOneStep => .reader | _ => .ds) leaf) :
    validate rs leaf anchors ≠ [] := by
  intro hv
  cases rs with
  | mdl => obtain ⟨h1, h2, _⟩ := (C12_mdl_ok_iff leaf anchors).mp hv; rcases h with h | h <;> contradiction
  | aamvaMdl => obtain ⟨h1, h2, _⟩ := (C12_aamva_ok_iff leaf anchors).mp hv; rcases h with h | h <;> contradiction
  | mdlReaderOneStep => obtain ⟨h1, h2, _⟩ := (C12_reader_ok_iff leaf anchors).mp hv; rcases h with h | h <;> contradiction

/-- … and with no anchor of the matching purpose that anchors the leaf, validation fails. -/
theorem C12_unanchored_errors (rs : Ruleset) (leaf : Cert) (anchors : List Anchor)
    (h : ∀ a ∈ anchors, ¬ Anchors leaf (match rs with | .mdlReaderOneStep => .readerCa | _ => .iaca) a) :
    validate rs leaf anchors ≠ [] := by
  intro hv
  cases rs with
  | mdl =>
    obtain ⟨_, _, i, r, hc, _⟩ := (C12_mdl_ok_iff leaf anchors).mp hv
    have : i ∈ candidates leaf anchors .iaca := by rw [hc]; exact List.mem_cons_self
    obtain ⟨a, ha, _, hA⟩ := (mem_candidates _ _ _ _).mp this
    exact h a ha hA
  | aamvaMdl =>
    obtain ⟨_, _, i, r, hc, _⟩ := (C12_aamva_ok_iff leaf anchors).mp hv
    have : i ∈ candidates leaf anchors .iaca := by rw [hc]; exact List.mem_cons_self
    obtain ⟨a, ha, _, hA⟩ := (mem_candidates _ _ _ _).mp this
    exact h a ha hA
  | mdlReaderOneStep =>
    obtain ⟨_, _, a, ha, hA⟩ := (C12_reader_ok_iff leaf anchors).mp hv
    exact h a ha hA

/-- The executable declarative spec decides the verdict: the library's own validation logic (as
modelled) reports no error EXACTLY for the chains the Annex B statement accepts. -/
theorem C12_spec_decides (rs : Ruleset) (leaf : Cert) (anchors : List Anchor) :
    validate rs leaf anchors = [] ↔ conformsB rs leaf anchors = true := by
  cases rs with
  | mdlReaderOneStep =>
    rw [C12_reader_ok_iff]
    simp [conformsB, withinValidityB_iff, profileOkB_iff, anchorsB_iff, and_assoc]
  | mdl =>
    rw [C12_mdl_ok_iff, candidates_cons_iff leaf anchors .iaca
      (fun i => SingleEqual leaf.countries i.countries ∧ ProfileOk .iaca i ∧ ((leaf.states ≠ [] ∨ i.states ≠ []) → SingleEqual leaf.states i.states))]
    simp only [conformsB, Bool.and_eq_true, withinValidityB_iff, profileOkB_iff, and_assoc]
    cases hf : anchors.find? (anchorsB leaf .iaca) with
    | none => simp
    | some a =>
      simp only [Option.some.injEq, exists_eq_left', Bool.and_eq_true, Bool.or_eq_true, singleEqualB_iff, profileOkB_iff,
        List.isEmpty_iff]
      have key : ((leaf.states ≠ [] ∨ a.cert.states ≠ []) → SingleEqual leaf.states a.cert.states) ↔
          (leaf.states = [] ∧ a.cert.states = [] ∨ SingleEqual leaf.states a.cert.states) := by
        constructor
        · intro h
          by_cases h1 : leaf.states = []
          · by_cases h2 : a.cert.states = []
            · exact Or.inl ⟨h1, h2⟩
            · exact Or.inr (h (Or.inr h2))
          · exact Or.inr (h (Or.inl h1))
        · rintro (⟨h1, h2⟩ | h) hne
          · rcases hne with h | h <;> contradiction
          · exact h
      rw [key]
      constructor
      · rintro ⟨h1, h2, h3, h4, h5⟩; exact ⟨h1, h2, ⟨h3, h4⟩, h5⟩
      · rintro ⟨h1, h2, ⟨h3, h4⟩, h5⟩; exact ⟨h1, h2, h3, h4, h5⟩
  | aamvaMdl =>
    rw [C12_aamva_ok_iff, candidates_cons_iff leaf anchors .iaca
      (fun i => SingleEqual leaf.countries i.countries ∧ ProfileOk .iaca i ∧ SingleEqual leaf.states i.states)]
    simp only [conformsB, Bool.and_eq_true, withinValidityB_iff, profileOkB_iff, and_assoc]
    cases hf : anchors.find? (anchorsB leaf .iaca) with
    | none => simp
    | some a => simp [singleEqualB_iff, profileOkB_iff, and_assoc]

/-- non-vacuity: a conformant chain validates; single deviations do not -/
def goodIaca : Cert :=
  { notBefore := -10, notAfter := 10, subject := 1, issuer := 1, countries := [840], states := [], keyHash := 11, keyIsP256 := true,
    signedBy := [11],
    exts := [⟨.ski, false, .ski 11⟩, ⟨.ku, true, .ku [5, 6]⟩, ⟨.bc, true, .bc true (some 0)⟩, ⟨.ian, false, .ian true⟩,
             ⟨.crldp, false, .crldp [⟨true, false, false⟩]⟩] }
def goodDs : Cert :=
  { notBefore := -10, notAfter := 10, subject := 2, issuer := 1, countries := [840], states := [], keyHash := 22, keyIsP256 := true,
    signedBy := [11],
    exts := [⟨.ski, false, .ski 22⟩, ⟨.aki, false, .aki (some 11)⟩, ⟨.ku, true, .ku [0]⟩, ⟨.ian, false, .ian true⟩,
             ⟨.crldp, false, .crldp [⟨true, false, false⟩]⟩, ⟨.eku, true, .eku [2]⟩] }

example : validate .mdl goodDs [⟨goodIaca, .iaca⟩] = [] := by decide
example : conformsB .mdl goodDs [⟨goodIaca, .iaca⟩] = true := by decide
example : conformsB .mdl { goodDs with exts := goodDs.exts ++ [⟨.eku, false, .eku [1]⟩] } [⟨goodIaca, .iaca⟩] = false := by decide
example : validate .mdl goodDs [⟨goodIaca, .readerCa⟩] = [.noTrustAnchor] := by decide
example : validate .mdl { goodDs with notAfter := -1 } [⟨goodIaca, .iaca⟩] = [.expired] := by decide
example : validate .mdl { goodDs with exts := goodDs.exts ++ [⟨.other 9, true, .opaque⟩] } [⟨goodIaca, .iaca⟩]
    = [.unknownCritical (.other 9)] := by decide
example : validate .mdl goodDs [⟨{ goodIaca with countries := [124] }, .iaca⟩] = [.nameMismatch] := by decide

end IsoMdl.X509
