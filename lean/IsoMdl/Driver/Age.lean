import IsoMdl.Model.Age
import IsoMdl.Spec.Age
namespace IsoMdl.Driver
open IsoMdl IsoMdl.Age

def showErr : Age.Err → String
  | .prefix => "err prefix"
  | .parseInt => "err parseInt"

def parseItems : List String → Nat → Option (List (Bytes × Bool × Nat))
  | [], _ => some []
  | [_], _ => none
  | id :: t :: rest, i =>
    match bytesOfHex id, parseItems rest (i+1) with
    | some b, some r => some ((b, t == "t", i) :: r)
    | _, _ => none

def parseClaims : List String → Option (List (Nat × Bool))
  | [] => some []
  | [_] => none
  | a :: t :: rest =>
    match a.toNat?, parseClaims rest with
    | some n, some r => some ((n, t == "t") :: r)
    | _, _ => none

def ageOp : List String → Option String
  | ["age.parse", id] =>
    (bytesOfHex id).map fun b => match ageOf b with
      | .ok n => s!"ok {n}"
      | .error e => showErr e
  | "age.nearest" :: req :: items =>
    match bytesOfHex req, parseItems items 0 with
    | some r, some its => some (match nearest r its with
      | .ok none => "ok none"
      | .ok (some i) => s!"ok {i}"
      | .error e => showErr e)
    | _, _ => none
  | "spec.age" :: n :: res :: claims =>
    match n.toNat?, parseClaims claims with
    | some n, some cs =>
      let r := if res == "none" then some none else res.toNat?.map some
      r.map fun r => toString (nearestOk n cs r)
    | _, _ => none
  | _ => none

end IsoMdl.Driver
