import IsoMdl.Spec.ReaderAuth
import IsoMdl.Driver.Cose
import IsoMdl.Driver.Session
namespace IsoMdl.Driver
open IsoMdl IsoMdl.Cose IsoMdl.ReaderAuth

def kv (toks : List String) (k : String) : Option String :=
  toks.findSome? fun t => match t.splitOn "=" with
    | [a, b] => if a == k then some b else none
    | _ => none

def kvB (toks : List String) (k : String) : Option Bool := (kv toks k).map (· == "t")

def parseDevKey : String → Option DevKey
  | "p256" => some (.p256 true) | "offcurve" => some (.p256 false) | "badlen" => some .ecBadLength
  | "compressed" => some .compressed | "okp" => some .okp | _ => none

def parseFacts (t : List String) : Option Facts := do
  pure {
    decrypts := ← kvB t "decrypts", decodes := ← kvB t "decodes", hasDocuments := ← kvB t "docs", hasMdlDoc := ← kvB t "mdl",
    x5chainPresent := ← kvB t "x5p", x5chainParses := ← kvB t "x5ok", namespacesPresent := ← kvB t "ns", coreNamespacePresent := ← kvB t "core",
    chainErrors := ← (← kv t "chain").toNat?, issuerKeyParses := ← kvB t "ikey", issuerAlg := ← parseProtAlg (← kv t "ialg"),
    issuerPayloadAttached := ← kvB t "iatt", issuerSigParses := ← kvB t "isp", issuerSigAccepts := ← kvB t "isa",
    msoDecodes := ← kvB t "mso", deviceKey := ← parseDevKey (← kv t "dkey"), deviceAuthIsSignature := ← kvB t "dsig",
    deviceAlg := ← parseProtAlg (← kv t "dalg"), devicePayloadAttached := ← kvB t "datt", deviceSigParses := ← kvB t "dsp",
    deviceSigAccepts := ← kvB t "dsa", digestsMatch := ← kvB t "dig", docTypeMatches := ← kvB t "dt" }

def showStatus : Status → String | .unchecked => "Unchecked" | .invalid => "Invalid" | .valid => "Valid"
def parseStatus : String → Option Status
  | "Unchecked" => some .unchecked | "Invalid" => some .invalid | "Valid" => some .valid | _ => none
def showErrKey : ErrKey → String
  | .decryption => "decryption_errors" | .parsing => "parsing_errors" | .deviceAuth => "device_authentication_errors"
  | .certificate => "certificate_errors" | .issuerAuth => "issuer_authentication_errors"

def readerAuthOp : List String → Option String
  | "resp.outcome" :: t => (parseFacts t).map fun f =>
      let o := handleResponse f
      s!"issuer={showStatus o.issuer} device={showStatus o.device} errors={csv ((o.errors.map showErrKey).mergeSort (· ≤ ·))} data={if o.hasData then "t" else "f"}"
  | "spec.c03" :: issuer :: errsEmpty :: t => do
      let f ← parseFacts t; let s ← parseStatus issuer
      pure (toString (c03Ok f s (errsEmpty == "t")))
  | "spec.c04" :: issuer :: t => do
      let f ← parseFacts t; let s ← parseStatus issuer
      pure (toString (c04Ok f s))
  | "spec.c05" :: device :: t => do
      let f ← parseFacts t; let s ← parseStatus device
      pure (toString (c05Ok f s))
  | _ => none

end IsoMdl.Driver
