import IsoMdl.Model.Report
namespace IsoMdl.Driver
open IsoMdl IsoMdl.Report

def txb (s : String) : Cbor := .text (s.toList.map fun c => UInt8.ofNat c.toNat)

def mapGetB (m : List (Cbor × Cbor)) (k : Cbor) : Option Cbor := (m.find? fun e => e.1 == k).map (·.2)

/-- (identifier, value) of one IssuerSignedItemBytes -/
def itemOf : Cbor → Option (Bytes × Cbor)
  | .tag 24 (.bytes b) => match Cbor.decodeAll b with
    | some (.map m) => match mapGetB m (txb "elementIdentifier"), mapGetB m (txb "elementValue") with
      | some (.text id), some v => some (id, v)
      | _, _ => none
    | _ => none
  | _ => none

/-- `IssuerSigned.nameSpaces`: namespace ↦ items; a repeated namespace key: the last one counts (BTreeMap) -/
def namespacesOf : Cbor → Option (List (Bytes × List (Bytes × Cbor)))
  | .map m => (m.reverse.mapM fun e => match e with
    | (.text ns, .array items) => (items.mapM itemOf).map fun its => (ns, its)
    | _ => none)
  | _ => none

def reportOp : List String → Option String
  | ["report.ns", h] => do
      let b ← bytesOfHex h
      match Cbor.decodeAll b with
      | none => some "not-cbor"
      | some c => match namespacesOf c with
        | none => some "not-namespaces"
        | some nss => let s := String.ofList (renderReport (report nss)); some (if s.isEmpty then "-" else s)
  | _ => none

end IsoMdl.Driver
