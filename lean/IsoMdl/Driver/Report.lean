import IsoMdl.Model.ReportWire
namespace IsoMdl.Driver
open IsoMdl IsoMdl.Report

def reportOp : List String → Option String
  | ["report.ns", h] => do
      let b ← bytesOfHex h
      match Cbor.decodeAll b with
      | none => some "not-cbor"
      | some c => match namespacesOf c with
        | none => some "not-namespaces"
        | some nss => let s := String.ofList (renderReport (report nss)); some (if s.isEmpty then "-" else s)
  | _ => none

end IsoMdl.Driver
