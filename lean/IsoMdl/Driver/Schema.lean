import IsoMdl.Model.WireSchemas
namespace IsoMdl.Driver
open IsoMdl IsoMdl.Cbor IsoMdl.Schema

def schemaOp : List String → Option String
  | ["schema.norm", name, h] => do
      let s ← WireSchemas.byName name
      let b ← bytesOfHex h
      pure (match decodeAll b with
        | none => "err"
        | some c => match norm s c with
          | some c' => s!"ok {hexOfBytes (enc c')}"
          | none => "err")
  | ["spec.schema.conf", name, h] => do
      let s ← WireSchemas.byName name
      let b ← bytesOfHex h
      pure (match decodeAll b with
        | none => "false"
        | some c => toString (conf s c))
  | _ => none

end IsoMdl.Driver
