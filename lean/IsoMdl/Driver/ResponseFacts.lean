import IsoMdl.Model.ResponseFacts
namespace IsoMdl.Driver
open IsoMdl IsoMdl.ResponseFacts

def tf (b : Bool) : String := if b then "t" else "f"

def responseFactsOp : List String → Option String
  | ["facts.crypto", resp, transcript, ikey] => do
      let rb ← bytesOfHex resp; let tb ← bytesOfHex transcript
      let kb ← bytesOfHex ikey
      match decodeValue rb, decodeValue tb with
      | some r, some t =>
        let key := if kb.length == 64 then some (fromBe (kb.take 32), fromBe (kb.drop 32)) else none
        let o := compute r t key
        some s!"isa={tf o.isa} msov={tf o.mso} dkey={o.dkey} dsa={tf o.dsa} dig={tf o.dig} dt={tf o.dt}"
      | _, _ => some "not-cbor"
  | ["facts.readersig", dr, transcript, key] => do
      let db ← bytesOfHex dr; let tb ← bytesOfHex transcript; let kb ← bytesOfHex key
      match decodeValue db, decodeValue tb with
      | some d, some t => some (tf (readerSigAccepts d t (if kb.length == 64 then some (fromBe (kb.take 32), fromBe (kb.drop 32)) else none)))
      | _, _ => some "not-cbor"
  -- does `cbor::from_slice::<ciborium::Value>` accept these bytes (one item from the front)?
  | ["cbor.valueok", h] => (bytesOfHex h).map fun b => tf (decodeValue b).isSome
  | _ => none

end IsoMdl.Driver
