import IsoMdl.Spec.Namespaces
namespace IsoMdl.Driver
open IsoMdl IsoMdl.Cbor IsoMdl.Ns

def jsonOfHex (h : String) : Option Json := do
  let b ← bytesOfHex h
  let c ← decodeAll b
  jsonOfCbor c

def nsOp : List String → Option String
  | ["ns.fromJson", module, name, h] => do
      let j ← jsonOfHex h
      pure (match fromJson module name j with | some c => s!"ok {hexOfBytes (enc c)}" | none => "err")
  | ["ns.leaf", module, ty, h] => do
      let j ← jsonOfHex h
      pure (match leaf module 64 ty j with | some c => s!"ok {hexOfBytes (enc c)}" | none => "err")
  | ["spec.ns", module, name, h, real] => do
      let j ← jsonOfHex h
      let isMdl := name == "OrgIso1801351"
      if real == "panic" then pure "false"
      else if real == "err" then pure (toString (IsoMdl.Spec.Ns.specOk module isMdl j none))
      else
        let hx ← (if real.startsWith "ok_" then some (real.drop 3).toString else none)
        let b ← bytesOfHex hx
        match decodeAll b with
        | some (.map kvs) => pure (toString (IsoMdl.Spec.Ns.specOk module isMdl j (some kvs)))
        | _ => pure "false"
  | _ => none

end IsoMdl.Driver
