import IsoMdl.Spec.X509
namespace IsoMdl.Driver
open IsoMdl.X509

def natList (s : String) (sep : String) : Option (List Nat) :=
  if s == "-" then some [] else (s.splitOn sep).mapM (fun (x : String) => x.toNat?)

def parseExtId (s : String) : Option ExtId :=
  match s with
  | "ski" => some .ski | "ku" => some .ku | "eku" => some .eku | "bc" => some .bc | "crldp" => some .crldp
  | "ian" => some .ian | "aki" => some .aki
  | _ => if s.startsWith "dis" then (s.drop 3).toString.toNat?.map .disallowed
         else if s.startsWith "oth" then (s.drop 3).toString.toNat?.map .other else none

def parsePoint (s : String) : Option DistPoint :=
  match s.toList with
  | [a, b, c] => some ⟨a == 't', b == 't', c == 't'⟩
  | _ => none

def parseExtPayload (s : String) : Option Payload :=
  if s == "u" then some .undecodable else if s == "o" then some .opaque
  else if s.startsWith "ski" then (s.drop 3).toString.toNat?.map .ski
  else if s.startsWith "ku" then (natList (s.drop 2).toString ".").map .ku
  else if s.startsWith "eku" then (natList (s.drop 3).toString ".").map .eku
  else if s.startsWith "bc" then
    match (s.drop 2).toString.toList with
    | ca :: rest => let r := String.ofList rest
                    if r == "n" then some (.bc (ca == 't') none) else r.toNat?.map fun n => .bc (ca == 't') (some n)
    | [] => none
  else if s.startsWith "dp" then
    let r := (s.drop 2).toString
    if r == "-" then some (.crldp []) else ((r.splitOn ".").mapM parsePoint).map .crldp
  else if s.startsWith "ian" then some (.ian ((s.drop 3).toString == "t"))
  else if s.startsWith "aki" then
    let r := (s.drop 3).toString
    if r == "n" then some (.aki none) else r.toNat?.map fun n => .aki (some n)
  else none

def parseExt (s : String) : Option Ext :=
  match s.splitOn "/" with
  | [id, crit, pl] => do
      let i ← parseExtId id; let p ← parseExtPayload pl
      pure ⟨i, crit == "t", p⟩
  | _ => none

/-- `nb:na:sub:iss:countries:states:keyHash:p256:signedBy:exts` -/
def parseCert (s : String) : Option Cert :=
  match s.splitOn ":" with
  | [nb, na, sub, iss, cs, sts, kh, p, sg, exts] => do
      let exts' ← if exts == "-" then some [] else (exts.splitOn "|").mapM parseExt
      pure { notBefore := ← nb.toInt?, notAfter := ← na.toInt?, subject := ← sub.toNat?, issuer := ← iss.toNat?,
             countries := ← natList cs ",", states := ← natList sts ",", keyHash := ← kh.toNat?, keyIsP256 := p == "t",
             signedBy := ← natList sg ",", exts := exts' }
  | _ => none

def parseAnchor (s : String) : Option Anchor :=
  match s.splitOn "@" with
  | [p, c] => (parseCert c).map fun cert => ⟨cert, if p == "iaca" then .iaca else .readerCa⟩
  | _ => none

def errKind : Err → String
  | .expired => "expired" | .notYetValid => "not-yet-valid" | .notAllowed _ => "not-allowed"
  | .unknownCritical _ => "unknown-critical" | .requiredNotFound _ => "required-not-found" | .extInvalid _ => "ext-invalid"
  | .noTrustAnchor => "no-trust-anchor" | .nameMissing => "name-missing" | .nameMultiple => "name-multiple"
  | .nameMismatch => "name-mismatch"

def x509Op : List String → Option String
  | "x509.validate" :: rs :: leaf :: anchors => do
      let r ← (match rs with | "mdl" => some Ruleset.mdl | "aamva" => some .aamvaMdl | "reader" => some .mdlReaderOneStep | _ => none)
      let l ← parseCert leaf; let as ← anchors.mapM parseAnchor
      let errs := validate r l as
      pure (if errs.isEmpty then "ok" else "err " ++ ",".intercalate ((errs.map errKind).mergeSort (· ≤ ·)))
  | "spec.c12" :: rs :: realOk :: leaf :: anchors => do
      let r ← (match rs with | "mdl" => some Ruleset.mdl | "aamva" => some .aamvaMdl | "reader" => some .mdlReaderOneStep | _ => none)
      let l ← parseCert leaf; let as ← anchors.mapM parseAnchor
      pure (toString ((realOk == "t") == conformsB r l as))
  | _ => none

end IsoMdl.Driver
