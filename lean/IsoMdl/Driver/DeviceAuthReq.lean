import IsoMdl.Spec.DeviceAuthReq
import IsoMdl.Driver.ReaderAuth
namespace IsoMdl.Driver
open IsoMdl IsoMdl.Cose IsoMdl.ReaderAuth IsoMdl.DeviceAuthReq

/-- one document request: `p=t;x5p=t;x5ok=t;chain=0;key=t;alg=a:-7;att=f;sp=t;sa=t` -/
def parseReq (s : String) : Option ReqFacts := do
  let t := s.splitOn ";"
  pure { present := ← kvB t "p", x5chainPresent := ← kvB t "x5p", x5chainParses := ← kvB t "x5ok",
         chainErrors := ← (← kv t "chain").toNat?, keyParses := ← kvB t "key", alg := ← parseProtAlg (← kv t "alg"),
         payloadAttached := ← kvB t "att", sigParses := ← kvB t "sp", sigAccepts := ← kvB t "sa" }

def deviceAuthReqOp : List String → Option String
  | "req.status" :: dec :: reqs => do
      let rs ← reqs.mapM parseReq
      pure (showStatus (requestStatus (dec == "t") true rs))
  | "spec.c11" :: status :: reqs => do
      let rs ← reqs.mapM parseReq; let s ← parseStatus status
      pure (toString (c11Ok rs s))
  | _ => none

end IsoMdl.Driver
