import IsoMdl.Model.Disclosure
import IsoMdl.Spec.Disclosure
namespace IsoMdl.Driver
open IsoMdl.Disclosure

def splitNonEmpty (s : String) (sep : String) : List String := (s.splitOn sep).filter (· ≠ "")

def nats (s : String) : Option (List Nat) := (splitNonEmpty s ".").mapM (fun (x : String) => x.toNat?)

/-- `ns=e.e;ns=e` -/
def parseNss (s : String) : Option (List (Key × List Key)) :=
  (splitNonEmpty s ";").mapM fun part =>
    match part.splitOn "=" with
    | [ns, es] => match ns.toNat?, nats es with
      | some n, some l => some (n, l)
      | _, _ => none
    | _ => none

/-- `d:ns=e.e;ns=e|d:...` ; `-` is the empty list -/
def parseDocs (s : String) : Option (List (Key × List (Key × List Key))) :=
  if s == "-" then some [] else
  (splitNonEmpty s "|").mapM fun part =>
    match part.splitOn ":" with
    | [d, nss] => match d.toNat?, parseNss nss with
      | some n, some l => some (n, l)
      | _, _ => none
    | _ => none

def pairs (s : String) : Option (List (Key × Nat)) :=
  (splitNonEmpty s ".").mapM fun p =>
    match p.splitOn "~" with
    | [a, b] => match a.toNat?, b.toNat? with
      | some x, some y => some (x, y)
      | _, _ => none
    | _ => none

def parseItemNss (s : String) : Option (List (Key × List (Key × Nat))) :=
  (splitNonEmpty s ";").mapM fun part =>
    match part.splitOn "=" with
    | [ns, es] => match ns.toNat?, pairs es with
      | some n, some l => some (n, l)
      | _, _ => none
    | _ => none

/-- `d:c:ns=e~it.e~it;...|...` -/
def parseHeld (s : String) : Option Held :=
  if s == "-" then some [] else
  (splitNonEmpty s "|").mapM fun part =>
    match part.splitOn ":" with
    | [d, c, nss] => match d.toNat?, parseItemNss nss with
      | some n, some l => some (n, { canSign := c == "1", namespaces := l })
      | _, _ => none
    | _ => none

def parseOut (s : String) : Option (List (Key × List (Key × List (Key × Nat)))) :=
  if s == "-" then some [] else
  (splitNonEmpty s "|").mapM fun part =>
    match part.splitOn ":" with
    | [d, nss] => match d.toNat?, parseItemNss nss with
      | some n, some l => some (n, l)
      | _, _ => none
    | _ => none

def showNss {β} (f : β → String) (l : List (Key × List β)) : String :=
  ";".intercalate (l.map fun (ns, xs) => s!"{ns}={".".intercalate (xs.map f)}")

def showPrepared (r : List PreparedDoc × List Key) : String :=
  let docs := "|".intercalate (r.1.map fun pd => s!"{pd.docType}:{showNss toString pd.disclosed}:{showNss toString pd.errors}")
  s!"{if docs.isEmpty then "-" else docs}#{if r.2.isEmpty then "-" else ".".intercalate (r.2.map toString)}"

def discOp : List String → Option String
  | ["disc.prepare", held, req, perm] => do
      let h ← parseHeld held; let r ← parseDocs req; let p ← parseDocs perm
      pure (showPrepared (prepare h r p))
  | ["disc.filter", req, perm] => do
      let r ← parseDocs req; let p ← parseDocs perm
      let f := filterPermitted r p
      pure (if f.isEmpty then "-" else "|".intercalate (f.map fun (d, nss) => s!"{d}:{showNss toString nss}"))
  | ["spec.c02.sound", held, req, perm, out, errs, docErrs] => do
      let h ← parseHeld held; let r ← parseDocs req; let p ← parseDocs perm
      let o ← parseOut out; let e ← parseDocs errs; let de ← (if docErrs == "-" then some [] else nats docErrs)
      pure (toString (soundOk h r p o e de))
  | ["spec.c02.complete", held, req, perm, out, errs, docErrs] => do
      let h ← parseHeld held; let r ← parseDocs req; let p ← parseDocs perm
      let o ← parseOut out; let e ← parseDocs errs; let de ← (if docErrs == "-" then some [] else nats docErrs)
      pure (toString (completeOk h r p o e de))
  | _ => none

end IsoMdl.Driver
