import IsoMdl.Model.KeyDerivation
namespace IsoMdl.Driver
open IsoMdl IsoMdl.Cbor IsoMdl.Wire IsoMdl.KeyDerivation

def showRefusal : Refusal → String | .invalidCoseKey => "invalid-cose-key" | .notOnCurve => "not-a-point"

def kdOp : List String → Option String
  | ["kd.session", eng, erk, ho, sc] => do
      let e ← bytesOfHex eng; let k ← bytesOfHex erk; let h ← bytesOfHex ho; let s ← bytesOfHex sc
      let hc ← decode h
      pure (match deviceSession e k hc (fromBe s) with
        | .ok (r, d) => s!"ok {hexOfBytes r} {hexOfBytes d}"
        | .refused _ => "refused"
        | .panic => "panic")
  | ["kd.ble", eng] => do
      let e ← bytesOfHex eng
      pure (match engagementDeviceKey e with | some k => hexOfBytes (bleIdent k) | none => "no-key")
  | ["kd.peer", key] => do
      let b ← bytesOfHex key
      pure (match coseKeyOfBytes b with
        | none => "undecodable"
        | some k => match peerPoint k with
          | .ok (x, y) => s!"ok {hexOfBytes (beBytes 32 x)} {hexOfBytes (beBytes 32 y)}"
          | .refused r => s!"refused"
          | .panic => "panic")
  | ["kd.shared", key, sc] => do
      let b ← bytesOfHex key; let s ← bytesOfHex sc
      pure (match coseKeyOfBytes b with
        | none => "undecodable"
        | some k => match sharedSecret k (fromBe s) with
          | .ok z => s!"ok {hexOfBytes z}"
          | .refused _ => "refused"
          | .panic => "panic")
  | ["kd.sessionKey", z, t, r] => do
      let zb ← bytesOfHex z; let tb ← bytesOfHex t
      pure (hexOfBytes (sessionKey zb tb (r == "t")))
  | ["kd.pub", sc] => do
      let s ← bytesOfHex sc
      pure (match P256.pubOf (fromBe s) with
        | some (x, y) => s!"{hexOfBytes (beBytes 32 x)} {hexOfBytes (beBytes 32 y)}"
        | none => "infinity")
  | _ => none

end IsoMdl.Driver
