import IsoMdl.Model.Wire
import IsoMdl.Spec.Time
namespace IsoMdl.Driver
open IsoMdl IsoMdl.Cbor IsoMdl.Wire

/-- decode bytes to the typed view and re-encode with the model's encoder -/
def reenc {α} (fromC : Cbor → Option α) (toC : α → Cbor) (b : Bytes) : String :=
  match decodeAll b with
  | none => "undecodable"
  | some v => match fromC v with
    | none => "rejected"
    | some x => hexOrDash (enc (toC x))

def jwkCurveName (k : CoseKey) : String :=
  match k with
  | .ec2 .P256 .. => "P-256" | .ec2 .P384 .. => "P-384" | .ec2 .P521 .. => "P-521" | .ec2 .P256K .. => "secp256k1"
  | .okp .X25519 _ => "X25519" | .okp .X448 _ => "X448" | .okp .Ed25519 _ => "Ed25519" | .okp .Ed448 _ => "Ed448"

def wireOp : List String → Option String
  | ["cbor.rt", hex] => (bytesOfHex hex).map fun b =>
      match decodeAll b with
      | some v => hexOrDash (enc v)
      | none => "undecodable"
  | ["wire.sessionData", hex] => (bytesOfHex hex).map (reenc SessionData.fromCbor SessionData.toCbor)
  | ["wire.coseKey", hex] => (bytesOfHex hex).map (reenc CoseKey.fromCbor CoseKey.toCbor)
  | ["wire.sessionEstablishment", hex] => (bytesOfHex hex).map (reenc SessionEstablishment.fromCbor SessionEstablishment.toCbor)
  | ["wire.sessionStatus", n] => n.toNat?.map fun k => match Generated.SessionStatus.ofNat? k with
      | some s => s!"ok {s.toNat}" | none => "rejected"
  | ["wire.responseStatus", n] => n.toNat?.map fun k => match Generated.ResponseStatus.ofNat? k with
      | some s => s!"ok {s.toNat}" | none => "rejected"
  | ["wire.errorCode", n] => n.toInt?.map fun k => match DocumentErrorCode.ofInt? k with
      | some c => s!"ok {c.toInt}" | none => "rejected"
  | ["spec.tdate", txt, secs] => do
      let t ← bytesOfHex txt; let s ← secs.toInt?
      pure (toString (Spec.tdateDenotes t s))
  | ["spec.jwk", key, crv, x, y] => do
      let kb ← bytesOfHex key; let xb ← bytesOfHex x; let yb ← bytesOfHex y
      pure (match (decodeAll kb).bind CoseKey.fromCbor with
        | some k => toString (jwkCurveName k == crv && (match k with
            | .ec2 _ kx (.value ky) => kx == xb && ky == yb
            | .ec2 .. => false
            | .okp _ kx => kx == xb && yb.isEmpty))
        | none => "false")
  | _ => none

end IsoMdl.Driver
