import IsoMdl.Model.Session
import IsoMdl.Spec.Iv
import IsoMdl.Spec.Device
import IsoMdl.Spec.Channel
namespace IsoMdl.Driver
open IsoMdl IsoMdl.Session

def csv (l : List String) : String := if l.isEmpty then "-" else ",".intercalate l

def showSigned (l : List (Nat × Nat)) : String := csv (l.map fun (d, s) => s!"{d}.{s}")

def showPayload : Payload → String
  | .request => "req"
  | .notCbor => "notcbor"
  | .notRequest => "notreq"
  | .response st signed => s!"resp/{st}/{showSigned signed}"

def showMsg : Msg → String
  | .garbage => "garbage"
  | .noData => "nodata"
  | .ct fr s n p t => s!"ct:{if fr then "r" else "d"}:{s}:{n}:{showPayload p}:{if t then "t" else "f"}"

def parseNatList (s : String) : Option (List Nat) :=
  if s == "-" then some [] else (s.splitOn ",").mapM (·.toNat?)

def parseSigned (s : String) : Option (List (Nat × Nat)) :=
  if s == "-" then some [] else (s.splitOn ",").mapM fun e =>
    match e.splitOn "." with
    | [a, b] => match a.toNat?, b.toNat? with
      | some x, some y => some (x, y)
      | _, _ => none
    | _ => none

def parsePayload (s : String) : Option Payload :=
  match s.splitOn "/" with
  | ["req"] => some .request
  | ["notcbor"] => some .notCbor
  | ["notreq"] => some .notRequest
  | ["resp", st, signed] => match st.toNat?, parseSigned signed with
    | some n, some l => some (.response n l)
    | _, _ => none
  | _ => none

def parseMsg (s : String) : Option Msg :=
  match s.splitOn ":" with
  | ["garbage"] => some .garbage
  | ["nodata"] => some .noData
  | ["ct", d, sess, n, p, t] =>
    match sess.toNat?, n.toNat?, parsePayload p with
    | some se, some k, some pl =>
      if (d == "r" || d == "d") && (t == "t" || t == "f") then some (.ct (d == "r") se k pl (t == "t")) else none
    | _, _, _ => none
  | _ => none

def showDevState : DevState → String
  | .awaiting => "awaiting"
  | .signing p s st => s!"signing/{csv (p.map toString)}/{showSigned s}/{st}"
  | .ready m => s!"ready/{showMsg m}"

def summary (w : World) : String :=
  s!"dev={w.dev.encCtr.toNat},{w.dev.decCtr.toNat},{showDevState w.dev.st} rdr={w.rdr.encCtr.toNat},{w.rdr.decCtr.toNat}"

def showDevOutcome : Outcome → String
  | .parsingError => "parsing"
  | .decryptionError => "decryption"
  | .statusOnly => "statusonly"
  | .accepted .request => "accepted:req"
  | .accepted _ => "accepted:malformed"

def showRdrOutcome : Outcome → String
  | .parsingError => "parsing"
  | .decryptionError => "decryption"
  | .statusOnly => "statusonly"
  | .accepted (.response ..) => "accepted:resp"
  | .accepted _ => "parsing"

def lastIv (w w' : World) : String :=
  if w'.log.length == w.log.length then "iv=none"
  else match w'.log.getLast? with
    | some (r, _, iv) => s!"iv={if r then "kr" else "kd"}:{hexOfBytes iv}"
    | none => "iv=none"

def sessOp (w? : Option World) : List String → Option (Option World × String)
  | ["sess.peek"] => w?.map fun w => (some w, summary w)
  | ["sess.new", id] => id.toNat?.map fun n => let w := World.established n; (some w, summary w)
  | "sess.setCounters" :: rest =>
    match w?, rest.mapM (·.toNat?) with
    | some w, some [de, dd, re, rd] =>
      let w' := { w with dev := { w.dev with encCtr := UInt32.ofNat de, decCtr := UInt32.ofNat dd },
                         rdr := { w.rdr with encCtr := UInt32.ofNat re, decCtr := UInt32.ofNat rd } }
      some (some w', summary w')
    | _, _ => none
  | "sess.newRequest" :: [] => w?.map fun w =>
      let w' := w.step .newRequest
      (some w', s!"{match (w.rdr.newRequest).2 with | some m => showMsg m | none => "none"} {lastIv w w'} {summary w'}")
  | ["sess.handleRequest", m] => do
      let w ← w?; let m ← parseMsg m
      let w' := w.step (.handleRequest m)
      pure (some w', s!"{showDevOutcome (w.dev.handleRequest m).2} {summary w'}")
  | ["sess.prepare", docs] => do
      let w ← w?; let ds ← parseNatList docs
      let w' := w.step (.prepare ds)
      pure (some w', summary w')
  | ["sess.getNext"] => w?.map fun w =>
      (some w, match w.dev.getNext with | some d => s!"some:{d}" | none => "none")
  | ["sess.submit", sig] => do
      let w ← w?; let s ← sig.toNat?
      let w' := w.step (.submit s)
      pure (some w', s!"{lastIv w w'} {summary w'}")
  | ["sess.responseReady"] => w?.map fun w => (some w, toString w.dev.responseReady)
  | ["sess.retrieve"] => w?.map fun w =>
      let w' := w.step .retrieve
      (some w', s!"{match (w.dev.retrieve).2 with | some m => showMsg m | none => "none"} {summary w'}")
  | ["sess.handleResponse", m] => do
      let w ← w?; let m ← parseMsg m
      let w' := w.step (.handleResponse m)
      pure (some w', s!"{showRdrOutcome (w.rdr.handleResponse m).2} {summary w'}")
  | ["sess.restoreDevice"] => w?.map fun w => (some (w.step .restoreDevice), summary w)
  | ["sess.restoreReader"] => w?.map fun w => (some (w.step .restoreReader), summary w)
  | ["sess.firstIv"] => w?.map fun w =>
      (some w, match w.log.head? with
        | some (r, _, iv) => s!"iv={if r then "kr" else "kd"}:{hexOfBytes iv}"
        | none => "iv=none")
  | _ => none

def parseDevState (s : String) : Option DevState :=
  match s.splitOn "/" with
  | ["awaiting"] => some .awaiting
  | ["signing", p, sg, st] => do
      let p ← parseNatList p; let sg ← parseSigned sg; let st ← st.toNat?
      pure (.signing p sg st)
  | "ready" :: rest => (parseMsg ("/".intercalate rest)).map .ready
  | _ => none

def parseOptNat (s : String) : Option (Option Nat) :=
  if s == "none" then some none else (s.toNat?).map some

/-- C13 specification predicates on real observations -/
def c13Op : List String → Option String
  | ["spec.c13.offered", o, st] => do
      let o ← parseOptNat o; let st ← parseDevState st; pure (toString (offeredOk o st))
  | ["spec.c13.ready", b, st] => do
      let st ← parseDevState st; pure (toString (readyOk (b == "true") st))
  | ["spec.c13.notstuck", st] => do
      let st ← parseDevState st; pure (toString (!st.stuck))
  | ["spec.c13.retrieve", got, b, a] => do
      let b ← parseDevState b; let a ← parseDevState a
      let g ← if got == "none" then some none else (parseMsg got).map some
      pure (toString (retrieveOk g b a))
  | ["spec.c13.prepare", docs, st] => do
      let ds ← parseNatList docs; let st ← parseDevState st; pure (toString (prepareOk ds st))
  | ["spec.c13.malformed", st] => do
      let st ← parseDevState st; pure (toString (malformedOk st))
  | ["spec.c13.submit", b, a, o, sig] => do
      let b ← parseDevState b; let a ← parseDevState a; let o ← parseOptNat o; let sig ← sig.toNat?
      pure (toString (submitOk b a o sig))
  | _ => none

/-- equality of two observation digests (twin runs) -/
def eqOp : List String → Option String
  | ["spec.eq", a, b] => some (toString (a == b))
  | _ => none

def c06Op : List String → Option String
  | ["spec.c06", honest, outcome, unchanged, hasData] =>
      some (toString (Spec.rejectInertOk (honest == "t") outcome (unchanged == "t") (hasData == "t")))
  | ["spec.c06seq", acc, dirOk, sessOk, tampered, n, maxAcc, rej] =>
      match n.toNat?, maxAcc.toNat?, rej.toNat? with
      | some n, some m, some r => some (toString (Spec.acceptWindowOk (acc == "t") (dirOk == "t") (sessOk == "t") (tampered == "t") n m r))
      | _, _, _ => none
  | ["spec.c06w", outcome, unchanged, hasData] =>
      some (toString (Spec.rejectOrUnparsedOk outcome (unchanged == "t") (hasData == "t")))
  | _ => none

/-- leaf function (generated) and the ISO predicate on real observations -/
def ivOp : List String → Option String
  | ["iv.fn", c, reader] => c.toNat?.map fun n =>
      let r := reader == "true"
      let c32 := UInt32.ofNat n
      if Generated.getInitializationVector_overflows c32 r then "panic"
      else let (c', iv) := Generated.getInitializationVector c32 r
           s!"{c'.toNat} {hexOrDash iv}"
  | ["spec.iv", reader, n, obs] =>
      match n.toNat?, obs.splitOn ":" with
      | some k, [c, iv] => match c.toNat?, bytesOfHex iv with
        | some c', some b => some (toString (c' == k && Spec.isIsoIv (reader == "true") k b))
        | _, _ => some "false"
      | some _, _ => some "false"
      | _, _ => none
  | _ => none

end IsoMdl.Driver
