import IsoMdl.Model.Issuance
import IsoMdl.Spec.Issuance
import IsoMdl.Spec.Cddl
import IsoMdl.Model.Wire
namespace IsoMdl.Driver
open IsoMdl IsoMdl.Cbor IsoMdl.Issuance

def parseAlg : String → Option DigestAlg
  | "SHA-256" => some .sha256 | "SHA-384" => some .sha384 | "SHA-512" => some .sha512 | _ => none

def hexList (s : String) : Option (List Bytes) :=
  if s == "-" then some [] else (s.splitOn ",").mapM bytesOfHex

def hexPairs (s : String) : Option (List (Bytes × Bytes)) :=
  if s == "-" then some [] else (s.splitOn ",").mapM fun e =>
    match e.splitOn "=" with
    | [a, b] => match bytesOfHex a, bytesOfHex b with
      | some x, some y => some (x, y)
      | _, _ => none
    | _ => none

def intPairs (s : String) : Option (List (Int × Bytes)) :=
  if s == "-" then some [] else (s.splitOn ",").mapM fun e =>
    match e.splitOn "=" with
    | [a, b] => match a.toInt?, bytesOfHex b with
      | some x, some y => some (x, y)
      | _, _ => none
    | _ => none

def optNats (s : String) : Option (Option (List Nat)) :=
  if s == "none" then some none else if s == "-" then some (some []) else ((s.splitOn ",").mapM (fun (x : String) => x.toNat?)).map some

def cget (k : String) (c : Cbor) : Option Cbor :=
  match c with
  | .map kvs => lookup (tx k) kvs
  | _ => none

/-- issuerAuth / MSO shape of C09 on observed bytes -/
def authOk (alg : Int) (docType : Bytes) (digestAlg : String) (protectedB x5got x5want payload retMso sigPayload : Bytes)
    (validity : List Bytes) : Bool :=
  -- protected header names exactly the signer's algorithm
  (match decodeAll protectedB with
   | some (.map [(k, v)]) => beq k (.uint 1) && beq v (ofInt alg)
   | _ => false) &&
  -- unprotected header carries the signer's x5chain under label 33
  x5got == x5want &&
  -- payload = #6.24(bstr .cbor MSO) and the returned MSO is that MSO
  (match decodeAll payload with
   | some (.tag 24 (.bytes b)) =>
     b == retMso && payload == enc (tag24 b) &&
     (match decodeAll b with
      | some mso =>
        (match cget "version" mso with | some v => beq v (tx "1.0") | none => false) &&
        (match cget "docType" mso with | some v => beq v (.text docType) | none => false) &&
        (match cget "digestAlgorithm" mso with | some v => beq v (tx digestAlg) | none => false) &&
        (match cget "validityInfo" mso with
         | some vi =>
           (match cget "signed" vi, cget "validFrom" vi, cget "validUntil" vi with
            | some (.tag 0 (.text a)), some (.tag 0 (.text b')), some (.tag 0 (.text c)) => [a, b', c] == validity
            | _, _, _ => false)
         | none => false)
      | none => false)
   | _ => false) &&
  -- to-be-signed bytes are the RFC 8152 Sig_structure
  sigPayload == enc (.array [tx "Signature1", .bytes protectedB, .bytes [], .bytes payload])

/-- C18: the independent CDDL validator on raw bytes -/
def cddlOp : List String → Option String
  | [op, hex] =>
    if !op.startsWith "cddl." then none else
    match bytesOfHex hex with
    | none => none
    | some b =>
      let p : Option (Cbor → Bool) := match op with
        | "cddl.deviceEngagement" => some Cddl.deviceEngagement
        | "cddl.sessionEstablishment" => some Cddl.sessionEstablishment
        | "cddl.sessionData" => some Cddl.sessionData
        | "cddl.deviceRequest" => some Cddl.deviceRequest
        | "cddl.deviceResponse" => some Cddl.deviceResponse
        | "cddl.mso" => some Cddl.mso
        | "cddl.msoTagged" => some (Cddl.tag24 Cddl.mso)
        | "cddl.documentAlg" => some Cddl.deviceAlgMatchesKey
        | "cddl.coseKey" => some Cddl.coseKey
        | _ => none
      p.map fun f => match decodeAll b with
        | some v => toString (f v)
        | none => "false"
  | _ => none

/-- C10: what the Tag24 model does with a received embedded item -/
def tag24Op : List String → Option String
  | ["c10.tag24", hex] => (bytesOfHex hex).map fun w =>
      match (decodeAll w).bind (Wire.Tag24.fromCbor some) with
      | none => "rejected"
      | some t =>
        match parseItem t.bytes with
        | some it => s!"reemit={hexOrDash (enc t.toCbor)} id={it.digestId} random={hexOrDash it.random} ident={hexOrDash it.ident} value={hexOrDash (enc it.value)}"
        | none => s!"reemit={hexOrDash (enc t.toCbor)} view=unparsed"
  | ["c10.cose", hex] => (bytesOfHex hex).map fun w =>
      match (decodeAll w).bind Wire.CoseSign1.fromCbor with
      | none => "rejected"
      | some c => s!"protected={hexOrDash c.protectedBytes} payload={match c.payload with | some p => hexOrDash p | none => "nil"} signature={hexOrDash c.signature} x5chain={match lookup (.uint 33) c.unprotected with | some v => hexOrDash (enc v) | none => "none"}"
  | _ => none

def issuanceOp : List String → Option String
  | ["did.new", i] => i.toInt?.map fun n =>
      let x := Int32.ofInt n
      if Generated.digestIdNew_overflows x then "panic" else toString (Generated.digestIdNew x).toInt
  | ["spec.did", r] => some (match r.toInt? with
      | some n => toString (decide (0 ≤ n ∧ n ≤ 2147483647))
      | none => "false")
  | ["c09.digest", alg, item] => do
      let a ← parseAlg alg; let b ← bytesOfHex item
      pure (hexOfBytes (digestOfItemBytes (hashOf a) b))
  | ["spec.c09.ns", alg, decoys, supplied, items, digests] => do
      let a ← parseAlg alg; let s ← hexPairs supplied; let it ← hexList items; let d ← intPairs digests
      pure (toString (namespaceOk (hashOf a) (digestLen a) s it d (decoys == "t")))
  | ["c09.refuse", sizes, ns, de] => do
      let sz ← parseNatCsv sizes; let n ← optNats ns; let d ← optNats de
      pure (if prepareAccepts sz n d then "accepted" else "refused")
  | ["spec.c09.refusal", sizes, ns, de, outcome] => do
      let sz ← parseNatCsv sizes; let n ← optNats ns; let d ← optNats de
      pure (toString (refusalOk sz n d (outcome == "refused")))
  | ["spec.c09.auth", alg, docType, dalg, prot, x5got, x5want, payload, retMso, sigp, validity, verifies] => do
      let a ← alg.toInt?; let dt ← bytesOfHex docType
      let p ← bytesOfHex prot; let g ← bytesOfHex x5got; let w ← bytesOfHex x5want
      let pl ← bytesOfHex payload; let rm ← bytesOfHex retMso; let sp ← bytesOfHex sigp
      let v ← hexList validity
      pure (toString (authOk a dt dalg p g w pl rm sp v && verifies == "t"))
  | _ => none
where parseNatCsv (s : String) : Option (List Nat) :=
  if s == "-" then some [] else (s.splitOn ",").mapM (fun (x : String) => x.toNat?)

end IsoMdl.Driver
