import IsoMdl.Model.Honest
namespace IsoMdl.Driver
open IsoMdl IsoMdl.Session IsoMdl.Honest

def parseSets (s : String) : Option (List (Nat × List Nat)) :=
  if s == "-" then some [] else
  (s.splitOn ";").mapM fun part => match part.splitOn ":" with
    | [ns, es] => do
        let n ← ns.toNat?
        let l ← if es == "-" then some [] else (es.splitOn ",").mapM (·.toNat?)
        pure (n, l)
    | _ => none

def memSet (m : List (Nat × List Nat)) (ns e : Nat) : Bool := m.any fun (n, es) => n == ns && es.contains e

/-- `reported` = requested ∩ permitted ∩ held, namespace by namespace, as sets -/
def elemsOk (req perm held rep : List (Nat × List Nat)) : Bool :=
  (rep.all fun (ns, es) => es.all fun e => memSet req ns e && memSet perm ns e && memSet held ns e) &&
  (held.all fun (ns, es) => es.all fun e => !(memSet req ns e && memSet perm ns e) || memSet rep ns e)

def honestOp : List String → Option String
  | ["spec.c01.elems", req, perm, held, rep] => do
      let r ← parseSets req; let p ← parseSets perm; let h ← parseSets held; let o ← parseSets rep
      pure (toString (elemsOk r p h o))
  | ["c01.rounds", counts] => do
      let ns ← (counts.splitOn ",").mapM (·.toNat?)
      -- first answer to the request inside the establishment, then further rounds
      let w := World.established 1
      match ns with
      | [] => none
      | n0 :: rest =>
        let mk := fun (n : Nat) => (List.range n, (List.range n).map (· + 100))
        let (d0, r0, o0) := answer w.dev w.rdr (mk n0).1 (mk n0).2
        let outs := rounds d0 r0 (rest.map fun n => ⟨(mk n).1, (mk n).2⟩)
        let okFirst := match o0 with | some (.accepted (.response 0 _)) => true | _ => false
        let okRest := outs.all fun (o1, o2) => o1 == some (.accepted .request) && (match o2 with | some (.accepted (.response 0 _)) => true | _ => false)
        let fin := rest.foldl (fun (dr : Device × Reader) n => let x := round dr.1 dr.2 (mk n).1 (mk n).2; (x.1, x.2.1)) (d0, r0)
        pure s!"{if okFirst && okRest then "all-accepted" else "not-accepted"} dev={fin.1.encCtr.toNat},{fin.1.decCtr.toNat} rdr={fin.2.encCtr.toNat},{fin.2.decCtr.toNat}"
  | _ => none

end IsoMdl.Driver
