import IsoMdl.Model.Partial
namespace IsoMdl.Driver
open IsoMdl IsoMdl.Cbor IsoMdl.Wire IsoMdl.Partial

def showOutBytes : Out Bytes → String
  | .ok b => s!"ok:{hexOfBytes b}"
  | .refused => "refused"
  | .panic => "panic"

def partialOp : List String → Option String
  | ["c15.encodedPoint", h] => do
      let b ← bytesOfHex h
      pure (match decode b with
        | some c => match CoseKey.fromCbor c with
          | some k => showOutBytes (encodedPoint k)
          | none => "undecodable"
        | none => "undecodable")
  | ["c15.deviceKey", h] => do
      let b ← bytesOfHex h
      pure (match decode b with
        | some c => match CoseKey.fromCbor c with
          | some k => showOutBytes (deviceKeyCoordinates k)
          | none => "undecodable"
        | none => "undecodable")
  | ["c15.storedKeyLen", l] => do
      let n ← l.toNat?
      pure (match storedScalar (List.replicate n 7) with | .ok _ => "ok" | .refused => "refused" | .panic => "panic")
  | ["c15.counterLimit", c] => do
      let n ← c.toNat?
      pure (match nextCounter n with | .panic => "panic" | _ => "no-panic")
  | _ => none

end IsoMdl.Driver
