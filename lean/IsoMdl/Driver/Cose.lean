import IsoMdl.Model.Cose
import IsoMdl.Model.ResponseFacts
namespace IsoMdl.Driver
open IsoMdl IsoMdl.Cose

def optHex (s : String) : Option (Option Bytes) :=
  if s == "none" then some none else (bytesOfHex s).map some

def parseProtAlg (s : String) : Option ProtAlg :=
  if s == "absent" then some .absent else if s == "text" then some .text else
  match s.splitOn ":" with
  | ["a", n] => n.toInt?.map .assigned
  | ["p", n] => n.toInt?.map .privateUse
  | _ => none

def showVerdict : Verdict → String
  | .success => "success"
  | .failureAlg => "failure-alg"
  | .failureSig => "failure-sig"
  | .error .doublePayload => "error-double-payload"
  | .error .noPayload => "error-no-payload"
  | .error .malformedSignature => "error-malformed-signature"

def ctxOf (s : String) : String := if s == "mac" then "MAC0" else "Signature1"

def coseOp : List String → Option String
  | ["cose.tbs", ctx, prot, aad, payload] => do
      let p ← bytesOfHex prot; let a ← optHex aad; let pl ← bytesOfHex payload
      pure (hexOfBytes (structure_ (ctxOf ctx) p (a.getD []) pl))
  | ["cose.prepare", ctx, prot, att, det, aad] => do
      let p ← bytesOfHex prot; let a ← optHex att; let d ← optHex det; let ad ← optHex aad
      pure (match prepare (ctxOf ctx) p a d ad false with
        | .ok pr => s!"ok {hexOfBytes pr.signaturePayload}"
        | .error .doublePayload => "err double-payload"
        | .error .noPayload => "err no-payload"
        | .error .malformedSignature => "err malformed")
  | ["cose.verifySign1", valg, alg, att, det, aad, prot, parses, accepts] => do
      let v ← valg.toInt?; let al ← parseProtAlg alg; let a ← optHex att; let d ← optHex det; let ad ← optHex aad
      let p ← bytesOfHex prot
      let prim : Bytes → Bytes → Option Bool := fun _ _ => if parses == "t" then some (accepts == "t") else none
      pure (showVerdict (verifySign1 v prim ⟨p, a, [], false⟩ al d ad))
  -- the same with the model's OWN primitive: ECDSA P-256 over the executable curve arithmetic (no oracle from the harness);
  -- a signature "parses" when it is 64 bytes with r and s in [1, n-1] (`p256::ecdsa::Signature::from_slice`)
  | ["cose.verifySign1x", valg, alg, att, det, aad, prot, sig, key] => do
      let v ← valg.toInt?; let al ← parseProtAlg alg; let a ← optHex att; let d ← optHex det; let ad ← optHex aad
      let p ← bytesOfHex prot; let sg ← bytesOfHex sig; let kb ← bytesOfHex key
      let prim : Bytes → Bytes → Option Bool := fun m s =>
        let r := fromBe (s.take 32); let ss := fromBe (s.drop 32)
        if s.length != 64 || r == 0 || r ≥ P256.n || ss == 0 || ss ≥ P256.n then none
        else some (ResponseFacts.ecdsaVerify (fromBe (kb.take 32)) (fromBe (kb.drop 32)) m s)
      pure (showVerdict (verifySign1 v prim ⟨p, a, sg, false⟩ al d ad))
  | ["cose.verifyMac0", key, alg, att, det, aad, prot, tag] => do
      let k ← bytesOfHex key; let al ← parseProtAlg alg; let a ← optHex att; let d ← optHex det; let ad ← optHex aad
      let p ← bytesOfHex prot; let t ← bytesOfHex tag
      pure (showVerdict (verifyMac0 k ⟨p, a, t, false⟩ al d ad))
  | _ => none

end IsoMdl.Driver
