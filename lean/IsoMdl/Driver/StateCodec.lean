import IsoMdl.Model.StateCodec
import IsoMdl.Driver.Session
namespace IsoMdl.Driver
open IsoMdl IsoMdl.Session IsoMdl.StateCodec

def strOfNats (l : List Nat) : String := String.ofList (l.map Char.ofNat)
def natsOfStr (s : String) : List Nat := s.toList.map (·.toNat)

def keyName : Cbor → String
  | .text b => strOfNats (b.map (·.toNat))
  | _ => "?"

def mapKeys : Cbor → String
  | .map kvs => ",".intercalate (kvs.map fun (k, _) => keyName k)
  | _ => "?"

def mapGet (c : Cbor) (k : String) : Option Cbor :=
  match c with
  | .map kvs => (kvs.find? fun (k', _) => k' == tx k).map (·.2)
  | _ => none

def showCtr : Option Cbor → String
  | some (.uint n) => toString n
  | _ => "?"

/-- the shape of a stored `State` value -/
def variantShape : Cbor → String
  | .text b => strOfNats (b.map (·.toNat))
  | .map [(k, v)] =>
    -- the prepared response is a struct (its field names are part of the shape); the staged
    -- response is opaque bytes in the real state and a symbolic message in the model
    if keyName k == "Signing" then s!"Signing:{mapKeys v}" else keyName k
  | _ => "?"

/-- shape of the model's own stored form of an abstract device / reader state -/
def stateCodecOp : List String → Option String
  | ["b64.enc", h] => (bytesOfHex h).map fun b => let s := strOfNats (b64Encode b); if s.isEmpty then "-" else s
  | ["b64.dec", s] => some (match b64Decode (natsOfStr (if s == "-" then "" else s)) with
      | some b => hexOrDash b
      | none => "none")
  -- a REAL stringified session manager, read with the model's base64 and CBOR decoders
  | ["codec.peek", role, s] =>
    match b64Decode (natsOfStr s) with
    | none => some "not-base64"
    | some bytes => match Cbor.decodeAll bytes with
      | none => some "not-cbor"
      | some c =>
        if role == "dev" then
          some s!"{mapKeys c} ctr={showCtr (mapGet c "device_message_counter")},{showCtr (mapGet c "reader_message_counter")} state={match mapGet c "state" with | some v => variantShape v | none => "?"}"
        else
          some s!"{mapKeys c} ctr={showCtr (mapGet c "reader_message_counter")},{showCtr (mapGet c "device_message_counter")}"
  -- the MODEL's stored form of the abstract state with these counters and this state
  | ["codec.shape", "dev", e, d, st] => do
      let e ← e.toNat?; let d ← d.toNat?; let st ← parseDevState st
      let c := devToCbor { sess := 1, encCtr := UInt32.ofNat e, decCtr := UInt32.ofNat d, st := st }
      pure s!"{mapKeys c} ctr={showCtr (mapGet c "device_message_counter")},{showCtr (mapGet c "reader_message_counter")} state={match mapGet c "state" with | some v => variantShape v | none => "?"}"
  | ["codec.shape", "rdr", e, d] => do
      let e ← e.toNat?; let d ← d.toNat?
      let c := rdrToCbor { sess := 1, encCtr := UInt32.ofNat e, decCtr := UInt32.ofNat d }
      pure s!"{mapKeys c} ctr={showCtr (mapGet c "reader_message_counter")},{showCtr (mapGet c "device_message_counter")}"
  | _ => none

end IsoMdl.Driver
