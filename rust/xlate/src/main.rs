fn main() {
    let args: Vec<String> = std::env::args().collect();
    let _repo = &args[1];
    let out = &args[2];
    std::fs::create_dir_all(out).unwrap();
}
