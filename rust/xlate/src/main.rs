//! xlate: translates the pure leaf functions and tables of /repo/src into Lean definitions
//! (lean/IsoMdl/Generated/*.lean).  AST based (syn): formatting, comments and argument names of
//! *other* items do not matter; a construct outside the supported subset is reported as
//! `untranslated: <item> <reason>` on stdout and never guessed.
use std::collections::BTreeMap;
use std::path::{Path, PathBuf};

mod leaf;
mod panics;
mod schema;
mod serde_structs;
mod tables;

pub struct Out {
    pub files: BTreeMap<String, String>,
    pub untranslated: Vec<String>,
}

pub fn parse_file(p: &Path) -> Option<syn::File> {
    let src = std::fs::read_to_string(p).ok()?;
    syn::parse_file(&src).ok()
}

/// Items of a file with `#[cfg(test)]` modules removed.
pub fn non_test_items(f: &syn::File) -> Vec<&syn::Item> {
    f.items.iter().filter(|it| !is_cfg_test(item_attrs(it))).collect()
}

pub fn item_attrs(it: &syn::Item) -> &[syn::Attribute] {
    match it {
        syn::Item::Mod(m) => &m.attrs,
        syn::Item::Fn(m) => &m.attrs,
        syn::Item::Impl(m) => &m.attrs,
        syn::Item::Enum(m) => &m.attrs,
        syn::Item::Struct(m) => &m.attrs,
        _ => &[],
    }
}

pub fn is_cfg_test(attrs: &[syn::Attribute]) -> bool {
    attrs.iter().any(|a| {
        a.path().is_ident("cfg") && {
            let s = quote::ToTokens::to_token_stream(a).to_string();
            s.contains("test")
        }
    })
}

fn write_if_changed(path: &PathBuf, content: &str) {
    if let Ok(old) = std::fs::read_to_string(path) {
        if old == content { return; }
    }
    std::fs::write(path, content).unwrap();
}

fn main() {
    let args: Vec<String> = std::env::args().collect();
    let repo = PathBuf::from(&args[1]);
    let outdir = PathBuf::from(&args[2]);
    std::fs::create_dir_all(&outdir).unwrap();
    let mut out = Out { files: BTreeMap::new(), untranslated: vec![] };
    leaf::run(&repo, &mut out);
    tables::run(&repo, &mut out);
    panics::run(&repo, &mut out);
    schema::run(&repo, &mut out);
    serde_structs::run(&repo, &mut out);
    serde_structs::run_state(&repo, &mut out);
    for (name, content) in &out.files {
        write_if_changed(&outdir.join(name), content);
    }
    for u in &out.untranslated {
        println!("untranslated: {u}");
    }
}
