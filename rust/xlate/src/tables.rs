use crate::Out;
use std::path::Path;
pub fn run(_repo: &Path, _out: &mut Out) {}
