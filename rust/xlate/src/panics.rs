//! T5: inventory of potentially panicking operations in non-test library code.
//! Every site becomes one constructor of `Generated.PanicSite`; the hand-written table
//! `table : List (String × Justification)` (lean/IsoMdl/Spec/PanicJustify.lean, keyed by `PanicSite.key`) then fails its totality theorem
//! when a site appears (missing case) or disappears (unknown constructor).
//! A site CLASS is keyed by (file, kind, SHAPE of the operand): the operand's tokens with every local name
//! (variables, `self`) replaced by `_`, keeping paths, types, method and field names, macros and literals.
//! Reformatting, renaming locals, merging two identical calls into one or moving the code into a helper
//! function of the same file therefore leave the inventory unchanged; a panicking operation on a new
//! callee / of a new kind / in another file is a new constructor.  The enclosing function of the first
//! occurrence is kept in the description only.
use crate::{is_cfg_test, parse_file, Out};
use quote::ToTokens;
use std::collections::BTreeMap;
use std::path::Path;
use syn::visit::Visit;

/// methods with a documented panic contract (Option/Result unwrapping, fixed-size copies, time-zone conversion, index-taking Vec operations)
const PANICKING_METHODS: [&str; 11] = ["unwrap", "expect", "clone_from_slice", "copy_from_slice", "split_at", "unwrap_unchecked", "to_offset", "to_utc", "swap_remove", "split_off", "drain"];

struct V { file: String, func: Vec<String>, sites: Vec<(String, String, String, String)> }

fn norm(t: impl ToTokens) -> String { t.to_token_stream().to_string().split_whitespace().collect::<Vec<_>>().join(" ") }

impl V {
    fn add(&mut self, kind: &str, operand: String) {
        let f = self.func.join("::");
        self.sites.push((self.file.clone(), f, kind.to_string(), operand.chars().take(120).collect()));
    }
}

impl<'ast> Visit<'ast> for V {
    fn visit_item_mod(&mut self, m: &'ast syn::ItemMod) { if is_cfg_test(&m.attrs) { return; } self.func.push(m.ident.to_string()); syn::visit::visit_item_mod(self, m); self.func.pop(); }
    fn visit_item_fn(&mut self, f: &'ast syn::ItemFn) { if is_cfg_test(&f.attrs) || f.attrs.iter().any(|a| a.path().is_ident("test")) { return; } self.func.push(f.sig.ident.to_string()); syn::visit::visit_item_fn(self, f); self.func.pop(); }
    fn visit_item_impl(&mut self, i: &'ast syn::ItemImpl) {
        if is_cfg_test(&i.attrs) { return; }
        let name = match &i.trait_ { Some((_, p, _)) => format!("<{} as {}>", norm(&i.self_ty), norm(p)), None => norm(&i.self_ty) };
        self.func.push(name.replace(' ', "")); syn::visit::visit_item_impl(self, i); self.func.pop();
    }
    fn visit_impl_item_fn(&mut self, f: &'ast syn::ImplItemFn) { self.func.push(f.sig.ident.to_string()); syn::visit::visit_impl_item_fn(self, f); self.func.pop(); }
    fn visit_trait_item_fn(&mut self, f: &'ast syn::TraitItemFn) { self.func.push(f.sig.ident.to_string()); syn::visit::visit_trait_item_fn(self, f); self.func.pop(); }
    fn visit_expr_method_call(&mut self, m: &'ast syn::ExprMethodCall) {
        let n = m.method.to_string();
        // `expect(msg)` and `unwrap()` are the same site (the message is not part of its identity)
        // the operand of `x.a().b(c).unwrap()` is the call whose result is unwrapped, `. b ( c )`: what comes before it in the
        // chain produces the value `b` is applied to and has its own entry if it can panic
        if PANICKING_METHODS.contains(&n.as_str()) {
            let operand = match &*m.receiver {
                syn::Expr::MethodCall(r) => format!(". {} {} ( {} )", r.method, r.turbofish.as_ref().map(norm).unwrap_or_default(), r.args.iter().map(norm).collect::<Vec<_>>().join(" , ")),
                other => norm(other),
            };
            self.add(if n == "expect" { "unwrap" } else { &n }, operand);
        }
        syn::visit::visit_expr_method_call(self, m);
    }
    fn visit_expr_call(&mut self, c: &'ast syn::ExprCall) {
        let f = norm(&c.func).replace(' ', "");
        // fixed-size array views that panic on a length mismatch (fallible `from_slice`s such as cbor::from_slice return Result)
        if ["GenericArray::from_slice", "GenericArray::clone_from_slice", "FieldBytes::from_slice", "Nonce::from_slice", "Key::from_slice"].iter().any(|p| f.ends_with(p)) { self.add("from_slice", format!("{} ( {} )", f, c.args.iter().map(norm).collect::<Vec<_>>().join(" , "))); }
        syn::visit::visit_expr_call(self, c);
    }
    fn visit_expr_index(&mut self, i: &'ast syn::ExprIndex) { self.add("index", norm(i)); syn::visit::visit_expr_index(self, i); }
    fn visit_macro(&mut self, m: &'ast syn::Macro) {
        let n = m.path.segments.last().map(|s| s.ident.to_string()).unwrap_or_default();
        if ["panic", "unreachable", "assert", "assert_eq", "assert_ne", "todo", "unimplemented"].contains(&n.as_str()) { self.add(&format!("{n}!"), norm(&m.tokens)); }
        // look inside expression-list macros (vec!, format!, json!, matches!, ...): their arguments are ordinary expressions
        if let Ok(args) = m.parse_body_with(syn::punctuated::Punctuated::<syn::Expr, syn::Token![,]>::parse_terminated) {
            for e in args.iter() { self.visit_expr(e); }
        } else {
            // a macro body that is not an expression list (macro_rules! definitions, custom syntax): scan its tokens
            fn scan(ts: proc_macro2::TokenStream, hits: &mut Vec<String>) {
                let toks: Vec<proc_macro2::TokenTree> = ts.into_iter().collect();
                for (i, t) in toks.iter().enumerate() {
                    match t {
                        proc_macro2::TokenTree::Group(g) => scan(g.stream(), hits),
                        proc_macro2::TokenTree::Ident(id) => {
                            let n = id.to_string();
                            let after_dot = i > 0 && matches!(&toks[i - 1], proc_macro2::TokenTree::Punct(p) if p.as_char() == '.');
                            let before_bang = matches!(toks.get(i + 1), Some(proc_macro2::TokenTree::Punct(p)) if p.as_char() == '!');
                            if after_dot && PANICKING_METHODS.contains(&n.as_str()) { hits.push(n); }
                            else if before_bang && ["panic", "unreachable", "assert", "assert_eq", "assert_ne", "todo", "unimplemented"].contains(&n.as_str()) { hits.push(format!("{n}!")); }
                        }
                        _ => {}
                    }
                }
            }
            let mut hits = vec![];
            scan(m.tokens.clone(), &mut hits);
            for h in hits { self.add(&format!("macro_body_{h}"), format!("inside {}!", n)); }
        }
        syn::visit::visit_macro(self, m);
    }
    fn visit_expr_binary(&mut self, b: &'ast syn::ExprBinary) {
        use syn::BinOp::*;
        let k = match b.op { Add(_) => Some("+"), Sub(_) => Some("-"), Mul(_) => Some("*"), Div(_) => Some("/"), Rem(_) => Some("%"), AddAssign(_) => Some("+="), SubAssign(_) => Some("-="), MulAssign(_) => Some("*="), Shl(_) => Some("<<"), _ => None };
        if let Some(k) = k { self.add(&format!("arith{k}"), norm(b)); }
        syn::visit::visit_expr_binary(self, b);
    }
    fn visit_expr_unary(&mut self, u: &'ast syn::ExprUnary) {
        if matches!(u.op, syn::UnOp::Neg(_)) && !matches!(&*u.expr, syn::Expr::Lit(_)) { self.add("neg", norm(u)); }
        syn::visit::visit_expr_unary(self, u);
    }
}

fn walk(dir: &Path, out: &mut Vec<std::path::PathBuf>) {
    let Ok(rd) = std::fs::read_dir(dir) else { return };
    let mut entries: Vec<_> = rd.filter_map(|e| e.ok()).map(|e| e.path()).collect();
    entries.sort();
    for p in entries { if p.is_dir() { if p.file_name().map(|n| n == "bin").unwrap_or(false) { continue; } walk(&p, out); } else if p.extension().map(|e| e == "rs").unwrap_or(false) { out.push(p); } }
}

/// operand shape: see the module comment
fn shape(operand: &str) -> String {
    fn flat(ts: proc_macro2::TokenStream, out: &mut Vec<(char, String)>) {
        for t in ts { match t {
            proc_macro2::TokenTree::Group(g) => { let (o, c) = match g.delimiter() { proc_macro2::Delimiter::Parenthesis => ("(", ")"), proc_macro2::Delimiter::Brace => ("{", "}"), proc_macro2::Delimiter::Bracket => ("[", "]"), _ => ("", "") };
                out.push(('p', o.into())); flat(g.stream(), out); out.push(('p', c.into())); }
            proc_macro2::TokenTree::Ident(i) => out.push(('i', i.to_string())),
            proc_macro2::TokenTree::Punct(p) => { if p.spacing() == proc_macro2::Spacing::Joint { out.push(('j', p.as_char().to_string())) } else { out.push(('p', p.as_char().to_string())) } }
            proc_macro2::TokenTree::Literal(l) => out.push(('l', l.to_string())),
        } }
    }
    let Ok(ts) = operand.parse::<proc_macro2::TokenStream>() else { return operand.to_string() };
    let mut toks = vec![]; flat(ts, &mut toks);
    // glue joint puncts (`::`, `+=`, `->`)
    let mut glued: Vec<(char, String)> = vec![];
    for (k, t) in toks { if let Some(last) = glued.last_mut() { if last.0 == 'j' { last.1.push_str(&t); last.0 = if k == 'j' { 'j' } else { 'p' }; continue; } } glued.push((k, t)); }
    const KEEP: [&str; 9] = ["mut", "as", "ref", "move", "dyn", "impl", "true", "false", "crate"];
    let mut out = vec![];
    for i in 0..glued.len() {
        let (k, t) = &glued[i];
        if *k != 'i' { out.push(t.clone()); continue; }
        let prev = if i > 0 { glued[i - 1].1.as_str() } else { "" };
        let next = glued.get(i + 1).map(|x| x.1.as_str()).unwrap_or("");
        let keep = KEEP.contains(&t.as_str()) || t.chars().next().map(|c| c.is_uppercase()).unwrap_or(false)
            || next == "(" || next == "::" || next == "!" || prev == "." || prev == "::";
        out.push(if keep { t.clone() } else { "_".into() });
    }
    out.join(" ")
}

fn sanitize(s: &str) -> String { s.chars().map(|c| if c.is_ascii_alphanumeric() { c } else { '_' }).collect::<String>().trim_matches('_').to_string() }

fn fnv(s: &str) -> u32 { let mut h: u32 = 0x811c9dc5; for b in s.bytes() { h ^= b as u32; h = h.wrapping_mul(0x01000193); } h }

pub fn run(repo: &Path, out: &mut Out) {
    let mut files = vec![];
    walk(&repo.join("src"), &mut files);
    let mut all: Vec<(String, String, String, String)> = vec![];
    for f in files {
        let rel = f.strip_prefix(repo).unwrap().to_string_lossy().to_string();
        let Some(ast) = parse_file(&f) else { out.untranslated.push(format!("{rel} unparsable")); continue };
        let mut v = V { file: rel, func: vec![], sites: vec![] };
        v.visit_file(&ast);
        all.extend(v.sites);
    }
    // one constructor per (file, kind, operand shape); the first occurrence describes it
    let mut seen: BTreeMap<(String, String, String), usize> = BTreeMap::new();
    let mut lean = String::from("/- GENERATED by rust/xlate (T5 panic-site inventory) from /repo/src on every run. Do not edit. -/\nnamespace IsoMdl.Generated\n\ninductive PanicSite where\n");
    let mut descr = String::from("def PanicSite.describe : PanicSite → String\n");
    let mut names = vec![];
    for s in &all {
        // locals only (`x.unwrap()`, `assert_eq!(a, b)`) or an empty operand (`unreachable!()`): no shape to speak of, such a site stays tied to its text and function
        let sh0 = shape(&s.3);
        let shapeless = !sh0.split(' ').any(|t| t != "_" && t.chars().any(|c| c.is_ascii_alphanumeric()));
        let sh = if shapeless { format!("{} in {}", s.3, s.1) } else { sh0 };
        let n = seen.entry((s.0.clone(), s.2.clone(), sh.clone())).or_insert(0); *n += 1;
        if *n > 1 { continue; }
        let file_short = s.0.trim_start_matches("src/").trim_end_matches(".rs");
        let name = format!("{}__{}_{:06x}", sanitize(file_short), sanitize(&s.2.replace('+', "add").replace('-', "sub").replace('*', "mul").replace('!', "")),
            fnv(&format!("{}|{}|{}", s.0, s.2, sh)) & 0xffffff);
        lean.push_str(&format!("  | {name}\n"));
        descr.push_str(&format!("  | .{name} => {:?}\n", format!("{} :: {} :: {}   (first in {}: {})", s.0, s.2, sh, s.1, s.3)));
        names.push(name);
    }
    lean.push_str("  deriving DecidableEq, Repr\n\n");
    lean.push_str(&descr);
    let mut key = String::from("\n/-- the site's identity as text (the constructor name): what the hand-written justification table is keyed by -/\ndef PanicSite.key : PanicSite → String\n");
    for n in &names { key.push_str(&format!("  | .{n} => {:?}\n", n)); }
    lean.push_str(&key);
    lean.push_str(&format!("\ndef PanicSite.all : List PanicSite := [{}]\n", names.iter().map(|n| format!(".{n}")).collect::<Vec<_>>().join(", ")));
    lean.push_str(&format!("\ndef PanicSite.count : Nat := {}\n\nend IsoMdl.Generated\n", names.len()));
    out.files.insert("PanicSites.lean".into(), lean);
}
