//! T2: integer / byte-array leaf functions.
//! Supported subset (everything else => untranslated):
//!   params: `x: i32|u32|u8|bool|...`, `x: &mut u32` (threaded: returned as first tuple component)
//!   stmts : `*x += e;`  `x += e;`  `*x = e;`  `x = e;`  `let x = e;`  tail expression
//!   exprs : int literals, paths, `-e`, `!e`, `e + e`, `e - e`, comparisons, `if c {a} else {b}`,
//!           `[e, ...]` / `[e; n]` byte arrays, `e.is_negative()`, `e.saturating_abs()`, `e.saturating_add(e)`, `e.wrapping_add(e)`, `e.saturating_sub(e)`, `e.wrapping_sub(e)`, `e.to_be_bytes()`, `a.concat(b)`,
//!           identity wrappers `GenericArray::from(e)`, `e.into()`, `T(e)` for a tuple-struct `T`.
//! Fixed-width arithmetic keeps Rust's wrapping result *and* emits `<fn>_overflows`, true exactly
//! where a debug build panics ("attempt to add/negate with overflow").
use crate::{non_test_items, parse_file, Out};
use std::collections::BTreeMap;
use std::path::Path;
use syn::{BinOp, Expr, Lit, Pat, Stmt, UnOp};

#[derive(Clone, PartialEq, Debug)]
enum Ty { I32, U32, U8, U64, I64, Bool, Bytes, Unknown }

fn lean_ty(t: &Ty) -> &'static str {
    match t { Ty::I32 => "Int32", Ty::U32 => "UInt32", Ty::U8 => "UInt8", Ty::U64 => "UInt64", Ty::I64 => "Int64",
              Ty::Bool => "Bool", Ty::Bytes => "List UInt8", Ty::Unknown => "?" }
}
fn bits(t: &Ty) -> u32 { match t { Ty::I32 | Ty::U32 => 32, Ty::U8 => 8, _ => 64 } }
fn signed(t: &Ty) -> bool { matches!(t, Ty::I32 | Ty::I64) }

fn ty_of(t: &syn::Type) -> (Ty, bool) {
    match t {
        syn::Type::Reference(r) if r.mutability.is_some() => (ty_of(&r.elem).0, true),
        syn::Type::Path(p) => {
            let s = p.path.segments.last().map(|s| s.ident.to_string()).unwrap_or_default();
            (match s.as_str() { "i32" => Ty::I32, "u32" => Ty::U32, "u8" => Ty::U8, "u64" => Ty::U64, "i64" => Ty::I64,
                                "bool" => Ty::Bool, _ => Ty::Unknown }, false)
        }
        syn::Type::Array(_) => (Ty::Bytes, false),
        _ => (Ty::Unknown, false),
    }
}

struct Tr { env: BTreeMap<String, Ty>, wrappers: Vec<String> }

type R = Result<(String, String, Ty), String>; // (value, overflow condition, type)

impl Tr {
    fn expr(&self, e: &Expr, expect: &Ty) -> R {
        match e {
            Expr::Paren(p) => self.expr(&p.expr, expect),
            Expr::Group(p) => self.expr(&p.expr, expect),
            Expr::Lit(l) => match &l.lit {
                Lit::Int(i) => {
                    let t = match i.suffix() { "u8" => Ty::U8, "i32" => Ty::I32, "u32" => Ty::U32, "u64" => Ty::U64, "" => expect.clone(), s => return Err(format!("literal suffix {s}")) };
                    let t = if t == Ty::Bytes || t == Ty::Unknown { Ty::U8 } else { t };
                    Ok((format!("({} : {})", i.base10_digits(), lean_ty(&t)), "false".into(), t))
                }
                Lit::Bool(b) => Ok((format!("{}", b.value), "false".into(), Ty::Bool)),
                _ => Err("literal kind".into()),
            },
            Expr::Path(p) => {
                let id = p.path.get_ident().ok_or("qualified path")?.to_string();
                let t = self.env.get(&id).ok_or(format!("unknown variable {id}"))?.clone();
                Ok((id, "false".into(), t))
            }
            Expr::Unary(u) => {
                let (v, o, t) = self.expr(&u.expr, expect)?;
                match u.op {
                    UnOp::Neg(_) if signed(&t) =>
                        Ok((format!("(-{v})"), format!("({o} || {v} == {}.minValue)", lean_ty(&t)), t)),
                    UnOp::Not(_) if t == Ty::Bool => Ok((format!("(!{v})"), o, t)),
                    UnOp::Deref(_) => Ok((v, o, t)),
                    _ => Err("unary operator".into()),
                }
            }
            Expr::Binary(b) => {
                let (l, lo, lt) = self.expr(&b.left, expect)?;
                let (r, ro, _) = self.expr(&b.right, &lt)?;
                let oo = format!("{lo} || {ro}");
                let cmp = |op: &str| Ok((format!("(decide ({l} {op} {r}))"), format!("({oo})"), Ty::Bool));
                match b.op {
                    BinOp::Add(_) if !signed(&lt) && lt != Ty::Bool =>
                        Ok((format!("({l} + {r})"), format!("({oo} || decide ({l}.toNat + {r}.toNat ≥ 2^{}))", bits(&lt)), lt)),
                    BinOp::Sub(_) if !signed(&lt) && lt != Ty::Bool =>
                        Ok((format!("({l} - {r})"), format!("({oo} || decide ({l}.toNat < {r}.toNat))"), lt)),
                    BinOp::Lt(_) => cmp("<"), BinOp::Le(_) => cmp("≤"), BinOp::Gt(_) => cmp(">"), BinOp::Ge(_) => cmp("≥"),
                    BinOp::Eq(_) => cmp("="), BinOp::Ne(_) => cmp("≠"),
                    BinOp::And(_) => Ok((format!("({l} && {r})"), format!("({lo} || ({l} && {ro}))"), Ty::Bool)),
                    BinOp::Or(_) => Ok((format!("({l} || {r})"), format!("({lo} || (!{l} && {ro}))"), Ty::Bool)),
                    _ => Err("binary operator".into()),
                }
            }
            Expr::If(i) => {
                let (c, co, ct) = self.expr(&i.cond, &Ty::Bool)?;
                if ct != Ty::Bool { return Err("non-bool condition".into()); }
                let (a, ao, at) = self.block(&i.then_branch.stmts, expect)?;
                let els = i.else_branch.as_ref().ok_or("if without else")?;
                let (b, bo, _) = match &*els.1 { Expr::Block(bl) => self.block(&bl.block.stmts, expect)?, other => self.expr(other, expect)? };
                Ok((format!("(if {c} then {a} else {b})"), format!("({co} || (if {c} then {ao} else {bo}))"), at))
            }
            Expr::Block(b) => self.block(&b.block.stmts, expect),
            Expr::Array(a) => {
                let mut vs = vec![]; let mut os = vec!["false".to_string()];
                for el in &a.elems { let (v, o, _) = self.expr(el, &Ty::U8)?; vs.push(v); os.push(o); }
                Ok((format!("[{}]", vs.join(", ")), format!("({})", os.join(" || ")), Ty::Bytes))
            }
            Expr::Repeat(r) => {
                let (v, o, _) = self.expr(&r.expr, &Ty::U8)?;
                let n = match &*r.len { Expr::Lit(l) => match &l.lit { Lit::Int(i) => i.base10_digits().to_string(), _ => return Err("repeat len".into()) }, _ => return Err("repeat len".into()) };
                Ok((format!("(List.replicate {n} {v})"), o, Ty::Bytes))
            }
            Expr::MethodCall(m) => {
                let name = m.method.to_string();
                let (v, o, t) = self.expr(&m.receiver, expect)?;
                match (name.as_str(), m.args.len()) {
                    ("saturating_abs", 0) if signed(&t) =>
                        Ok((format!("(if {v} == {ty}.minValue then {ty}.maxValue else if decide ({v} < 0) then (-{v}) else {v})", ty = lean_ty(&t)), o, t)),
                    ("saturating_add", 1) | ("wrapping_add", 1) | ("saturating_sub", 1) | ("wrapping_sub", 1) if !signed(&t) && t != Ty::Bool && t != Ty::Bytes && t != Ty::Unknown => {
                        let (a, ao, _) = self.expr(&m.args[0], &t)?;
                        let b = bits(&t);
                        let e = match name.as_str() {
                            "saturating_add" => format!("(if decide ({v}.toNat + {a}.toNat ≥ 2^{b}) then {ty}.ofNat (2^{b} - 1) else {v} + {a})", ty = lean_ty(&t)),
                            "wrapping_add" => format!("({v} + {a})"),
                            "saturating_sub" => format!("(if decide ({v}.toNat < {a}.toNat) then {ty}.ofNat 0 else {v} - {a})", ty = lean_ty(&t)),
                            _ => format!("({v} - {a})"),
                        };
                        Ok((e, format!("({o} || {ao})"), t))
                    }
                    ("is_negative", 0) if signed(&t) => Ok((format!("(decide ({v} < 0))"), o, Ty::Bool)),
                    ("to_be_bytes", 0) if t == Ty::U32 => Ok((format!("(IsoMdl.be32 {v})"), o, Ty::Bytes)),
                    ("into", 0) | ("to_vec", 0) | ("clone", 0) => Ok((v, o, t)),
                    ("concat", 1) if t == Ty::Bytes => {
                        let (a, ao, at) = self.expr(&m.args[0], &Ty::Bytes)?;
                        if at != Ty::Bytes { return Err("concat of non-bytes".into()); }
                        Ok((format!("({v} ++ {a})"), format!("({o} || {ao})"), Ty::Bytes))
                    }
                    _ => Err(format!("method {name}")),
                }
            }
            Expr::Call(c) => {
                let f = quote::ToTokens::to_token_stream(&c.func).to_string().replace(' ', "");
                if c.args.len() == 1 && (self.wrappers.contains(&f)) { self.expr(&c.args[0], expect) }
                else { Err(format!("call {f}")) }
            }
            _ => Err("expression kind".into()),
        }
    }

    fn block(&self, stmts: &[Stmt], expect: &Ty) -> R { self.block_w(stmts, expect, &[]) }

    /// `wrap`: names of threaded `&mut` parameters whose final values are returned in front of the tail value.
    fn block_w(&self, stmts: &[Stmt], expect: &Ty, wrap: &[String]) -> R {
        if stmts.is_empty() { return Err("empty block".into()); }
        let (first, rest) = stmts.split_first().unwrap();
        match first {
            Stmt::Expr(e, None) if rest.is_empty() => {
                let (v, o, t) = self.expr(e, expect)?;
                if wrap.is_empty() { Ok((v, o, t)) } else { Ok((format!("({}, {v})", wrap.join(", ")), o, t)) }
            }
            Stmt::Local(l) => {
                let name = match &l.pat { Pat::Ident(i) => i.ident.to_string(), Pat::Type(pt) => match &*pt.pat { Pat::Ident(i) => i.ident.to_string(), _ => return Err("let pattern".into()) }, _ => return Err("let pattern".into()) };
                let init = l.init.as_ref().ok_or("let without init")?;
                let (v, o, t) = self.expr(&init.expr, &Ty::Unknown)?;
                let mut inner = Tr { env: self.env.clone(), wrappers: self.wrappers.clone() };
                inner.env.insert(name.clone(), t);
                let (rv, ro, rt) = inner.block_w(rest, expect, wrap)?;
                Ok((format!("(let {name} := {v};\n    {rv})"), format!("({o} || (let {name} := {v};\n    {ro}))"), rt))
            }
            Stmt::Expr(Expr::Binary(b), Some(_)) if matches!(b.op, BinOp::AddAssign(_)) => {
                let target = match &*b.left { Expr::Unary(u) if matches!(u.op, UnOp::Deref(_)) => &*u.expr, other => other };
                let name = match target { Expr::Path(p) => p.path.get_ident().ok_or("assign target")?.to_string(), _ => return Err("assign target".into()) };
                let t = self.env.get(&name).ok_or("unknown assign target")?.clone();
                if signed(&t) || t == Ty::Bool || t == Ty::Bytes { return Err("+= on unsupported type".into()); }
                let (r, ro, _) = self.expr(&b.right, &t)?;
                let o = format!("({ro} || decide ({name}.toNat + {r}.toNat ≥ 2^{}))", bits(&t));
                let (rv, rro, rt) = self.block_w(rest, expect, wrap)?;
                Ok((format!("(let {name} := {name} + {r};\n    {rv})"), format!("({o} || (let {name} := {name} + {r};\n    {rro}))"), rt))
            }
            // `*x = e;` / `x = e;`
            Stmt::Expr(Expr::Assign(a), Some(_)) => {
                let target = match &*a.left { Expr::Unary(u) if matches!(u.op, UnOp::Deref(_)) => &*u.expr, other => other };
                let name = match target { Expr::Path(p) => p.path.get_ident().ok_or("assign target")?.to_string(), _ => return Err("assign target".into()) };
                let t = self.env.get(&name).ok_or("unknown assign target")?.clone();
                let (r, ro, _) = self.expr(&a.right, &t)?;
                let (rv, rro, rt) = self.block_w(rest, expect, wrap)?;
                Ok((format!("(let {name} := {r};\n    {rv})"), format!("({ro} || (let {name} := {r};\n    {rro}))"), rt))
            }
            _ => Err("statement kind".into()),
        }
    }
}

struct Target { file: &'static str, self_ty: Option<&'static str>, func: &'static str, lean: &'static str }

const TARGETS: &[Target] = &[
    Target { file: "src/definitions/mso.rs", self_ty: Some("DigestId"), func: "new", lean: "digestIdNew" },
    Target { file: "src/definitions/session.rs", self_ty: None, func: "get_initialization_vector", lean: "getInitializationVector" },
];

fn find_fn<'a>(f: &'a syn::File, t: &Target) -> Option<(&'a syn::Signature, &'a syn::Block)> {
    for it in non_test_items(f) {
        match (it, t.self_ty) {
            (syn::Item::Fn(func), None) if func.sig.ident == t.func => return Some((&func.sig, &func.block)),
            (syn::Item::Impl(im), Some(st)) if im.trait_.is_none() => {
                let name = quote::ToTokens::to_token_stream(&im.self_ty).to_string();
                if name == st {
                    for ii in &im.items {
                        if let syn::ImplItem::Fn(m) = ii { if m.sig.ident == t.func { return Some((&m.sig, &m.block)); } }
                    }
                }
            }
            _ => {}
        }
    }
    None
}

pub fn run(repo: &Path, out: &mut Out) {
    let mut lean = String::from("import IsoMdl.Model.Util\n/- GENERATED by rust/xlate from /repo/src on every run. Do not edit. -/\nset_option linter.unusedVariables false\nnamespace IsoMdl.Generated\n\n");
    for t in TARGETS {
        let item = format!("{}::{}{}", t.file, t.self_ty.map(|s| format!("{s}::")).unwrap_or_default(), t.func);
        let res: Result<String, String> = (|| {
            let f = parse_file(&repo.join(t.file)).ok_or("file missing or unparsable")?;
            let (sig, block) = find_fn(&f, t).ok_or("function not found")?;
            let mut env = BTreeMap::new();
            let mut params = vec![]; let mut threaded = vec![];
            for a in &sig.inputs {
                if let syn::FnArg::Typed(pt) = a {
                    let name = match &*pt.pat { Pat::Ident(i) => i.ident.to_string(), _ => return Err("param pattern".to_string()) };
                    let (ty, is_mut) = ty_of(&pt.ty);
                    if ty == Ty::Unknown { return Err(format!("param type of {name}")); }
                    params.push(format!("({name} : {})", lean_ty(&ty)));
                    if is_mut { threaded.push(name.clone()); }
                    env.insert(name, ty);
                } else { return Err("self parameter".into()); }
            }
            let ret_expect = match &sig.output { syn::ReturnType::Type(_, t) => ty_of(t).0, _ => Ty::Unknown };
            // identity wrappers: tuple struct constructor named as the return type, and From/Into helpers
            let mut wrappers = vec!["GenericArray::from".to_string(), "Nonce::from".to_string()];
            if let syn::ReturnType::Type(_, t) = &sig.output { wrappers.push(quote::ToTokens::to_token_stream(t).to_string().replace(' ', "")); }
            wrappers.push("Self".into());
            let tr = Tr { env, wrappers };
            let (value, o, t2) = tr.block_w(&block.stmts, &ret_expect, &threaded)?;
            let ret_ty = if threaded.is_empty() { lean_ty(&t2).to_string() } else {
                format!("{} × {}", threaded.iter().map(|n| lean_ty(&tr.env[n])).collect::<Vec<_>>().join(" × "), lean_ty(&t2)) };
            let ps = params.join(" ");
            Ok(format!("/-- {item} -/\ndef {name} {ps} : {ret_ty} :=\n  {value}\n\n/-- true exactly where a debug build of {item} panics on arithmetic overflow -/\ndef {name}_overflows {ps} : Bool :=\n  {o}\n\n", name = t.lean))
        })();
        match res {
            Ok(s) => lean.push_str(&s),
            Err(why) => {
                out.untranslated.push(format!("{item} {why}"));
                lean.push_str(&format!("-- untranslated: {item} ({why})\n\n"));
            }
        }
    }
    lean.push_str("end IsoMdl.Generated\n");
    out.files.insert("Leaf.lean".into(), lean);
}
