//! T3/T4: the namespace data models and their code tables, from src/definitions/namespaces/**.
//!  * every struct with named fields that derives FromJson/ToCbor: field name (after
//!    `#[isomdl(rename)]`), type, optional, `many` / `dynamic_parse`;
//!  * every tuple struct deriving FromJson (newtype -> inner type);
//!  * every enum: its variants;
//!  * every method whose body is a single `match` (possibly wrapped in `Ok(..)`): the arms as
//!    (pattern, result) token pairs, with the scrutinee text (so `s.to_lowercase().as_str()` is
//!    visible) and whether a catch-all arm exists and what it yields.
//! Strings are emitted as byte lists (they are compared by `decide` in the kernel).
use crate::{non_test_items, parse_file, Out};
use quote::ToTokens;
use std::path::Path;
use syn::{Expr, Pat};

fn bytes(s: &str) -> String { format!("[{}]", s.bytes().map(|b| b.to_string()).collect::<Vec<_>>().join(", ")) }
fn ts<T: ToTokens>(t: &T) -> String { t.to_token_stream().to_string().replace(' ', "") }

fn isomdl_attrs(attrs: &[syn::Attribute]) -> (Option<String>, bool, bool) {
    let (mut rename, mut many, mut dynamic) = (None, false, false);
    for a in attrs {
        if !a.path().is_ident("isomdl") { continue; }
        let _ = a.parse_nested_meta(|m| {
            if m.path.is_ident("many") { many = true; }
            else if m.path.is_ident("dynamic_parse") { dynamic = true; }
            else if m.path.is_ident("rename") { let v: syn::LitStr = m.value()?.parse()?; rename = Some(v.value()); }
            else if m.path.is_ident("crate") { let _: syn::LitStr = m.value()?.parse()?; }
            Ok(())
        });
    }
    (rename, many, dynamic)
}

fn derives(attrs: &[syn::Attribute], name: &str) -> bool {
    attrs.iter().any(|a| a.path().is_ident("derive") && a.to_token_stream().to_string().contains(name))
}

fn option_inner(ty: &syn::Type) -> Option<&syn::Type> {
    if let syn::Type::Path(p) = ty { let last = p.path.segments.last()?; if last.ident == "Option" {
        if let syn::PathArguments::AngleBracketed(a) = &last.arguments { if let Some(syn::GenericArgument::Type(t)) = a.args.first() { return Some(t); } } } }
    None
}

#[derive(Clone)]
enum Tok { S(String), N(String), V(String), Bind, Other(String) }
impl Tok { fn lean(&self) -> String { match self { Tok::S(s) => format!(".s {}", bytes(s)), Tok::N(n) => format!(".n {n}"), Tok::V(v) => format!(".v {}", bytes(v)), Tok::Bind => ".bind".into(), Tok::Other(_) => ".other".into() } } }

fn pat_tok(p: &Pat) -> Tok {
    match p {
        Pat::Lit(l) => match &l.lit { syn::Lit::Str(s) => Tok::S(s.value()), syn::Lit::Int(i) => Tok::N(i.base10_digits().into()), _ => Tok::Other(ts(p)) },
        Pat::Path(pp) => Tok::V(pp.path.segments.last().unwrap().ident.to_string()),
        Pat::Ident(i) if i.subpat.is_none() => Tok::Bind,
        Pat::Wild(_) => Tok::Bind,
        _ => Tok::Other(ts(p)),
    }
}
fn expr_tok(e: &Expr) -> Tok {
    match e {
        Expr::Lit(l) => match &l.lit { syn::Lit::Str(s) => Tok::S(s.value()), syn::Lit::Int(i) => Tok::N(i.base10_digits().into()), _ => Tok::Other(ts(e)) },
        Expr::Path(p) if p.path.segments.len() == 1 && p.path.segments[0].ident.to_string().chars().next().map(|c| c.is_lowercase()).unwrap_or(false) => Tok::Bind,
        Expr::Path(p) => Tok::V(p.path.segments.last().unwrap().ident.to_string()),
        Expr::Call(c) if ts(&c.func) == "Ok" && c.args.len() == 1 => expr_tok(&c.args[0]),
        Expr::MethodCall(m) if m.method == "to_string" || m.method == "into" => expr_tok(&m.receiver),
        Expr::Paren(p) => expr_tok(&p.expr),
        _ => Tok::Other(ts(e)),
    }
}

fn find_match(b: &syn::Block) -> Option<&syn::ExprMatch> {
    if b.stmts.len() != 1 { return None; }
    let syn::Stmt::Expr(e, None) = &b.stmts[0] else { return None };
    match e { Expr::Match(m) => Some(m), Expr::Call(c) if ts(&c.func) == "Ok" && c.args.len() == 1 => match &c.args[0] { Expr::Match(m) => Some(m), _ => None }, _ => None }
}

pub fn run(repo: &Path, out: &mut Out) {
    let base = repo.join("src/definitions/namespaces");
    let mut files: Vec<(String, std::path::PathBuf)> = vec![];
    for (module, dir) in [("", base.clone()), ("org_iso_18013_5_1", base.join("org_iso_18013_5_1")), ("org_iso_18013_5_1_aamva", base.join("org_iso_18013_5_1_aamva"))] {
        let Ok(rd) = std::fs::read_dir(&dir) else { out.untranslated.push(format!("namespaces::{module} directory missing")); continue };
        let mut v: Vec<_> = rd.filter_map(|e| e.ok()).map(|e| e.path()).filter(|p| p.extension().map(|x| x == "rs").unwrap_or(false)).collect();
        v.sort();
        for p in v { files.push((module.to_string(), p)); }
    }
    let (mut structs, mut newtypes, mut enums, mut tables) = (vec![], vec![], vec![], vec![]);
    let mut json_tables: Vec<String> = vec![];
    let mut raw_tables: Vec<(String, String, String, String, String)> = vec![]; // module, self ty, trait, func, arms
    for (module, path) in &files {
        let Some(f) = parse_file(path) else { out.untranslated.push(format!("namespaces {} unparsable", path.display())); continue };
        let file = path.file_name().unwrap().to_string_lossy().to_string();
        for it in non_test_items(&f) {
            match it {
                syn::Item::Struct(s) if derives(&s.attrs, "FromJson") || derives(&s.attrs, "ToCbor") => match &s.fields {
                    syn::Fields::Named(n) => {
                        let mut fs = vec![];
                        for fld in &n.named {
                            let (rename, many, dynamic) = isomdl_attrs(&fld.attrs);
                            let rust = fld.ident.as_ref().unwrap().to_string();
                            let (ty, optional) = match option_inner(&fld.ty) { Some(t) => (ts(t), true), None => (ts(&fld.ty), false) };
                            fs.push(format!("    {{ name := {}, ty := \"{}\", tyB := {}, optional := {}, mode := {} }}", bytes(&rename.unwrap_or(rust)), ty, bytes(&ty), optional, if many { ".many" } else if dynamic { ".dynamic" } else { ".plain" }));
                        }
                        structs.push(format!("  {{ module := \"{module}\", name := \"{}\", nameB := {}, fromJson := {}, toCbor := {}, fields := [\n{}] }}", s.ident, bytes(&s.ident.to_string()), derives(&s.attrs, "FromJson"), derives(&s.attrs, "ToCbor"), fs.join(",\n")));
                    }
                    syn::Fields::Unnamed(u) if u.unnamed.len() == 1 => newtypes.push(format!("  (\"{module}\", \"{}\", \"{}\")", s.ident, ts(&u.unnamed[0].ty))),
                    _ => out.untranslated.push(format!("namespaces::{module}::{} unsupported struct shape", s.ident)),
                },
                syn::Item::Enum(e) if e.ident != "Error" => {
                    let vs: Vec<String> = e.variants.iter().map(|v| format!("({}, {})", bytes(&v.ident.to_string()), v.fields.is_empty())).collect();
                    if derives(&e.attrs, "EnumString") { json_tables.push(format!("{{\"module\": {:?}, \"ty\": {:?}, \"func\": \"strum\", \"literals\": [{}]}}", module, e.ident.to_string(), e.variants.iter().map(|v| format!("{:?}", v.ident.to_string())).collect::<Vec<_>>().join(", "))); }
                    enums.push(format!("  {{ module := \"{module}\", name := \"{}\", strum := {}, variants := [{}] }}", e.ident, derives(&e.attrs, "EnumString"), vs.join(", ")));
                }
                syn::Item::Impl(im) => {
                    let self_ty = ts(&im.self_ty);
                    let tr = im.trait_.as_ref().map(|(_, p, _)| ts(p)).unwrap_or_default();
                    for ii in &im.items { if let syn::ImplItem::Fn(m) = ii {
                        let Some(mm) = find_match(&m.block) else { continue };
                        let arms: Vec<(Tok, Tok)> = mm.arms.iter().map(|a| (pat_tok(&a.pat), expr_tok(&a.body))).collect();
                        // only tables: at least two literal/variant arms
                        if arms.iter().filter(|(p, r)| !matches!(p, Tok::Bind | Tok::Other(_)) && !matches!(r, Tok::Other(_))).count() < 2 { continue; }
                        let arms_l: Vec<String> = arms.iter().map(|(p, r)| format!("({}, {})", p.lean(), r.lean())).collect();
                        let lits: Vec<String> = arms.iter().filter_map(|(p, _)| match p { Tok::S(s) => Some(format!("{:?}", s)), Tok::N(n) => Some(n.clone()), _ => None }).collect();
                        if !lits.is_empty() { json_tables.push(format!("{{\"module\": {:?}, \"ty\": {:?}, \"func\": {:?}, \"literals\": [{}]}}", module, self_ty, m.sig.ident.to_string(), lits.join(", "))); }
                        raw_tables.push((module.clone(), self_ty.clone(), tr.clone(), m.sig.ident.to_string(), arms_l.join(", ")));
                        tables.push(format!("  {{ module := \"{module}\", file := \"{file}\", ty := \"{self_ty}\", trait_ := \"{tr}\", func := \"{}\", scrutinee := \"{}\", arms := [\n    {}] }}",
                            m.sig.ident, ts(&mm.expr).replace('"', "'"), arms_l.join(",\n    ")));
                    } }
                }
                _ => {}
            }
        }
    }
    // (type, parse arms, print arms): the two directions of every code table, paired by type
    let mut pairs = vec![];
    for (module, ty, tr, func, arms) in &raw_tables {
        let is_parse = (func == "from_str" || func == "try_from" || (func == "from" && tr == "From<String>")) && ty != "u8" && ty != "String";
        if !is_parse { continue; }
        let print = raw_tables.iter().find(|(m2, ty2, tr2, f2, _)| m2 == module && ((ty2 == ty && (f2 == "to_str" || f2 == "as_str")) || (*tr2 == format!("From<{ty}>") && f2 == "from")));
        match print {
            Some((_, _, _, _, parms)) => pairs.push(format!("  ({}, [{}], [{}])", bytes(&format!("{module}::{ty}")), arms, parms)),
            None => out.untranslated.push(format!("namespaces::{module}::{ty} parse table without a print table")),
        }
    }
    let lean = format!("/- GENERATED by rust/xlate (T3/T4 namespace schemas and code tables) from /repo/src/definitions/namespaces on every run. Do not edit. -/\nnamespace IsoMdl.Generated.Ns\n\n\
inductive Mode where | plain | many | dynamic\n  deriving DecidableEq, Repr\n\n\
structure Field where\n  name : List UInt8\n  ty : String\n  tyB : List UInt8\n  optional : Bool\n  mode : Mode\n  deriving Repr\n\n\
structure Struct where\n  module : String\n  name : String\n  nameB : List UInt8\n  fromJson : Bool\n  toCbor : Bool\n  fields : List Field\n  deriving Repr\n\n\
structure Enum where\n  module : String\n  name : String\n  strum : Bool\n  variants : List (List UInt8 × Bool)\n  deriving Repr\n\n\
inductive Tok where | s (b : List UInt8) | n (k : Nat) | v (name : List UInt8) | bind | other\n  deriving DecidableEq, Repr\n\n\
structure Table where\n  module : String\n  file : String\n  ty : String\n  trait_ : String\n  func : String\n  scrutinee : String\n  arms : List (Tok × Tok)\n  deriving Repr\n\n\
def structs : List Struct := [\n{}]\n\ndef newtypes : List (String × String × String) := [\n{}]\n\ndef enums : List Enum := [\n{}]\n\ndef tables : List Table := [\n{}]\n\n/-- (module::type, parse arms, print arms) -/\ndef pairs : List (List UInt8 × List (Tok × Tok) × List (Tok × Tok)) := [\n{}]\n\nend IsoMdl.Generated.Ns\n",
        structs.join(",\n"), newtypes.join(",\n"), enums.join(",\n"), tables.join(",\n"), pairs.join(",\n"));
    out.files.insert("Namespaces.lean".into(), lean);
    out.files.insert("ns_tables.json".into(), format!("[\n{}\n]\n", json_tables.join(",\n")));
}
