//! C13: device session state machine. Exhaustive short call sequences + random long ones.
use crate::hist::Hist;
use crate::sess::{self, Sim, MDL};
use crate::world::Pki;
use crate::Ctx;
use isomdl::definitions::x509::trust_anchor::TrustAnchorRegistry;
use rand::Rng;

const DOCS: [&str; 2] = [MDL, "org.example.a"];

/// the alphabet of the property's quantifier
fn apply(h: &mut Hist, ctx: &mut Ctx, letter: usize) {
    match letter {
        0 => { // handle_request(valid): fresh honest request
            let m = h.new_request(ctx, &["family_name"]);
            let d = h.to_dev.last().unwrap().1.clone();
            h.handle_request(ctx, &m, &d);
        }
        1 | 2 | 13 => { // handle_request(malformed-plaintext): 1 = not CBOR, 2 = CBOR but not a DeviceRequest, 13 = the EMPTY plaintext (not CBOR either)
            let n = sess::peek_device(&h.sim.dev).rdr_ctr.wrapping_add(1);
            let (pt, kind): (Vec<u8>, &str) = if letter == 1 { (vec![0xff, 0x00, 0x13], "notcbor") } else if letter == 13 { (vec![], "notcbor") } else { (vec![0xa1, 0x61, 0x78, 0x01], "notreq") };
            let m = h.sim.craft_reader_msg(n, &pt);
            let d = format!("ct:r:{}:{}:{}:f", h.sim.id, n, kind);
            h.to_dev.push((m.clone(), d.clone()));
            h.handle_request(ctx, &m, &d);
        }
        3 => { // handle_request(undecryptable): replay of the establishment message
            let (m, d) = h.to_dev[0].clone();
            let sd = isomdl::cbor::to_vec(&isomdl::definitions::SessionData {
                data: Some(isomdl::cbor::from_slice::<isomdl::definitions::SessionEstablishment>(&m).unwrap().data), status: None }).unwrap();
            h.handle_request(ctx, &sd, &d);
        }
        4 => h.handle_request(ctx, &[0x13, 0x37, 0xff], "garbage"),
        5 => h.prepare(ctx, &[]),                 // 0 documents
        6 => h.prepare(ctx, &[MDL]),              // 1 document
        7 => h.prepare(ctx, &DOCS),               // 2 documents
        8 => { h.get_next(ctx); }
        9 => h.submit(ctx, false),
        10 => h.submit(ctx, true),
        11 => h.response_ready(ctx),
        12 => { h.retrieve(ctx); }
        _ => { h.retrieve(ctx); }
    }
}
const LETTERS: usize = 14;

pub fn run(ctx: &mut Ctx) {
    let pki = Pki::new(&mut ctx.rng);
    let mk = |ctx: &mut Ctx, id: u32, tag: &str| -> Hist {
        let mut rng2: rand_chacha::ChaCha8Rng = rand::SeedableRng::seed_from_u64(ctx.rng.gen());
        let sim = Sim::new(id, &pki, &mut rng2, &DOCS, &["family_name"], TrustAnchorRegistry::default(), TrustAnchorRegistry::default());
        let mut h = Hist::start(ctx, sim, tag);
        h.spec13 = true;
        h
    };
    // exhaustive: all sequences up to length L over the alphabet
    let l = if ctx.thorough { 4 } else { 3 };
    let mut seq = vec![0usize; 0];
    // iterate lengths 1..=l
    for len in 1..=l {
        let total = LETTERS.pow(len as u32);
        for code in 0..total {
            seq.clear();
            let mut c = code;
            for _ in 0..len { seq.push(c % LETTERS); c /= LETTERS; }
            let mut h = mk(ctx, 1, "exhaustive");
            for &x in &seq { apply(&mut h, ctx, x); }
        }
    }
    // random long histories, plus the generic random op mix (replays, tampering, restores)
    let n = if ctx.thorough { 5000 } else { 150 };
    for i in 0..n {
        let mut h = mk(ctx, 1 + (i % 4) as u32, "random");
        let len = ctx.rng.gen_range(4..if ctx.thorough { 40 } else { 25 });
        for _ in 0..len {
            if ctx.rng.gen_bool(0.7) { let x = ctx.rng.gen_range(0..LETTERS); apply(&mut h, ctx, x); }
            else { h.random_op(ctx, &DOCS); }
        }
        // drain: whatever is pending can be completed and retrieved exactly once
        for _ in 0..3 { h.submit(ctx, false); }
        h.response_ready(ctx);
        h.retrieve(ctx);
        h.retrieve(ctx);
    }
}
