//! C07: IV format and counter discipline over arbitrary interleavings with restores.
use crate::hist::Hist;
use crate::sess::{Sim, MDL};
use crate::world::Pki;
use crate::{hex_or_dash, guarded, Ctx};
use isomdl::definitions::session::get_initialization_vector;
use isomdl::definitions::x509::trust_anchor::TrustAnchorRegistry;
use rand::Rng;

pub fn run(ctx: &mut Ctx) {
    // 1. the public leaf function against the generated definition and the ISO format
    let boundaries: Vec<u32> = vec![0, 1, 2, 254, 255, 256, 65534, 65535, 65536, 16777215, 16777216, u32::MAX - 2, u32::MAX - 1, u32::MAX];
    let mut pts: Vec<u32> = boundaries.clone();
    for _ in 0..(if ctx.thorough { 20000 } else { 500 }) { pts.push(ctx.rng.gen()); }
    for c in pts {
        for reader in [true, false] {
            let r = guarded(move || { let mut m = c; let iv = get_initialization_vector(&mut m, reader); (m, iv) });
            let real = match r { Err(_) => "panic".to_string(), Ok((m, iv)) => format!("{} {}", m, hex_or_dash(&iv)) };
            ctx.emit.corr("iv-fn", format!("iv.fn {} {}", c, reader), real.clone());
            // Spec(real): ISO format for every counter that does not overflow
            if c != u32::MAX {
                ctx.emit.spec("spec:iv-fn", format!("spec.iv {} {} {}", reader, c as u64 + 1, real.replace(' ', ":")));
            }
        }
    }
    // 2. histories
    let pki = Pki::new(&mut ctx.rng);
    let n_hist = if ctx.thorough { 3000 } else { 120 };
    let max_len = if ctx.thorough { 400 } else { 60 };
    let docs = [MDL, "org.example.a", "org.example.b"];
    for hno in 0..n_hist {
        let mut rng2 = rand::SeedableRng::seed_from_u64(ctx.rng.gen());
        let rng2: &mut rand_chacha::ChaCha8Rng = &mut rng2;
        let sim = Sim::new(1 + (hno % 3) as u32, &pki, rng2, &docs, &["family_name"], TrustAnchorRegistry::default(), TrustAnchorRegistry::default());
        let mut h = Hist::start(ctx, sim, "history");
        // sometimes start near a counter boundary (byte carries, and the last admissible values)
        if ctx.rng.gen_bool(0.35) {
            // … and a few steps before exhaustion: the last admissible IVs, then refusal without wrap-around
            const STARTS: [u32; 8] = [254, 255, 65534, 65535, 16777214, u32::MAX - 4000, u32::MAX - 3, u32::MAX - 1];
            let b = STARTS[ctx.rng.gen_range(0..STARTS.len())];
            let b2 = STARTS[ctx.rng.gen_range(0..STARTS.len())];
            // keep both sides of each direction in sync: (dev enc = rdr dec), (rdr enc = dev dec)
            h.set_counters(ctx, b, b2, b2, b);
        }
        let len = ctx.rng.gen_range(5..=max_len);
        for _ in 0..len { h.random_op(ctx, &docs); }
    }
}
