//! isomdl-corr: correspondence harness.  Runs the real isomdl library in-process on generated
//! cases and writes one JSON line per operation:
//!   {"op": "<line for the Lean driver>", "real": "<canonicalised real observation>",
//!    "kind": "corr" | "spec", "tag": "<class label>", "case": <human readable case or null>}
//! `corr` lines: the driver must print exactly `real` (model ≟ implementation).
//! `spec` lines: the driver evaluates the property's specification predicate on the *real*
//! observation and must print `real` (= "true").
use rand::SeedableRng;
use rand_chacha::ChaCha8Rng;
use std::io::Write;

mod auth;
mod c01;
mod c02;
mod c06;
mod c07;
mod c08;
mod c09;
mod gen;
mod c10;
mod c11;
mod c12;
mod c13;
mod c14;
mod c15;
mod c16;
mod c17;
mod c18;
mod c19;
mod c20;
mod hist;
mod world;
mod sess;

pub struct Emit {
    out: std::io::BufWriter<std::fs::File>,
    pub n: u64,
}

impl Emit {
    pub fn line(&mut self, kind: &str, tag: &str, op: String, real: String, case: serde_json::Value) {
        let v = serde_json::json!({"op": op, "real": real, "kind": kind, "tag": tag, "case": case});
        writeln!(self.out, "{}", v).unwrap();
        self.n += 1;
    }
    pub fn corr(&mut self, tag: &str, op: String, real: String) {
        self.line("corr", tag, op, real, serde_json::Value::Null)
    }
    pub fn spec(&mut self, tag: &str, op: String) {
        self.line("spec", tag, op, "true".to_string(), serde_json::Value::Null)
    }
}

pub fn hex_or_dash(b: &[u8]) -> String {
    if b.is_empty() { "-".into() } else { hex::encode(b) }
}

/// Run `f` catching panics; `Err(())` means the real code panicked.
pub static GUARDED: std::sync::atomic::AtomicBool = std::sync::atomic::AtomicBool::new(false);

pub fn guarded<T>(f: impl FnOnce() -> T + std::panic::UnwindSafe) -> Result<T, String> {
    use std::sync::atomic::Ordering;
    let prev = GUARDED.swap(true, Ordering::SeqCst);
    let r = std::panic::catch_unwind(f);
    GUARDED.store(prev, Ordering::SeqCst);
    r.map_err(|e| {
        if let Some(s) = e.downcast_ref::<&str>() { s.to_string() }
        else if let Some(s) = e.downcast_ref::<String>() { s.clone() }
        else { "panic".to_string() }
    })
}

pub struct Ctx {
    pub rng: ChaCha8Rng,
    pub thorough: bool,
    pub emit: Emit,
}

/// `isomdl-corr --probe <entry> <file>`: ONE call of an entry point in a process of its own, so that what cannot be caught in
/// process (stack overflow, allocation failure: the process aborts) or does not come back (a loop) is an observation of the parent:
/// exit 0 = returned, 3 = panicked, killed by a signal = aborted, still running after the deadline = hang.
/// File: line 1 = stored reader / nothing, line 2 = hex input.
fn probe(entry: &str, file: &str) -> ! {
    use isomdl::presentation::Stringify;
    let text = std::fs::read_to_string(file).expect("probe file");
    let mut lines = text.lines();
    let state = lines.next().unwrap_or("").to_string();
    let input = hex::decode(lines.next().unwrap_or("")).unwrap_or_default();
    let r = std::panic::catch_unwind(move || match entry {
        "handle_response" => { let mut rdr = isomdl::presentation::reader::SessionManager::parse(state).expect("reader state"); let _ = rdr.handle_response(&input); }
        "handle_request" => { let mut dev = isomdl::presentation::device::SessionManager::parse(state).expect("device state"); let _ = dev.handle_request(&input); }
        "establish_session" => { let _ = isomdl::presentation::reader::SessionManager::establish_session(String::from_utf8_lossy(&input).to_string(), sess::simple_namespaces(&["a"]), Default::default()); }
        _ => { let _ = isomdl::cbor::from_slice::<ciborium::Value>(&input); }
    });
    std::process::exit(if r.is_ok() { 0 } else { 3 })
}

/// run `--probe` in a child process with a deadline; returns "ok" | "panic" | "abort:<signal>" | "hang"
pub fn probe_in_child(entry: &str, state: &str, input: &[u8], tag: &str) -> String {
    use std::os::unix::process::ExitStatusExt;
    let dir = std::env::current_exe().ok().and_then(|p| p.parent().map(|d| d.to_path_buf())).unwrap_or_default();
    let file = dir.join(format!("probe_{}_{tag}.txt", std::process::id()));
    std::fs::write(&file, format!("{state}\n{}\n", hex::encode(input))).expect("write probe file");
    // the probe runs the build of this harness in which the library is NOT optimised (target/unopt), if it has been built
    let exe = { let me = std::env::current_exe().unwrap(); let un = me.parent().and_then(|d| d.parent()).map(|t| t.join("unopt").join(me.file_name().unwrap()));
        match un { Some(u) if u.exists() => u, _ => me } };
    let mut child = std::process::Command::new(exe).arg("--probe").arg(entry).arg(&file)
        .stdout(std::process::Stdio::null()).stderr(std::process::Stdio::null()).spawn().expect("spawn probe");
    let t = std::time::Instant::now();
    let res = loop {
        match child.try_wait() {
            Ok(Some(st)) => break match (st.code(), st.signal()) { (Some(0), _) => "ok".to_string(), (Some(3), _) => "panic".into(), (Some(c), _) => format!("exit:{c}"), (None, Some(sig)) => format!("abort:{sig}"), _ => "abort".into() },
            Ok(None) => { if t.elapsed().as_secs() >= 10 { let _ = child.kill(); let _ = child.wait(); break "hang".into(); } std::thread::sleep(std::time::Duration::from_millis(5)); }
            Err(_) => break "abort".into(),
        }
    };
    let _ = std::fs::remove_file(&file);
    res
}

fn main() {
    let args: Vec<String> = std::env::args().collect();
    if args.len() == 4 && args[1] == "--probe" { probe(&args[2], &args[3]); }
    let mut prop = String::new();
    let mut tier = "quick".to_string();
    let mut seed: u64 = 1;
    let mut out = String::new();
    let mut i = 1;
    while i < args.len() {
        match args[i].as_str() {
            "--tier" => { tier = args[i + 1].clone(); i += 2; }
            "--seed" => { seed = args[i + 1].parse().expect("seed"); i += 2; }
            "--out" => { out = args[i + 1].clone(); i += 2; }
            p => { prop = p.to_string(); i += 1; }
        }
    }
    // silence panic messages of the library under test (they are observations, not noise)
    std::panic::set_hook(Box::new(|info| { if !GUARDED.load(std::sync::atomic::Ordering::SeqCst) { eprintln!("harness panic: {info}"); } }));
    let file = std::fs::File::create(&out).expect("cannot create --out file");
    let mut ctx = Ctx {
        rng: ChaCha8Rng::seed_from_u64(seed ^ 0x1505_1505),
        thorough: tier == "thorough",
        emit: Emit { out: std::io::BufWriter::new(file), n: 0 },
    };
    match prop.as_str() {
        "C19" => c19::run(&mut ctx),
        "C20" => c20::run(&mut ctx),
        "C01" => c01::run(&mut ctx),
        "C02" => c02::run(&mut ctx),
        "C03" => auth::run_c03(&mut ctx),
        "C04" => auth::run_c04(&mut ctx),
        "C05" => auth::run_c05(&mut ctx),
        "C06" => c06::run(&mut ctx),
        "C07" => c07::run(&mut ctx),
        "C08" => c08::run(&mut ctx),
        "C09" => c09::run(&mut ctx),
        "C10" => c10::run(&mut ctx),
        "C11" => c11::run(&mut ctx),
        "C12" => c12::run(&mut ctx),
        "C13" => c13::run(&mut ctx),
        "C14" => c14::run(&mut ctx),
        "C15" => c15::run(&mut ctx),
        "C16" => c16::run(&mut ctx),
        "C17" => c17::run(&mut ctx),
        "C18" => c18::run(&mut ctx),
        other => { eprintln!("unknown property {other}"); std::process::exit(2); }
    }
    ctx.emit.out.flush().unwrap();
    eprintln!("{} lines", ctx.emit.n);
}
