//! One real session driven operation by operation, every operation mirrored as a line for the
//! Lean session model (`sess.*` opcodes).  Shared by C06, C07, C13, C14.
#![allow(dead_code)]
use crate::sess::{self, Sim};
use crate::Ctx;
use isomdl::definitions::device_request::ItemsRequest;
use isomdl::presentation::authentication::{RequestAuthenticationOutcome, ResponseAuthenticationOutcome};
use rand::Rng;

use std::collections::BTreeMap;

pub struct Hist {
    pub sim: Sim,
    pub tag: String,
    /// every message the reader (or the harness as reader) ever produced: (bytes, descriptor)
    pub to_dev: Vec<(Vec<u8>, String)>,
    pub to_rdr: Vec<(Vec<u8>, String)>,
    pub extra: Vec<u32>,
    pub ops: Vec<String>,
    pub saved_ops_len: BTreeMap<u32, usize>,
    pub last_req_outcome: Option<RequestAuthenticationOutcome>,
    pub last_resp_outcome: Option<ResponseAuthenticationOutcome>,
    /// harness-side count of encryptions per direction (ISO oracle for Spec(real))
    pub n_enc_r: u64,
    pub n_enc_d: u64,
    /// emit the C13 specification predicates on the real observations
    pub spec13: bool,
    pub saved: std::collections::BTreeMap<u32, (String, String, (u64, u64), (u64, u64), u64, u64)>,
    /// sequence oracle bookkeeping per receiver: (highest accepted counter, ciphertexts rejected since)
    pub win_dev: (u64, u64),
    pub win_rdr: (u64, u64),
    /// a library call panicked in this history: recorded as an observation, nothing further is run on it
    pub dead: bool,
}

pub fn dev_outcome_class(o: &RequestAuthenticationOutcome) -> &'static str {
    if o.errors.contains_key("decryption_errors") { "decryption" }
    else if o.errors.contains_key("parsing_errors") && o.items_request.is_empty() { "parsing" }
    else if !o.items_request.is_empty() { "accepted:req" }
    else { "accepted:malformed" }
}

pub fn rdr_outcome_class(o: &ResponseAuthenticationOutcome) -> String {
    if let Some(v) = o.errors.get("decryption_errors") {
        let s = v.to_string();
        if s.contains("DecryptionError") { "decryption".into() }
        else if s.contains("HolderError") { "statusonly".into() }
        else if s.contains("CborDecodingError") { "parsing".into() }
        else { format!("other:{s}") }
    } else { "accepted:resp".into() }
}

/// status-only SessionData frames (unauthenticated; anyone on the link can send them)
pub fn status_only(k: u8) -> Vec<u8> {
    use isomdl::definitions::session::Status;
    let status = match k { 0 => Some(Status::SessionEncryptionError), 1 => Some(Status::CborDecodingError), 2 => Some(Status::SessionTermination), _ => None };
    isomdl::cbor::to_vec(&isomdl::definitions::SessionData { data: None, status }).unwrap()
}

impl Hist {
    pub fn start(ctx: &mut Ctx, sim: Sim, tag: &str) -> Hist {
        let mut h = Hist { sim, tag: tag.into(), to_dev: vec![], to_rdr: vec![], extra: vec![], ops: vec![], saved_ops_len: Default::default(),
                           last_req_outcome: None, last_resp_outcome: None, n_enc_r: 1, n_enc_d: 0, spec13: false, saved: Default::default(), win_dev: (1, 0), win_rdr: (0, 0), dead: false };
        let d = h.sim.describe(&h.sim.establishment.clone(), &[]);
        h.to_dev.push((h.sim.establishment.clone(), d));
        let real = h.sim.summary();
        h.emit(ctx, format!("sess.new {}", h.sim.id), real);
        let iv = h.sim.iv_of(&h.sim.establishment.clone(), &[]);
        h.emit(ctx, "sess.firstIv".into(), format!("iv={iv}"));
        h.spec_iv(ctx, true, &iv);
        h
    }
    /// Spec(real): the n-th encryption of a direction must use the reader/device key with the ISO IV(n)
    fn spec_iv(&mut self, ctx: &mut Ctx, reader: bool, iv: &str) {
        let n = if reader { self.n_enc_r } else { self.n_enc_d };
        if n >= (1u64 << 32) { return; }
        let want_key = if reader { "kr" } else { "kd" };
        let obs = match iv.split_once(':') { Some((k, hexiv)) if k == want_key => format!("{n}:{hexiv}"), _ => format!("{n}:00") };
        ctx.emit.line("spec", &format!("spec:{}", self.tag), format!("spec.iv {} {} {}", reader, n, obs), "true".into(),
            serde_json::json!({"history": self.ops.clone(), "observed_iv": iv, "expected_counter": n}));
    }
    /// Spec(real), sequence form of C06 (see Spec/Channel.lean `acceptWindowOk`)
    fn window_spec(&mut self, ctx: &mut Ctx, to_device: bool, desc: &str, accepted: bool) {
        let parts: Vec<&str> = desc.split(':').collect();
        if parts.len() != 6 || parts[0] != "ct" { return; }
        let dir_ok = (parts[1] == "r") == to_device;
        let sess_ok = parts[2] == self.sim.id.to_string();
        let n: u64 = parts[3].parse().unwrap_or(0);
        let tampered = parts[5] == "t";
        let (max_acc, rej) = if to_device { self.win_dev } else { self.win_rdr };
        let t = |b: bool| if b { "t" } else { "f" };
        ctx.emit.line("spec", &format!("spec:{}:window:{}", self.tag, if to_device { "dev" } else { "rdr" }),
            format!("spec.c06seq {} {} {} {} {} {} {}", t(accepted), t(dir_ok), t(sess_ok), t(tampered), n, max_acc, rej), "true".into(),
            serde_json::json!({"history": self.ops.clone(), "delivered": desc}));
        let w = if to_device { &mut self.win_dev } else { &mut self.win_rdr };
        if accepted { *w = (n.max(w.0), 0); } else { w.1 += 1; }
    }
    /// bytes of the staged response, if any
    fn ready_bytes(&self) -> Option<Vec<u8>> {
        match sess::peek_device(&self.sim.dev).state { Some(isomdl::presentation::device::State::ReadyToRespond(b)) => Some(b), _ => None }
    }
    /// after a device operation: if a NEW response was staged, one more device-direction encryption happened
    fn note_device_encryption(&mut self, ctx: &mut Ctx, before: &Option<Vec<u8>>) {
        let after = self.ready_bytes();
        if let Some(b) = &after {
            if before.as_ref() != Some(b) {
                let ctr = sess::peek_device(&self.sim.dev).dev_ctr;
                let iv = self.sim.iv_of(b, &[ctr]);
                if iv != "none" { self.n_enc_d += 1; self.spec_iv(ctx, false, &iv); }
            }
        }
    }
    fn spec13_line(&mut self, ctx: &mut Ctx, kind: &str, op: String) {
        if !self.spec13 { return; }
        ctx.emit.line("spec", &format!("spec:{}:{}", self.tag, kind), op, "true".into(),
            serde_json::json!({"history": self.ops.clone()}));
    }
    fn spec13_notstuck(&mut self, ctx: &mut Ctx) {
        let st = self.sim.dev_state_str();
        self.spec13_line(ctx, "notstuck", format!("spec.c13.notstuck {st}"));
    }
    /// a library call panicked: the observation of `op` is "panic" (the model never says so), the
    /// "nothing panics" clause of C13 gets its concrete history, and the history ends here
    fn died(&mut self, ctx: &mut Ctx, op: String, msg: &str) {
        self.dead = true;
        self.emit(ctx, op.clone(), format!("panic {}", msg.replace(' ', "_").replace('\n', "_")));
        if self.spec13 { ctx.emit.line("spec", &format!("spec:{}:no-panic", self.tag), "spec.eq panic no-panic".into(), "true".into(),
            serde_json::json!({"history": self.ops.clone(), "panicked_in": op, "message": msg})); }
    }
    fn emit(&mut self, ctx: &mut Ctx, op: String, real: String) {
        self.ops.push(op.clone());
        ctx.emit.corr(&self.tag, op, real);
    }
    pub fn new_request(&mut self, ctx: &mut Ctx, elems: &[&str]) -> Vec<u8> {
        if self.dead { return vec![]; }
        let r = crate::guarded(std::panic::AssertUnwindSafe(|| self.sim.rdr.new_request(sess::simple_namespaces(elems))));
        let r = match r { Ok(r) => r, Err(e) => { self.died(ctx, "sess.newRequest".into(), &e); return vec![]; } };
        let msg = match r {
            Ok(m) => m,
            Err(_) => {
                // send counter used up: no request, nothing changes (Model: `Reader.newRequest` = (r, none))
                let real = format!("none iv=none {}", self.sim.summary());
                self.emit(ctx, "sess.newRequest".into(), real);
                return vec![];
            }
        };
        let p = sess::peek_reader(&self.sim.rdr);
        let mut ex = self.extra.clone(); ex.push(p.rdr_ctr);
        let d = self.sim.describe(&msg, &ex);
        let iv = self.sim.iv_of(&msg, &ex);
        self.to_dev.push((msg.clone(), d.clone()));
        let real = format!("{d} iv={iv} {}", self.sim.summary());
        self.emit(ctx, "sess.newRequest".into(), real);
        self.n_enc_r += 1;
        self.spec_iv(ctx, true, &iv);
        msg
    }
    pub fn handle_request(&mut self, ctx: &mut Ctx, msg: &[u8], desc: &str) {
        if self.dead { return; }
        let rb = self.ready_bytes();
        // an AUTHENTIC message (this session, reader direction, the device's next counter, unmodified) whose plaintext is malformed
        // must lead to a staged status-11/12 response whatever the outcome object says (decided from the delivery, not from the outcome)
        let authentic_malformed = { let p: Vec<&str> = desc.split(':').collect();
            p.len() == 6 && p[0] == "ct" && p[1] == "r" && p[2] == self.sim.id.to_string() && p[5] == "f" && (p[4] == "notcbor" || p[4] == "notreq")
                && p[3].parse::<u64>().ok() == Some(sess::peek_device(&self.sim.dev).rdr_ctr as u64 + 1) && sess::peek_device(&self.sim.dev).rdr_ctr != u32::MAX };
        let o = match crate::guarded(std::panic::AssertUnwindSafe(|| self.sim.dev.handle_request(msg))) {
            Ok(o) => o, Err(e) => { self.died(ctx, format!("sess.handleRequest {desc}"), &e); return; } };
        let real = format!("{} {}", dev_outcome_class(&o), self.sim.summary());
        self.window_spec(ctx, true, desc, dev_outcome_class(&o).starts_with("accepted"));
        let malformed = dev_outcome_class(&o) == "accepted:malformed" || authentic_malformed;
        self.last_req_outcome = Some(o);
        self.emit(ctx, format!("sess.handleRequest {desc}"), real);
        if malformed { let st = self.sim.dev_state_str(); self.spec13_line(ctx, "malformed", format!("spec.c13.malformed {st}")); }
        self.spec13_notstuck(ctx);
        self.note_device_encryption(ctx, &rb);
    }
    /// prepare_response for the given doc types, all default elements permitted
    pub fn prepare(&mut self, ctx: &mut Ctx, doc_types: &[&str]) {
        if self.dead { return; }
        let requests: Vec<ItemsRequest> = doc_types.iter().map(|d| ItemsRequest {
            doc_type: d.to_string(), namespaces: sess::simple_namespaces(&["family_name", "age_over_18", "not_held"]), request_info: None }).collect();
        let permitted = sess::permit_all(doc_types, &["family_name", "age_over_18", "not_held"]);
        let rb = self.ready_bytes();
        if let Err(e) = crate::guarded(std::panic::AssertUnwindSafe(|| self.sim.dev.prepare_response(&requests, permitted))) {
            self.died(ctx, "sess.prepare ?".into(), &e); return; }
        // tape: which documents were prepared, in order, is read from the real state
        let p = sess::peek_device(&self.sim.dev);
        let docs = match &p.state {
            Some(isomdl::presentation::device::State::Signing(pr)) =>
                pr.prepared_documents.iter().map(|d| self.sim.doc_id(&d.doc_type)).collect::<Vec<_>>(),
            // nothing to sign: the response was staged at once
            Some(isomdl::presentation::device::State::ReadyToRespond(_)) => vec![],
            _ => vec!["?".into()],
        };
        let real = self.sim.summary();
        self.emit(ctx, format!("sess.prepare {}", if docs.is_empty() { "-".into() } else { docs.join(",") }), real);
        // Spec(real): whatever was pending, the device is now signing exactly the requested documents it holds (all of them are
        // permitted here) - computed from the REQUEST, not read back from the state
        { let mut want: Vec<String> = doc_types.iter().filter(|d| self.sim.holds(d)).map(|d| self.sim.doc_id(d)).collect(); want.sort(); want.dedup();
          let st = self.sim.dev_state_str();
          self.spec13_line(ctx, "prepare", format!("spec.c13.prepare {} {st}", if want.is_empty() { "-".into() } else { want.join(",") })); }
        self.spec13_notstuck(ctx);
        self.note_device_encryption(ctx, &rb);
    }
    pub fn get_next(&mut self, ctx: &mut Ctx) -> Option<Vec<u8>> {
        if self.dead { return None; }
        let (real, payload) = match self.sim.dev.get_next_signature_payload() {
            None => ("none".to_string(), None),
            Some((uuid, payload)) => {
                // which document is it?  look the uuid up among prepared documents
                let p = sess::peek_device(&self.sim.dev);
                let dt = match &p.state {
                    Some(isomdl::presentation::device::State::Signing(pr)) =>
                        pr.prepared_documents.iter().find(|d| d.id == uuid).map(|d| d.doc_type.clone()),
                    _ => None };
                (format!("some:{}", dt.map(|d| self.sim.doc_id(&d)).unwrap_or("?".into())), Some(payload.to_vec()))
            }
        };
        self.emit(ctx, "sess.getNext".into(), real.clone());
        let st = self.sim.dev_state_str();
        self.spec13_line(ctx, "offered", format!("spec.c13.offered {} {st}", real.strip_prefix("some:").unwrap_or("none")));
        payload
    }
    /// submit a signature: a real one over the offered payload if there is one, else dummy bytes
    pub fn submit(&mut self, ctx: &mut Ctx, dummy: bool) {
        if self.dead { return; }
        let payload = self.sim.dev.get_next_signature_payload().map(|(_, p)| p.to_vec());
        let (id, sig) = match (&payload, dummy) {
            (Some(p), false) => self.sim.sign_real(p),
            _ => { let n = self.sim.sigs.len() as u8; self.sim.sign_dummy(n) }
        };
        let st_before = self.sim.dev_state_str();
        let offered = match self.sim.dev.get_next_signature_payload() { None => "none".to_string(), Some((uuid, _)) => {
            let p = sess::peek_device(&self.sim.dev);
            match &p.state { Some(isomdl::presentation::device::State::Signing(pr)) => pr.prepared_documents.iter().find(|d| d.id == uuid).map(|d| self.sim.doc_id(&d.doc_type)).unwrap_or("?".into()), _ => "?".into() } } };
        let pb = sess::peek_device(&self.sim.dev);
        let before = pb.dev_ctr;
        let rb = self.ready_bytes();
        let r = crate::guarded(std::panic::AssertUnwindSafe(|| self.sim.dev.submit_next_signature(sig)));
        if let Err(e) = &r { let e = e.clone(); self.died(ctx, format!("sess.submit {id}"), &e); return; }
        let real = match r {
            Err(_) => "panic".to_string(),
            Ok(_) => {
                let p = sess::peek_device(&self.sim.dev);
                let iv = if p.dev_ctr != before {
                    match &p.state { Some(isomdl::presentation::device::State::ReadyToRespond(b)) => format!("iv={}", self.sim.iv_of(b, &[p.dev_ctr])), _ => "iv=lost".into() }
                } else { "iv=none".into() };
                format!("{iv} {}", self.sim.summary())
            }
        };
        self.emit(ctx, format!("sess.submit {id}"), real);
        let st_after = self.sim.dev_state_str();
        self.spec13_line(ctx, "submit", format!("spec.c13.submit {st_before} {st_after} {offered} {id}"));
        self.spec13_notstuck(ctx);
        self.note_device_encryption(ctx, &rb);
    }
    pub fn response_ready(&mut self, ctx: &mut Ctx) {
        if self.dead { return; }
        let real = self.sim.dev.response_ready().to_string();
        self.emit(ctx, "sess.responseReady".into(), real.clone());
        let st = self.sim.dev_state_str();
        self.spec13_line(ctx, "ready", format!("spec.c13.ready {real} {st}"));
    }
    pub fn retrieve(&mut self, ctx: &mut Ctx) -> Option<Vec<u8>> {
        if self.dead { return None; }
        let ctr = sess::peek_device(&self.sim.dev).dev_ctr;
        let st_before = self.sim.dev_state_str();
        let r = match crate::guarded(std::panic::AssertUnwindSafe(|| self.sim.dev.retrieve_response())) {
            Ok(r) => r, Err(e) => { self.died(ctx, "sess.retrieve".into(), &e); return None; } };
        let d = match &r { None => "none".to_string(), Some(b) => { let d = self.sim.describe(b, &[ctr]); self.to_rdr.push((b.clone(), d.clone())); d } };
        let real = format!("{d} {}", self.sim.summary());
        self.emit(ctx, "sess.retrieve".into(), real);
        let st_after = self.sim.dev_state_str();
        self.spec13_line(ctx, "retrieve", format!("spec.c13.retrieve {d} {st_before} {st_after}"));
        r
    }
    pub fn handle_response(&mut self, ctx: &mut Ctx, msg: &[u8], desc: &str) {
        if self.dead { return; }
        let o = match crate::guarded(std::panic::AssertUnwindSafe(|| self.sim.rdr.handle_response(msg))) {
            Ok(o) => o, Err(e) => { self.died(ctx, format!("sess.handleResponse {desc}"), &e); return; } };
        let real = format!("{} {}", rdr_outcome_class(&o), self.sim.summary());
        // accepted = the ciphertext decrypted (even if the plaintext then failed to parse as a DeviceResponse)
        let cls = rdr_outcome_class(&o);
        let acc = cls.starts_with("accepted") || (cls == "parsing" && desc.starts_with("ct:"));
        self.window_spec(ctx, false, desc, acc);
        self.last_resp_outcome = Some(o);
        self.emit(ctx, format!("sess.handleResponse {desc}"), real);
    }
    pub fn restore_device(&mut self, ctx: &mut Ctx) {
        if self.dead { return; }
        self.sim.restore_device();
        let real = self.sim.summary();
        self.emit(ctx, "sess.restoreDevice".into(), real);
    }
    pub fn restore_reader(&mut self, ctx: &mut Ctx) {
        if self.dead { return; }
        self.sim.restore_reader();
        let real = self.sim.summary();
        self.emit(ctx, "sess.restoreReader".into(), real);
    }
    pub fn set_counters(&mut self, ctx: &mut Ctx, de: u32, dd: u32, re: u32, rd: u32) {
        if self.dead { return; }
        self.sim.set_counters(de, dd, re, rd);
        self.extra.extend([de, dd, re, rd]);
        self.n_enc_r = re as u64; self.n_enc_d = de as u64;
        self.win_dev = (dd as u64, 0); self.win_rdr = (rd as u64, 0);
        let real = self.sim.summary();
        self.emit(ctx, format!("sess.setCounters {de} {dd} {re} {rd}"), real);
    }

    pub fn save(&mut self, ctx: &mut Ctx) { self.save_slot(ctx, 0) }
    pub fn load(&mut self, ctx: &mut Ctx) { self.load_slot(ctx, 0) }
    pub fn save_slot(&mut self, ctx: &mut Ctx, k: u32) {
        use isomdl::presentation::Stringify;
        if self.dead { return; }
        self.saved.insert(k, (self.sim.dev.stringify().unwrap(), self.sim.rdr.stringify().unwrap(), self.win_dev, self.win_rdr, self.n_enc_r, self.n_enc_d));
        self.emit(ctx, format!("sess.save {k}"), "saved".into());
        self.saved_ops_len.insert(k, self.ops.len());
    }
    pub fn load_slot(&mut self, ctx: &mut Ctx, k: u32) {
        use isomdl::presentation::Stringify;
        let (d, r, wd, wr, ner, ned) = self.saved.get(&k).cloned().unwrap();
        self.n_enc_r = ner; self.n_enc_d = ned;
        self.sim.dev = isomdl::presentation::device::SessionManager::parse(d).unwrap();
        self.sim.rdr = isomdl::presentation::reader::SessionManager::parse(r).unwrap();
        self.win_dev = wd; self.win_rdr = wr;
        self.dead = false;   // both objects are fresh copies of the saved state
        // the recorded history is a replayable script: returning to a saved state forgets what was tried after it
        if let Some(n) = self.saved_ops_len.get(&k) { self.ops.truncate(*n); }
        let real = self.sim.summary();
        self.emit(ctx, format!("sess.load {k}"), real);
    }
    /// deliver to the device and also evaluate the C06 predicate on the real observation
    pub fn deliver_dev_c06(&mut self, ctx: &mut Ctx, msg: &[u8], desc: &str, honest: Option<bool>, what: &str) {
        let before = self.sim.dev_state_str();
        let enc_before = sess::peek_device(&self.sim.dev).dev_ctr;
        if self.dead { return; }
        self.handle_request(ctx, msg, desc);
        if self.dead { return; }
        let o = self.last_req_outcome.clone().unwrap();
        let after = self.sim.dev_state_str();
        let unchanged = before == after && enc_before == sess::peek_device(&self.sim.dev).dev_ctr;
        let has_data = !o.items_request.is_empty() || o.common_name.is_some()
            || !matches!(o.reader_authentication, isomdl::presentation::authentication::AuthenticationStatus::Unchecked);
        let cls = dev_outcome_class(&o);
        let t = |b: bool| if b { "t" } else { "f" };
        if honest.is_none() && desc.starts_with("ct:") && !desc.ends_with(":t") { return; }
        let op = match honest { Some(h) => format!("spec.c06 {} {} {} {}", t(h), cls, t(unchanged), t(has_data)),
                                None => format!("spec.c06w {} {} {}", cls, t(unchanged), t(has_data)) };
        let op = if honest.is_none() && desc.ends_with(":t") { format!("spec.c06 f {} {} {}", cls, t(unchanged), t(has_data)) } else { op };
        ctx.emit.line("spec", &format!("spec:{}:dev:{}", self.tag, what), op, "true".into(),
            serde_json::json!({"history": self.ops.clone(), "delivered": desc, "what": what, "msg_hex": hex::encode(msg)}));
    }
    pub fn deliver_rdr_c06(&mut self, ctx: &mut Ctx, msg: &[u8], desc: &str, honest: Option<bool>, what: &str) {
        let enc_before = sess::peek_reader(&self.sim.rdr).rdr_ctr;
        if self.dead { return; }
        self.handle_response(ctx, msg, desc);
        if self.dead { return; }
        let o = self.last_resp_outcome.clone().unwrap();
        let unchanged = enc_before == sess::peek_reader(&self.sim.rdr).rdr_ctr;
        use isomdl::presentation::authentication::AuthenticationStatus as A;
        let has_data = !o.response.is_empty() || !matches!(o.issuer_authentication, A::Unchecked) || !matches!(o.device_authentication, A::Unchecked);
        let cls = rdr_outcome_class(&o);
        let t = |b: bool| if b { "t" } else { "f" };
        if honest.is_none() && desc.starts_with("ct:") && !desc.ends_with(":t") { return; }
        let op = match honest { Some(h) => format!("spec.c06 {} {} {} {}", t(h), cls, t(unchanged), t(has_data)),
                                None => format!("spec.c06w {} {} {}", cls, t(unchanged), t(has_data)) };
        let op = if honest.is_none() && desc.ends_with(":t") { format!("spec.c06 f {} {} {}", cls, t(unchanged), t(has_data)) } else { op };
        ctx.emit.line("spec", &format!("spec:{}:rdr:{}", self.tag, what), op, "true".into(),
            serde_json::json!({"history": self.ops.clone(), "delivered": desc, "what": what, "msg_hex": hex::encode(msg)}));
    }

    /// one random operation from the C07/C13 alphabet; returns a short label
    pub fn random_op(&mut self, ctx: &mut Ctx, doc_types: &[&str]) -> &'static str {
        let k = ctx.rng.gen_range(0..100);
        if self.dead { return "dead"; }
        match k {
            0..=13 => { self.new_request(ctx, &["family_name"]); "newRequest" }
            14..=27 => {
                // deliver: usually the newest reader message, sometimes an old one (replay), tampered, garbage, nodata
                let j = ctx.rng.gen_range(0..10);
                if j < 6 && !self.to_dev.is_empty() {
                    let i = if ctx.rng.gen_bool(0.75) { self.to_dev.len() - 1 } else { ctx.rng.gen_range(0..self.to_dev.len()) };
                    let (m, d) = self.to_dev[i].clone();
                    if d.starts_with("ct:") { self.handle_request(ctx, &m, &d); }
                    "handleRequest"
                } else if j < 8 && self.to_dev.len() > 1 {
                    let i = ctx.rng.gen_range(1..self.to_dev.len());
                    let (m, d) = self.to_dev[i].clone();
                    let bit = ctx.rng.gen_range(0..4096);
                    let t = sess::tamper(&m, bit);
                    let d = format!("{}t", &d[..d.len() - 1]);
                    self.handle_request(ctx, &t, &d);
                    "handleRequest-tampered"
                } else if j == 8 {
                    let g: Vec<u8> = (0..ctx.rng.gen_range(0..40)).map(|_| ctx.rng.gen()).collect();
                    // only call it garbage if it is not SessionData
                    if isomdl::cbor::from_slice::<isomdl::definitions::SessionData>(&g).is_err() { self.handle_request(ctx, &g, "garbage"); }
                    "handleRequest-garbage"
                } else {
                    let m = status_only(ctx.rng.gen_range(0..4));
                    self.handle_request(ctx, &m, "nodata");
                    "handleRequest-nodata"
                }
            }
            28..=33 => {
                // malformed plaintext under the right key and counter (harness plays the reader)
                let n = sess::peek_device(&self.sim.dev).rdr_ctr.wrapping_add(1);
                let (pt, kind): (Vec<u8>, &str) = match ctx.rng.gen_range(0..5) { 0 | 1 => (vec![0xff, 0x00, 0x13], "notcbor"), 2 => (vec![], "notcbor"), _ => (vec![0xa1, 0x61, 0x78, 0x01], "notreq") };
                let m = self.sim.craft_reader_msg(n, &pt);
                let d = format!("ct:r:{}:{}:{}:f", self.sim.id, n, kind);
                self.to_dev.push((m.clone(), d.clone()));
                self.handle_request(ctx, &m, &d);
                "handleRequest-malformed"
            }
            34..=48 => {
                let k = ctx.rng.gen_range(0..=doc_types.len());
                let mut chosen: Vec<&str> = doc_types.iter().cloned().filter(|_| ctx.rng.gen_bool(0.5)).take(k).collect();
                if ctx.rng.gen_bool(0.2) { chosen.push("org.example.nothere"); }
                self.prepare(ctx, &chosen);
                "prepare"
            }
            49..=55 => { self.get_next(ctx); "getNext" }
            56..=72 => { let dummy = ctx.rng.gen_bool(0.2); self.submit(ctx, dummy); "submit" }
            73..=76 => { self.response_ready(ctx); "responseReady" }
            77..=86 => { self.retrieve(ctx); "retrieve" }
            87..=88 => {
                let m = status_only(ctx.rng.gen_range(0..4));
                self.handle_response(ctx, &m, "nodata");
                "handleResponse-nodata"
            }
            89..=93 => {
                if !self.to_rdr.is_empty() {
                    let i = if ctx.rng.gen_bool(0.75) { self.to_rdr.len() - 1 } else { ctx.rng.gen_range(0..self.to_rdr.len()) };
                    let (m, d) = self.to_rdr[i].clone();
                    if ctx.rng.gen_bool(0.2) && d.starts_with("ct:") {
                        let t = sess::tamper(&m, ctx.rng.gen_range(0..4096));
                        let d = format!("{}t", &d[..d.len() - 1]);
                        self.handle_response(ctx, &t, &d);
                    } else if d.starts_with("ct:") || d == "nodata" { self.handle_response(ctx, &m, &d); }
                }
                "handleResponse"
            }
            94..=96 => { self.restore_device(ctx); "restoreDevice" }
            _ => { self.restore_reader(ctx); "restoreReader" }
        }
    }
}
