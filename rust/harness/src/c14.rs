//! C14: stringify/parse at any step boundary is transparent.  Twin runs: the same remaining
//! script is executed on an untouched clone and on a copy restored through stringify/parse; all
//! later outputs and the final stringified states must be identical byte for byte.
use crate::sess::{self, MDL};
use crate::world::{self, Pki};
use crate::Ctx;
use isomdl::cbor;
use isomdl::definitions::device_request::ItemsRequest;
use isomdl::definitions::x509::trust_anchor::TrustAnchorRegistry;
use isomdl::definitions::{DigestAlgorithm, SessionEstablishment};
use isomdl::presentation::{device, reader, Stringify};
use p256::ecdsa::{signature::Signer, Signature, SigningKey};
use rand::Rng;

#[derive(Clone, Debug)]
enum Op { NewRequest(u8), ToDev(u8, u8), Malformed(u8), Prepare(u8), GetNext, Submit(bool), Ready, Retrieve, ToRdr(u8, u8) }

#[derive(Clone)]
struct Pair { dev: device::SessionManager, rdr: reader::SessionManager, to_dev: Vec<Vec<u8>>, to_rdr: Vec<Vec<u8>>, key: SigningKey, sk_reader: [u8; 32] }

const DOCS: [&str; 2] = [MDL, "org.example.a"];

fn exec(p: &mut Pair, op: &Op) -> Vec<u8> {
    match op {
        Op::NewRequest(k) => {
            let elems: &[&str] = if k % 2 == 0 { &["family_name"] } else { &["age_over_18", "given_name", "nothing"] };
            let m = p.rdr.new_request(sess::simple_namespaces(elems)).unwrap();
            p.to_dev.push(m.clone()); m
        }
        Op::ToDev(which, tamper) => {
            if p.to_dev.is_empty() { return vec![]; }
            let i = if *which == 0 { p.to_dev.len() - 1 } else { (*which as usize) % p.to_dev.len() };
            let mut m = p.to_dev[i].clone();
            if *tamper > 0 { let j = (*tamper as usize * 7) % m.len(); m[j] ^= 0x10; }
            let o = p.dev.handle_request(&m);
            serde_json::to_vec(&o).unwrap()
        }
        Op::Malformed(k) => {
            let n = sess::peek_device(&p.dev).rdr_ctr.wrapping_add(1);
            let pt: Vec<u8> = if k % 2 == 0 { vec![0xff, 0, 0x13] } else { vec![0xa1, 0x61, 0x78, 1] };
            let ct = sess::aes_enc(&p.sk_reader, &sess::iv_bytes(true, n), &pt);
            let m = cbor::to_vec(&isomdl::definitions::SessionData { data: Some(ct.into()), status: None }).unwrap();
            serde_json::to_vec(&p.dev.handle_request(&m)).unwrap()
        }
        Op::Prepare(mask) => {
            // bit 2: a document type the holder does not own (gives documentErrors)
            let all = [DOCS[0], DOCS[1], "org.example.unheld"];
            let chosen: Vec<&str> = all.iter().enumerate().filter(|(i, _)| mask & (1 << i) != 0).map(|(_, d)| *d).collect();
            // bit 3: the large element is requested too (a staged response of more than 4 KiB)
            let elems: &[&str] = if mask & 8 != 0 { &["family_name", "age_over_18", "zzz", "portrait"] } else { &["family_name", "age_over_18", "zzz"] };
            let reqs: Vec<ItemsRequest> = chosen.iter().map(|d| ItemsRequest { doc_type: d.to_string(),
                namespaces: sess::simple_namespaces(elems), request_info: None }).collect();
            p.dev.prepare_response(&reqs, sess::permit_all(&chosen, elems));
            vec![]
        }
        Op::GetNext => match p.dev.get_next_signature_payload() { None => vec![0], Some((id, pl)) => { let mut v = id.as_bytes().to_vec(); v.extend_from_slice(pl); v } },
        Op::Submit(real) => {
            let sig = match (p.dev.get_next_signature_payload(), real) {
                (Some((_, pl)), true) => { let s: Signature = p.key.sign(pl); s.to_vec() }
                _ => vec![0x5a; 64] };
            let r = crate::guarded(std::panic::AssertUnwindSafe(|| p.dev.submit_next_signature(sig)));
            match r { Err(_) => b"panic".to_vec(), Ok(Err(e)) => e.to_string().into_bytes(), Ok(Ok(())) => b"ok".to_vec() }
        }
        Op::Ready => vec![p.dev.response_ready() as u8],
        Op::Retrieve => match p.dev.retrieve_response() { None => vec![0], Some(m) => { p.to_rdr.push(m.clone()); m } },
        Op::ToRdr(which, tamper) => {
            if p.to_rdr.is_empty() { return vec![]; }
            let i = if *which == 0 { p.to_rdr.len() - 1 } else { (*which as usize) % p.to_rdr.len() };
            let mut m = p.to_rdr[i].clone();
            if *tamper > 0 { let j = (*tamper as usize * 11) % m.len(); m[j] ^= 0x04; }
            serde_json::to_vec(&p.rdr.handle_response(&m)).unwrap()
        }
    }
}

fn random_op(ctx: &mut Ctx) -> Op {
    match ctx.rng.gen_range(0..100) {
        0..=14 => Op::NewRequest(ctx.rng.gen()),
        15..=29 => Op::ToDev(if ctx.rng.gen_bool(0.7) { 0 } else { ctx.rng.gen() }, if ctx.rng.gen_bool(0.85) { 0 } else { ctx.rng.gen() }),
        30..=34 => Op::Malformed(ctx.rng.gen()),
        35..=49 => Op::Prepare(ctx.rng.gen_range(0..16)),
        50..=55 => Op::GetNext,
        56..=72 => Op::Submit(ctx.rng.gen_bool(0.85)),
        73..=76 => Op::Ready,
        77..=88 => Op::Retrieve,
        _ => Op::ToRdr(if ctx.rng.gen_bool(0.7) { 0 } else { ctx.rng.gen() }, if ctx.rng.gen_bool(0.85) { 0 } else { ctx.rng.gen() }),
    }
}

fn digest(outs: &[Vec<u8>]) -> String {
    use sha2::{Digest, Sha256};
    let mut h = Sha256::new();
    for o in outs { h.update((o.len() as u64).to_be_bytes()); h.update(o); }
    hex::encode(&h.finalize()[..16])
}

/// shape of a REAL stored session manager, read from its CBOR with ciborium: top-level keys in
/// order, the two counters, the `State` variant (with the field names of a prepared response)
fn shape(v: &ciborium::Value, dev: bool) -> String {
    use ciborium::Value;
    let keys = |v: &Value| v.as_map().map(|m| m.iter().map(|(k, _)| k.as_text().unwrap_or("?").to_string()).collect::<Vec<_>>().join(",")).unwrap_or("?".into());
    let get = |k: &str| v.as_map().and_then(|m| m.iter().find(|(kk, _)| kk.as_text() == Some(k)).map(|(_, x)| x.clone()));
    let ctr = |k: &str| get(k).and_then(|x| x.as_integer()).map(|i| i128::from(i).to_string()).unwrap_or("?".into());
    if !dev { return format!("{} ctr={},{}", keys(v), ctr("reader_message_counter"), ctr("device_message_counter")); }
    let st = match get("state") {
        Some(Value::Text(t)) => t,
        Some(Value::Map(m)) if m.len() == 1 => { let (k, x) = &m[0]; let k = k.as_text().unwrap_or("?");
            if k == "Signing" { format!("Signing:{}", keys(x)) } else { k.to_string() } }
        _ => "?".into() };
    format!("{} ctr={},{} state={}", keys(v), ctr("device_message_counter"), ctr("reader_message_counter"), st)
}

/// the stored forms against the codec model: base64 layer, CBOR layer and the serde shape
fn codec_lines(ctx: &mut Ctx, p: &Pair, with_device_b64: bool) {
    let sd = p.dev.stringify().unwrap(); let sr = p.rdr.stringify().unwrap();
    let (bd, br) = (base64::decode(&sd).unwrap(), base64::decode(&sr).unwrap());
    let vd: ciborium::Value = cbor::from_slice(&bd).unwrap(); let vr: ciborium::Value = cbor::from_slice(&br).unwrap();
    // the model's base64 + CBOR decoders read the real stored state: same fields, counters, variant
    ctx.emit.corr("codec:peek:dev", format!("codec.peek dev {sd}"), shape(&vd, true));
    ctx.emit.corr("codec:peek:rdr", format!("codec.peek rdr {sr}"), shape(&vr, false));
    // the model's OWN stored form of the corresponding abstract state has the same shape
    let pk = sess::peek_device(&p.dev);
    let abs = match &pk.state { Some(device::State::AwaitingRequest) => "awaiting", Some(device::State::Signing(_)) => "signing/1/-/0", Some(device::State::ReadyToRespond(_)) => "ready/nodata", None => "?" };
    ctx.emit.corr("codec:shape:dev", format!("codec.shape dev {} {} {abs}", pk.dev_ctr, pk.rdr_ctr), shape(&vd, true));
    let pr = sess::peek_reader(&p.rdr);
    ctx.emit.corr("codec:shape:rdr", format!("codec.shape rdr {} {}", pr.rdr_ctr, pr.dev_ctr), shape(&vr, false));
    // base64 layer both ways on the real bytes (the reader state is small; the device state once per history)
    ctx.emit.corr("codec:b64:enc", format!("b64.enc {}", hex::encode(&br)), sr.clone());
    ctx.emit.corr("codec:b64:dec", format!("b64.dec {sr}"), hex::encode(&br));
    if with_device_b64 { ctx.emit.corr("codec:b64:enc", format!("b64.enc {}", hex::encode(&bd)), sd.clone()); ctx.emit.corr("codec:b64:dec", format!("b64.dec {sd}"), hex::encode(&bd)); }
}

fn final_state(p: &Pair) -> Vec<Vec<u8>> { vec![p.dev.stringify().unwrap().into_bytes(), p.rdr.stringify().unwrap().into_bytes()] }

pub fn run(ctx: &mut Ctx) {
    // base64 layer on its own: every length 0..=40 (all three padding cases many times over), random
    // content, and strings the decoder must refuse (both implementations are asked the same question)
    for n in 0..=40usize { for _ in 0..(if ctx.thorough { 40 } else { 4 }) {
        let bs: Vec<u8> = (0..n).map(|_| ctx.rng.gen()).collect();
        let e = base64::encode(&bs);
        ctx.emit.corr("b64:enc", format!("b64.enc {}", if bs.is_empty() { "-".into() } else { hex::encode(&bs) }), if e.is_empty() { "-".into() } else { e.clone() });
        ctx.emit.corr("b64:dec", format!("b64.dec {}", if e.is_empty() { "-".into() } else { e.clone() }), if bs.is_empty() { "-".into() } else { hex::encode(&bs) });
        if n > 0 {
            // one symbol replaced by a character outside the alphabet; padding in the middle; trailing bits set
            let mut bad: Vec<String> = vec![];
            let mut c = e.clone().into_bytes(); let j = ctx.rng.gen_range(0..c.len()); c[j] = b"-_.~ \n*"[ctx.rng.gen_range(0..7)]; bad.push(String::from_utf8(c).unwrap());
            if e.len() > 4 { let mut c = e.clone().into_bytes(); c[1] = b'='; bad.push(String::from_utf8(c).unwrap()); }
            if e.ends_with('=') { let mut c = e.clone().into_bytes(); let k = c.iter().position(|x| *x == b'=').unwrap() - 1; c[k] = b'/'; bad.push(String::from_utf8(c).unwrap()); }
            for b in bad { if b.contains(' ') || b.contains('\n') { continue; }
                let real = match base64::decode(&b) { Ok(v) => if v.is_empty() { "-".into() } else { hex::encode(v) }, Err(_) => "none".to_string() };
                ctx.emit.corr("b64:dec-bad", format!("b64.dec {b}"), real); }
        }
    } }
    let pki = Pki::new(&mut ctx.rng);
    let n_hist = if ctx.thorough { 600 } else { 40 };
    for hno in 0..n_hist {
        let mut rng2: rand_chacha::ChaCha8Rng = rand::SeedableRng::seed_from_u64(ctx.rng.gen());
        let key = world::key_from(&mut rng2);
        // every document also holds a large element (a portrait): responses that carry it exceed 4 KiB
        let mut values = sess::default_ns_values();
        values.get_mut(sess::NS).unwrap().insert("portrait".to_string(), ciborium::Value::Bytes((0..5000u32).map(|i| (i * 7 + hno as u32) as u8).collect()));
        let mdocs = DOCS.iter().enumerate().map(|(i, d)| world::issue(&pki, d, values.clone(),
            [DigestAlgorithm::SHA256, DigestAlgorithm::SHA384, DigestAlgorithm::SHA512][(hno + i) % 3], i % 2 == 0, &key).unwrap()).collect();
        let docs = world::documents_of(mdocs);
        // --- Init and Engaged: restored copies behave as the originals
        let init = device::SessionManagerInit::initialise(docs, None, None).unwrap();
        let s0 = init.stringify().unwrap();
        let init_a = device::SessionManagerInit::parse(s0.clone()).unwrap();
        let init_b = device::SessionManagerInit::parse(device::SessionManagerInit::parse(s0.clone()).unwrap().stringify().unwrap()).unwrap();
        let fix0 = init_b.stringify().unwrap() == s0;
        let ble_eq = init.ble_ident().unwrap() == init_a.ble_ident().unwrap();
        let (eng, qr) = init.qr_engagement().unwrap();
        let (eng_a, qr_a) = init_a.qr_engagement().unwrap();
        let e0 = eng.stringify().unwrap();
        let ok_init = fix0 && ble_eq && qr == qr_a && e0 == eng_a.stringify().unwrap();
        ctx.emit.line("spec", "spec:init-engaged", format!("spec.eq {} true", ok_init), "true".into(), serde_json::json!({"what": "SessionManagerInit stringify/parse: fixed point, same BLE ident, same QR, same engaged state"}));
        // reader trust configurations: the current root; none; the current root listed after its lapsed predecessor (same name and key)
        let lapsed_root = { let mut sp = world::root_spec("CN=iaca,C=US", &pki.iaca_key); sp.not_before = -86400 * 400; sp.not_after = -86400; sp.serial = 7; world::build_cert(&sp, &pki.iaca_key, &pki.iaca_key) };
        let reg = match hno % 3 { 0 => pki.iaca_registry(), 1 => TrustAnchorRegistry::default(),
            _ => pki.registry(&[(&lapsed_root, isomdl::definitions::x509::trust_anchor::TrustPurpose::Iaca), (&pki.iaca, isomdl::definitions::x509::trust_anchor::TrustPurpose::Iaca)]) };
        let (rdr, est, _) = reader::SessionManager::establish_session(qr, sess::simple_namespaces(&["family_name"]), reg).unwrap();
        let se: SessionEstablishment = cbor::from_slice(&est).unwrap();
        let eng_b = device::SessionManagerEngaged::parse(e0.clone()).unwrap();
        let fix1 = eng_b.stringify().unwrap() == e0;
        let lapsed_reader_ca = { let mut sp = world::root_spec("CN=readerca,C=US", &pki.reader_ca_key); sp.not_before = -86400 * 400; sp.not_after = -86400; sp.serial = 8; world::build_cert(&sp, &pki.reader_ca_key, &pki.reader_ca_key) };
        let dreg = match hno % 4 { 0 => pki.reader_registry(), 1 => pki.registry(&[(&lapsed_reader_ca, isomdl::definitions::x509::trust_anchor::TrustPurpose::ReaderCa), (&pki.reader_ca, isomdl::definitions::x509::trust_anchor::TrustPurpose::ReaderCa)]), _ => TrustAnchorRegistry::default() };
        let (dev, out_a) = eng.process_session_establishment(se.clone(), dreg.clone()).unwrap();
        let (dev_b, out_b) = eng_b.process_session_establishment(se, dreg).unwrap();
        let ok_eng = fix1 && dev.stringify().unwrap() == dev_b.stringify().unwrap() && serde_json::to_vec(&out_a).unwrap() == serde_json::to_vec(&out_b).unwrap();
        ctx.emit.line("spec", "spec:init-engaged", format!("spec.eq {} true", ok_eng), "true".into(), serde_json::json!({"what": "SessionManagerEngaged restored before process_session_establishment"}));
        // --- established sessions: twin runs at every boundary
        let sk_reader = sess::peek_device(&dev).sk_reader;
        let base0 = Pair { dev, rdr, to_dev: vec![], to_rdr: vec![], key, sk_reader };
        let len = ctx.rng.gen_range(6..if ctx.thorough { 30 } else { 18 });
        // phrases: mostly complete honest rounds (so that several encryptions happen on both sides
        // of every boundary), interleaved with arbitrary single calls
        let mut script: Vec<Op> = vec![];
        while script.len() < len {
            if ctx.rng.gen_bool(0.55) {
                let mask = ctx.rng.gen_range(0..16u8);
                script.push(Op::NewRequest(ctx.rng.gen()));
                script.push(Op::ToDev(0, 0));
                script.push(Op::Prepare(mask));
                for _ in 0..((mask & 3).count_ones().max(1)) { script.push(Op::Submit(true)); }
                script.push(Op::Ready);
                script.push(Op::Retrieve);
                script.push(Op::ToRdr(0, 0));
            } else { script.push(random_op(ctx)); }
        }
        let len = script.len();
        let mut base = base0.clone();
        for i in 0..=len {
            // boundary i: restore device / reader / both, then run the rest on both copies
            for which in 0..3 {
                let mut a = base.clone();
                let mut b = base.clone();
                // a stored state that cannot be loaded again is the plainest violation: reported with the script, not a harness crash
                let who = ["device", "reader", "both"][which];
                let mut failed: Option<String> = None;
                if which != 1 { match device::SessionManager::parse(a.dev.stringify().unwrap()) { Ok(d) => b.dev = d, Err(e) => failed = Some(format!("device: {e}")) } }
                if which != 0 { match reader::SessionManager::parse(a.rdr.stringify().unwrap()) { Ok(r) => b.rdr = r, Err(e) => failed = Some(format!("reader: {e}")) } }
                if let Some(e) = failed {
                    ctx.emit.line("spec", &format!("spec:restore-loads:{}", who), "spec.eq parse-failed parse-ok".into(), "true".into(),
                        serde_json::json!({"script": format!("{:?}", script), "boundary": i, "restored": who, "error": e, "msg_hex": format!("{hno}-{i}-{which}-load")}));
                    continue;
                }
                // thorough: further restores at a random subset of later boundaries
                let extra: Vec<bool> = (i..len).map(|_| ctx.thorough && ctx.rng.gen_bool(0.3)).collect();
                let mut outs_a = vec![]; let mut outs_b = vec![];
                for (k, op) in script[i..].iter().enumerate() {
                    outs_a.push(exec(&mut a, op));
                    outs_b.push(exec(&mut b, op));
                    if extra[k] {
                        match (device::SessionManager::parse(b.dev.stringify().unwrap()), reader::SessionManager::parse(b.rdr.stringify().unwrap())) {
                            (Ok(d), Ok(r)) => { b.dev = d; b.rdr = r; }
                            _ => { outs_b.push(b"parse-failed".to_vec()); break; }
                        }
                    }
                }
                outs_a.extend(final_state(&a)); outs_b.extend(final_state(&b));
                let (da, db) = (digest(&outs_a), digest(&outs_b));
                let first_diff = outs_a.iter().zip(outs_b.iter()).position(|(x, y)| x != y);
                ctx.emit.line("spec", &format!("spec:twin:{}", who),
                    format!("spec.eq {da} {db}"), "true".into(),
                    serde_json::json!({"script": format!("{:?}", script), "boundary": i, "restored": who,
                                       "first_differing_output_index": first_diff, "msg_hex": format!("{hno}-{i}-{which}-{da}")}));
            }
            codec_lines(ctx, &base, i == 0);
            if i < len { exec(&mut base, &script[i]); }
        }
    }
}
