//! Real device/reader sessions with observation helpers (state peeking through the stringified
//! form, IV identification by trial AES-256-GCM decryption, message descriptors).
#![allow(dead_code)]
use crate::world::{self, Pki};
use aes_gcm::aead::{Aead, KeyInit};
use aes_gcm::{Aes256Gcm, Nonce};
use ciborium::Value;
use isomdl::cbor;
use isomdl::definitions::device_request::{DataElements, DeviceRequest, Namespaces};
use isomdl::definitions::helpers::NonEmptyMap;
use isomdl::definitions::x509::trust_anchor::TrustAnchorRegistry;
use isomdl::definitions::{DeviceAuth, DeviceResponse, DigestAlgorithm, SessionData, SessionEstablishment};
use isomdl::presentation::device::{self, PermittedItems, State};
use isomdl::presentation::{reader, Stringify};
use p256::ecdsa::{signature::Signer, Signature, SigningKey};
use std::collections::BTreeMap;

pub const MDL: &str = "org.iso.18013.5.1.mDL";
pub const NS: &str = "org.iso.18013.5.1";

pub fn b64_to_value(s: &str) -> Value {
    let bytes = base64::decode(s).unwrap();
    ciborium::de::from_reader(&bytes[..]).unwrap()
}
pub fn value_to_b64(v: &Value) -> String {
    let mut out = vec![];
    ciborium::ser::into_writer(v, &mut out).unwrap();
    base64::encode(out)
}
pub fn vget<'a>(v: &'a Value, key: &str) -> Option<&'a Value> {
    v.as_map()?.iter().find(|(k, _)| k.as_text() == Some(key)).map(|(_, v)| v)
}
pub fn vset(v: &mut Value, key: &str, new: Value) {
    if let Value::Map(m) = v {
        for (k, val) in m.iter_mut() { if k.as_text() == Some(key) { *val = new; return; } }
    }
}
fn vu32(v: &Value) -> u32 { let i: i128 = v.as_integer().unwrap().into(); i as u32 }
fn vkey(v: &Value) -> [u8; 32] {
    let mut k = [0u8; 32];
    for (i, b) in v.as_array().unwrap().iter().enumerate() { k[i] = { let x: i128 = b.as_integer().unwrap().into(); x as u8 }; }
    k
}

#[derive(Clone, Debug)]
pub struct Peek { pub dev_ctr: u32, pub rdr_ctr: u32, pub sk_device: [u8; 32], pub sk_reader: [u8; 32], pub state: Option<State> }

pub fn peek_value(v: &Value) -> Peek {
    Peek {
        // a field that is no longer serialised is reported as absent (counter 0xFFFF_FFF0 / zero key),
        // never a harness crash: the comparison with the model then shows it
        dev_ctr: vget(v, "device_message_counter").map(vu32).unwrap_or(0xFFFF_FFF0),
        rdr_ctr: vget(v, "reader_message_counter").map(vu32).unwrap_or(0xFFFF_FFF0),
        sk_device: vget(v, "sk_device").map(vkey).unwrap_or([0; 32]),
        sk_reader: vget(v, "sk_reader").map(vkey).unwrap_or([0; 32]),
        state: vget(v, "state").and_then(|s| cbor::from_value(s.clone()).ok()),
    }
}
pub fn peek_device(sm: &device::SessionManager) -> Peek { peek_value(&b64_to_value(&sm.stringify().unwrap())) }
pub fn peek_reader(sm: &reader::SessionManager) -> Peek { peek_value(&b64_to_value(&sm.stringify().unwrap())) }

pub fn iv_bytes(reader: bool, n: u32) -> [u8; 12] {
    let mut iv = [0u8; 12];
    if !reader { iv[7] = 1; }
    iv[8..].copy_from_slice(&n.to_be_bytes());
    iv
}

pub fn aes_dec(key: &[u8; 32], iv: &[u8; 12], ct: &[u8]) -> Option<Vec<u8>> {
    Aes256Gcm::new(key.into()).decrypt(Nonce::from_slice(iv), ct).ok()
}
pub fn aes_enc(key: &[u8; 32], iv: &[u8; 12], pt: &[u8]) -> Vec<u8> {
    Aes256Gcm::new(key.into()).encrypt(Nonce::from_slice(iv), pt).unwrap()
}

/// Which (key, IV) was a ciphertext really made with?  Tries both session keys, both direction
/// identifiers and the candidate counters.  Returns (key_is_reader_key, ident_is_reader, n, plaintext).
pub fn identify(ct: &[u8], sk_reader: &[u8; 32], sk_device: &[u8; 32], cands: &[u32]) -> Option<(bool, bool, u32, Vec<u8>)> {
    for &n in cands {
        for (key, kr) in [(sk_reader, true), (sk_device, false)] {
            for ir in [true, false] {
                if let Some(pt) = aes_dec(key, &iv_bytes(ir, n), ct) { return Some((kr, ir, n, pt)); }
            }
        }
    }
    None
}

pub fn candidates(extra: &[u32]) -> Vec<u32> {
    let mut c: Vec<u32> = (1..=80).collect();
    c.push(0);
    for &e in extra { for d in 0..4u32 { c.push(e.wrapping_add(d)); c.push(e.wrapping_sub(d)); } }
    c
}

pub struct Sim {
    pub id: u32,
    pub dev: device::SessionManager,
    pub rdr: reader::SessionManager,
    pub doc_ids: BTreeMap<String, usize>,
    pub device_key: SigningKey,
    pub sigs: Vec<Vec<u8>>,
    pub sk_reader: [u8; 32],
    pub sk_device: [u8; 32],
    pub establishment: Vec<u8>,
    pub qr: String,
    pub ble_ident_reader: [u8; 16],
    pub ble_ident_device: [u8; 16],
    pub first_outcome: isomdl::presentation::authentication::RequestAuthenticationOutcome,
}

pub fn simple_namespaces(elems: &[&str]) -> Namespaces {
    let mut de: Option<DataElements> = None;
    for e in elems {
        match de.as_mut() { None => de = Some(NonEmptyMap::new(e.to_string(), false)), Some(d) => { d.insert(e.to_string(), false); } }
    }
    NonEmptyMap::new(NS.to_string(), de.unwrap())
}

pub fn default_ns_values() -> isomdl::issuance::mdoc::Namespaces {
    let mut ns = BTreeMap::new();
    let mut core = BTreeMap::new();
    core.insert("family_name".to_string(), Value::Text("Smith".into()));
    core.insert("given_name".to_string(), Value::Text("Alice".into()));
    core.insert("age_over_18".to_string(), Value::Bool(true));
    core.insert("age_over_21".to_string(), Value::Bool(true));
    core.insert("document_number".to_string(), Value::Text("DL123".into()));
    core.insert("height".to_string(), Value::Integer(170.into()));
    ns.insert(NS.to_string(), core);
    ns
}

impl Sim {
    /// A live established session holding one document per entry of `doc_types`.
    pub fn new(id: u32, pki: &Pki, rng: &mut (impl rand::RngCore + rand::CryptoRng), doc_types: &[&str],
               requested: &[&str], reader_registry: TrustAnchorRegistry, device_registry: TrustAnchorRegistry) -> Sim {
        let device_key = world::key_from(rng);
        let mut mdocs = vec![];
        let mut doc_ids = BTreeMap::new();
        for (i, dt) in doc_types.iter().enumerate() {
            mdocs.push(world::issue(pki, dt, default_ns_values(), DigestAlgorithm::SHA256, i % 2 == 0, &device_key).unwrap());
            doc_ids.insert(dt.to_string(), i);
        }
        let docs = world::documents_of(mdocs);
        let init = device::SessionManagerInit::initialise(docs, None, None).unwrap();
        let ble_ident_device = init.ble_ident().unwrap();
        let (engaged, qr) = init.qr_engagement().unwrap();
        let (rdr, establishment, ble_ident_reader) =
            reader::SessionManager::establish_session(qr.clone(), simple_namespaces(requested), reader_registry).unwrap();
        let se: SessionEstablishment = cbor::from_slice(&establishment).unwrap();
        let (dev, first_outcome) = engaged.process_session_establishment(se, device_registry).unwrap();
        let p = peek_device(&dev);
        Sim { id, dev, rdr, doc_ids, device_key, sigs: vec![], sk_reader: p.sk_reader, sk_device: p.sk_device,
              establishment, qr, ble_ident_reader, ble_ident_device, first_outcome }
    }

    pub fn sign_real(&mut self, payload: &[u8]) -> (usize, Vec<u8>) {
        let s: Signature = self.device_key.sign(payload);
        // RFC 6979 signatures are deterministic: the same payload gives the same bytes = same id
        if let Some(i) = self.sigs.iter().position(|x| x == &s.to_vec()) { return (i, s.to_vec()); }
        self.sigs.push(s.to_vec());
        (self.sigs.len() - 1, s.to_vec())
    }
    pub fn sign_dummy(&mut self, seed: u8) -> (usize, Vec<u8>) {
        let mut s = vec![seed; 64];
        s[1] = (self.sigs.len() >> 8) as u8; s[2] = 0xd5;
        self.sigs.push(s.clone());
        (self.sigs.len() - 1, s)
    }
    pub fn sig_id(&self, bytes: &[u8]) -> String {
        match self.sigs.iter().position(|s| s == bytes) { Some(i) => i.to_string(), None => "?".into() }
    }
    pub fn holds(&self, doc_type: &str) -> bool { self.doc_ids.contains_key(doc_type) }
    pub fn doc_id(&self, doc_type: &str) -> String {
        match self.doc_ids.get(doc_type) { Some(i) => i.to_string(), None => "?".into() }
    }

    fn signed_desc(&self, docs: &[isomdl::definitions::Document]) -> String {
        docs.iter().map(|d| {
            let sig = match &d.device_signed.device_auth {
                DeviceAuth::DeviceSignature(s) => self.sig_id(&s.inner.signature),
                DeviceAuth::DeviceMac(m) => self.sig_id(&m.inner.tag),
            };
            format!("{}.{}", self.doc_id(&d.doc_type), sig)
        }).collect::<Vec<_>>().join(",")
    }

    /// payload kind of a decrypted plaintext
    pub fn payload_desc(&self, pt: &[u8]) -> String {
        if let Ok(r) = cbor::from_slice::<DeviceResponse>(pt) {
            let status: u64 = r.status.into();
            let docs = r.documents.map(|d| d.into_inner()).unwrap_or_default();
            let s = self.signed_desc(&docs);
            return format!("resp/{}/{}", status, if s.is_empty() { "-".into() } else { s });
        }
        if cbor::from_slice::<DeviceRequest>(pt).is_ok() { return "req".into(); }
        if cbor::from_slice::<Value>(pt).is_ok() { return "notreq".into(); }
        "notcbor".into()
    }

    /// descriptor of an honest output message of either role of this session
    pub fn describe(&self, msg: &[u8], extra_ctrs: &[u32]) -> String {
        let sd: SessionData = match cbor::from_slice(msg) { Ok(s) => s, Err(_) => {
            // SessionEstablishment?
            if let Ok(se) = cbor::from_slice::<SessionEstablishment>(msg) {
                return self.describe_ct(se.data.as_ref(), extra_ctrs);
            }
            return "garbage".into() } };
        match sd.data { None => "nodata".into(), Some(d) => self.describe_ct(d.as_ref(), extra_ctrs) }
    }
    pub fn describe_ct(&self, ct: &[u8], extra_ctrs: &[u32]) -> String {
        match identify(ct, &self.sk_reader, &self.sk_device, &candidates(extra_ctrs)) {
            None => "ct:unidentified".into(),
            Some((kr, ir, n, pt)) => {
                if kr != ir { return format!("ct:mixed-key-{}-ident-{}:{}", if kr {"r"} else {"d"}, if ir {"r"} else {"d"}, n); }
                format!("ct:{}:{}:{}:{}:f", if kr { "r" } else { "d" }, self.id, n, self.payload_desc(&pt))
            }
        }
    }
    /// IV (hex) actually used by an honest output message
    pub fn iv_of(&self, msg: &[u8], extra_ctrs: &[u32]) -> String {
        let ct: Vec<u8> = if let Ok(sd) = cbor::from_slice::<SessionData>(msg) { match sd.data { Some(d) => d.into(), None => return "none".into() } }
            else if let Ok(se) = cbor::from_slice::<SessionEstablishment>(msg) { se.data.into() } else { return "none".into() };
        match identify(&ct, &self.sk_reader, &self.sk_device, &candidates(extra_ctrs)) {
            Some((kr, ir, n, _)) => format!("{}:{}", if kr { "kr" } else { "kd" }, hex::encode(iv_bytes(ir, n))),
            None => "unidentified".into(),
        }
    }

    pub fn dev_state_str(&self) -> String {
        let s = self.dev_summary();
        s.splitn(3, ',').nth(2).unwrap_or("?").to_string()
    }
    pub fn dev_summary(&self) -> String {
        let p = peek_device(&self.dev);
        let st = match &p.state {
            None => "undecodable".to_string(),
            Some(State::AwaitingRequest) => "awaiting".into(),
            Some(State::Signing(pr)) => {
                let prepared = pr.prepared_documents.iter().map(|d| self.doc_id(&d.doc_type)).collect::<Vec<_>>().join(",");
                let signed = self.signed_desc(&pr.signed_documents);
                let status: u64 = pr.status.clone().into();
                format!("signing/{}/{}/{}", if prepared.is_empty() { "-".into() } else { prepared }, if signed.is_empty() { "-".into() } else { signed }, status)
            }
            Some(State::ReadyToRespond(bytes)) => format!("ready/{}", self.describe(bytes, &[p.dev_ctr])),
        };
        format!("dev={},{},{}", p.dev_ctr, p.rdr_ctr, st)
    }
    pub fn rdr_summary(&self) -> String {
        let p = peek_reader(&self.rdr);
        format!("rdr={},{}", p.rdr_ctr, p.dev_ctr)
    }
    pub fn summary(&self) -> String { format!("{} {}", self.dev_summary(), self.rdr_summary()) }

    /// rewrite the four counters inside the stringified states (boundary exploration; allowed
    /// because restoring is transparent, C14)
    pub fn set_counters(&mut self, dev_enc: u32, dev_dec: u32, rdr_enc: u32, rdr_dec: u32) {
        let mut v = b64_to_value(&self.dev.stringify().unwrap());
        vset(&mut v, "device_message_counter", Value::Integer(dev_enc.into()));
        vset(&mut v, "reader_message_counter", Value::Integer(dev_dec.into()));
        self.dev = device::SessionManager::parse(value_to_b64(&v)).unwrap();
        let mut v = b64_to_value(&self.rdr.stringify().unwrap());
        vset(&mut v, "reader_message_counter", Value::Integer(rdr_enc.into()));
        vset(&mut v, "device_message_counter", Value::Integer(rdr_dec.into()));
        self.rdr = reader::SessionManager::parse(value_to_b64(&v)).unwrap();
    }

    pub fn restore_device(&mut self) { self.dev = device::SessionManager::parse(self.dev.stringify().unwrap()).unwrap(); }
    pub fn restore_reader(&mut self) { self.rdr = reader::SessionManager::parse(self.rdr.stringify().unwrap()).unwrap(); }

    /// a reader-direction SessionData made by the harness itself (playing the reader's crypto)
    pub fn craft_reader_msg(&self, n: u32, plaintext: &[u8]) -> Vec<u8> {
        let ct = aes_enc(&self.sk_reader, &iv_bytes(true, n), plaintext);
        cbor::to_vec(&SessionData { data: Some(ct.into()), status: None }).unwrap()
    }
    pub fn craft_device_msg(&self, n: u32, plaintext: &[u8]) -> Vec<u8> {
        let ct = aes_enc(&self.sk_device, &iv_bytes(false, n), plaintext);
        cbor::to_vec(&SessionData { data: Some(ct.into()), status: None }).unwrap()
    }
}

pub fn permit_all(docs: &[&str], elems: &[&str]) -> PermittedItems {
    docs.iter().map(|d| (d.to_string(), [(NS.to_string(), elems.iter().map(|e| e.to_string()).collect())].into_iter().collect())).collect()
}

/// flip one bit of the ciphertext inside a SessionData message (stays well-formed SessionData)
pub fn tamper(msg: &[u8], bit: usize) -> Vec<u8> {
    let sd: SessionData = cbor::from_slice(msg).unwrap();
    let mut d: Vec<u8> = sd.data.unwrap().into();
    let i = (bit / 8) % d.len();
    d[i] ^= 1 << (bit % 8);
    cbor::to_vec(&SessionData { data: Some(d.into()), status: None }).unwrap()
}
