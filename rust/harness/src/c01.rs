//! C01: honest end-to-end presentations over documents issued from the whole data model.
use crate::c19::json_to_cbor;
use crate::gen::to_bytes;
use crate::sess::{self, MDL, NS};
use crate::world::{self, Pki};
use crate::Ctx;
use ciborium::Value;
use isomdl::cbor;
use isomdl::definitions::device_request::{DataElements, Namespaces as ReqNamespaces};
use isomdl::definitions::helpers::NonEmptyMap;
use isomdl::definitions::namespaces::org_iso_18013_5_1::OrgIso1801351;
use isomdl::definitions::namespaces::org_iso_18013_5_1_aamva::OrgIso1801351Aamva;
use isomdl::definitions::traits::{FromJson, ToNamespaceMap};
use isomdl::definitions::x509::trust_anchor::TrustAnchorRegistry;
use isomdl::definitions::{DigestAlgorithm, SessionEstablishment};
use isomdl::presentation::device::{self, PermittedItems};
use isomdl::presentation::{reader, Stringify};
use p256::ecdsa::{signature::Signer, Signature};
use rand::seq::SliceRandom;
use rand::Rng;
use serde_json::{json, Value as J};
use std::collections::{BTreeMap, BTreeSet};

const AAMVA: &str = "org.iso.18013.5.1.aamva";

/// the reader's documented CBOR -> JSON view, written independently (text and tagged text as
/// strings, integers as numbers, booleans, byte strings as arrays of numbers, arrays, text-keyed maps)
fn expected_json(v: &Value) -> Option<J> {
    Some(match v {
        Value::Text(s) => J::String(s.clone()),
        Value::Tag(_, inner) => match &**inner { Value::Text(s) => J::String(s.clone()), _ => return None },
        Value::Integer(i) => { let i: i128 = (*i).into(); if i >= 0 { json!(i as u64) } else { json!(i as i64) } }
        Value::Bool(b) => J::Bool(*b),
        Value::Bytes(b) => J::Array(b.iter().map(|x| json!(*x)).collect()),
        Value::Array(a) => J::Array(a.iter().map(expected_json).collect::<Option<Vec<_>>>()?),
        Value::Map(m) => J::Object(m.iter().filter_map(|(k, x)| Some((k.as_text()?.to_string(), expected_json(x)?))).collect()),
        _ => return None,
    })
}

fn req_namespaces(req: &BTreeMap<String, Vec<String>>) -> Option<ReqNamespaces> {
    let mut out: Option<ReqNamespaces> = None;
    for (ns, elems) in req {
        let mut de: Option<DataElements> = None;
        for e in elems { match de.as_mut() { None => de = Some(NonEmptyMap::new(e.clone(), false)), Some(d) => { d.insert(e.clone(), false); } } }
        let Some(de) = de else { continue };
        match out.as_mut() { None => out = Some(NonEmptyMap::new(ns.clone(), de)), Some(o) => { o.insert(ns.clone(), de); } }
    }
    out
}

fn set_str(m: &BTreeMap<String, BTreeSet<String>>, ids: &mut BTreeMap<String, usize>) -> String {
    let mut parts = vec![];
    for (ns, es) in m { let nsid = if ns == NS { 0 } else { 1 };
        let mut v: Vec<usize> = es.iter().map(|e| { let n = ids.len(); *ids.entry(format!("{ns}/{e}")).or_insert(n) }).collect(); v.sort();
        parts.push(format!("{nsid}:{}", if v.is_empty() { "-".to_string() } else { v.iter().map(|x| x.to_string()).collect::<Vec<_>>().join(",") })); }
    if parts.is_empty() { "-".into() } else { parts.join(";") }
}

pub fn run(ctx: &mut Ctx) {
    let pki = Pki::new(&mut ctx.rng);
    let other_root = Pki::new(&mut ctx.rng).iaca.clone();
    let mut rng: rand_chacha::ChaCha8Rng = rand::SeedableRng::seed_from_u64(ctx.rng.gen());
    let configs = crate::c18::retrieval_configs(ctx);
    let n_sessions = if ctx.thorough { 120 } else { 18 };
    for si in 0..n_sessions {
        // --- the issued document: a random sub-record of the full data model
        let mdl_full = crate::c19::mdl_base_pub(); let aamva_full = crate::c19::aamva_base_pub();
        let mut mdl_j = mdl_full.clone();
        for k in mdl_full.as_object().unwrap().keys() { if !crate::c19::MDL_MANDATORY_PUB.contains(&k.as_str()) && rng.gen_bool(0.35) { mdl_j.as_object_mut().unwrap().remove(k); } }
        if mdl_j.get("issuing_jurisdiction").is_some() && mdl_j.get("issuing_country").is_none() { mdl_j.as_object_mut().unwrap().remove("issuing_jurisdiction"); }
        for n in [16u32, 18, 21, 25, 65, 99] { if rng.gen_bool(0.4) { mdl_j.as_object_mut().unwrap().insert(format!("age_over_{n:02}"), json!(rng.gen_bool(0.5))); } }
        // odd sessions hold `sex` in BOTH namespaces (see the shared-identifier rounds below)
        if si % 2 == 1 && mdl_j.get("sex").is_none() { mdl_j.as_object_mut().unwrap().insert("sex".into(), json!(1)); }
        let with_aamva = rng.gen_bool(0.6) || si % 2 == 1;
        let mut issued: BTreeMap<String, BTreeMap<String, Value>> = BTreeMap::new();
        issued.insert(NS.into(), OrgIso1801351::from_json(&mdl_j).expect("base record").to_ns_map());
        if with_aamva { let mut a = aamva_full.clone(); for k in aamva_full.as_object().unwrap().keys() { if !crate::c19::AAMVA_MANDATORY_PUB.contains(&k.as_str()) && rng.gen_bool(0.35) { a.as_object_mut().unwrap().remove(k); } }
            issued.insert(AAMVA.into(), OrgIso1801351Aamva::from_json(&a).expect("aamva record").to_ns_map()); }
        let alg = [DigestAlgorithm::SHA256, DigestAlgorithm::SHA384, DigestAlgorithm::SHA512][si % 3];
        let decoys = si % 2 == 0;
        let device_key = world::key_from(&mut rng);
        let mdoc = world::issue(&pki, MDL, issued.clone(), alg, decoys, &device_key).unwrap();
        let extra = world::issue(&pki, "org.example.other", sess::default_ns_values(), alg, decoys, &device_key).unwrap();
        let docs = world::documents_of(if rng.gen_bool(0.4) { vec![mdoc, extra] } else { vec![mdoc] });
        let (cfg_name, drm, srm) = &configs[rng.gen_range(0..configs.len())];
        let Ok(init) = device::SessionManagerInit::initialise(docs, drm.clone(), srm.clone()) else { continue };
        let ble_dev = init.ble_ident().unwrap();
        let (engaged, qr) = init.qr_engagement().unwrap();
        let eng = base64::decode_config(qr.strip_prefix("mdoc:").unwrap(), base64::URL_SAFE_NO_PAD).unwrap();
        let scalar: Vec<u8> = sess::vget(&sess::b64_to_value(&engaged.stringify().unwrap()), "e_device_key").and_then(|v| v.as_array()).unwrap().iter().map(|x| i128::from(x.as_integer().unwrap()) as u8).collect();
        let with_anchor = si % 5 != 4;
        // trust configurations under which the honest issuer must come out Valid: the current root alone; the current
        // root listed AFTER its lapsed predecessor (same name and key: a renewed root appended, the old one left in
        // place) or after an unrelated root; and no anchor at all (then issuer authentication is not expected Valid)
        let lapsed_root = { let mut sp = world::root_spec("CN=iaca,C=US", &pki.iaca_key); sp.not_before = -86400 * 400; sp.not_after = -86400; sp.serial = 7; world::build_cert(&sp, &pki.iaca_key, &pki.iaca_key) };
        let registry = if !with_anchor { TrustAnchorRegistry::default() } else { match si % 3 {
            0 => pki.iaca_registry(),
            1 => pki.registry(&[(&lapsed_root, isomdl::definitions::x509::trust_anchor::TrustPurpose::Iaca), (&pki.iaca, isomdl::definitions::x509::trust_anchor::TrustPurpose::Iaca)]),
            _ => pki.registry(&[(&other_root, isomdl::definitions::x509::trust_anchor::TrustPurpose::Iaca), (&pki.iaca, isomdl::definitions::x509::trust_anchor::TrustPurpose::Iaca)]) } };

        let all_elems: Vec<(String, String)> = issued.iter().flat_map(|(ns, m)| m.keys().map(move |e| (ns.clone(), e.clone()))).collect();
        let n_rounds = rng.gen_range(1..=4);
        let mut rdr_opt: Option<reader::SessionManager> = None; let mut dev_opt: Option<device::SessionManager> = None; let mut engaged_opt = Some(engaged);
        let mut docs_per_round = vec![];
        for round in 0..n_rounds {
            // requested / permitted: random subsets of the held elements, plus elements that are not held
            let mut requested: BTreeMap<String, Vec<String>> = BTreeMap::new(); let mut permitted: BTreeMap<String, Vec<String>> = BTreeMap::new();
            let style = rng.gen_range(0..5);
            for (ns, e) in &all_elems {
                if ns == AAMVA && style == 0 { continue; }
                if rng.gen_bool(if style == 1 { 1.0 } else { 0.45 }) { requested.entry(ns.clone()).or_default().push(e.clone()); }
                if rng.gen_bool(if style == 2 { 1.0 } else { 0.7 }) { permitted.entry(ns.clone()).or_default().push(e.clone()); }
            }
            // one identifier held in two namespaces: asked for in one of them only but permitted in both (si % 4 == 1), or asked for
            // and permitted in both (si % 4 == 3) - each namespace is answered on its own
            if si % 2 == 1 && round == 0 {
                for m in [&mut requested, &mut permitted] { for v in m.values_mut() { v.retain(|e| e != "sex"); } }
                requested.entry(NS.into()).or_default().push("sex".into());
                if si % 4 == 3 { requested.entry(AAMVA.into()).or_default().push("sex".into()); }
                permitted.entry(NS.into()).or_default().push("sex".into()); permitted.entry(AAMVA.into()).or_default().push("sex".into());
                if si % 4 == 1 { requested.entry(AAMVA.into()).or_default().push("organ_donor".into()); }
            }
            requested.entry(NS.into()).or_default().push("not_held_element".into());
            if rng.gen_bool(0.5) { permitted.entry(NS.into()).or_default().push("not_held_element".into()); }
            // the other sessions keep at least one agreed element of the core namespace
            let (kns, ke) = all_elems.iter().find(|(ns, _)| ns == NS).unwrap().clone();
            // every third session agrees on NO element of the core namespace (AAMVA-only, or nothing at all)
            let no_core = si % 3 == 2;
            if no_core { permitted.remove(NS); }
            if !no_core { if !requested.get(&kns).map(|v| v.contains(&ke)).unwrap_or(false) { requested.entry(kns.clone()).or_default().push(ke.clone()); }
            if !permitted.get(&kns).map(|v| v.contains(&ke)).unwrap_or(false) { permitted.entry(kns.clone()).or_default().push(ke.clone()); } }
            let req_ns = req_namespaces(&requested).unwrap();
            // reader -> device
            let case = json!({"session": si, "round": round, "config": cfg_name, "digest": format!("{alg:?}"), "decoys": decoys, "anchor": with_anchor, "msg_hex": format!("{si}-{round}")});
            let items_request;
            if round == 0 {
                let Ok((rdr, est, ble_rdr)) = reader::SessionManager::establish_session(qr.clone(), req_ns, registry.clone()) else { ctx.emit.line("spec", "spec:establish", "spec.eq failed ok".into(), "true".into(), case); break };
                let se: SessionEstablishment = cbor::from_slice(&est).unwrap();
                let erk = { let v: Value = cbor::from_slice(&est).unwrap(); match crate::auth::mget(&v, "eReaderKey") { Some(Value::Tag(24, x)) => x.as_bytes().unwrap().clone(), _ => vec![] } };
                let Ok((dev, outcome)) = engaged_opt.take().unwrap().process_session_establishment(se, TrustAnchorRegistry::default()) else { ctx.emit.line("spec", "spec:establish", "spec.eq failed ok".into(), "true".into(), case); break };
                let pd = sess::peek_device(&dev); let pr = sess::peek_reader(&rdr);
                let op = format!("kd.session {} {} f6 {}", hex::encode(&eng), hex::encode(&erk), hex::encode(&scalar));
                ctx.emit.line("spec", "spec:keys:device", format!("spec.eqmodel ok_{}_{} {op}", hex::encode(pd.sk_reader), hex::encode(pd.sk_device)), "true".into(), case.clone());
                ctx.emit.line("spec", "spec:keys:reader", format!("spec.eqmodel ok_{}_{} {op}", hex::encode(pr.sk_reader), hex::encode(pr.sk_device)), "true".into(), case.clone());
                ctx.emit.line("spec", "spec:ble", format!("spec.eq {} {}", hex::encode(ble_dev), hex::encode(ble_rdr)), "true".into(), case.clone());
                ctx.emit.line("spec", "spec:request-decrypts", format!("spec.eq {} 0", outcome.errors.len()), "true".into(), case.clone());
                items_request = outcome.items_request;
                rdr_opt = Some(rdr); dev_opt = Some(dev);
            } else {
                let msg = rdr_opt.as_mut().unwrap().new_request(req_ns).unwrap();
                let outcome = dev_opt.as_mut().unwrap().handle_request(&msg);
                ctx.emit.line("spec", "spec:request-decrypts", format!("spec.eq {} 0", outcome.errors.len()), "true".into(), case.clone());
                items_request = outcome.items_request;
            }
            let dev = dev_opt.as_mut().unwrap(); let rdr = rdr_opt.as_mut().unwrap();
            // one round in five: the holder declines altogether (no document in the response); later rounds must be unaffected
            let declined = n_rounds > 1 && round + 1 < n_rounds && rng.gen_bool(0.35);
            if declined { permitted.clear(); }
            // device: prepare with the permission, sign with the issued device key, respond
            let perm: PermittedItems = if declined { PermittedItems::new() } else { [(MDL.to_string(), permitted.iter().map(|(ns, es)| (ns.clone(), es.clone())).collect())].into_iter().collect() };
            device::SessionManager::prepare_response(dev, &items_request, perm);
            let mut n_docs = 0;
            while let Some((_, payload)) = dev.get_next_signature_payload() { let sig: Signature = device_key.sign(payload); dev.submit_next_signature(sig.to_bytes().to_vec()).unwrap(); n_docs += 1; if n_docs > 5 { break; } }
            docs_per_round.push(n_docs);
            let Some(resp) = dev.retrieve_response() else { ctx.emit.line("spec", "spec:response-ready", "spec.eq none some".into(), "true".into(), case); break };
            // in every fourth session the reader has its NEXT request ready before it processes this response (a queued follow-up):
            // the two directions count their messages independently, so every message still decrypts, in order
            let queued = if si % 4 == 2 { rdr.new_request(sess::simple_namespaces(&["family_name"])).ok() } else { None };
            let out = rdr.handle_response(&resp);
            if let Some(q) = queued {
                let o2 = dev.handle_request(&q);
                device::SessionManager::prepare_response(dev, &o2.items_request, [(MDL.to_string(), [(NS.to_string(), vec!["family_name".to_string()])].into_iter().collect())].into_iter().collect());
                while let Some((_, payload)) = dev.get_next_signature_payload() { let sig: Signature = device_key.sign(payload); dev.submit_next_signature(sig.to_bytes().to_vec()).unwrap(); }
                let r2 = dev.retrieve_response().map(|m| rdr.handle_response(&m));
                docs_per_round.push(1);   // the queued request's round: one document
                let ok = o2.errors.is_empty() && r2.as_ref().map(|r| !r.errors.contains_key("decryption_errors")).unwrap_or(false) && !out.errors.contains_key("decryption_errors");
                ctx.emit.line("spec", "spec:queued-request-round", format!("spec.eq {} true", ok), "true".into(), json!({"session": si, "round": round, "request_errors": format!("{:?}", o2.errors), "msg_hex": format!("{si}-{round}-q")}));
            }
            // what the reader reports
            let mut reported: BTreeMap<String, BTreeSet<String>> = BTreeMap::new(); let mut values_ok = true; let mut first_bad = String::new();
            for (ns, v) in &out.response { if let Some(m) = v.as_object() { for (e, val) in m { reported.entry(ns.clone()).or_default().insert(e.clone());
                let exp = issued.get(ns).and_then(|m| m.get(e)).and_then(expected_json);
                if exp.as_ref() != Some(val) { values_ok = false; if first_bad.is_empty() { first_bad = format!("{ns}/{e}: reported {val} expected {exp:?}"); } } } } }
            let to_sets = |m: &BTreeMap<String, Vec<String>>| -> BTreeMap<String, BTreeSet<String>> { m.iter().map(|(k, v)| (k.clone(), v.iter().cloned().collect())).collect() };
            let held: BTreeMap<String, BTreeSet<String>> = issued.iter().map(|(ns, m)| (ns.clone(), m.keys().cloned().collect())).collect();
            let mut ids = BTreeMap::new();
            let (rs, ps, hs, os) = (set_str(&to_sets(&requested), &mut ids), set_str(&to_sets(&permitted), &mut ids), set_str(&held, &mut ids), set_str(&reported, &mut ids));
            let case2 = json!({"session": si, "round": round, "requested": requested, "permitted": permitted, "reported": reported, "first_bad_value": first_bad, "errors": format!("{:?}", out.errors), "msg_hex": format!("{si}-{round}-r")});
            ctx.emit.line("spec", "spec:reported-exactly", format!("spec.c01.elems {rs} {ps} {hs} {os}"), "true".into(), case2.clone());
            ctx.emit.line("spec", "spec:issued-values", format!("spec.eq {} true", values_ok), "true".into(), case2.clone());
            let errs: Vec<String> = out.errors.keys().cloned().collect();
            if declined {
                ctx.emit.line("spec", "spec:declined-round", format!("spec.eq decrypts={},reported={} decrypts=true,reported=0", !errs.iter().any(|e| e == "decryption_errors"), reported.values().map(|s| s.len()).sum::<usize>()), "true".into(), case2.clone());
                continue;
            }
            let expect_issuer = if with_anchor { "Valid" } else { "Invalid" };
            ctx.emit.line("spec", if with_anchor { "spec:both-valid" } else { "spec:untrusted-root" }, format!("spec.eq issuer={},device={},errors={} issuer={expect_issuer},device=Valid,errors={}", crate::auth::status_str(&out.issuer_authentication), crate::auth::status_str(&out.device_authentication),
                if errs.is_empty() { "-".into() } else { errs.join("+") }, if with_anchor { "-" } else { "certificate_errors" }), "true".into(), case2.clone());
        }
        if let (Some(dev), Some(rdr)) = (&dev_opt, &rdr_opt) {
            let pd = sess::peek_device(dev); let pr = sess::peek_reader(rdr);
            ctx.emit.line("corr", "session:rounds", format!("c01.rounds {}", docs_per_round.iter().map(|n: &i32| n.to_string()).collect::<Vec<_>>().join(",")),
                format!("all-accepted dev={},{} rdr={},{}", pd.dev_ctr, pd.rdr_ctr, pr.rdr_ctr, pr.dev_ctr), json!({"session": si, "msg_hex": format!("{si}-rounds")}));
        }
    }
}
