//! C08: key derivation recomputed by the Lean model (own SHA-256 / HMAC / HKDF / P-256) from the
//! bytes on the wire and the device's ephemeral scalar; invalid peer keys must be refused.
use crate::c15::hostile_keys;
use crate::gen::to_bytes;
use crate::sess::{self, MDL};
use crate::world::{self, Pki};
use crate::{guarded, Ctx};
use ciborium::Value;
use isomdl::cbor;
use isomdl::definitions::device_key::cose_key::CoseKey;
use isomdl::definitions::helpers::Tag24;
use isomdl::definitions::session::{derive_session_key, get_shared_secret, Handover, SessionTranscript180135};
use isomdl::definitions::x509::trust_anchor::TrustAnchorRegistry;
use isomdl::definitions::{DeviceEngagement, SessionEstablishment};
use isomdl::presentation::{device, reader, Stringify};
use p256::elliptic_curve::sec1::ToEncodedPoint;
use rand::Rng;

fn iv(i: i128) -> Value { Value::Integer((i as i64).into()) }
fn b(v: &[u8]) -> Value { Value::Bytes(v.to_vec()) }

/// a deliberately NON-canonical encoder: one-byte extended heads where a short head would do,
/// map entries in reverse order, optional indefinite-length containers
fn enc_foreign(v: &Value, style: u8, out: &mut Vec<u8>) {
    fn head(mt: u8, n: u64, style: u8, out: &mut Vec<u8>) {
        if style & 1 == 1 && n < 256 { out.push(mt << 5 | 24); out.push(n as u8); }
        else if n < 24 { out.push(mt << 5 | n as u8) } else if n < 256 { out.push(mt << 5 | 24); out.push(n as u8) }
        else if n < 65536 { out.push(mt << 5 | 25); out.extend(&(n as u16).to_be_bytes()) } else { out.push(mt << 5 | 26); out.extend(&(n as u32).to_be_bytes()) }
    }
    match v {
        Value::Integer(i) => { let i: i128 = (*i).into(); if i >= 0 { head(0, i as u64, style, out) } else { head(1, (-1 - i) as u64, style, out) } }
        Value::Bytes(x) => { head(2, x.len() as u64, style, out); out.extend(x) }
        Value::Text(x) => { head(3, x.len() as u64, style, out); out.extend(x.as_bytes()) }
        Value::Array(a) => { if style & 2 == 2 { out.push(0x9f); for x in a { enc_foreign(x, style, out) } out.push(0xff) } else { head(4, a.len() as u64, style, out); for x in a { enc_foreign(x, style, out) } } }
        Value::Map(m) => { let items: Vec<&(Value, Value)> = if style & 4 == 4 { m.iter().rev().collect() } else { m.iter().collect() };
            if style & 2 == 2 { out.push(0xbf) } else { head(5, m.len() as u64, style, out) }
            for (k, x) in items { enc_foreign(k, style, out); enc_foreign(x, style, out) }
            if style & 2 == 2 { out.push(0xff) } }
        Value::Tag(t, x) => { head(6, *t, 0, out); enc_foreign(x, style, out) }   // tag numbers stay minimal (tag 24 must be recognised)
        Value::Bool(x) => out.push(if *x { 0xf5 } else { 0xf4 }),
        Value::Null => out.push(0xf6),
        other => out.extend(to_bytes(other)),
    }
}

fn erk_inner(establishment: &[u8]) -> Vec<u8> {
    let v: Value = cbor::from_slice(establishment).unwrap();
    match crate::auth::mget(&v, "eReaderKey") { Some(Value::Tag(24, x)) => x.as_bytes().unwrap().clone(), _ => panic!("no eReaderKey") }
}

fn keys_of(state_b64: &str) -> (String, String) { let p = sess::peek_value(&sess::b64_to_value(state_b64)); (hex::encode(p.sk_reader), hex::encode(p.sk_device)) }

pub fn run(ctx: &mut Ctx) {
    let pki = Pki::new(&mut ctx.rng);
    let mut rng: rand_chacha::ChaCha8Rng = rand::SeedableRng::seed_from_u64(ctx.rng.gen());
    let device_key = world::key_from(&mut rng);
    let docs = || world::documents_of(vec![world::issue(&pki, MDL, sess::default_ns_values(), isomdl::definitions::DigestAlgorithm::SHA256, false, &device_key).unwrap()]);
    let null_hex = "f6";

    // --- A. whole sessions for every retrieval configuration (x repetitions: fresh ephemeral keys each time)
    let configs = crate::c18::retrieval_configs(ctx);
    let reps = if ctx.thorough { 6 } else { 1 };
    for (name, drm, srm) in &configs { for _ in 0..reps {
        let Ok(init) = device::SessionManagerInit::initialise(docs(), drm.clone(), srm.clone()) else { continue };
        let ble_dev = init.ble_ident().unwrap();
        let (engaged, qr) = init.qr_engagement().unwrap();
        let eng = base64::decode_config(qr.strip_prefix("mdoc:").unwrap(), base64::URL_SAFE_NO_PAD).unwrap();
        let eng_v = sess::b64_to_value(&engaged.stringify().unwrap());
        let scalar: Vec<u8> = sess::vget(&eng_v, "e_device_key").and_then(|v| v.as_array()).unwrap().iter().map(|x| i128::from(x.as_integer().unwrap()) as u8).collect();
        let Ok((rdr, est, ble_rdr)) = reader::SessionManager::establish_session(qr.clone(), sess::simple_namespaces(&["family_name"]), TrustAnchorRegistry::default()) else { continue };
        let erk = erk_inner(&est);
        let se: SessionEstablishment = cbor::from_slice(&est).unwrap();
        let (dev, _) = engaged.process_session_establishment(se, TrustAnchorRegistry::default()).unwrap();
        let (dr, dd) = keys_of(&dev.stringify().unwrap()); let (rr, rd) = keys_of(&rdr.stringify().unwrap());
        let op = format!("kd.session {} {} {null_hex} {}", hex::encode(&eng), hex::encode(&erk), hex::encode(&scalar));
        let case = serde_json::json!({"config": name, "msg_hex": hex::encode(&eng)});
        ctx.emit.line("corr", "session:device-keys", op.clone(), format!("ok {dr} {dd}"), case.clone());
        ctx.emit.line("spec", "spec:session:reader-keys", format!("spec.eqmodel ok_{rr}_{rd} {op}"), "true".into(), case.clone());
        ctx.emit.line("spec", "spec:session:device-keys", format!("spec.eqmodel ok_{dr}_{dd} {op}"), "true".into(), case.clone());
        ctx.emit.line("spec", "spec:ble:device", format!("spec.eqmodel {} kd.ble {}", hex::encode(ble_dev), hex::encode(&eng)), "true".into(), case.clone());
        ctx.emit.line("spec", "spec:ble:reader", format!("spec.eqmodel {} kd.ble {}", hex::encode(ble_rdr), hex::encode(&eng)), "true".into(), case.clone());
        // the model's P-256 against the p256 crate: public key of the device scalar = key in the engagement
        let sk = p256::SecretKey::from_slice(&scalar).unwrap(); let pt = sk.public_key().to_encoded_point(false);
        ctx.emit.corr("p256:pub", format!("kd.pub {}", hex::encode(&scalar)), format!("{} {}", hex::encode(pt.x().unwrap()), hex::encode(pt.y().unwrap())));
    } }

    // --- B. foreign encodings of the engagement handed to the reader; the device side is played from the stored state
    let n_foreign = if ctx.thorough { 60 } else { 14 };
    for i in 0..n_foreign {
        let (name, drm, srm) = &configs[rng.gen_range(0..configs.len())];
        let Ok(init) = device::SessionManagerInit::initialise(docs(), drm.clone(), srm.clone()) else { continue };
        let (engaged, qr) = init.qr_engagement().unwrap();
        let eng = base64::decode_config(qr.strip_prefix("mdoc:").unwrap(), base64::URL_SAFE_NO_PAD).unwrap();
        let mut v: Value = cbor::from_slice(&eng).unwrap();
        let style = (i % 7 + 1) as u8;
        if i % 3 == 0 { if let Value::Map(m) = &mut v { m.push((iv(9), Value::Text("unknown".into()))); } }
        if i % 5 == 0 { if let Value::Map(m) = &mut v { m.push((iv(4), Value::Map(vec![(iv(1), Value::Bool(true))]))); } }
        let mut foreign = vec![]; enc_foreign(&v, style, &mut foreign);
        let qr2 = format!("mdoc:{}", base64::encode_config(&foreign, base64::URL_SAFE_NO_PAD));
        let case = serde_json::json!({"config": name, "style": style, "msg_hex": hex::encode(&foreign)});
        let r = guarded({ let qr2 = qr2.clone(); move || reader::SessionManager::establish_session(qr2, sess::simple_namespaces(&["family_name"]), TrustAnchorRegistry::default()).ok() });
        let Ok(Some((rdr, est, ble_rdr))) = r else { ctx.emit.line("spec", "spec:foreign:accepted", "spec.eq rejected accepted".into(), "true".into(), case); continue };
        let erk = erk_inner(&est);
        let eng_v = sess::b64_to_value(&engaged.stringify().unwrap());
        let scalar: Vec<u8> = sess::vget(&eng_v, "e_device_key").and_then(|v| v.as_array()).unwrap().iter().map(|x| i128::from(x.as_integer().unwrap()) as u8).collect();
        let (rr, rd) = keys_of(&rdr.stringify().unwrap());
        let op = format!("kd.session {} {} {null_hex} {}", hex::encode(&foreign), hex::encode(&erk), hex::encode(&scalar));
        ctx.emit.line("spec", "spec:foreign:reader-keys", format!("spec.eqmodel ok_{rr}_{rd} {op}"), "true".into(), case.clone());
        ctx.emit.line("spec", "spec:foreign:ble", format!("spec.eqmodel {} kd.ble {}", hex::encode(ble_rdr), hex::encode(&foreign)), "true".into(), case.clone());
        // a device whose stored state carries the engagement bytes as the reader saw them (another mdoc implementation's encoding)
        let mut st = eng_v.clone();
        sess::vset(&mut st, "device_engagement", Value::Tag(24, Box::new(b(&foreign))));
        if let Ok(e2) = device::SessionManagerEngaged::parse(sess::value_to_b64(&st)) {
            let se: SessionEstablishment = cbor::from_slice(&est).unwrap();
            if let Ok((dev, _)) = e2.process_session_establishment(se, TrustAnchorRegistry::default()) {
                let (dr, dd) = keys_of(&dev.stringify().unwrap());
                ctx.emit.line("spec", "spec:foreign:device-keys", format!("spec.eqmodel ok_{dr}_{dd} {op}"), "true".into(), case.clone());
            }
        }
    }

    // --- B2. a FOREIGN READER: the harness plays the reader with its own ephemeral key whose COSE_Key is valid but not
    //     encoded the way this crate would encode it (other key order, a further parameter, non-minimal heads).  The
    //     session keys are computed here from the bytes ON THE WIRE (p256 ECDH, HKDF-SHA-256, own transcript bytes);
    //     the device must open the request encrypted under them, and hold exactly those keys (also per the model).
    let n_fr = if ctx.thorough { 40 } else { 10 };
    for i in 0..n_fr {
        use hkdf::Hkdf; use sha2::{Digest, Sha256};
        let (name, drm, srm) = &configs[rng.gen_range(0..configs.len())];
        let Ok(init) = device::SessionManagerInit::initialise(docs(), drm.clone(), srm.clone()) else { continue };
        let (engaged, qr) = init.qr_engagement().unwrap();
        let eng = base64::decode_config(qr.strip_prefix("mdoc:").unwrap(), base64::URL_SAFE_NO_PAD).unwrap();
        let eng_v = sess::b64_to_value(&engaged.stringify().unwrap());
        let scalar: Vec<u8> = sess::vget(&eng_v, "e_device_key").and_then(|v| v.as_array()).unwrap().iter().map(|x| i128::from(x.as_integer().unwrap()) as u8).collect();
        let dev_pub = p256::SecretKey::from_slice(&scalar).unwrap().public_key();
        let rsk = p256::SecretKey::random(&mut rng); let rpt = rsk.public_key().to_encoded_point(false);
        let mut entries = vec![(iv(1), iv(2)), (iv(-1), iv(1)), (iv(-2), b(rpt.x().unwrap())), (iv(-3), b(rpt.y().unwrap()))];
        let form = i % 5;
        if form == 1 || form == 3 { entries.reverse(); }
        if form == 2 || form == 3 { entries.insert(1, (iv(3), iv(-7))); }
        let style = if form == 4 { 1 + (i % 7) as u8 } else { 0 };
        let mut erk = vec![]; if style == 0 { erk = to_bytes(&Value::Map(entries.clone())); } else { enc_foreign(&Value::Map(entries.clone()), style, &mut erk); }
        // keys from the wire bytes
        let z = p256::ecdh::diffie_hellman(rsk.to_nonzero_scalar(), dev_pub.as_affine());
        let transcript = to_bytes(&Value::Tag(24, Box::new(b(&to_bytes(&Value::Array(vec![Value::Tag(24, Box::new(b(&eng))), Value::Tag(24, Box::new(b(&erk))), Value::Null]))))));
        let salt = Sha256::digest(&transcript);
        let hk = Hkdf::<Sha256>::new(Some(salt.as_slice()), z.raw_secret_bytes().as_slice());
        let (mut skr, mut skd) = ([0u8; 32], [0u8; 32]); hk.expand(b"SKReader", &mut skr).unwrap(); hk.expand(b"SKDevice", &mut skd).unwrap();
        let req = isomdl::definitions::device_request::DeviceRequest { version: "1.0".into(), doc_requests: isomdl::definitions::helpers::NonEmptyVec::new(isomdl::definitions::device_request::DocRequest {
            items_request: isomdl::definitions::helpers::Tag24::new(isomdl::definitions::device_request::ItemsRequest { doc_type: MDL.into(), namespaces: sess::simple_namespaces(&["family_name"]), request_info: None }).unwrap(), reader_auth: None }) };
        let ct = sess::aes_enc(&skr, &sess::iv_bytes(true, 1), &cbor::to_vec(&req).unwrap());
        let est = to_bytes(&Value::Map(vec![(Value::Text("eReaderKey".into()), Value::Tag(24, Box::new(b(&erk)))), (Value::Text("data".into()), b(&ct))]));
        let form_name = ["library order", "reversed map", "extra alg parameter", "reversed with alg", "foreign heads"][form];
        let case = serde_json::json!({"config": name, "reader_key_form": form_name, "msg_hex": hex::encode(&est)});
        let Ok(se) = cbor::from_slice::<SessionEstablishment>(&est) else { ctx.emit.line("spec", "spec:foreign-reader:accepted", "spec.eq undecodable accepted".into(), "true".into(), case); continue };
        let r = guarded(std::panic::AssertUnwindSafe(move || engaged.process_session_establishment(se, TrustAnchorRegistry::default()).map(|(d, o)| (d.stringify().unwrap(), o.errors.contains_key("decryption_errors"))).map_err(|e| e.to_string())));
        match r {
            Ok(Ok((st, decryption_error))) => {
                let st: String = st;
                let (dr, dd) = keys_of(&st);
                ctx.emit.line("spec", "spec:foreign-reader:request-opened", format!("spec.eq {} false", decryption_error), "true".into(), case.clone());
                ctx.emit.line("spec", "spec:foreign-reader:device-keys-are-the-wire-keys", format!("spec.eq {dr}{dd} {}{}", hex::encode(skr), hex::encode(skd)), "true".into(), case.clone());
                let op = format!("kd.session {} {} {null_hex} {}", hex::encode(&eng), hex::encode(&erk), hex::encode(&scalar));
                ctx.emit.line("spec", "spec:foreign-reader:device-keys", format!("spec.eqmodel ok_{dr}_{dd} {op}"), "true".into(), case.clone());
            }
            Ok(Err(e)) => ctx.emit.line("spec", "spec:foreign-reader:accepted", format!("spec.eq rejected:{} accepted", e.replace(' ', "_")), "true".into(), case),
            Err(_) => ctx.emit.line("spec", "spec:foreign-reader:accepted", "spec.eq panic accepted".into(), "true".into(), case),
        }
    }

    // --- B3. engagement sizes: a sweep of BLE address lengths moves the encoded SessionTranscript through every length from
    //     about 200 to 300 bytes, over the 255/256 boundary of the CBOR length head; an independent peer (keys from the wire
    //     bytes, as in B2) must still share the keys with the device
    for alen in (0..=100usize).filter(|a| ctx.thorough || a % 3 == 0 || (40..=70).contains(a)) {
        use hkdf::Hkdf; use sha2::{Digest, Sha256};
        let drm = isomdl::definitions::device_engagement::DeviceRetrievalMethods::new(isomdl::definitions::DeviceRetrievalMethod::BLE(isomdl::definitions::BleOptions {
            peripheral_server_mode: Some(isomdl::definitions::device_engagement::PeripheralServerMode { uuid: uuid::Uuid::from_bytes([7; 16]), ble_device_address: Some(vec![0xab; alen].into()) }),
            central_client_mode: None }));
        let Ok(init) = device::SessionManagerInit::initialise(docs(), Some(drm), None) else { continue };
        let (engaged, qr) = init.qr_engagement().unwrap();
        let eng = base64::decode_config(qr.strip_prefix("mdoc:").unwrap(), base64::URL_SAFE_NO_PAD).unwrap();
        let eng_v = sess::b64_to_value(&engaged.stringify().unwrap());
        let scalar: Vec<u8> = sess::vget(&eng_v, "e_device_key").and_then(|v| v.as_array()).unwrap().iter().map(|x| i128::from(x.as_integer().unwrap()) as u8).collect();
        let dev_pub = p256::SecretKey::from_slice(&scalar).unwrap().public_key();
        let rsk = p256::SecretKey::random(&mut rng); let rpt = rsk.public_key().to_encoded_point(false);
        let erk = to_bytes(&Value::Map(vec![(iv(1), iv(2)), (iv(-1), iv(1)), (iv(-2), b(rpt.x().unwrap())), (iv(-3), b(rpt.y().unwrap()))]));
        let z = p256::ecdh::diffie_hellman(rsk.to_nonzero_scalar(), dev_pub.as_affine());
        let st_inner = to_bytes(&Value::Array(vec![Value::Tag(24, Box::new(b(&eng))), Value::Tag(24, Box::new(b(&erk))), Value::Null]));
        let transcript = to_bytes(&Value::Tag(24, Box::new(b(&st_inner))));
        let salt = Sha256::digest(&transcript);
        let hk = Hkdf::<Sha256>::new(Some(salt.as_slice()), z.raw_secret_bytes().as_slice());
        let (mut skr, mut skd) = ([0u8; 32], [0u8; 32]); hk.expand(b"SKReader", &mut skr).unwrap(); hk.expand(b"SKDevice", &mut skd).unwrap();
        let est = to_bytes(&Value::Map(vec![(Value::Text("eReaderKey".into()), Value::Tag(24, Box::new(b(&erk)))), (Value::Text("data".into()), b(&[1, 2, 3]))]));
        let case = serde_json::json!({"ble_address_len": alen, "session_transcript_len": st_inner.len(), "msg_hex": hex::encode(&est)});
        let Ok(se) = cbor::from_slice::<SessionEstablishment>(&est) else { continue };
        if let Ok((dev, _)) = engaged.process_session_establishment(se, TrustAnchorRegistry::default()) {
            let (dr, dd) = keys_of(&dev.stringify().unwrap());
            ctx.emit.line("spec", "spec:transcript-length:device-keys-are-the-wire-keys", format!("spec.eq {dr}{dd} {}{}", hex::encode(skr), hex::encode(skd)), "true".into(), case.clone());
            let op = format!("kd.session {} {} {null_hex} {}", hex::encode(&eng), hex::encode(&erk), hex::encode(&scalar));
            ctx.emit.line("spec", "spec:transcript-length:device-keys", format!("spec.eqmodel ok_{dr}_{dd} {op}"), "true".into(), case.clone());
        }
        // and the library's reader against the same engagement: its keys against the model's, from the wire bytes
        if let Ok((rdr, est2, _)) = reader::SessionManager::establish_session(qr.clone(), sess::simple_namespaces(&["family_name"]), TrustAnchorRegistry::default()) {
            let erk2 = erk_inner(&est2); let (rr, rd) = keys_of(&rdr.stringify().unwrap());
            let op = format!("kd.session {} {} {null_hex} {}", hex::encode(&eng), hex::encode(&erk2), hex::encode(&scalar));
            ctx.emit.line("spec", "spec:transcript-length:reader-keys", format!("spec.eqmodel ok_{rr}_{rd} {op}"), "true".into(), case.clone());
        }
    }

    // --- C. stored handovers other than QR on the device, and derive_session_key on arbitrary transcripts
    let handovers: Vec<(&str, Value)> = vec![("qr", Value::Null), ("nfc-select-only", Value::Array(vec![b(&[1, 2, 3]), Value::Null])), ("nfc-both", Value::Array(vec![b(&[9; 40]), b(&[7; 3])])),
        ("nfc-empty", Value::Array(vec![b(&[]), b(&[])])), ("oid4vp", Value::Array(vec![Value::Text("a".into()), Value::Text("b".into())]))];
    for (hn, h) in &handovers { for _ in 0..(if ctx.thorough { 4 } else { 1 }) {
        let init = device::SessionManagerInit::initialise(docs(), None, None).unwrap();
        let (engaged, qr) = init.qr_engagement().unwrap();
        let eng = base64::decode_config(qr.strip_prefix("mdoc:").unwrap(), base64::URL_SAFE_NO_PAD).unwrap();
        let (_, est, _) = reader::SessionManager::establish_session(qr.clone(), sess::simple_namespaces(&["family_name"]), TrustAnchorRegistry::default()).unwrap();
        let erk = erk_inner(&est);
        let mut st = sess::b64_to_value(&engaged.stringify().unwrap());
        let scalar: Vec<u8> = sess::vget(&st, "e_device_key").and_then(|v| v.as_array()).unwrap().iter().map(|x| i128::from(x.as_integer().unwrap()) as u8).collect();
        sess::vset(&mut st, "handover", h.clone());
        let Ok(e2) = device::SessionManagerEngaged::parse(sess::value_to_b64(&st)) else { continue };
        let se: SessionEstablishment = cbor::from_slice(&est).unwrap();
        let Ok((dev, _)) = e2.process_session_establishment(se, TrustAnchorRegistry::default()) else { continue };
        let (dr, dd) = keys_of(&dev.stringify().unwrap());
        let op = format!("kd.session {} {} {} {}", hex::encode(&eng), hex::encode(&erk), hex::encode(to_bytes(h)), hex::encode(&scalar));
        ctx.emit.line("spec", "spec:handover:device-keys", format!("spec.eqmodel ok_{dr}_{dd} {op}"), "true".into(), serde_json::json!({"handover": hn, "msg_hex": hex::encode(to_bytes(h))}));
    } }
    for i in 0..(if ctx.thorough { 200 } else { 40 }) {
        let mut z: [u8; 32] = rng.gen();
        // boundary shared secrets: leading zero bytes (about 1 in 256 real sessions), all-zero prefix, trailing zeros
        match i % 8 { 0 => z[0] = 0, 1 => { z[0] = 0; z[1] = 0; } 2 => { for b in z.iter_mut().take(31) { *b = 0; } } 3 => z[31] = 0, _ => {} }
        let (_, h) = &handovers[i % handovers.len()];
        let Ok(handover) = cbor::from_value::<Handover>(h.clone()) else { continue };
        let init = device::SessionManagerInit::initialise(docs(), None, None).unwrap();
        let (_, qr) = init.qr_engagement().unwrap();
        let de = Tag24::<DeviceEngagement>::from_qr_code_uri(&qr).unwrap();
        let erk_key = world::cose_key_of(&world::key_from(&mut rng));
        let st = SessionTranscript180135(de, Tag24::new(erk_key).unwrap(), handover);
        let stb = Tag24::new(st).unwrap();
        let inner = stb.inner_bytes.clone();
        let ss = p256::ecdh::SharedSecret::from(p256::FieldBytes::from(z));
        for reader in [true, false] {
            let real = derive_session_key(&ss, &stb, reader).map(|k| hex::encode(k)).unwrap_or("err".into());
            let op = format!("kd.sessionKey {} {} {}", hex::encode(z), hex::encode(&inner), if reader { "t" } else { "f" });
            ctx.emit.line("spec", "spec:derive_session_key", format!("spec.eqmodel {real} {op}"), "true".into(), serde_json::json!({"msg_hex": format!("{}{}", hex::encode(z), reader)}));
        }
    }

    // --- C2. sessions whose ECDH secret starts with a zero byte: the harness plays the reader and searches for such a key
    for round in 0..(if ctx.thorough { 6 } else { 2 }) {
        let init = device::SessionManagerInit::initialise(docs(), None, None).unwrap();
        let (engaged, qr) = init.qr_engagement().unwrap();
        let eng = base64::decode_config(qr.strip_prefix("mdoc:").unwrap(), base64::URL_SAFE_NO_PAD).unwrap();
        let st = sess::b64_to_value(&engaged.stringify().unwrap());
        let scalar: Vec<u8> = sess::vget(&st, "e_device_key").and_then(|v| v.as_array()).unwrap().iter().map(|x| i128::from(x.as_integer().unwrap()) as u8).collect();
        let dev_sk = p256::NonZeroScalar::try_from(scalar.as_slice()).unwrap();
        let mut found = None;
        for _ in 0..20000 {
            let k = world::key_from(&mut rng);
            let z = p256::ecdh::diffie_hellman(dev_sk, k.verifying_key().as_affine());
            if z.raw_secret_bytes()[0] == 0 && (round % 2 == 0 || z.raw_secret_bytes()[1] < 16) { found = Some(k); break; }
        }
        let Some(k) = found else { continue };
        let ck = world::cose_key_of(&k);
        let erk = cbor::to_vec(&ck).unwrap();
        let se = SessionEstablishment { e_reader_key: Tag24::new(ck).unwrap(), data: vec![1, 2, 3].into() };
        let Ok((dev, _)) = engaged.process_session_establishment(se, TrustAnchorRegistry::default()) else { continue };
        let (dr, dd) = keys_of(&dev.stringify().unwrap());
        let op = format!("kd.session {} {} {null_hex} {}", hex::encode(&eng), hex::encode(&erk), hex::encode(&scalar));
        ctx.emit.line("spec", "spec:session:leading-zero-secret", format!("spec.eqmodel ok_{dr}_{dd} {op}"), "true".into(), serde_json::json!({"msg_hex": hex::encode(&erk)}));
    }

    // --- D. invalid and unusual peer keys: refused rather than used
    let scalar_sk = p256::NonZeroScalar::random(&mut rng);
    let scalar_hex = hex::encode(scalar_sk.to_bytes());
    let mut keys: Vec<(String, Value)> = hostile_keys().into_iter().filter(|(n, _)| !n.contains("-x") && !n.contains("-y") || n.ends_with("x32") || n.ends_with("y32") || n.ends_with("x31") || n.ends_with("x33") || n.ends_with("x32-signbit")).collect();
    let ec2 = |crv: i128, x: Vec<u8>, y: Value| Value::Map(vec![(iv(1), iv(2)), (iv(-1), iv(crv)), (iv(-2), Value::Bytes(x)), (iv(-3), y)]);
    for i in 0..(if ctx.thorough { 60 } else { 12 }) {
        let k = world::key_from(&mut rng); let pt = k.verifying_key().to_encoded_point(false);
        let (x, y) = (pt.x().unwrap().to_vec(), pt.y().unwrap().to_vec());
        let odd = y[31] & 1 == 1;
        keys.push((format!("valid-{i}"), ec2(1, x.clone(), b(&y))));
        keys.push((format!("valid-compressed-{i}"), ec2(1, x.clone(), Value::Bool(odd))));
        keys.push((format!("valid-compressed-other-root-{i}"), ec2(1, x.clone(), Value::Bool(!odd))));
        let mut y2 = y.clone(); y2[31] ^= 1; keys.push((format!("off-curve-y-bit-{i}"), ec2(1, x.clone(), b(&y2))));
        let mut x2 = x.clone(); x2[0] ^= 0x80; keys.push((format!("off-curve-x-bit-{i}"), ec2(1, x2.clone(), b(&y))));
        keys.push((format!("compressed-x-flipped-{i}"), ec2(1, x2, Value::Bool(odd))));
        for crv in [2i128, 3, 8] { keys.push((format!("valid-point-wrong-curve-id-{crv}-{i}"), ec2(crv, x.clone(), b(&y)))); }
        // over-long coordinates whose TAIL is a genuine coordinate (an encoder going through ASN.1 INTEGER / BigInteger prepends
        // a sign byte): 33 and 34 bytes, zero and non-zero prefix, on x, on y, on both, and with a compressed y
        if i < 4 { for (pn, pre) in [("00", vec![0u8]), ("01", vec![1u8]), ("0000", vec![0u8, 0]), ("ff", vec![0xffu8])] {
            let px: Vec<u8> = pre.iter().cloned().chain(x.iter().cloned()).collect(); let py: Vec<u8> = pre.iter().cloned().chain(y.iter().cloned()).collect();
            keys.push((format!("prefixed-{pn}-x-{i}"), ec2(1, px.clone(), b(&y)))); keys.push((format!("prefixed-{pn}-y-{i}"), ec2(1, x.clone(), b(&py))));
            keys.push((format!("prefixed-{pn}-both-{i}"), ec2(1, px.clone(), b(&py)))); keys.push((format!("prefixed-{pn}-x-compressed-{i}"), ec2(1, px, Value::Bool(odd))));
        } }
        keys.push((format!("negated-{i}"), ec2(1, x.clone(), { // (x, p - y) is on the curve too
            let p = num_p(); let yn = sub_be(&p, &y); b(&yn) })));
    }
    keys.push(("identity-zero".into(), ec2(1, vec![0; 32], b(&[0; 32]))));
    keys.push(("x-equals-p".into(), ec2(1, num_p(), b(&[1; 32]))));
    keys.push(("x-zero-compressed".into(), ec2(1, vec![0; 32], Value::Bool(false))));
    keys.push(("x-all-ff-compressed".into(), ec2(1, vec![0xff; 32], Value::Bool(true))));
    for (name, kv) in &keys {
        let Ok(ck) = cbor::from_value::<CoseKey>(kv.clone()) else { continue };
        let kb = to_bytes(kv);
        let r = guarded({ let ck = ck.clone(); move || get_shared_secret(ck, &scalar_sk).map(|s| hex::encode(s.raw_secret_bytes())) });
        let real = match &r { Err(_) => "panic".to_string(), Ok(Ok(z)) => format!("ok {z}"), Ok(Err(_)) => "refused".into() };
        let kind = name.trim_end_matches(|c: char| c.is_ascii_digit() || c == '-');
        let op = format!("kd.shared {} {scalar_hex}", hex::encode(&kb));
        ctx.emit.line("corr", &format!("peer:{kind}"), op.clone(), real.clone(), serde_json::json!({"key": name, "msg_hex": hex::encode(&kb)}));
        ctx.emit.line("spec", &format!("spec:peer:{kind}"), format!("spec.eqmodel {} {op}", real.replace(' ', "_")), "true".into(), serde_json::json!({"key": name, "real": real, "msg_hex": hex::encode(&kb)}));
        // ... and through the session entry points: the device given this eReaderKey, the reader given this eDeviceKey
        let valid = real.starts_with("ok");
        let init = device::SessionManagerInit::initialise(docs(), None, None).unwrap();
        let (engaged, qr) = init.qr_engagement().unwrap();
        let se = SessionEstablishment { e_reader_key: Tag24::new(ck.clone()).unwrap(), data: vec![1, 2, 3].into() };
        let r = guarded(std::panic::AssertUnwindSafe(move || engaged.process_session_establishment(se, TrustAnchorRegistry::default()).is_ok()));
        ctx.emit.line("spec", &format!("spec:peer-device:{kind}"), format!("spec.eq {} {}", match r { Ok(true) => "used", Ok(false) => "refused", Err(_) => "panic" }, if valid { "used" } else { "refused" }), "true".into(), serde_json::json!({"key": name, "msg_hex": hex::encode(&kb)}));
        let eng = base64::decode_config(qr.strip_prefix("mdoc:").unwrap(), base64::URL_SAFE_NO_PAD).unwrap();
        let mut v: Value = cbor::from_slice(&eng).unwrap();
        if let Value::Map(m) = &mut v { for (k, x) in m.iter_mut() { if k.as_integer().map(i128::from) == Some(1) { *x = Value::Array(vec![iv(1), Value::Tag(24, Box::new(b(&kb)))]); } } }
        let qr2 = format!("mdoc:{}", base64::encode_config(to_bytes(&v), base64::URL_SAFE_NO_PAD));
        let r = guarded(move || reader::SessionManager::establish_session(qr2, sess::simple_namespaces(&["a"]), TrustAnchorRegistry::default()).is_ok());
        ctx.emit.line("spec", &format!("spec:peer-reader:{kind}"), format!("spec.eq {} {}", match r { Ok(true) => "used", Ok(false) => "refused", Err(_) => "panic" }, if valid { "used" } else { "refused" }), "true".into(), serde_json::json!({"key": name, "msg_hex": hex::encode(&kb)}));
    }
}

fn num_p() -> Vec<u8> { hex::decode("ffffffff00000001000000000000000000000000ffffffffffffffffffffffff").unwrap() }
fn sub_be(a: &[u8], bb: &[u8]) -> Vec<u8> { let mut out = vec![0u8; 32]; let mut borrow = 0i32; for i in (0..32).rev() { let mut d = a[i] as i32 - bb[i] as i32 - borrow; if d < 0 { d += 256; borrow = 1 } else { borrow = 0 } out[i] = d as u8; } out }
