//! C03 / C04 / C05: authentic responses and alterations made by a holder who owns the device key
//! and the session keys; the reader's verdicts are compared with the decision model, and the
//! C03/C04/C05 predicates are evaluated on them.  All "facts" are computed by the harness from the
//! delivered bytes with independent means (own Sig_structure, p256 / sha2 directly, x509-cert).
use crate::gen::to_bytes;
use crate::sess::{self, Sim, MDL, NS};
use crate::world::{self, Pki};
use crate::Ctx;
use ciborium::Value;
use isomdl::cbor;
use isomdl::definitions::device_request::ItemsRequest;
use isomdl::definitions::helpers::Tag24;
use isomdl::definitions::x509::trust_anchor::{TrustAnchorRegistry, TrustPurpose};
use isomdl::definitions::x509::validation::ValidationRuleset;
use isomdl::definitions::x509::X5Chain;
use isomdl::definitions::{DeviceResponse, Mso, SessionData};
use isomdl::presentation::authentication::{AuthenticationStatus, ResponseAuthenticationOutcome};
use isomdl::presentation::reader;
use p256::ecdsa::{signature::Signer, signature::Verifier, Signature, SigningKey, VerifyingKey};
use rand::Rng;
use sha2::Digest;

/// a serde-derived struct field: serde's field identifiers accept a text string OR a byte string with the same bytes
pub fn mget<'a>(v: &'a Value, k: &str) -> Option<&'a Value> { v.as_map()?.iter().find(|(kk, _)| kk.as_text() == Some(k) || kk.as_bytes().map(|b| b.as_slice()) == Some(k.as_bytes())).map(|(_, x)| x) }
/// a key of a string-keyed map (BTreeMap<String, _>): text only
pub fn mget_key<'a>(v: &'a Value, k: &str) -> Option<&'a Value> { v.as_map()?.iter().find(|(kk, _)| kk.as_text() == Some(k)).map(|(_, x)| x) }
pub fn mget_mut<'a>(v: &'a mut Value, k: &str) -> Option<&'a mut Value> { match v { Value::Map(m) => m.iter_mut().find(|(kk, _)| kk.as_text() == Some(k)).map(|(_, x)| x), _ => None } }
pub fn mdel(v: &mut Value, k: &str) { if let Value::Map(m) = v { m.retain(|(kk, _)| kk.as_text() != Some(k)); } }
pub fn doc0(v: &Value) -> Option<&Value> { mget(v, "documents")?.as_array()?.first() }
pub fn doc0_mut(v: &mut Value) -> Option<&mut Value> { match mget_mut(v, "documents")? { Value::Array(a) => a.first_mut(), _ => None } }
pub fn cose_arr(v: &Value) -> Option<&Vec<Value>> { match v { Value::Array(a) => Some(a), Value::Tag(_, b) => b.as_array(), _ => None } }
pub fn cose_arr_mut(v: &mut Value) -> Option<&mut Vec<Value>> { match v { Value::Array(a) => Some(a), Value::Tag(_, b) => match &mut **b { Value::Array(a) => Some(a), _ => None }, _ => None } }
pub fn issuer_auth_mut(v: &mut Value) -> &mut Vec<Value> { cose_arr_mut(mget_mut(mget_mut(doc0_mut(v).unwrap(), "issuerSigned").unwrap(), "issuerAuth").unwrap()).unwrap() }
pub fn device_sig_mut(v: &mut Value) -> &mut Vec<Value> { cose_arr_mut(mget_mut(mget_mut(mget_mut(doc0_mut(v).unwrap(), "deviceSigned").unwrap(), "deviceAuth").unwrap(), "deviceSignature").unwrap()).unwrap() }
pub fn items_mut<'a>(v: &'a mut Value, ns: &str) -> Option<&'a mut Vec<Value>> {
    match mget_mut(mget_mut(mget_mut(doc0_mut(v)?, "issuerSigned")?, "nameSpaces")?, ns)? { Value::Array(a) => Some(a), _ => None } }

pub struct Live {
    pub sim: Sim,
    pub resp: Value,             // the authentic decrypted DeviceResponse
    pub transcript: Value,       // [#6.24(engagement bytes), #6.24(eReaderKey bytes), null] from the wire
}

impl Live {
    pub fn new(id: u32, pki: &Pki, rng: &mut rand_chacha::ChaCha8Rng, reader_registry: TrustAnchorRegistry, elems: &[&str]) -> Live {
        Live::new_for(id, pki, rng, reader_registry, elems, MDL)
    }
    /// the held (and answered) document has type `doc_type`
    pub fn new_for(id: u32, pki: &Pki, rng: &mut rand_chacha::ChaCha8Rng, reader_registry: TrustAnchorRegistry, elems: &[&str], doc_type: &str) -> Live {
        let mut sim = Sim::new(id, pki, rng, &[doc_type], elems, reader_registry, TrustAnchorRegistry::default());
        let reqs = vec![ItemsRequest { doc_type: doc_type.into(), namespaces: sess::simple_namespaces(elems), request_info: None }];
        sim.dev.prepare_response(&reqs, sess::permit_all(&[doc_type], elems));
        let payload = sim.dev.get_next_signature_payload().map(|(_, p)| p.to_vec()).unwrap();
        let sig: Signature = sim.device_key.sign(&payload);
        sim.dev.submit_next_signature(sig.to_vec()).unwrap();
        let msg = sim.dev.retrieve_response().unwrap();
        let sd: SessionData = cbor::from_slice(&msg).unwrap();
        let pt = sess::aes_dec(&sim.sk_device, &sess::iv_bytes(false, 1), sd.data.unwrap().as_ref()).unwrap();
        let resp: Value = cbor::from_slice(&pt).unwrap();
        let eng = base64::decode_config(sim.qr.strip_prefix("mdoc:").unwrap(), base64::URL_SAFE_NO_PAD).unwrap();
        let est: Value = cbor::from_slice(&sim.establishment).unwrap();
        let erk = mget(&est, "eReaderKey").cloned().unwrap();
        let transcript = Value::Array(vec![Value::Tag(24, Box::new(Value::Bytes(eng))), erk, Value::Null]);
        Live { sim, resp, transcript }
    }

    /// independent DeviceAuthentication to-be-signed bytes for a (possibly altered) response, with a given transcript
    pub fn device_tbs(transcript: &Value, v: &Value) -> Option<Vec<u8>> { Live::device_tbs_of(transcript, doc0(v)?) }
    /// Sig_structure of the device signature of document `d` (the reader authenticates the first mDL document)
    pub fn device_tbs_of(transcript: &Value, d: &Value) -> Option<Vec<u8>> {
        let doc_type = mget(d, "docType")?.clone();
        let dns = mget(mget(d, "deviceSigned")?, "nameSpaces")?.clone();
        let da = Value::Array(vec![Value::Text("DeviceAuthentication".into()), transcript.clone(), doc_type, dns]);
        let da_bytes = to_bytes(&Value::Tag(24, Box::new(Value::Bytes(to_bytes(&da)))));
        let ds = cose_arr(mget(mget(mget(d, "deviceSigned")?, "deviceAuth")?, "deviceSignature")?)?;
        let prot = ds.first()?.as_bytes()?.clone();
        Some(to_bytes(&Value::Array(vec![Value::Text("Signature1".into()), Value::Bytes(prot), Value::Bytes(vec![]), Value::Bytes(da_bytes)])))
    }
    pub fn resign_device(&self, v: &mut Value, key: &SigningKey) {
        if let Some(tbs) = Live::device_tbs(&self.transcript, v) { let s: Signature = key.sign(&tbs); device_sig_mut(v)[3] = Value::Bytes(s.to_vec()); }
    }
    fn encrypt_for_reader(&self, v: &Value, n: u32) -> Vec<u8> {
        let ct = sess::aes_enc(&self.sim.sk_device, &sess::iv_bytes(false, n), &to_bytes(v));
        cbor::to_vec(&SessionData { data: Some(ct.into()), status: None }).unwrap()
    }
    /// encrypt as the device's next message for this reader and let a COPY of the reader handle it.
    /// `after_genuine`: the same reader copy first handles the authentic response and sends a new request.
    pub fn deliver_mode(&self, v: &Value, after_genuine: bool) -> Result<ResponseAuthenticationOutcome, String> {
        let mut r: reader::SessionManager = self.sim.rdr.clone();
        let mut n = sess::peek_reader(&r).dev_ctr + 1;
        if after_genuine {
            let m0 = self.encrypt_for_reader(&self.resp, n);
            let _ = r.handle_response(&m0);
            let _ = r.new_request(sess::simple_namespaces(&["family_name"]));
            n += 1;
        }
        let msg = self.encrypt_for_reader(v, n);
        crate::guarded(std::panic::AssertUnwindSafe(move || r.handle_response(&msg)))
    }
    pub fn deliver(&self, v: &Value) -> Result<ResponseAuthenticationOutcome, String> { self.deliver_mode(v, false) }
    /// the response as the device's message number `n` on the wire (for a copy of this reader)
    pub fn wire_message(&self, v: &Value, n: u32) -> Vec<u8> { self.encrypt_for_reader(v, n) }
}

fn alg_token(prot: &[u8]) -> String {
    if prot.is_empty() { return "absent".into(); }
    match cbor::from_slice::<Value>(prot) {
        Ok(Value::Map(m)) => match m.iter().find(|(k, _)| k.as_integer().map(i128::from) == Some(1)).map(|(_, v)| v) {
            None => "absent".into(),
            Some(Value::Integer(i)) => { let i: i128 = (*i).into(); if i < -65536 { format!("p:{i}") } else { format!("a:{i}") } }
            Some(Value::Text(_)) => "text".into(),
            _ => "absent".into() },
        _ => "absent".into(),
    }
}

pub fn status_str(s: &AuthenticationStatus) -> &'static str { match s { AuthenticationStatus::Valid => "Valid", AuthenticationStatus::Invalid => "Invalid", AuthenticationStatus::Unchecked => "Unchecked" } }

/// the abstraction function: facts about the delivered plaintext, computed without the code under test where it matters
pub fn facts(v: &Value, registry: &TrustAnchorRegistry, transcript: &Value) -> String {
    let t = |b: bool| if b { "t" } else { "f" };
    let pt = to_bytes(v);
    let decodes = cbor::from_slice::<DeviceResponse>(&pt).is_ok();
    let docs = mget(v, "documents").and_then(|d| d.as_array()).map(|a| !a.is_empty()).unwrap_or(false);
    let d = mget(v, "documents").and_then(|d| d.as_array()).and_then(|a| a.iter().find(|x| mget(x, "docType").and_then(|s| s.as_text()) == Some(MDL)));
    let mdl = d.is_some();
    let ia = d.and_then(|d| mget(d, "issuerSigned")).and_then(|i| mget(i, "issuerAuth")).and_then(cose_arr);
    let x5v = ia.and_then(|a| a.get(1)).and_then(|u| u.as_map()).and_then(|m| m.iter().find(|(k, _)| k.as_integer().map(i128::from) == Some(33)).map(|(_, v)| v.clone()));
    let chain = x5v.clone().and_then(|x| X5Chain::from_cbor(x).ok());
    let nsv = d.and_then(|d| mget(d, "issuerSigned")).and_then(|i| mget(i, "nameSpaces"));
    // a namespace the reader reports (core or AAMVA) is present
    let core = nsv.and_then(|n| mget_key(n, NS)).is_some() || nsv.and_then(|n| mget_key(n, "org.iso.18013.5.1.aamva")).is_some();
    let chain_errs = chain.as_ref().map(|c| ValidationRuleset::Mdl.validate(c, registry).errors.len()).unwrap_or(0);
    // the key of the FIRST certificate of the x5chain, parsed with x509-cert directly (not through the library's X5Chain)
    let first_der: Option<Vec<u8>> = match &x5v { Some(Value::Bytes(b)) => Some(b.clone()), Some(Value::Array(a)) => a.first().and_then(|x| x.as_bytes().cloned()), _ => None };
    let first_cert = first_der.and_then(|d| { use der::Decode; x509_cert::Certificate::from_der(&d).ok() });
    // the decisive part of "validates against a configured IACA trust anchor", computed here and not by the library: the first
    // certificate's signature verifies under the P-256 key of some configured IACA anchor
    let anchored = first_cert.as_ref().map(|cert| { use der::Encode; let tbs = cert.tbs_certificate.to_der().unwrap(); let sig = p256::ecdsa::Signature::from_der(cert.signature.raw_bytes());
        registry.anchors.iter().any(|a| matches!(a.purpose, TrustPurpose::Iaca) && sig.as_ref().map(|s| VerifyingKey::from_sec1_bytes(a.certificate.tbs_certificate.subject_public_key_info.subject_public_key.raw_bytes())
            .map(|k| k.verify(&tbs, s).is_ok()).unwrap_or(false)).unwrap_or(false)) }).unwrap_or(false);
    let chain_errs = if chain.is_some() && !anchored { chain_errs.max(1) } else { chain_errs };
    let ikey: Option<VerifyingKey> = first_cert.and_then(|c| VerifyingKey::from_sec1_bytes(c.tbs_certificate.subject_public_key_info.subject_public_key.raw_bytes()).ok());
    let prot = ia.and_then(|a| a.first()).and_then(|p| p.as_bytes()).cloned().unwrap_or_default();
    let payload = ia.and_then(|a| a.get(2)).and_then(|p| p.as_bytes()).cloned();
    let isig = ia.and_then(|a| a.get(3)).and_then(|p| p.as_bytes()).cloned().unwrap_or_default();
    let itbs = to_bytes(&Value::Array(vec![Value::Text("Signature1".into()), Value::Bytes(prot.clone()), Value::Bytes(vec![]), Value::Bytes(payload.clone().unwrap_or_default())]));
    let isp = Signature::from_slice(&isig);
    let isa = match (&isp, &ikey) { (Ok(s), Some(k)) => k.verify(&itbs, s).is_ok(), _ => false };
    // MSO and device key
    let mso_v: Option<Value> = payload.as_ref().and_then(|p| cbor::from_slice::<Value>(p).ok()).and_then(|v| match v { Value::Tag(24, b) => b.as_bytes().and_then(|bb| cbor::from_slice::<Value>(bb).ok()), _ => None });
    let mso_ok = payload.as_ref().map(|p| cbor::from_slice::<Tag24<Mso>>(p).is_ok()).unwrap_or(false);
    let dk = mso_v.as_ref().and_then(|m| mget(m, "deviceKeyInfo")).and_then(|k| mget(k, "deviceKey")).and_then(|k| k.as_map()).cloned();
    let geti = |m: &Vec<(Value, Value)>, i: i128| m.iter().find(|(k, _)| k.as_integer().map(i128::from) == Some(i)).map(|(_, v)| v.clone());
    let (dkey, dvk): (&str, Option<VerifyingKey>) = match &dk {
        None => ("okp", None),
        Some(m) => match (geti(m, 1).and_then(|v| v.as_integer().map(i128::from)), geti(m, -2), geti(m, -3)) {
            (Some(2), Some(Value::Bytes(x)), Some(Value::Bytes(y))) => {
                if x.len() != 32 || y.len() != 32 { ("badlen", None) } else {
                    let ep = p256::EncodedPoint::from_affine_coordinates(p256::FieldBytes::from_slice(&x), p256::FieldBytes::from_slice(&y), false);
                    match VerifyingKey::from_encoded_point(&ep) { Ok(k) => ("p256", Some(k)), Err(_) => ("offcurve", None) } } }
            (Some(2), _, Some(Value::Bool(_))) => ("compressed", None),
            _ => ("okp", None) } };
    // device auth
    let da = d.and_then(|d| mget(d, "deviceSigned")).and_then(|s| mget(s, "deviceAuth"));
    let dsig_v = da.and_then(|a| mget(a, "deviceSignature")).and_then(cose_arr);
    let is_sig = dsig_v.is_some();
    let dprot = dsig_v.and_then(|a| a.first()).and_then(|p| p.as_bytes()).cloned().unwrap_or_default();
    let datt = dsig_v.and_then(|a| a.get(2)).map(|p| p.as_bytes().is_some()).unwrap_or(false);
    let dsigb = dsig_v.and_then(|a| a.get(3)).and_then(|p| p.as_bytes()).cloned().unwrap_or_default();
    let dsp = Signature::from_slice(&dsigb);
    let dtbs = d.and_then(|d| Live::device_tbs_of(transcript, d));
    let dsa = match (&dsp, &dvk, &dtbs) { (Ok(s), Some(k), Some(tbs)) => k.verify(tbs, s).is_ok(), _ => false };
    // issuer data authentication (ISO 9.1.2.4): digests and docType
    let alg = mso_v.as_ref().and_then(|m| mget(m, "digestAlgorithm")).and_then(|a| a.as_text()).unwrap_or("").to_string();
    let hash = |b: &[u8]| -> Vec<u8> { match alg.as_str() { "SHA-384" => sha2::Sha384::digest(b).to_vec(), "SHA-512" => sha2::Sha512::digest(b).to_vec(), _ => sha2::Sha256::digest(b).to_vec() } };
    let mut dig = mso_v.is_some();
    if let (Some(Value::Map(nss)), Some(m)) = (nsv, mso_v.as_ref()) {
        for (nsk, items) in nss {
            let vd = mget(m, "valueDigests").and_then(|v| nsk.as_text().and_then(|n| mget_key(v, n))).and_then(|x| x.as_map());
            for it in items.as_array().cloned().unwrap_or_default() {
                let ok = (|| { let b = match &it { Value::Tag(24, b) => b.as_bytes()?.clone(), _ => return None };
                    let iv: Value = cbor::from_slice(&b).ok()?; let id: i128 = mget(&iv, "digestID")?.as_integer()?.into();
                    let want = vd?.iter().find(|(k, _)| k.as_integer().map(i128::from) == Some(id))?.1.as_bytes()?.clone();
                    Some(want == hash(&to_bytes(&it))) })().unwrap_or(false);
                dig &= ok;
            }
        }
    }
    let dt = match (mso_v.as_ref().and_then(|m| mget(m, "docType")), d.and_then(|d| mget(d, "docType"))) { (Some(a), Some(b)) => a == b, _ => false };
    format!("decrypts=t decodes={} docs={} mdl={} x5p={} x5ok={} ns={} core={} chain={} ikey={} ialg={} iatt={} isp={} isa={} mso={} dkey={} dsig={} dalg={} datt={} dsp={} dsa={} dig={} dt={}",
        t(decodes), t(docs), t(mdl), t(x5v.is_some()), t(chain.is_some()), t(nsv.is_some()), t(core), chain_errs, t(ikey.is_some()), alg_token(&prot), t(payload.is_some()),
        t(isp.is_ok()), t(isa), t(mso_ok), dkey, t(is_sig), alg_token(&dprot), t(datt), t(dsp.is_ok()), t(dsa), t(dig), t(dt))
}

pub fn outcome_str(r: &Result<ResponseAuthenticationOutcome, String>) -> (String, String, String, bool) {
    match r {
        Err(_) => ("panic".into(), "panic".into(), "panic".into(), false),
        Ok(o) => {
            let keys: Vec<String> = o.errors.keys().cloned().collect();
            let e = if keys.is_empty() { "-".to_string() } else { keys.join(",") };
            (format!("issuer={} device={} errors={} data={}", status_str(&o.issuer_authentication), status_str(&o.device_authentication), e, if o.response.is_empty() { "f" } else { "t" }),
             status_str(&o.issuer_authentication).into(), status_str(&o.device_authentication).into(), keys.is_empty())
        }
    }
}

/// every element the reader REPORTED must be an item of the authenticated (first mDL) document whose digest matches the MSO
fn reported_covered(v: &Value, o: &ResponseAuthenticationOutcome) -> bool {
    let d = mget(v, "documents").and_then(|d| d.as_array()).and_then(|a| a.iter().find(|x| mget(x, "docType").and_then(|s| s.as_text()) == Some(MDL)));
    let Some(d) = d else { return o.response.is_empty() };
    let payload = mget(d, "issuerSigned").and_then(|i| mget(i, "issuerAuth")).and_then(cose_arr).and_then(|a| a.get(2)).and_then(|p| p.as_bytes()).cloned();
    let mso_v: Option<Value> = payload.as_ref().and_then(|p| cbor::from_slice::<Value>(p).ok()).and_then(|v| match v { Value::Tag(24, b) => b.as_bytes().and_then(|bb| cbor::from_slice::<Value>(bb).ok()), _ => None });
    let alg = mso_v.as_ref().and_then(|m| mget(m, "digestAlgorithm")).and_then(|a| a.as_text()).unwrap_or("").to_string();
    let hash = |b: &[u8]| -> Vec<u8> { match alg.as_str() { "SHA-384" => sha2::Sha384::digest(b).to_vec(), "SHA-512" => sha2::Sha512::digest(b).to_vec(), _ => sha2::Sha256::digest(b).to_vec() } };
    for (ns, elems) in &o.response {
        let Some(obj) = elems.as_object() else { continue };
        for (ident, _val) in obj {
            let items = mget(d, "issuerSigned").and_then(|i| mget(i, "nameSpaces")).and_then(|n| mget_key(n, ns)).and_then(|a| a.as_array()).cloned().unwrap_or_default();
            let vd = mso_v.as_ref().and_then(|m| mget(m, "valueDigests")).and_then(|x| mget_key(x, ns)).and_then(|x| x.as_map()).cloned().unwrap_or_default();
            let covered = items.iter().any(|it| (|| { let b = match it { Value::Tag(24, b) => b.as_bytes()?.clone(), _ => return None };
                let iv: Value = cbor::from_slice(&b).ok()?;
                if mget(&iv, "elementIdentifier")?.as_text()? != ident { return None; }
                let id: i128 = mget(&iv, "digestID")?.as_integer()?.into();
                let want = vd.iter().find(|(k, _)| k.as_integer().map(i128::from) == Some(id))?.1.as_bytes()?.clone();
                Some(want == hash(&to_bytes(it))) })().unwrap_or(false));
            if !covered { return false; }
        }
    }
    true
}

/// the model computes the cryptographic facts itself from the bytes on the wire (Model/ResponseFacts.lean: its own ECDSA over its
/// own P-256 and SHA-2, the digest comparison, the docType comparison); this is the same list as computed here with RustCrypto
pub fn crypto_facts_line(v: &Value, f: &str, transcript: &Value) -> (String, String) {
    let d = mget(v, "documents").and_then(|d| d.as_array()).and_then(|a| a.iter().find(|x| mget(x, "docType").and_then(|s| s.as_text()) == Some(MDL)));
    let ia = d.and_then(|d| mget(d, "issuerSigned")).and_then(|i| mget(i, "issuerAuth")).and_then(cose_arr);
    let x5v = ia.and_then(|a| a.get(1)).and_then(|u| u.as_map()).and_then(|m| m.iter().find(|(k, _)| k.as_integer().map(i128::from) == Some(33)).map(|(_, v)| v.clone()));
    let first_der: Option<Vec<u8>> = match &x5v { Some(Value::Bytes(b)) => Some(b.clone()), Some(Value::Array(a)) => a.first().and_then(|x| x.as_bytes().cloned()), _ => None };
    let key = first_der.and_then(|d| { use der::Decode; x509_cert::Certificate::from_der(&d).ok() })
        .and_then(|c| VerifyingKey::from_sec1_bytes(c.tbs_certificate.subject_public_key_info.subject_public_key.raw_bytes()).ok())
        .map(|k| { let p = k.to_encoded_point(false); let mut v = p.x().unwrap().to_vec(); v.extend_from_slice(p.y().unwrap()); hex::encode(v) }).unwrap_or("-".into());
    let payload = ia.and_then(|a| a.get(2)).and_then(|p| p.as_bytes()).cloned();
    let msov = payload.as_ref().and_then(|p| cbor::from_slice::<Value>(p).ok()).and_then(|v| match v { Value::Tag(24, b) => b.as_bytes().and_then(|bb| cbor::from_slice::<Value>(bb).ok()), _ => None }).is_some();
    let tok = |k: &str| f.split(' ').find(|t| t.starts_with(&format!("{k}="))).map(|t| t.to_string()).unwrap_or_default();
    let real = format!("{} msov={} {} {} {} {}", tok("isa"), if msov { "t" } else { "f" }, tok("dkey"), tok("dsa"), tok("dig"), tok("dt"));
    (format!("facts.crypto {} {} {}", hex::encode(to_bytes(v)), hex::encode(to_bytes(transcript)), key), real)
}

/// `issuerSigned.nameSpaces` of the first document of type mDL (an absent member = the empty map)
pub fn mdl_namespaces(v: &Value) -> Option<Value> {
    let d = mget(v, "documents").and_then(|d| d.as_array()).and_then(|a| a.iter().find(|x| mget(x, "docType").and_then(|s| s.as_text()) == Some(MDL)))?;
    Some(mget(d, "issuerSigned").and_then(|i| mget(i, "nameSpaces")).cloned().unwrap_or(Value::Map(vec![])))
}

/// canonical text of a reported JSON value (same form as `Report.renderJ` in the Lean model)
pub fn render_json(j: &serde_json::Value) -> String {
    use serde_json::Value as J;
    match j {
        J::String(s) => format!("s{}", hex::encode(s.as_bytes())),
        J::Number(n) => format!("n{n}"),
        J::Bool(b) => format!("b{}", if *b { "t" } else { "f" }),
        J::Array(a) => format!("[{}]", a.iter().map(render_json).collect::<Vec<_>>().join(",")),
        J::Object(m) => format!("{{{}}}", m.iter().map(|(k, v)| format!("{}:{}", hex::encode(k.as_bytes()), render_json(v))).collect::<Vec<_>>().join(",")),
        J::Null => "null".into(),
    }
}
pub fn render_report(r: &std::collections::BTreeMap<String, serde_json::Value>) -> String {
    let s = r.iter().map(|(ns, v)| format!("{}={}", hex::encode(ns.as_bytes()), render_json(v))).collect::<Vec<_>>().join(";");
    if s.is_empty() { "-".into() } else { s }
}

/// deliver `v` (to a fresh copy of the reader, and to a copy that has just handled the authentic
/// response), compare with the model, evaluate the requested predicates
pub fn eval(ctx: &mut Ctx, tag: &str, live: &Live, registry: &TrustAnchorRegistry, v: &Value, specs: &[&str], transcript_for_facts: &Value) {
    for after_genuine in [false, true] {
        let mut f = facts(v, registry, transcript_for_facts);
        // the harness's abstraction function against the model's own computation of the cryptographic facts (once per message)
        // (the model's ECDSA costs two scalar multiplications per signature: at most 4000 messages per run go through it)
        static FACTS_LINES: std::sync::atomic::AtomicUsize = std::sync::atomic::AtomicUsize::new(0);
        if !after_genuine && FACTS_LINES.fetch_add(1, std::sync::atomic::Ordering::Relaxed) < 4000 { let (op, real) = crypto_facts_line(v, &f, transcript_for_facts);
            ctx.emit.line("corr", &format!("facts:{tag}"), op, real, serde_json::json!({"alteration": tag, "msg_hex": hex::encode(to_bytes(v))})); }
        let r = live.deliver_mode(v, after_genuine);
        if let Ok(o) = &r { if !reported_covered(v, o) { f = f.replace("dig=t", "dig=f"); } }
        let (real, issuer, device, errs_empty) = outcome_str(&r);
        let tag2 = if after_genuine { format!("{tag}:after-genuine") } else { tag.to_string() };
        let case = serde_json::json!({"alteration": tag2, "facts": f, "real": real, "msg_hex": format!("{}{}", hex::encode(to_bytes(v)), after_genuine)});
        ctx.emit.line("corr", &tag2, format!("resp.outcome {f}"), real.clone(), case.clone());
        // what the reader REPORTS, against the model of parse_namespaces / parse_response (Model/Report.lean): whenever the
        // pipeline got as far as parsing (decrypted, decoded, an mDL document with a readable x5chain)
        if let Ok(o) = &r { if ["decrypts=t", "decodes=t", "docs=t", "mdl=t", "x5p=t", "x5ok=t"].iter().all(|k| f.contains(k)) {
            if let Some(nsv) = mdl_namespaces(v) { ctx.emit.line("corr", &format!("report:{tag2}"), format!("report.ns {}", hex::encode(to_bytes(&nsv))), render_report(&o.response), case.clone()); }
        } }
        if real == "panic" { continue; }
        for s in specs {
            let op = match *s { "c03" => format!("spec.c03 {issuer} {} {f}", if errs_empty { "t" } else { "f" }), "c04" => format!("spec.c04 {issuer} {f}"), _ => format!("spec.c05 {device} {f}") };
            ctx.emit.line("spec", &format!("spec:{s}:{tag2}"), op, "true".into(), case.clone());
        }
    }
}

fn registries<'a>(pki: &'a Pki, other: &'a Pki) -> Vec<(&'static str, TrustAnchorRegistry)> {
    vec![("right-root", pki.iaca_registry()), ("empty", TrustAnchorRegistry::default()), ("unrelated-root", other.iaca_registry()),
         ("right-root-wrong-purpose", pki.registry(&[(&pki.iaca, TrustPurpose::ReaderCa)])),
         ("mixed", pki.registry(&[(&other.iaca, TrustPurpose::Iaca), (&pki.reader_ca, TrustPurpose::ReaderCa), (&pki.iaca, TrustPurpose::Iaca)]))]
}

pub fn run_c03(ctx: &mut Ctx) {
    let pki = Pki::new(&mut ctx.rng); let other = Pki::new(&mut ctx.rng);
    let mut rng: rand_chacha::ChaCha8Rng = rand::SeedableRng::seed_from_u64(ctx.rng.gen());
    let elems = ["family_name", "age_over_18"];
    for (rname, reg) in registries(&pki, &other) {
        let live = Live::new(1, &pki, &mut rng, reg.clone(), &elems);
        let base = live.resp.clone();
        let go = |ctx: &mut Ctx, name: &str, v: &Value| eval(ctx, &format!("{rname}:{name}"), &live, &reg, v, &["c03"], &live.transcript);
        go(ctx, "authentic", &base);
        // payload and signature bytes
        let plen = issuer_auth_mut(&mut base.clone())[2].as_bytes().map(|b| b.len()).unwrap_or(0);
        let ppos: Vec<usize> = if ctx.thorough { (0..plen).collect() } else { let mut p = vec![0, 1, 2, plen / 2, plen - 1]; for _ in 0..12 { p.push(rng.gen_range(0..plen)); } p };
        for i in ppos { let mut v = base.clone(); if let Value::Bytes(b) = &mut issuer_auth_mut(&mut v)[2] { b[i] ^= 1 << rng.gen_range(0..8); } go(ctx, "payload-byte", &v); }
        let spos: Vec<usize> = if ctx.thorough { (0..64).collect() } else { vec![0, 31, 32, 63, rng.gen_range(0..64), rng.gen_range(0..64)] };
        for i in spos { let mut v = base.clone(); if let Value::Bytes(b) = &mut issuer_auth_mut(&mut v)[3] { b[i] ^= 1 << rng.gen_range(0..8); } go(ctx, "signature-byte", &v); }
        { let mut v = base.clone(); if let Value::Bytes(b) = &mut issuer_auth_mut(&mut v)[3] { b.truncate(63); } go(ctx, "signature-truncated", &v); }
        { let mut v = base.clone(); issuer_auth_mut(&mut v)[2] = Value::Null; go(ctx, "payload-detached", &v); }
        // header fields
        { let mut v = base.clone(); issuer_auth_mut(&mut v)[0] = Value::Bytes(vec![0xa1, 0x01, 0x38, 0x22]); go(ctx, "alg-es384", &v); }
        { let mut v = base.clone(); issuer_auth_mut(&mut v)[0] = Value::Bytes(vec![]); go(ctx, "alg-removed", &v); }
        { let mut v = base.clone(); issuer_auth_mut(&mut v)[0] = Value::Bytes(vec![0xa2, 0x01, 0x26, 0x04, 0x41, 0x01]); go(ctx, "protected-extra-label", &v); }
        // the SAME header map in another CBOR form, substituted after signing: the signature covers the
        // bytes `a1 01 26`, not these (two-byte -7, two-byte label, indefinite-length map, one-byte map head)
        for (name, bytes) in [("alg-two-byte-negative", vec![0xa1u8, 0x01, 0x38, 0x06]), ("label-two-byte", vec![0xa1, 0x18, 0x01, 0x26]),
                              ("indefinite-map", vec![0xbf, 0x01, 0x26, 0xff]), ("map-head-one-byte", vec![0xb8, 0x01, 0x01, 0x26])] {
            let mut v = base.clone(); issuer_auth_mut(&mut v)[0] = Value::Bytes(bytes); go(ctx, &format!("protected-reencoded-{name}"), &v); }
        { let mut v = base.clone(); if let Value::Map(m) = &mut issuer_auth_mut(&mut v)[1] { m.retain(|(k, _)| k.as_integer().map(i128::from) != Some(33)); } go(ctx, "x5chain-removed", &v); }
        { let mut v = base.clone(); if let Value::Map(m) = &mut issuer_auth_mut(&mut v)[1] { for (k, x) in m.iter_mut() { if k.as_integer().map(i128::from) == Some(33) { *x = Value::Text("nope".into()); } } } go(ctx, "x5chain-wrong-type", &v); }
        { let mut v = base.clone(); if let Value::Map(m) = &mut issuer_auth_mut(&mut v)[1] { for (k, x) in m.iter_mut() { if k.as_integer().map(i128::from) == Some(33) { if let Value::Bytes(b) = x { b.truncate(b.len() / 2); } } } } go(ctx, "x5chain-truncated-der", &v); }
        { let mut v = base.clone(); let der = { let a = issuer_auth_mut(&mut v); let d = a[1].as_map().and_then(|m| m.iter().find(|(k, _)| k.as_integer().map(i128::from) == Some(33)).map(|(_, x)| x.clone())); if let Value::Map(m) = &mut a[1] { m.retain(|(k, _)| k.as_integer().map(i128::from) != Some(33)); } d };
          // moved into the PROTECTED header (signature then covers other bytes, and the reader does not look there)
          if let Some(d) = der { issuer_auth_mut(&mut v)[0] = Value::Bytes(to_bytes(&Value::Map(vec![(Value::Integer(1.into()), Value::Integer((-7).into())), (Value::Integer(33.into()), d)]))); }
          go(ctx, "x5chain-moved-to-protected", &v); }
        { let mut v = base.clone(); if let Value::Map(m) = &mut issuer_auth_mut(&mut v)[1] { m.push((Value::Integer(4.into()), Value::Bytes(vec![1, 2]))); } go(ctx, "unprotected-extra-label", &v); }
        // certificate substitutions
        let subst = |v: &mut Value, cert: &x509_cert::Certificate| { use der::Encode; let der = cert.to_der().unwrap(); if let Value::Map(m) = &mut issuer_auth_mut(v)[1] { for (k, x) in m.iter_mut() { if k.as_integer().map(i128::from) == Some(33) { *x = Value::Bytes(der.clone()); } } } };
        let k2 = world::key_from(&mut rng);
        let other_ds_same_iaca = world::build_cert(&world::leaf_spec("CN=ds2,C=US", "CN=iaca,C=US", &k2, &pki.iaca_key, world::EKU_DS), &k2, &pki.iaca_key);
        { let mut v = base.clone(); subst(&mut v, &other_ds_same_iaca); go(ctx, "cert-other-ds-same-iaca", &v); }
        { let mut v = base.clone(); subst(&mut v, &other.ds); go(ctx, "cert-ds-of-other-iaca", &v); }
        let self_signed = world::build_cert(&world::leaf_spec("CN=ds,C=US", "CN=ds,C=US", &pki.ds_key, &pki.ds_key, world::EKU_DS), &pki.ds_key, &pki.ds_key);
        { let mut v = base.clone(); subst(&mut v, &self_signed); go(ctx, "cert-self-signed-same-key", &v); }
        let mut exp = world::leaf_spec("CN=ds,C=US", "CN=iaca,C=US", &pki.ds_key, &pki.iaca_key, world::EKU_DS); exp.not_before = -7200; exp.not_after = -3600;
        { let mut v = base.clone(); subst(&mut v, &world::build_cert(&exp, &pki.ds_key, &pki.iaca_key)); go(ctx, "cert-expired-same-key", &v); }
        { let mut v = base.clone(); subst(&mut v, &pki.iaca); go(ctx, "cert-iaca-as-leaf", &v); }
        // forged signer: attacker key, certificate copying the genuine DS's issuer name and serial, MSO re-signed by the attacker
        let resign_issuer = |v: &mut Value, key: &SigningKey| { let a = issuer_auth_mut(v); let prot = a[0].as_bytes().cloned().unwrap_or_default(); let pl = a[2].as_bytes().cloned().unwrap_or_default();
            let tbs = to_bytes(&Value::Array(vec![Value::Text("Signature1".into()), Value::Bytes(prot), Value::Bytes(vec![]), Value::Bytes(pl)])); let s: Signature = key.sign(&tbs); a[3] = Value::Bytes(s.to_vec()); };
        let attacker = world::key_from(&mut rng);
        let forged = world::build_cert(&world::leaf_spec("CN=ds,C=US", "CN=iaca,C=US", &attacker, &pki.iaca_key, world::EKU_DS), &attacker, &attacker);
        { let mut v = base.clone(); subst(&mut v, &forged); resign_issuer(&mut v, &attacker); go(ctx, "cert-forged-copying-issuer-and-serial", &v); }
        // genuine DS first, attacker certificate last, MSO signed by the attacker
        { let mut v = base.clone(); use der::Encode; let arr = Value::Array(vec![Value::Bytes(pki.ds.to_der().unwrap()), Value::Bytes(forged.to_der().unwrap())]);
          if let Value::Map(m) = &mut issuer_auth_mut(&mut v)[1] { for (k, x) in m.iter_mut() { if k.as_integer().map(i128::from) == Some(33) { *x = arr.clone(); } } }
          resign_issuer(&mut v, &attacker); go(ctx, "x5chain-genuine-first-attacker-last-signed-by-attacker", &v); }
        { let mut v = base.clone(); use der::Encode; let arr = Value::Array(vec![Value::Bytes(forged.to_der().unwrap()), Value::Bytes(pki.ds.to_der().unwrap())]);
          if let Value::Map(m) = &mut issuer_auth_mut(&mut v)[1] { for (k, x) in m.iter_mut() { if k.as_integer().map(i128::from) == Some(33) { *x = arr.clone(); } } }
          go(ctx, "x5chain-attacker-first-genuine-last", &v); }
        // a chain of two certificates (leaf first)
        { let mut v = base.clone(); use der::Encode; let arr = Value::Array(vec![Value::Bytes(pki.ds.to_der().unwrap()), Value::Bytes(pki.iaca.to_der().unwrap())]);
          if let Value::Map(m) = &mut issuer_auth_mut(&mut v)[1] { for (k, x) in m.iter_mut() { if k.as_integer().map(i128::from) == Some(33) { *x = arr.clone(); } } } go(ctx, "x5chain-array-leaf-first", &v); }
        { let mut v = base.clone(); use der::Encode; let arr = Value::Array(vec![Value::Bytes(pki.iaca.to_der().unwrap()), Value::Bytes(pki.ds.to_der().unwrap())]);
          if let Value::Map(m) = &mut issuer_auth_mut(&mut v)[1] { for (k, x) in m.iter_mut() { if k.as_integer().map(i128::from) == Some(33) { *x = arr.clone(); } } } go(ctx, "x5chain-array-root-first", &v); }
        // two mDL documents in one response: one signed by the attacker's own (untrusted) signer, the genuine one before / after it.
        // The status concerns the FIRST mDL document (the one whose elements are reported)
        for forged_first in [true, false] { let mut v = base.clone();
            let mut f = v.clone(); subst(&mut f, &forged); resign_issuer(&mut f, &attacker);
            let fdoc = doc0(&f).cloned().unwrap();
            if let Some(Value::Array(docs)) = mget_mut(&mut v, "documents") { if forged_first { docs.insert(0, fdoc); } else { docs.push(fdoc); } }
            go(ctx, if forged_first { "two-mdl-documents-attacker-signed-then-genuine" } else { "two-mdl-documents-genuine-then-attacker-signed" }, &v); }
    }
}

/// a CBOR value of any shape (bounded depth)
pub fn exotic_value(rng: &mut rand_chacha::ChaCha8Rng, depth: u32) -> Value {
    let big = |i: i128| Value::Integer(ciborium::value::Integer::try_from(i).unwrap());
    let k = if depth >= 3 { rng.gen_range(0..9) } else { rng.gen_range(0..13) };
    match k {
        0 => Value::Text(["", "a", "Smith", "\u{e9}\u{20ac}\u{1f600}", "q\"uote\\"][rng.gen_range(0..5)].to_string()),
        1 => Value::Tag([0u64, 1004, 24, 99999][rng.gen_range(0..4)], Box::new(Value::Text("2020-01-01".into()))),
        2 => Value::Bytes((0..rng.gen_range(0..5)).map(|_| rng.gen()).collect()),
        3 => Value::Bool(rng.gen()),
        4 => big([0i128, 1, 23, 24, -1, -24, -25, 255, 256, i64::MAX as i128, i64::MIN as i128, u64::MAX as i128, i64::MIN as i128 - 1, -(u64::MAX as i128) - 1][rng.gen_range(0..14)]),
        5 => Value::Float([0.0, 1.5, -2.25, f64::NAN, f64::INFINITY][rng.gen_range(0..5)]),
        6 => Value::Null,
        7 => Value::Tag(1004, Box::new(Value::Integer(5.into()))),
        8 => Value::Tag(0, Box::new(Value::Tag(0, Box::new(Value::Text("t".into()))))),
        9 | 10 => Value::Array((0..rng.gen_range(0..4)).map(|_| exotic_value(rng, depth + 1)).collect()),
        _ => Value::Map((0..rng.gen_range(0..5)).map(|_| {
            let key = match rng.gen_range(0..6) { 0 => Value::Integer(rng.gen_range(0..3).into()), 1 => Value::Bytes(vec![1]), _ => Value::Text(["k", "a", "zz", "k", "\u{e9}"][rng.gen_range(0..5)].to_string()) };
            (key, exotic_value(rng, depth + 1)) }).collect()),
    }
}

pub fn run_c04(ctx: &mut Ctx) {
    let pki = Pki::new(&mut ctx.rng);
    let mut rng: rand_chacha::ChaCha8Rng = rand::SeedableRng::seed_from_u64(ctx.rng.gen());
    let reg = pki.iaca_registry();
    let n = if ctx.thorough { 300 } else { 12 };
    for s in 0..n {
        let elems: Vec<&str> = [&["family_name", "age_over_18"][..], &["family_name", "given_name", "age_over_21", "height", "document_number"][..]][s % 2].to_vec();
        let live = Live::new(1, &pki, &mut rng, reg.clone(), &elems);
        let base = live.resp.clone();
        let go = |ctx: &mut Ctx, name: &str, v: &mut Value, resign: bool| { if resign { live.resign_device(v, &live.sim.device_key); } eval(ctx, name, &live, &reg, v, &["c04", "c03", "c05"], &live.transcript) };
        go(ctx, "authentic", &mut base.clone(), false);
        // the model's reading of CBOR into a `ciborium::Value` against ciborium's own, on every single-bit flip of a real MSO payload
        // (first session; thorough: of every session's) and on random byte strings: accepted or not
        if s == 0 || (ctx.thorough && s < 8) {
            let payload = issuer_auth_mut(&mut base.clone()).get(2).and_then(|p| p.as_bytes()).cloned().unwrap_or_default();
            let inner = match cbor::from_slice::<Value>(&payload) { Ok(Value::Tag(24, b)) => b.as_bytes().cloned().unwrap_or_default(), _ => vec![] };
            for src in [&payload, &inner] { for i in 0..src.len() * 8 { if !ctx.thorough && s == 0 && i % 3 != 0 && i > 400 { continue; }
                let mut m = src.clone(); m[i / 8] ^= 1 << (i % 8);
                ctx.emit.corr("cbor:value-accepts:bitflip", format!("cbor.valueok {}", hex::encode(&m)), (if cbor::from_slice::<Value>(&m).is_ok() { "t" } else { "f" }).to_string()); } }
            for _ in 0..(if ctx.thorough { 300 } else { 1500 }) { let m: Vec<u8> = (0..rng.gen_range(1..24)).map(|_| rng.gen()).collect();
                ctx.emit.corr("cbor:value-accepts:random", format!("cbor.valueok {}", hex::encode(&m)), (if cbor::from_slice::<Value>(&m).is_ok() { "t" } else { "f" }).to_string()); }
        }
        let n_items = items_mut(&mut base.clone(), NS).map(|a| a.len()).unwrap_or(0);
        let edit_item = |v: &mut Value, idx: usize, f: &dyn Fn(&mut Value)| {
            if let Some(items) = items_mut(v, NS) { if let Value::Tag(24, b) = &mut items[idx] { if let Value::Bytes(bytes) = &mut **b {
                let mut iv: Value = cbor::from_slice(bytes).unwrap(); f(&mut iv); *bytes = to_bytes(&iv); } } } };
        for idx in 0..n_items {
            { let mut v = base.clone(); edit_item(&mut v, idx, &|iv| { if let Some(x) = mget_mut(iv, "elementValue") { *x = match x { Value::Bool(b) => Value::Bool(!*b), Value::Text(t) => Value::Text(format!("{t}x")), Value::Integer(i) => Value::Integer((i128::from(*i) as i64 + 1).into()), _ => Value::Text("altered".into()) }; } }); go(ctx, "value-changed", &mut v, true); }
            { let mut v = base.clone(); edit_item(&mut v, idx, &|iv| { if let Some(x) = mget_mut(iv, "elementIdentifier") { *x = Value::Text("age_over_99".into()); } }); go(ctx, "identifier-changed", &mut v, true); }
            { let mut v = base.clone(); edit_item(&mut v, idx, &|iv| { if let Some(Value::Bytes(r)) = mget_mut(iv, "random") { r[0] ^= 1; } }); go(ctx, "random-changed", &mut v, true); }
            { let mut v = base.clone(); edit_item(&mut v, idx, &|iv| { if let Some(x) = mget_mut(iv, "digestID") { *x = Value::Integer(7.into()); } }); go(ctx, "digestid-changed", &mut v, true); }
        }
        // item moved to another namespace / injected item / non-canonical re-encoding of an item (digest must then differ too)
        { let mut v = base.clone(); let it = items_mut(&mut v, NS).and_then(|a| a.first().cloned());
          if let (Some(it), Some(Value::Map(nss))) = (it, mget_mut(mget_mut(doc0_mut(&mut v).unwrap(), "issuerSigned").unwrap(), "nameSpaces")) { nss.push((Value::Text("org.iso.18013.5.1.aamva".into()), Value::Array(vec![it]))); }
          go(ctx, "item-copied-to-other-namespace", &mut v, true); }
        { let mut v = base.clone(); let inj = Value::Tag(24, Box::new(Value::Bytes(to_bytes(&Value::Map(vec![(Value::Text("digestID".into()), Value::Integer(1234.into())), (Value::Text("random".into()), Value::Bytes(vec![9; 16])),
            (Value::Text("elementIdentifier".into()), Value::Text("age_over_65".into())), (Value::Text("elementValue".into()), Value::Bool(true))])))));
          if let Some(items) = items_mut(&mut v, NS) { items.push(inj); } go(ctx, "item-injected", &mut v, true); }
        // a forged item that REUSES the digestID of a disclosed authentic item, placed before it / after it in the array
        for before in [true, false] { let mut v = base.clone();
            let did = items_mut(&mut v, NS).and_then(|a| a.last().cloned()).and_then(|it| match it { Value::Tag(24, b) => b.as_bytes().and_then(|bb| cbor::from_slice::<Value>(bb).ok()), _ => None })
                .and_then(|iv| mget(&iv, "digestID").cloned()).unwrap_or(Value::Integer(0.into()));
            let inj = Value::Tag(24, Box::new(Value::Bytes(to_bytes(&Value::Map(vec![(Value::Text("digestID".into()), did), (Value::Text("random".into()), Value::Bytes(vec![5; 16])),
                (Value::Text("elementIdentifier".into()), Value::Text("age_over_65".into())), (Value::Text("elementValue".into()), Value::Bool(true))])))));
            if let Some(items) = items_mut(&mut v, NS) { if before { items.insert(0, inj); } else { items.push(inj); } }
            go(ctx, if before { "item-injected-reusing-a-digestid-before-its-owner" } else { "item-injected-reusing-a-digestid-after-its-owner" }, &mut v, true); }
        { let mut v = base.clone(); if let Some(x) = mget_mut(doc0_mut(&mut v).unwrap(), "docType") { *x = Value::Text(MDL.into()); }
          // MSO of another docType: swap the whole issuerSigned.issuerAuth for one issued for a different docType by the same issuer (signature valid, docType mismatching)
          let other = world::issue(&pki, "org.example.other", sess::default_ns_values(), isomdl::definitions::DigestAlgorithm::SHA256, false, &live.sim.device_key).unwrap();
          let ia: Value = cbor::into_value(other.issuer_auth).unwrap();
          if let Some(x) = mget_mut(mget_mut(doc0_mut(&mut v).unwrap(), "issuerSigned").unwrap(), "issuerAuth") { *x = ia; }
          go(ctx, "mso-of-other-doctype", &mut v, true); }
        { let mut v = base.clone(); if let Some(items) = items_mut(&mut v, NS) { items.swap(0, n_items - 1); } go(ctx, "items-reordered", &mut v, false); }
        // element values of every CBOR shape (what is reported for them is the model's business, Model/Report.lean): nested
        // arrays and maps, non-text keys, repeated keys, tags around text and around other things, byte strings, integers at the
        // edges of the CBOR range, floats, null, undefined; repeated identifiers; the same in the AAMVA namespace
        for round in 0..(if ctx.thorough { 12 } else { 4 }) {
            let mut v = base.clone();
            let mk_item = |rng: &mut rand_chacha::ChaCha8Rng, id: String, val: Value| Value::Tag(24, Box::new(Value::Bytes(to_bytes(&Value::Map(vec![(Value::Text("digestID".into()), Value::Integer(rng.gen_range(0..1000).into())),
                (Value::Text("random".into()), Value::Bytes((0..16).map(|_| rng.gen()).collect())), (Value::Text("elementIdentifier".into()), Value::Text(id)), (Value::Text("elementValue".into()), val)])))));
            let mut extra = vec![]; let mut extra2 = vec![];
            for k in 0..rng.gen_range(3..9) { let id = ["family_name", "x", "age_over_18", "\u{e9}l\u{e9}ment", "", "z9"][rng.gen_range(0..6)].to_string(); let val = exotic_value(&mut rng, 0);
                if k % 3 == 2 { extra2.push(mk_item(&mut rng, id, val)); } else { extra.push(mk_item(&mut rng, id, val)); } }
            if let Some(items) = items_mut(&mut v, NS) { if round % 2 == 0 { items.extend(extra); } else { let keep = items.clone(); *items = extra; items.extend(keep); } }
            if !extra2.is_empty() { if let Some(Value::Map(nss)) = mget_mut(mget_mut(doc0_mut(&mut v).unwrap(), "issuerSigned").unwrap(), "nameSpaces") {
                nss.push((Value::Text("org.iso.18013.5.1.aamva".into()), Value::Array(extra2.clone())));
                if round % 3 == 0 { nss.push((Value::Text("org.example.other".into()), Value::Array(extra2))); } } }
            go(ctx, "exotic-values", &mut v, true);
        }
        // two mDL documents: the authentic one stripped of its items, followed by a forged one carrying items
        { let mut v = base.clone();
          let mut forged = doc0(&v).cloned().unwrap();
          if let Some(Value::Array(items)) = mget_mut(mget_mut(&mut forged, "issuerSigned").unwrap(), "nameSpaces").and_then(|n| mget_mut(n, NS)) {
              items.push(Value::Tag(24, Box::new(Value::Bytes(to_bytes(&Value::Map(vec![(Value::Text("digestID".into()), Value::Integer(4321.into())), (Value::Text("random".into()), Value::Bytes(vec![7; 16])),
                  (Value::Text("elementIdentifier".into()), Value::Text("age_over_21".into())), (Value::Text("elementValue".into()), Value::Bool(true))])))))); }
          crate::auth::mdel(mget_mut(doc0_mut(&mut v).unwrap(), "issuerSigned").unwrap(), "nameSpaces");
          if let Some(Value::Array(docs)) = mget_mut(&mut v, "documents") { docs.push(forged); }
          go(ctx, "two-mdl-documents-authentic-empty-then-forged", &mut v, false); }
        { let mut v = base.clone(); let forged = doc0(&v).cloned().unwrap(); if let Some(Value::Array(docs)) = mget_mut(&mut v, "documents") { docs.push(forged); } go(ctx, "two-mdl-documents-duplicate", &mut v, false); }
        // the other order: a forged mDL document (an altered item, so its digests no longer match) FIRST, the authentic one after it -
        // whatever is reported must have been authenticated, and what is authenticated is the first mDL document
        { let mut v = base.clone();
          let mut forged = doc0(&v).cloned().unwrap();
          if let Some(Value::Array(items)) = mget_mut(mget_mut(&mut forged, "issuerSigned").unwrap(), "nameSpaces").and_then(|n| mget_mut(n, NS)) {
              items.push(Value::Tag(24, Box::new(Value::Bytes(to_bytes(&Value::Map(vec![(Value::Text("digestID".into()), Value::Integer(4322.into())), (Value::Text("random".into()), Value::Bytes(vec![8; 16])),
                  (Value::Text("elementIdentifier".into()), Value::Text("age_over_21".into())), (Value::Text("elementValue".into()), Value::Bool(true))])))))); }
          if let Some(Value::Array(docs)) = mget_mut(&mut v, "documents") { docs.insert(0, forged); }
          go(ctx, "two-mdl-documents-forged-then-authentic", &mut v, false); }
    }
}

pub fn run_c05(ctx: &mut Ctx) {
    let pki = Pki::new(&mut ctx.rng);
    let mut rng: rand_chacha::ChaCha8Rng = rand::SeedableRng::seed_from_u64(ctx.rng.gen());
    let reg = pki.iaca_registry();
    let n = if ctx.thorough { 300 } else { 12 };
    for s in 0..n {
        let elems = ["family_name", "age_over_18"];
        let a = Live::new(1, &pki, &mut rng, reg.clone(), &elems);
        let b = Live::new(2, &pki, &mut rng, reg.clone(), &elems);
        // to-be-signed bytes: library's vs independent computation from wire bytes only
        {
            let mut sim = Sim::new(3, &pki, &mut rng, &[MDL], &elems, reg.clone(), TrustAnchorRegistry::default());
            let reqs = vec![ItemsRequest { doc_type: MDL.into(), namespaces: sess::simple_namespaces(&elems), request_info: None }];
            sim.dev.prepare_response(&reqs, sess::permit_all(&[MDL], &elems));
            let lib_tbs = sim.dev.get_next_signature_payload().map(|(_, p)| p.to_vec()).unwrap();
            let eng = base64::decode_config(sim.qr.strip_prefix("mdoc:").unwrap(), base64::URL_SAFE_NO_PAD).unwrap();
            let est: Value = cbor::from_slice(&sim.establishment).unwrap();
            let tr = Value::Array(vec![Value::Tag(24, Box::new(Value::Bytes(eng))), mget(&est, "eReaderKey").cloned().unwrap(), Value::Null]);
            let da = Value::Array(vec![Value::Text("DeviceAuthentication".into()), tr, Value::Text(MDL.into()), Value::Tag(24, Box::new(Value::Bytes(vec![0xa0])))]);
            let da_b = to_bytes(&Value::Tag(24, Box::new(Value::Bytes(to_bytes(&da)))));
            let indep = to_bytes(&Value::Array(vec![Value::Text("Signature1".into()), Value::Bytes(vec![0xa1, 0x01, 0x26]), Value::Bytes(vec![]), Value::Bytes(da_b.clone())]));
            ctx.emit.line("spec", "spec:c05:tbs-independent", format!("spec.eq {} {}", hex::encode(&lib_tbs), hex::encode(&indep)), "true".into(), serde_json::json!({"session": s, "msg_hex": hex::encode(&indep)}));
            ctx.emit.corr("tbs:lean", format!("cose.tbs sig a10126 - {}", hex::encode(&da_b)), hex::encode(&lib_tbs));
        }
        let go = |ctx: &mut Ctx, live: &Live, name: &str, v: &Value| eval(ctx, name, live, &reg, v, &["c05"], &live.transcript);
        go(ctx, &a, "authentic", &a.resp);
        // cross-session replay: A's authentic response re-encrypted for B's reader (and vice versa)
        go(ctx, &b, "cross-session-replay", &a.resp);
        go(ctx, &a, "cross-session-replay", &b.resp);
        // A's signature with A's signed bytes placed in the (normally nil) payload slot, delivered in session B
        { let mut v = a.resp.clone();
          let da = Value::Array(vec![Value::Text("DeviceAuthentication".into()), a.transcript.clone(), Value::Text(MDL.into()), mget(mget(doc0(&v).unwrap(), "deviceSigned").unwrap(), "nameSpaces").cloned().unwrap()]);
          device_sig_mut(&mut v)[2] = Value::Bytes(to_bytes(&Value::Tag(24, Box::new(Value::Bytes(to_bytes(&da))))));
          go(ctx, &b, "cross-session-replay-with-attached-original-payload", &v); go(ctx, &a, "same-session-attached-original-payload", &v); }
        // a genuinely issued and signed document of another docType relabelled as an mDL (MSO and signature say the other docType)
        { let c = Live::new_for(3, &pki, &mut rng, reg.clone(), &elems, "org.example.loyalty");
          let mut v = c.resp.clone(); if let Some(x) = mget_mut(doc0_mut(&mut v).unwrap(), "docType") { *x = Value::Text(MDL.into()); }
          go(ctx, &c, "other-doctype-relabelled-as-mdl", &v); }
        // wrong signing key
        { let mut v = a.resp.clone(); let k = world::key_from(&mut rng); a.resign_device(&mut v, &k); go(ctx, &a, "wrong-key", &v); }
        { let mut v = a.resp.clone(); a.resign_device(&mut v, &pki.ds_key); go(ctx, &a, "signed-with-issuer-key", &v); }
        // signature bytes
        let pos: Vec<usize> = if ctx.thorough { (0..64).collect() } else { vec![0, 31, 32, 63, rng.gen_range(0..64)] };
        for i in pos { let mut v = a.resp.clone(); if let Value::Bytes(bb) = &mut device_sig_mut(&mut v)[3] { bb[i] ^= 1 << rng.gen_range(0..8); } go(ctx, &a, "signature-byte", &v); }
        { let mut v = a.resp.clone(); if let Value::Bytes(bb) = &mut device_sig_mut(&mut v)[3] { bb.truncate(60); } go(ctx, &a, "signature-truncated", &v); }
        // docType / device namespaces altered without re-signing, and with re-signing (then Valid again for deviceNS)
        { let mut v = a.resp.clone(); if let Some(x) = mget_mut(doc0_mut(&mut v).unwrap(), "deviceSigned").and_then(|d| mget_mut(d, "nameSpaces")) { *x = Value::Tag(24, Box::new(Value::Bytes(to_bytes(&Value::Map(vec![(Value::Text("ns".into()), Value::Map(vec![(Value::Text("e".into()), Value::Integer(1.into()))]))]))))); }
          go(ctx, &a, "device-namespaces-altered", &v); a.resign_device(&mut v, &a.sim.device_key); go(ctx, &a, "device-namespaces-altered-resigned", &v); }
        { let mut v = a.resp.clone(); if let Some(x) = mget_mut(doc0_mut(&mut v).unwrap(), "deviceSigned").and_then(|d| mget_mut(d, "nameSpaces")) { *x = Value::Tag(24, Box::new(Value::Bytes(vec![0xbf, 0xff]))); }
          go(ctx, &a, "device-namespaces-reencoded-indefinite", &v); }
        // deviceMac instead of deviceSignature; attached payload; protected alg changed
        { let mut v = a.resp.clone(); if let Some(Value::Map(m)) = mget_mut(doc0_mut(&mut v).unwrap(), "deviceSigned").and_then(|d| mget_mut(d, "deviceAuth")) { for (k, _) in m.iter_mut() { *k = Value::Text("deviceMac".into()); } } go(ctx, &a, "device-mac", &v); }
        { let mut v = a.resp.clone(); device_sig_mut(&mut v)[2] = Value::Bytes(vec![1, 2, 3]); go(ctx, &a, "payload-attached", &v); }
        { let mut v = a.resp.clone(); device_sig_mut(&mut v)[0] = Value::Bytes(vec![0xa1, 0x01, 0x38, 0x22]); a.resign_device(&mut v, &a.sim.device_key); go(ctx, &a, "alg-es384-resigned", &v); }
        { let mut v = a.resp.clone(); device_sig_mut(&mut v)[0] = Value::Bytes(vec![]); a.resign_device(&mut v, &a.sim.device_key); go(ctx, &a, "alg-absent-resigned", &v); }
        // detached issuerAuth payload (device key unavailable)
        { let mut v = a.resp.clone(); issuer_auth_mut(&mut v)[2] = Value::Null; go(ctx, &a, "issuer-payload-detached", &v); }
    }
}
