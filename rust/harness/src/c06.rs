//! C06: adversarial deliveries on both directions from synchronised states (save/load).
use crate::hist::Hist;
use crate::sess::{self, Sim, MDL};
use crate::world::Pki;
use crate::Ctx;
use isomdl::cbor;
use isomdl::definitions::x509::trust_anchor::TrustAnchorRegistry;
use isomdl::definitions::SessionData;
use rand::Rng;

fn ct_of(msg: &[u8]) -> Vec<u8> { cbor::from_slice::<SessionData>(msg).unwrap().data.unwrap().into() }
fn wrap(ct: Vec<u8>) -> Vec<u8> { cbor::to_vec(&SessionData { data: Some(ct.into()), status: None }).unwrap() }
fn tdesc(d: &str) -> String { format!("{}t", &d[..d.len() - 1]) }

static FULL_SWEEPS: std::sync::atomic::AtomicUsize = std::sync::atomic::AtomicUsize::new(0);

/// thorough: EVERY bit of the first 40 ciphertexts of at most 2 KiB (requests and responses of both
/// directions), and 1024 sampled bits of every other one - the trace stays below ~1 GB
fn bit_positions(ctx: &mut Ctx, nbits: usize) -> Vec<usize> {
    if ctx.thorough && nbits <= 2048 * 8 && FULL_SWEEPS.fetch_add(1, std::sync::atomic::Ordering::SeqCst) < 40 { return (0..nbits).collect(); }
    let mut v = vec![0, 1, 7, 8, nbits - 1, nbits - 8, nbits - 128, nbits - 129, nbits / 2];
    for _ in 0..(if ctx.thorough { 1024 } else { 40 }) { v.push(ctx.rng.gen_range(0..nbits)); }
    v.retain(|&b| b < nbits);
    v
}

fn variants_to(ctx: &mut Ctx, h: &mut Hist, to_device: bool, honest: &(Vec<u8>, String), olds: &[(Vec<u8>, String)],
               reflected: &[(Vec<u8>, String)], other: &[(Vec<u8>, String)]) {
    let deliver = |h: &mut Hist, ctx: &mut Ctx, m: &[u8], d: &str, hon: Option<bool>, what: &str| {
        h.load(ctx);
        if to_device { h.deliver_dev_c06(ctx, m, d, hon, what) } else { h.deliver_rdr_c06(ctx, m, d, hon, what) }
    };
    let ct = ct_of(&honest.0);
    // single-bit flips of the ciphertext (incl. tag bytes)
    for b in bit_positions(ctx, ct.len() * 8) {
        let mut c = ct.clone(); c[b / 8] ^= 1 << (b % 8);
        deliver(h, ctx, &wrap(c), &tdesc(&honest.1), Some(false), "bitflip");
    }
    // truncations (re-wrapped as well-formed SessionData)
    let lens: Vec<usize> = if ctx.thorough && ct.len() <= 2048 { (0..ct.len()).collect() } else {
        let mut v = vec![0, 1, 15, 16, 17, ct.len() - 1, ct.len() - 15, ct.len() - 16, ct.len() - 17, ct.len() / 2];
        v.retain(|&l| l < ct.len()); v };
    for l in lens { deliver(h, ctx, &wrap(ct[..l].to_vec()), &tdesc(&honest.1), Some(false), "truncation"); }
    // extension
    { let mut c = ct.clone(); c.push(0); deliver(h, ctx, &wrap(c), &tdesc(&honest.1), Some(false), "extension"); }
    // replays / reorderings of everything seen earlier in this direction
    for (m, d) in olds { if d.starts_with("ct:") { deliver(h, ctx, &normalise(m), d, Some(false), "replay"); } }
    // reflection: messages of the other direction
    for (m, d) in reflected { if d.starts_with("ct:") { deliver(h, ctx, &normalise(m), d, Some(false), "reflection"); } }
    // another session's messages (same counters, other keys)
    for (m, d) in other { if d.starts_with("ct:") { deliver(h, ctx, &normalise(m), d, Some(false), "other-session"); } }
    // whole-message mutations: weaker oracle
    for _ in 0..(if ctx.thorough { 64 } else { 12 }) {
        let mut m = honest.0.clone();
        let i = ctx.rng.gen_range(0..m.len()); m[i] ^= 1 << ctx.rng.gen_range(0..8);
        if m == honest.0 { continue; }
        // only the weaker oracle applies when the wrapper changed; skip flips that keep the same SessionData
        if let Ok(sd) = cbor::from_slice::<SessionData>(&m) {
            if let Some(d) = sd.data { let d: Vec<u8> = d.into(); if d == ct { continue; } }
        }
        h.load(ctx);
        let desc = match cbor::from_slice::<SessionData>(&m) { Err(_) => "garbage".to_string(),
            Ok(sd) => match sd.data { None => "nodata".into(), Some(_) => tdesc(&honest.1) } };
        if to_device { h.deliver_dev_c06(ctx, &m, &desc, None, "wrapper-mutation") } else { h.deliver_rdr_c06(ctx, &m, &desc, None, "wrapper-mutation") }
    }
    for l in [0usize, 1, 2, honest.0.len() - 1] {
        let m = honest.0[..l].to_vec();
        if cbor::from_slice::<SessionData>(&m).is_ok() { continue; }
        h.load(ctx);
        if to_device { h.deliver_dev_c06(ctx, &m, "garbage", None, "wrapper-truncation") } else { h.deliver_rdr_c06(ctx, &m, "garbage", None, "wrapper-truncation") }
    }
    // finally the honest delivery itself
    deliver(h, ctx, &honest.0, &honest.1, Some(true), "honest");
}

/// SessionEstablishment (first message) re-wrapped as SessionData so that it can be replayed
fn normalise(m: &[u8]) -> Vec<u8> {
    if cbor::from_slice::<SessionData>(m).is_ok() { return m.to_vec(); }
    let se: isomdl::definitions::SessionEstablishment = cbor::from_slice(m).unwrap();
    wrap(se.data.into())
}

/// the end of the 32-bit counter space (sessions restored with counters just below u32::MAX): the last
/// messages are still accepted exactly once, a replay is rejected, and nothing is accepted or produced
/// beyond the last counter value.  Direct Spec(real) lines (the session model does not span 2^32 messages).
fn counter_edge(ctx: &mut Ctx, pki: &Pki) {
    let mut rng2: rand_chacha::ChaCha8Rng = rand::SeedableRng::seed_from_u64(ctx.rng.gen());
    for start in [u32::MAX - 3, u32::MAX - 2, u32::MAX - 1] {
        let mut s = Sim::new(7, pki, &mut rng2, &[MDL], &["family_name"], pki.iaca_registry(), TrustAnchorRegistry::default());
        s.set_counters(start, start, start, start);
        let mut last_req: Option<Vec<u8>> = None;
        for step in 0..4 {
            let case = serde_json::json!({"start_counter": start, "step": step, "msg_hex": format!("edge-{start}-{step}")});
            match s.rdr.new_request(sess::simple_namespaces(&["family_name"])) {
                Ok(msg) => {
                    let o = s.dev.handle_request(&msg);
                    ctx.emit.line("spec", "spec:counter-edge:fresh-accepted", format!("spec.eq {} false", o.errors.contains_key("decryption_errors")), "true".into(), case.clone());
                    let o2 = s.dev.handle_request(&msg);
                    ctx.emit.line("spec", "spec:counter-edge:replay-rejected", format!("spec.eq {} true", o2.errors.contains_key("decryption_errors")), "true".into(), case.clone());
                    // keep the device's receive counter in step with the reader (the failed replay consumed a number)
                    let p = sess::peek_reader(&s.rdr); let pd = sess::peek_device(&s.dev);
                    s.set_counters(pd.dev_ctr, p.rdr_ctr, p.rdr_ctr, p.dev_ctr);
                    last_req = Some(msg);
                }
                Err(_) => {
                    // exhausted: the reader refuses to send; the device must not accept the last message again either
                    if let Some(m) = &last_req { let o = s.dev.handle_request(m);
                        ctx.emit.line("spec", "spec:counter-edge:replay-rejected-when-exhausted", format!("spec.eq {} true", o.errors.contains_key("decryption_errors")), "true".into(), case.clone()); }
                    let p = sess::peek_reader(&s.rdr);
                    ctx.emit.line("spec", "spec:counter-edge:exhausted-at-max", format!("spec.eq {} {}", p.rdr_ctr, u32::MAX), "true".into(), case.clone());
                }
            }
        }
    }
}

pub fn run(ctx: &mut Ctx) {
    let pki = Pki::new(&mut ctx.rng);
    counter_edge(ctx, &pki);
    let docs = [MDL];
    let sessions = if ctx.thorough { 10 } else { 2 };
    let rounds = if ctx.thorough { 4 } else { 3 };
    for s in 0..sessions {
        let mut rng2: rand_chacha::ChaCha8Rng = rand::SeedableRng::seed_from_u64(ctx.rng.gen());
        let reg = pki.iaca_registry();
        let a = Sim::new(1, &pki, &mut rng2, &docs, &["family_name"], reg.clone(), TrustAnchorRegistry::default());
        let mut b = Sim::new(2, &pki, &mut rng2, &docs, &["family_name"], reg, TrustAnchorRegistry::default());
        // the other session's traffic, in lockstep (same counters, other keys)
        let mut b_to_dev: Vec<(Vec<u8>, String)> = vec![(b.establishment.clone(), b.describe(&b.establishment, &[]))];
        let mut b_to_rdr: Vec<(Vec<u8>, String)> = vec![];
        let mut h = Hist::start(ctx, a, &format!("s{s}"));
        h.tag = "adversarial".into();
        // first response of the session (answers the establishment request)
        for round in 0..rounds {
            if round > 0 {
                let m = h.new_request(ctx, &["family_name", "age_over_18"]);
                let d = h.to_dev.last().unwrap().1.clone();
                let bm = b.rdr.new_request(sess::simple_namespaces(&["family_name", "age_over_18"])).unwrap();
                let bd = b.describe(&bm, &[]);
                b_to_dev.push((bm.clone(), bd));
                h.save(ctx);
                let olds: Vec<_> = h.to_dev[..h.to_dev.len() - 1].to_vec();
                let refl = h.to_rdr.clone();
                variants_to(ctx, &mut h, true, &(m, d), &olds, &refl, &b_to_dev);
                b.dev.handle_request(&bm);
            }
            // device answers
            h.prepare(ctx, &docs);
            h.submit(ctx, false);
            let resp = h.retrieve(ctx).unwrap();
            let rd = h.to_rdr.last().unwrap().1.clone();
            {   // session B answers too
                let reqs = vec![isomdl::definitions::device_request::ItemsRequest { doc_type: MDL.into(), namespaces: sess::simple_namespaces(&["family_name"]), request_info: None }];
                b.dev.prepare_response(&reqs, sess::permit_all(&docs, &["family_name"]));
                let p = b.dev.get_next_signature_payload().map(|(_, p)| p.to_vec()).unwrap();
                let (_, sig) = b.sign_real(&p);
                b.dev.submit_next_signature(sig).unwrap();
                let bm = b.dev.retrieve_response().unwrap();
                let bd = b.describe(&bm, &[]);
                b_to_rdr.push((bm.clone(), bd));
                b.rdr.handle_response(&bm);
            }
            h.save(ctx);
            let olds: Vec<_> = h.to_rdr[..h.to_rdr.len() - 1].to_vec();
            let refl = h.to_dev.clone();
            variants_to(ctx, &mut h, false, &(resp, rd), &olds, &refl, &b_to_rdr);
        }
        // systematic small scope: w messages produced but withheld, then junk (nothing / status-only
        // frames / a tampered ciphertext), then delivery of the j-th withheld one -- both directions
        for w in 1..=3usize {
            h.save(ctx);
            // reader -> device
            let mut produced = vec![];
            for _ in 0..w { let m = h.new_request(ctx, &["family_name"]); produced.push((m, h.to_dev.last().unwrap().1.clone())); }
            h.save_slot(ctx, 1);
            for junk in 0..5 {
                for j in 0..w {
                    h.load_slot(ctx, 1);
                    match junk { 1 => h.deliver_dev_c06(ctx, &crate::hist::status_only(0), "nodata", None, "pattern"),
                                 2 => { h.deliver_dev_c06(ctx, &crate::hist::status_only(2), "nodata", None, "pattern"); h.deliver_dev_c06(ctx, &crate::hist::status_only(1), "nodata", None, "pattern") }
                                 3 => { let t = sess::tamper(&produced[0].0, 77); h.deliver_dev_c06(ctx, &t, &tdesc(&produced[0].1), None, "pattern") }
                                 4 => h.deliver_dev_c06(ctx, &[0x01, 0x02], "garbage", None, "pattern"),
                                 _ => {} }
                    let (m, d) = produced[j].clone();
                    h.deliver_dev_c06(ctx, &m, &d, None, "pattern");
                    // and the replay of the same message right after
                    h.deliver_dev_c06(ctx, &m, &d, None, "pattern");
                }
            }
            h.load(ctx);
            // device -> reader: w responses produced, none delivered
            let mut produced = vec![];
            for _ in 0..w { h.prepare(ctx, &docs); h.submit(ctx, false); let m = h.retrieve(ctx).unwrap(); produced.push((m, h.to_rdr.last().unwrap().1.clone())); }
            h.save_slot(ctx, 2);
            for junk in 0..5 {
                for j in 0..w {
                    h.load_slot(ctx, 2);
                    match junk { 1 => h.deliver_rdr_c06(ctx, &crate::hist::status_only(0), "nodata", None, "pattern"),
                                 2 => { h.deliver_rdr_c06(ctx, &crate::hist::status_only(2), "nodata", None, "pattern"); h.deliver_rdr_c06(ctx, &crate::hist::status_only(3), "nodata", None, "pattern") }
                                 3 => { let t = sess::tamper(&produced[0].0, 77); h.deliver_rdr_c06(ctx, &t, &tdesc(&produced[0].1), None, "pattern") }
                                 4 => h.deliver_rdr_c06(ctx, &[0x01, 0x02], "garbage", None, "pattern"),
                                 _ => {} }
                    let (m, d) = produced[j].clone();
                    h.deliver_rdr_c06(ctx, &m, &d, None, "pattern");
                    h.deliver_rdr_c06(ctx, &m, &d, None, "pattern");
                }
            }
            h.load(ctx);
        }
        // adversarial SEQUENCES (no reload in between): rejected frames, status-only frames, replays of
        // accepted messages, withheld and late messages, mixed with honest progress
        let steps = if ctx.thorough { 200 } else { 60 };
        for _ in 0..steps {
            match ctx.rng.gen_range(0..14) {
                0 | 1 => { h.new_request(ctx, &["family_name"]); }
                // an AUTHENTIC message whose plaintext is not what the receiver expects (a foreign or buggy peer; the harness
                // plays it with the session key and the receiver's next counter): it uses up its counter value like any other
                // message, so its replay - offered later by the cases below - is a replay
                12 => { let n = sess::peek_device(&h.sim.dev).rdr_ctr.wrapping_add(1);
                        let (pt, kind): (Vec<u8>, &str) = if ctx.rng.gen_bool(0.5) { (vec![0xff, 0x00, 0x13], "notcbor") } else { (vec![0xa1, 0x61, 0x78, 0x01], "notreq") };
                        let m = h.sim.craft_reader_msg(n, &pt); let d = format!("ct:r:{}:{}:{}:f", h.sim.id, n, kind);
                        h.to_dev.push((m.clone(), d.clone())); h.deliver_dev_c06(ctx, &m, &d, None, "sequence");
                        if ctx.rng.gen_bool(0.5) { h.deliver_dev_c06(ctx, &m, &d, None, "sequence"); } }
                13 => { let n = sess::peek_reader(&h.sim.rdr).dev_ctr.wrapping_add(1);
                        let m = h.sim.craft_device_msg(n, &[0xa1, 0x61, 0x78, 0x01]); let d = format!("ct:d:{}:{}:notreq:f", h.sim.id, n);
                        h.to_rdr.push((m.clone(), d.clone())); h.deliver_rdr_c06(ctx, &m, &d, None, "sequence");
                        if ctx.rng.gen_bool(0.5) { h.deliver_rdr_c06(ctx, &m, &d, None, "sequence"); } }
                2 | 3 => { // deliver some reader message (latest or older) to the device
                    let i = if ctx.rng.gen_bool(0.6) { h.to_dev.len() - 1 } else { ctx.rng.gen_range(0..h.to_dev.len()) };
                    let (m, d) = h.to_dev[i].clone();
                    h.deliver_dev_c06(ctx, &normalise(&m), &d, None, "sequence");
                }
                4 => { let i = ctx.rng.gen_range(0..h.to_dev.len()); let (m, d) = h.to_dev[i].clone();
                       let t = sess::tamper(&normalise(&m), ctx.rng.gen_range(0..4096)); h.deliver_dev_c06(ctx, &t, &tdesc(&d), None, "sequence"); }
                5 => { let m = crate::hist::status_only(ctx.rng.gen_range(0..4)); h.deliver_dev_c06(ctx, &m, "nodata", None, "sequence"); }
                6 => { h.prepare(ctx, &docs); h.submit(ctx, false); h.retrieve(ctx); }
                7 | 8 => { if !h.to_rdr.is_empty() {
                    let i = if ctx.rng.gen_bool(0.6) { h.to_rdr.len() - 1 } else { ctx.rng.gen_range(0..h.to_rdr.len()) };
                    let (m, d) = h.to_rdr[i].clone();
                    h.deliver_rdr_c06(ctx, &m, &d, None, "sequence"); } }
                9 => { if !h.to_rdr.is_empty() { let i = ctx.rng.gen_range(0..h.to_rdr.len()); let (m, d) = h.to_rdr[i].clone();
                       let t = sess::tamper(&m, ctx.rng.gen_range(0..4096)); h.deliver_rdr_c06(ctx, &t, &tdesc(&d), None, "sequence"); } }
                10 => { let m = crate::hist::status_only(ctx.rng.gen_range(0..4)); h.deliver_rdr_c06(ctx, &m, "nodata", None, "sequence"); }
                _ => { // cross-session / reflected
                    if ctx.rng.gen_bool(0.5) && !b_to_dev.is_empty() { let (m, d) = b_to_dev[ctx.rng.gen_range(0..b_to_dev.len())].clone(); h.deliver_dev_c06(ctx, &normalise(&m), &d, None, "sequence"); }
                    else if !h.to_rdr.is_empty() { let (m, d) = h.to_rdr[ctx.rng.gen_range(0..h.to_rdr.len())].clone(); h.deliver_dev_c06(ctx, &m, &d, None, "sequence"); }
                }
            }
        }
    }
}
