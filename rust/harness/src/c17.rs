//! C17: COSE_Sign1 / COSE_Mac0 to-be-signed bytes, finalize, verify with single-field alterations.
use crate::gen::{gen_text, to_bytes};
use crate::{hex_or_dash, Ctx};
use ciborium::Value;
use coset::{iana, CoseMac0Builder, CoseSign1Builder, HeaderBuilder, RegisteredLabelWithPrivate};
use hmac::{Hmac, Mac};
use isomdl::cbor;
use isomdl::cose::mac0::PreparedCoseMac0;
use isomdl::cose::sign1::PreparedCoseSign1;
use isomdl::cose::MaybeTagged;
use p256::ecdsa::{signature::Signer, signature::Verifier, Signature, SigningKey, VerifyingKey};
use rand::Rng;
use sha2::Sha256;

fn opt_hex(o: &Option<Vec<u8>>) -> String { match o { None => "none".into(), Some(b) => hex_or_dash(b) } }

fn protected_of<T: serde::Serialize>(c: &T) -> Vec<u8> {
    let v: Value = cbor::into_value(c).unwrap();
    let v = match v { Value::Tag(_, inner) => *inner, other => other };
    v.as_array().and_then(|a| a.first()).and_then(|p| p.as_bytes()).cloned().unwrap_or_default()
}

#[derive(Clone)]
enum Alg { Absent, Assigned(iana::Algorithm, i64), Private(i64), Text }
fn alg_tok(a: &Alg) -> String { match a { Alg::Absent => "absent".into(), Alg::Assigned(_, n) => format!("a:{n}"), Alg::Private(n) => format!("p:{n}"), Alg::Text => "text".into() } }

fn header(rng: &mut rand_chacha::ChaCha8Rng, alg: &Alg) -> coset::Header {
    let mut b = HeaderBuilder::new();
    if let Alg::Assigned(a, _) = alg { b = b.algorithm(*a); }
    if rng.gen_bool(0.3) { b = b.key_id((0..rng.gen_range(0..12)).map(|_| rng.gen()).collect()); }
    if rng.gen_bool(0.2) { b = b.content_format(iana::CoapContentFormat::Cbor); }
    if rng.gen_bool(0.2) { b = b.value(rng.gen_range(100..1000), Value::Text(gen_text(rng, 8))); }
    if rng.gen_bool(0.1) { b = b.text_value(gen_text(rng, 5) + "x", Value::Integer(rng.gen_range(0..99).into())); }
    let mut h = b.build();
    match alg { Alg::Private(n) => h.alg = Some(RegisteredLabelWithPrivate::PrivateUse(*n)), Alg::Text => h.alg = Some(RegisteredLabelWithPrivate::Text("custom-alg".into())), _ => {} }
    h
}

fn verdict_sign1(r: isomdl::cose::sign1::VerificationResult) -> String {
    use isomdl::cose::sign1::{Error, VerificationResult as V};
    match r { V::Success => "success".into(), V::Failure(s) if s.contains("algorithm") => "failure-alg".into(), V::Failure(_) => "failure-sig".into(),
        V::Error(Error::DoublePayload) => "error-double-payload".into(), V::Error(Error::NoPayload) => "error-no-payload".into(),
        V::Error(Error::MalformedSignature(_)) => "error-malformed-signature".into(), V::Error(_) => "error-other".into() }
}
fn verdict_mac0(r: isomdl::cose::mac0::VerificationResult) -> String {
    use isomdl::cose::mac0::{Error, VerificationResult as V};
    match r { V::Success => "success".into(), V::Failure(s) if s.contains("algorithm") => "failure-alg".into(), V::Failure(_) => "failure-sig".into(),
        V::Error(Error::DoublePayload) => "error-double-payload".into(), V::Error(Error::NoPayload) => "error-no-payload".into(), V::Error(_) => "error-other".into() }
}

pub fn run(ctx: &mut Ctx) {
    let mut rng: rand_chacha::ChaCha8Rng = rand::SeedableRng::seed_from_u64(ctx.rng.gen());
    let n = if ctx.thorough { 6000 } else { 150 };
    let sk = SigningKey::random(&mut rng); let vk = VerifyingKey::from(&sk);
    let other = SigningKey::random(&mut rng);
    // ---------- protected headers as ANOTHER implementation encodes them: the structure to be signed / MACed is built
    // over the protected bytes AS RECEIVED, so a genuine signature over them verifies, and swapping them for another
    // encoding of the same header map after signing does not
    {
        let foreign: Vec<(&str, Vec<u8>, Vec<u8>)> = vec![   // (what, foreign protected bytes, another encoding of the same map)
            ("alg-nonpreferred-int", vec![0xa1, 0x01, 0x38, 0x06], vec![0xa1, 0x01, 0x26]),
            ("alg-key-wide", vec![0xa1, 0x18, 0x01, 0x26], vec![0xa1, 0x01, 0x26]),
            ("kid-before-alg", vec![0xa2, 0x04, 0x42, 0x31, 0x31, 0x01, 0x26], vec![0xa2, 0x01, 0x26, 0x04, 0x42, 0x31, 0x31]),
            ("indefinite-map", vec![0xbf, 0x01, 0x26, 0xff], vec![0xa1, 0x01, 0x26]),
            ("library-encoding", vec![0xa1, 0x01, 0x26], vec![0xa1, 0x01, 0x38, 0x06]),
        ];
        for (i, (what, fprot, other_enc)) in foreign.iter().enumerate() { for attached in [true, false] { for rep in 0..(if ctx.thorough { 8 } else { 2 }) {
            let payload: Vec<u8> = (0..rng.gen_range(0..80)).map(|_| rng.gen()).collect();
            let aad: Vec<u8> = if rep % 2 == 0 { vec![] } else { vec![9, 9] };
            let tbs = to_bytes(&Value::Array(vec![Value::Text("Signature1".into()), Value::Bytes(fprot.clone()), Value::Bytes(aad.clone()), Value::Bytes(payload.clone())]));
            let sig: Signature = sk.sign(&tbs);
            let mk = |prot: &Vec<u8>| to_bytes(&Value::Array(vec![Value::Bytes(prot.clone()), Value::Map(vec![]), if attached { Value::Bytes(payload.clone()) } else { Value::Null }, Value::Bytes(sig.to_vec())]));
            for (variant, prot, expect) in [("as-signed", fprot, "success"), ("swapped-encoding", other_enc, "failure-sig")] {
                let bytes = mk(prot);
                let real = match cbor::from_slice::<MaybeTagged<coset::CoseSign1>>(&bytes) { Err(_) => "undecodable".to_string(),
                    Ok(c) => verdict_sign1(c.verify::<VerifyingKey, Signature>(&vk, if attached { None } else { Some(&payload) }, Some(&aad))) };
                ctx.emit.line("spec", &format!("spec:sign1:foreign-protected:{variant}"), format!("spec.eq {real} {expect}"), "true".into(),
                    serde_json::json!({"protected": what, "variant": variant, "attached": attached, "msg_hex": format!("fp{i}-{attached}-{rep}-{variant}-{}", hex::encode(&bytes))}));
            }
            // the same for COSE_Mac0 with HMAC 256/256 (alg 5)
            let (mprot, mother): (Vec<u8>, Vec<u8>) = (fprot.iter().map(|b| if *b == 0x26 { 0x05 } else { *b }).collect::<Vec<u8>>().iter().enumerate().map(|(j, b)| if fprot[j] == 0x06 && j > 0 && fprot[j - 1] == 0x38 { 0x06 } else { *b }).collect(),
                other_enc.iter().map(|b| if *b == 0x26 { 0x05 } else { *b }).collect());
            if what.contains("nonpreferred") || what.contains("library-encoding") { continue; }   // alg 5 has no one-byte negative form
            let mkey: Vec<u8> = (0..32).map(|_| rng.gen()).collect();
            let mtbs = to_bytes(&Value::Array(vec![Value::Text("MAC0".into()), Value::Bytes(mprot.clone()), Value::Bytes(aad.clone()), Value::Bytes(payload.clone())]));
            let mut mac = Hmac::<Sha256>::new_from_slice(&mkey).unwrap(); mac.update(&mtbs); let tag = mac.finalize().into_bytes().to_vec();
            for (variant, prot, expect) in [("as-signed", &mprot, "success"), ("swapped-encoding", &mother, "failure-sig")] {
                let bytes = to_bytes(&Value::Array(vec![Value::Bytes(prot.clone()), Value::Map(vec![]), if attached { Value::Bytes(payload.clone()) } else { Value::Null }, Value::Bytes(tag.clone())]));
                let v = Hmac::<Sha256>::new_from_slice(&mkey).unwrap();
                let real = match cbor::from_slice::<MaybeTagged<coset::CoseMac0>>(&bytes) { Err(_) => "undecodable".to_string(), Ok(c) => verdict_mac0(c.verify(&v, if attached { None } else { Some(&payload) }, Some(&aad))) };
                ctx.emit.line("spec", &format!("spec:mac0:foreign-protected:{variant}"), format!("spec.eq {real} {expect}"), "true".into(),
                    serde_json::json!({"protected": what, "variant": variant, "attached": attached, "msg_hex": format!("fm{i}-{attached}-{rep}-{variant}-{}", hex::encode(&bytes))}));
            }
        } } }
    }
    for k in 0..n {
        let payload: Vec<u8> = { let len = match k % 7 { 0 => 0, 1 => 1, 2 => 23, 3 => 24, 4 => 255, 5 => 256, _ => rng.gen_range(0..if k % 50 == 6 { 66000 } else { 600 }) }; (0..len).map(|_| rng.gen()).collect() };
        let aad: Option<Vec<u8>> = match k % 3 { 0 => None, 1 => Some(vec![]), _ => Some((0..rng.gen_range(1..40)).map(|_| rng.gen()).collect()) };
        let attached = k % 2 == 0;
        let tagged = (k / 2) % 2 == 0;
        // ---------- Sign1
        let alg = match k % 6 { 0 => Alg::Absent, 1 | 2 => Alg::Assigned(iana::Algorithm::ES256, -7), 3 => Alg::Assigned(iana::Algorithm::ES384, -35), 4 => Alg::Private(-70000 - k as i64), _ => Alg::Text };
        let h = header(&mut rng, &alg);
        let mk_builder = |att: bool| { let b = CoseSign1Builder::new().protected(h.clone()); if att { b.payload(payload.clone()) } else { b } };
        // payload exclusivity cube
        for (att, det) in [(true, true), (false, false), (true, false), (false, true)] {
            let r = PreparedCoseSign1::new(mk_builder(att), if det { Some(&payload) } else { None }, aad.as_deref(), tagged);
            let prot = protected_of(&MaybeTagged::new(false, mk_builder(att).build()));
            let real = match &r { Ok(p) => format!("ok {}", hex::encode(p.signature_payload())), Err(isomdl::cose::sign1::Error::DoublePayload) => "err double-payload".into(),
                Err(isomdl::cose::sign1::Error::NoPayload) => "err no-payload".into(), Err(_) => "err other".into() };
            ctx.emit.line("corr", "sign1:prepare", format!("cose.prepare sig {} {} {} {}", hex_or_dash(&prot), if att { hex_or_dash(&payload) } else { "none".into() },
                if det { hex_or_dash(&payload) } else { "none".into() }, opt_hex(&aad)), real, serde_json::json!({"attached": att, "detached": det, "payload_len": payload.len(), "msg_hex": format!("{k}-{att}-{det}")}));
        }
        let prepared = PreparedCoseSign1::new(mk_builder(attached), if attached { None } else { Some(&payload) }, aad.as_deref(), tagged).unwrap();
        let tbs = prepared.signature_payload().to_vec();
        // a prepared signature stored and loaded again before signing (the holder's wallet persists its session mid-signing)
        // still asks for the same bytes to be signed, and finalises to the same structure
        { let stored = cbor::to_vec(&prepared).unwrap();
          let restored: Result<PreparedCoseSign1, _> = cbor::from_slice(&stored);
          let same = match &restored { Ok(p2) => p2.signature_payload() == tbs.as_slice() && cbor::to_vec(p2).ok().as_deref() == Some(stored.as_slice()), Err(_) => false };
          ctx.emit.line("spec", "spec:sign1:stored-prepared-keeps-tbs", format!("spec.eq {} true", same), "true".into(),
              serde_json::json!({"attached": attached, "aad": opt_hex(&aad), "payload_len": payload.len(), "msg_hex": format!("stored{k}")})); }
        let sig: Signature = sk.sign(&tbs);
        let cose = prepared.finalize(sig.to_vec());
        let prot = protected_of(&cose);
        // independent Sig_structure (harness-side, ciborium) and the Lean one
        let indep = to_bytes(&Value::Array(vec![Value::Text("Signature1".into()), Value::Bytes(prot.clone()), Value::Bytes(aad.clone().unwrap_or_default()), Value::Bytes(payload.clone())]));
        ctx.emit.line("spec", "spec:sign1:tbs-is-rfc8152", format!("spec.eq {} {}", hex::encode(&tbs), hex::encode(&indep)), "true".into(), serde_json::json!({"payload_len": payload.len(), "msg_hex": format!("tbs{k}")}));
        ctx.emit.corr("sign1:tbs", format!("cose.tbs sig {} {} {}", hex_or_dash(&prot), opt_hex(&aad), hex_or_dash(&payload)), hex::encode(&tbs));
        // finalize inserts the signature unchanged, nothing else changes
        let fin_ok = cose.inner.signature == sig.to_vec() && cose.tagged == tagged && cose.inner.payload == if attached { Some(payload.clone()) } else { None } && protected_of(&cose) == prot;
        ctx.emit.line("spec", "spec:sign1:finalize", format!("spec.eq {} true", fin_ok), "true".into(), serde_json::Value::Null);
        // survives a wire round trip
        let cose: MaybeTagged<coset::CoseSign1> = cbor::from_slice(&cbor::to_vec(&cose).unwrap()).unwrap();
        // verification: honest and every single-field alteration
        let att_v = if attached { Some(payload.clone()) } else { None };
        let det_v = if attached { None } else { Some(payload.clone()) };
        let mut cases: Vec<(&str, MaybeTagged<coset::CoseSign1>, VerifyingKey, Option<Vec<u8>>, Option<Vec<u8>>)> = vec![("honest", cose.clone(), vk, det_v.clone(), aad.clone())];
        { let mut p2 = payload.clone(); if p2.is_empty() { p2.push(1) } else { let i = rng.gen_range(0..p2.len()); p2[i] ^= 1 << rng.gen_range(0..8); }
          if attached { let mut c = cose.clone(); c.inner.payload = Some(p2); cases.push(("payload-altered", c, vk, None, aad.clone())); } else { cases.push(("payload-altered", cose.clone(), vk, Some(p2), aad.clone())); } }
        { let a2 = match &aad { None => Some(vec![7]), Some(a) if a.is_empty() => Some(vec![0]), Some(a) => { let mut a = a.clone(); a[0] ^= 0x80; Some(a) } }; cases.push(("aad-altered", cose.clone(), vk, det_v.clone(), a2)); }
        { let mut c = cose.clone(); c.inner.protected.original_data = None; c.inner.protected.header.key_id = vec![0xde, 0xad, k as u8]; cases.push(("protected-altered", c, vk, det_v.clone(), aad.clone())); }
        { let mut c = cose.clone(); let i = rng.gen_range(0..64); c.inner.signature[i] ^= 1 << rng.gen_range(0..8); cases.push(("signature-bitflip", c, vk, det_v.clone(), aad.clone())); }
        { let mut c = cose.clone(); c.inner.signature.truncate(63); cases.push(("signature-truncated", c, vk, det_v.clone(), aad.clone())); }
        { let mut c = cose.clone(); c.inner.signature = vec![0; 64]; cases.push(("signature-zero", c, vk, det_v.clone(), aad.clone())); }
        cases.push(("wrong-key", cose.clone(), VerifyingKey::from(&other), det_v.clone(), aad.clone()));
        cases.push(("both-payloads", { let mut c = cose.clone(); c.inner.payload = Some(payload.clone()); c }, vk, Some(payload.clone()), aad.clone()));
        cases.push(("no-payload", { let mut c = cose.clone(); c.inner.payload = None; c }, vk, None, aad.clone()));
        cases.push(("unprotected-altered", { let mut c = cose.clone(); c.inner.unprotected.key_id = vec![1, 2, 3]; c }, vk, det_v.clone(), aad.clone()));
        // an `alg` in the UNPROTECTED header must not influence anything: neither rescue a mismatching protected alg nor spoil a matching one
        cases.push(("unprotected-alg-es256", { let mut c = cose.clone(); c.inner.unprotected.alg = Some(RegisteredLabelWithPrivate::Assigned(iana::Algorithm::ES256)); c }, vk, det_v.clone(), aad.clone()));
        cases.push(("unprotected-alg-es384", { let mut c = cose.clone(); c.inner.unprotected.alg = Some(RegisteredLabelWithPrivate::Assigned(iana::Algorithm::ES384)); c }, vk, det_v.clone(), aad.clone()));
        for (name, c, key, det, ad) in cases {
            let real = verdict_sign1(c.verify::<VerifyingKey, Signature>(&key, det.as_deref(), ad.as_deref()));
            // crypto oracle on the harness's own Sig_structure
            let p_now = protected_of(&c);
            let pl_now = c.inner.payload.clone().or(det.clone()).unwrap_or_default();
            let tbs_now = to_bytes(&Value::Array(vec![Value::Text("Signature1".into()), Value::Bytes(p_now.clone()), Value::Bytes(ad.clone().unwrap_or_default()), Value::Bytes(pl_now)]));
            let parsed = Signature::from_slice(&c.inner.signature);
            let (parses, accepts) = match &parsed { Ok(s) => (true, key.verify(&tbs_now, s).is_ok()), Err(_) => (false, false) };
            ctx.emit.line("corr", &format!("sign1:verify:{name}"), format!("cose.verifySign1 -7 {} {} {} {} {} {} {}", alg_tok(&alg), opt_hex(&c.inner.payload), opt_hex(&det), opt_hex(&ad),
                hex_or_dash(&p_now), if parses { "t" } else { "f" }, if accepts { "t" } else { "f" }), real.clone(),
                serde_json::json!({"case": name, "attached": att_v.is_some(), "alg": alg_tok(&alg), "msg_hex": format!("v{k}-{name}")}));
            // the same verdict from the model using its OWN ECDSA over its own Sig_structure (no oracle from here); the first 500 of a run
            { static N: std::sync::atomic::AtomicUsize = std::sync::atomic::AtomicUsize::new(0);
              if N.fetch_add(1, std::sync::atomic::Ordering::Relaxed) < 500 {
                let kp = key.to_encoded_point(false); let mut kb = kp.x().unwrap().to_vec(); kb.extend_from_slice(kp.y().unwrap());
                ctx.emit.line("corr", &format!("sign1:verify-own-ecdsa:{name}"), format!("cose.verifySign1x -7 {} {} {} {} {} {} {}", alg_tok(&alg), opt_hex(&c.inner.payload), opt_hex(&det), opt_hex(&ad),
                    hex_or_dash(&p_now), hex_or_dash(&c.inner.signature), hex::encode(kb)), real.clone(), serde_json::json!({"case": name, "msg_hex": format!("vx{k}-{name}")})); } }
            // Spec(real): success exactly for the honest case with a matching / unregistered algorithm
            let alg_ok = !matches!(alg, Alg::Assigned(_, n) if n != -7);
            let expect_success = name == "honest" || name.starts_with("unprotected-");
            let ok = if !alg_ok { real == "failure-alg" } else if expect_success { real == "success" } else { real != "success" };
            ctx.emit.line("spec", &format!("spec:sign1:{name}"), format!("spec.eq {} true", ok), "true".into(), serde_json::json!({"case": name, "verdict": real, "alg": alg_tok(&alg)}));
        }
        // ---------- Mac0 (Lean recomputes the HMAC itself)
        let mkey: Vec<u8> = (0..rng.gen_range(1..80)).map(|_| rng.gen()).collect();
        let malg = match k % 4 { 0 => Alg::Absent, 1 | 2 => Alg::Assigned(iana::Algorithm::HMAC_256_256, 5), _ => Alg::Assigned(iana::Algorithm::HMAC_256_64, 4) };
        let mh = header(&mut rng, &malg);
        let mb = |att: bool| { let b = CoseMac0Builder::new().protected(mh.clone()); if att { b.payload(payload.clone()) } else { b } };
        let prepared = PreparedCoseMac0::new(mb(attached), if attached { None } else { Some(&payload) }, aad.as_deref(), tagged).unwrap();
        let tbs = prepared.signature_payload().to_vec();
        { let stored = cbor::to_vec(&prepared).unwrap();
          let restored: Result<PreparedCoseMac0, _> = cbor::from_slice(&stored);
          let same = match &restored { Ok(p2) => p2.signature_payload() == tbs.as_slice() && cbor::to_vec(p2).ok().as_deref() == Some(stored.as_slice()), Err(_) => false };
          ctx.emit.line("spec", "spec:mac0:stored-prepared-keeps-tbs", format!("spec.eq {} true", same), "true".into(),
              serde_json::json!({"attached": attached, "aad": opt_hex(&aad), "payload_len": payload.len(), "msg_hex": format!("mstored{k}")})); }
        let mut mac = Hmac::<Sha256>::new_from_slice(&mkey).unwrap(); mac.update(&tbs);
        let tag = mac.finalize().into_bytes().to_vec();
        let mcose = prepared.finalize(tag.clone());
        let mprot = protected_of(&mcose);
        ctx.emit.corr("mac0:tbs", format!("cose.tbs mac {} {} {}", hex_or_dash(&mprot), opt_hex(&aad), hex_or_dash(&payload)), hex::encode(&tbs));
        let verifier = Hmac::<Sha256>::new_from_slice(&mkey).unwrap();
        let mut mcases: Vec<(&str, MaybeTagged<coset::CoseMac0>, Vec<u8>, Option<Vec<u8>>, Option<Vec<u8>>)> = vec![("honest", mcose.clone(), mkey.clone(), det_v.clone(), aad.clone())];
        { let mut c = mcose.clone(); c.inner.tag[rng.gen_range(0..32)] ^= 4; mcases.push(("tag-bitflip", c, mkey.clone(), det_v.clone(), aad.clone())); }
        { let mut c = mcose.clone(); c.inner.tag.truncate(16); mcases.push(("tag-truncated", c, mkey.clone(), det_v.clone(), aad.clone())); }
        { let mut k2 = mkey.clone(); k2[0] ^= 1; mcases.push(("wrong-key", mcose.clone(), k2, det_v.clone(), aad.clone())); }
        { let a2 = match &aad { None => Some(vec![7]), Some(a) if a.is_empty() => Some(vec![0]), Some(a) => { let mut a = a.clone(); a[0] ^= 0x80; Some(a) } }; mcases.push(("aad-altered", mcose.clone(), mkey.clone(), det_v.clone(), a2)); }
        mcases.push(("both-payloads", { let mut c = mcose.clone(); c.inner.payload = Some(payload.clone()); c }, mkey.clone(), Some(payload.clone()), aad.clone()));
        mcases.push(("no-payload", { let mut c = mcose.clone(); c.inner.payload = None; c }, mkey.clone(), None, aad.clone()));
        mcases.push(("unprotected-alg-hmac256", { let mut c = mcose.clone(); c.inner.unprotected.alg = Some(RegisteredLabelWithPrivate::Assigned(iana::Algorithm::HMAC_256_256)); c }, mkey.clone(), det_v.clone(), aad.clone()));
        mcases.push(("unprotected-alg-hmac384", { let mut c = mcose.clone(); c.inner.unprotected.alg = Some(RegisteredLabelWithPrivate::Assigned(iana::Algorithm::HMAC_384_384)); c }, mkey.clone(), det_v.clone(), aad.clone()));
        let _ = verifier;
        for (name, c, key, det, ad) in mcases {
            let v = Hmac::<Sha256>::new_from_slice(&key).unwrap();
            let real = verdict_mac0(c.verify(&v, det.as_deref(), ad.as_deref()));
            ctx.emit.line("corr", &format!("mac0:verify:{name}"), format!("cose.verifyMac0 {} {} {} {} {} {} {}", hex_or_dash(&key), alg_tok(&malg), opt_hex(&c.inner.payload), opt_hex(&det), opt_hex(&ad),
                hex_or_dash(&protected_of(&c)), hex_or_dash(&c.inner.tag)), real.clone(), serde_json::json!({"case": name, "msg_hex": format!("m{k}-{name}")}));
            let alg_ok = !matches!(malg, Alg::Assigned(_, n) if n != 5);
            let ok = if !alg_ok { real == "failure-alg" } else if name == "honest" || name.starts_with("unprotected-") { real == "success" } else { real != "success" };
            ctx.emit.line("spec", &format!("spec:mac0:{name}"), format!("spec.eq {} true", ok), "true".into(), serde_json::json!({"case": name, "verdict": real}));
        }
    }
}
