//! C09: issuance consistency.
use crate::gen::{gen_text, gen_value, to_bytes};
use crate::world::{self, Pki};
use crate::{guarded, hex_or_dash, Ctx};
use ciborium::Value;
use isomdl::cbor;
use isomdl::definitions::helpers::{NonEmptyMap, NonEmptyVec};
use isomdl::definitions::{DeviceKeyInfo, DigestAlgorithm, DigestId, KeyAuthorizations};
use isomdl::issuance::mdoc::{Mdoc, Namespaces};
use coset::Label;
use p256::ecdsa::{signature::Signer, signature::Verifier, Signature, SigningKey, VerifyingKey};
use rand::Rng;
use std::collections::BTreeMap;

fn did_value(i: i32) -> String {
    match guarded(move || DigestId::new(i)) {
        Err(_) => "panic".into(),
        Ok(d) => { let v: Value = cbor::into_value(d).unwrap(); let n: i128 = v.as_integer().unwrap().into(); n.to_string() }
    }
}

/// the protected-header byte string exactly as it is emitted on the wire
fn protected_bytes(c: &isomdl::cose::MaybeTagged<coset::CoseSign1>) -> Vec<u8> {
    let v: Value = cbor::into_value(c.clone()).unwrap();
    let v = match v { Value::Tag(_, inner) => *inner, other => other };
    v.as_array().and_then(|a| a.first()).and_then(|p| p.as_bytes()).cloned().unwrap_or_default()
}

fn alg_name(a: DigestAlgorithm) -> &'static str { match a { DigestAlgorithm::SHA256 => "SHA-256", DigestAlgorithm::SHA384 => "SHA-384", DigestAlgorithm::SHA512 => "SHA-512" } }

fn csv(v: Vec<String>) -> String { if v.is_empty() { "-".into() } else { v.join(",") } }

fn gen_namespaces(ctx: &mut Ctx) -> Namespaces {
    let mut nss: Namespaces = BTreeMap::new();
    let n_ns = ctx.rng.gen_range(1..=4);
    for i in 0..n_ns {
        let name = if i == 0 { "org.iso.18013.5.1".to_string() } else { format!("ns.{}{}", i, gen_text(&mut ctx.rng, 6)) };
        let mut elems = BTreeMap::new();
        let n_el = if ctx.rng.gen_bool(0.1) { ctx.rng.gen_range(13..40) } else { ctx.rng.gen_range(1..=12) };
        for j in 0..n_el {
            let id = match ctx.rng.gen_range(0..6) { 0 => format!("age_over_{:02}", ctx.rng.gen_range(0..100)), 1 => "family_name".into(), 2 => "portrait".into(), _ => format!("el{}{}", j, gen_text(&mut ctx.rng, 8)) };
            elems.insert(id, gen_value(&mut ctx.rng, 2));
        }
        nss.insert(name, elems);
    }
    nss
}

fn check_mdoc(ctx: &mut Ctx, tag: &str, pki: &Pki, mdoc: &Mdoc, supplied: &Namespaces, alg: DigestAlgorithm, decoys: bool,
              doc_type: &str, sig_payload: &[u8], validity: &isomdl::definitions::ValidityInfo) {
    // namespace part
    for (ns, elems) in supplied {
        let sup: Vec<String> = elems.iter().map(|(k, v)| format!("{}={}", hex_or_dash(k.as_bytes()), hex::encode(to_bytes(v)))).collect();
        let items: Vec<Vec<u8>> = mdoc.namespaces.get(ns).map(|v| v.iter().map(|t| t.inner_bytes.clone()).collect()).unwrap_or_default();
        let digests: Vec<(i128, Vec<u8>)> = mdoc.mso.value_digests.get(ns).map(|m| m.iter().map(|(k, v)| {
            let kv: Value = cbor::into_value(*k).unwrap(); (kv.as_integer().unwrap().into(), v.as_ref().to_vec()) }).collect()).unwrap_or_default();
        // correspondence: the model recomputes each element digest from the item bytes
        for it in &items {
            let t24 = Value::Tag(24, Box::new(Value::Bytes(it.clone())));
            let real = {
                use sha2::Digest;
                match alg { DigestAlgorithm::SHA256 => sha2::Sha256::digest(to_bytes(&t24)).to_vec(), DigestAlgorithm::SHA384 => sha2::Sha384::digest(to_bytes(&t24)).to_vec(), DigestAlgorithm::SHA512 => sha2::Sha512::digest(to_bytes(&t24)).to_vec() } };
            // the value the library put into the MSO for this item:
            let item: isomdl::definitions::IssuerSignedItem = cbor::from_slice(it).unwrap();
            let idv: Value = cbor::into_value(item.digest_id).unwrap(); let idn: i128 = idv.as_integer().unwrap().into();
            let in_mso = digests.iter().find(|(k, _)| *k == idn).map(|(_, v)| hex::encode(v)).unwrap_or("missing".into());
            let _ = real;
            ctx.emit.corr(tag, format!("c09.digest {} {}", alg_name(alg), hex::encode(it)), in_mso);
        }
        let op = format!("spec.c09.ns {} {} {} {} {}", alg_name(alg), if decoys { "t" } else { "f" }, csv(sup),
            csv(items.iter().map(hex::encode).collect()), csv(digests.iter().map(|(k, v)| format!("{}={}", k, hex::encode(v))).collect()));
        ctx.emit.line("spec", &format!("spec:{tag}:namespace"), op, "true".into(), serde_json::json!({"namespace": ns, "elements": elems.len(), "alg": alg_name(alg), "decoys": decoys}));
    }
    // namespaces issued = namespaces supplied
    let same_ns = mdoc.namespaces.keys().cloned().collect::<Vec<_>>() == supplied.keys().cloned().collect::<Vec<_>>()
        && mdoc.mso.value_digests.keys().cloned().collect::<Vec<_>>() == supplied.keys().cloned().collect::<Vec<_>>();
    ctx.emit.line("spec", &format!("spec:{tag}:nslist"), format!("spec.eq {} true", same_ns), "true".into(), serde_json::Value::Null);
    // issuerAuth / MSO shape
    let ia = &mdoc.issuer_auth.inner;
    let prot = protected_bytes(&mdoc.issuer_auth);
    let x5got = ia.unprotected.rest.iter().find(|(l, _)| l == &Label::Int(33)).map(|(_, v)| to_bytes(v)).unwrap_or_default();
    let x5want = to_bytes(&pki.ds_chain().into_cbor());
    let payload = ia.payload.clone().unwrap_or_default();
    let ret_mso = cbor::to_vec(&mdoc.mso).unwrap();
    // verification with p256 directly over the to-be-signed bytes
    let vk: VerifyingKey = *pki.ds_key.verifying_key();
    let verifies = Signature::from_slice(&ia.signature).map(|s| vk.verify(sig_payload, &s).is_ok()).unwrap_or(false);
    let fmt = |t: time::OffsetDateTime| { let u = t.to_offset(time::UtcOffset::UTC).replace_nanosecond(0).unwrap();
        u.format(&time::format_description::well_known::Rfc3339).unwrap() };
    let val = csv(vec![hex::encode(fmt(validity.signed)), hex::encode(fmt(validity.valid_from)), hex::encode(fmt(validity.valid_until))]);
    let op = format!("spec.c09.auth -7 {} {} {} {} {} {} {} {} {} {}", hex_or_dash(doc_type.as_bytes()), alg_name(alg), hex_or_dash(&prot), hex_or_dash(&x5got),
        hex_or_dash(&x5want), hex_or_dash(&payload), hex_or_dash(&ret_mso), hex_or_dash(sig_payload), val, if verifies && mdoc.doc_type == doc_type { "t" } else { "f" });
    ctx.emit.line("spec", &format!("spec:{tag}:issuerAuth"), op, "true".into(), serde_json::json!({"docType": doc_type, "alg": alg_name(alg)}));
}

pub fn run(ctx: &mut Ctx) {
    // 1. digest-id constructor: boundaries of all 2^32 inputs + random
    let mut pts: Vec<i32> = vec![i32::MIN, i32::MIN + 1, -65536, -256, -2, -1, 0, 1, 2, 255, 65536, i32::MAX - 1, i32::MAX];
    for _ in 0..(if ctx.thorough { 100_000 } else { 2_000 }) { pts.push(ctx.rng.gen()); }
    for i in pts {
        let real = did_value(i);
        ctx.emit.corr("digest-id", format!("did.new {i}"), real.clone());
        ctx.emit.line("spec", "spec:digest-id", format!("spec.did {real}"), "true".into(), serde_json::json!({"input": i, "real": real}));
    }
    // 2. issuances
    let pki = Pki::new(&mut ctx.rng);
    let n = if ctx.thorough { 3000 } else { 60 };
    for k in 0..n {
        let mut nss = gen_namespaces(ctx);
        // element sizes that make the IssuerSignedItemBytes cross every CBOR length-header boundary (23/24, 255/256, 65535/65536 bytes):
        // a sweep of consecutive value lengths, so that items of EXACTLY the boundary sizes are issued (quick: once; thorough: under every digest algorithm)
        // (the 64 KiB window is the costly part - the model hashes every item again with its own SHA-2 - so it is kept to the
        // lengths at which the whole item crosses 65535/65536, 68..100 bytes below, and the sweep runs once in the quick tier and
        // six times, twice per digest algorithm, in the thorough tier)
        if k % 20 == 7 && (k == 7 || (ctx.thorough && k < 120)) {
            let mut sizes = BTreeMap::new();
            for b in [24usize, 256] { for l in b.saturating_sub(110)..=b + 2 { sizes.insert(format!("sz{l}"), Value::Bytes(vec![(l % 251) as u8; l])); } }
            for l in (65536usize - 100..=65536 - 68).chain(65535..=65538) { sizes.insert(format!("sz{l}"), Value::Bytes(vec![(l % 251) as u8; l])); }
            nss.insert("ns.sizes".to_string(), sizes);
        }
        let alg = [DigestAlgorithm::SHA256, DigestAlgorithm::SHA384, DigestAlgorithm::SHA512][k % 3];
        let decoys = (k / 3) % 2 == 0;
        let doc_type = if k % 4 == 0 { "org.iso.18013.5.1.mDL".to_string() } else { format!("org.example.{}", gen_text(&mut ctx.rng, 8)) };
        let mut rng2: rand_chacha::ChaCha8Rng = rand::SeedableRng::seed_from_u64(ctx.rng.gen());
        let device_key = world::key_from(&mut rng2);
        let validity = {
            let base = time::OffsetDateTime::from_unix_timestamp(1_700_000_000 + ctx.rng.gen_range(0..100_000_000)).unwrap();
            let off = time::UtcOffset::from_hms(ctx.rng.gen_range(-11..12), ctx.rng.gen_range(0..1) , 0).unwrap();
            let b = (base + time::Duration::nanoseconds(ctx.rng.gen_range(0..999_999_999))).to_offset(off);
            isomdl::definitions::ValidityInfo { signed: b, valid_from: b, valid_until: b + time::Duration::days(ctx.rng.gen_range(1..400)), expected_update: None } };
        let auth = match k % 5 { 0 => None, 1 => Some(KeyAuthorizations { namespaces: Some(NonEmptyVec::new(nss.keys().next().unwrap().clone())), data_elements: None }), _ => None };
        let dki = DeviceKeyInfo { device_key: world::cose_key_of(&device_key), key_authorizations: auth, key_info: None };
        let builder = Mdoc::builder().doc_type(doc_type.clone()).namespaces(nss.clone()).validity_info(validity.clone())
            .digest_algorithm(alg).device_key_info(dki).enable_decoy_digests(decoys);
        if k % 2 == 0 {
            // remote signing: prepare -> signature_payload -> complete
            let prepared = builder.prepare(coset::iana::Algorithm::ES256).unwrap();
            let sp = prepared.signature_payload().to_vec();
            let sig: Signature = pki.ds_key.sign(&sp);
            let mdoc = prepared.complete(pki.ds_chain(), sig.to_vec());
            // `complete` inserts the supplied signature unchanged
            let ok = mdoc.issuer_auth.inner.signature == sig.to_vec();
            ctx.emit.line("spec", "spec:remote:signature-unchanged", format!("spec.eq {} true", ok), "true".into(), serde_json::Value::Null);
            check_mdoc(ctx, "remote", &pki, &mdoc, &nss, alg, decoys, &doc_type, &sp, &validity);
        } else {
            let mdoc = builder.issue::<SigningKey, Signature>(pki.ds_chain(), pki.ds_key.clone()).unwrap();
            // recompute the Sig_structure harness-side to have the to-be-signed bytes for verification
            let ia = &mdoc.issuer_auth.inner;
            let sp = to_bytes(&Value::Array(vec![Value::Text("Signature1".into()), Value::Bytes(protected_bytes(&mdoc.issuer_auth)),
                Value::Bytes(vec![]), Value::Bytes(ia.payload.clone().unwrap_or_default())]));
            check_mdoc(ctx, "direct", &pki, &mdoc, &nss, alg, decoys, &doc_type, &sp, &validity);
        }
    }
    // 3. refusals: empty namespace, no namespace, contradictory authorisations
    let refusal_cases: Vec<(Vec<usize>, Option<Vec<usize>>, Option<Vec<usize>>)> = vec![
        (vec![], None, None), (vec![0], None, None), (vec![2, 0], None, None), (vec![1], None, None), (vec![3, 2], None, None),
        (vec![1, 1], Some(vec![0]), Some(vec![0])), (vec![1, 1], Some(vec![0]), Some(vec![1])), (vec![1, 1], Some(vec![0, 1]), Some(vec![1])),
        (vec![2], Some(vec![0]), None), (vec![2], None, Some(vec![0])), (vec![1, 2, 1], Some(vec![2]), Some(vec![0, 2])),
    ];
    // every key authorisation over three namespaces whose string order differs from their index order:
    // nameSpaces = every ordered arrangement of every non-empty subset (or absent), dataElements = every subset (or absent)
    let mut refusal_cases = refusal_cases;
    let perms: Vec<Vec<usize>> = vec![vec![0], vec![1], vec![2], vec![0, 1], vec![1, 0], vec![0, 2], vec![2, 0], vec![1, 2], vec![2, 1],
        vec![0, 1, 2], vec![0, 2, 1], vec![1, 0, 2], vec![1, 2, 0], vec![2, 0, 1], vec![2, 1, 0]];
    let subsets: Vec<Vec<usize>> = vec![vec![0], vec![1], vec![2], vec![0, 1], vec![0, 2], vec![1, 2], vec![0, 1, 2]];
    for ans in std::iter::once(None).chain(perms.iter().cloned().map(Some)) {
        for ade in std::iter::once(None).chain(subsets.iter().cloned().map(Some)) {
            refusal_cases.push((vec![1, 2, 1], ans.clone(), ade));
        }
    }
    for (sizes, ans, ade) in refusal_cases {
        let name = |i: usize| ["org.iso.18013.5.1", "com.example.dmv", "zz.last", "aaa.first"][i % 4].to_string();
        let mut nss: Namespaces = BTreeMap::new();
        for (i, s) in sizes.iter().enumerate() { nss.insert(name(i), (0..*s).map(|j| (format!("e{j}"), Value::Bool(true))).collect()); }
        let mk_vec = |v: &Vec<usize>| { let mut it = v.iter(); let mut nv = NonEmptyVec::new(name(*it.next().unwrap())); for i in it { nv.push(name(*i)); } nv };
        let auth = if ans.is_none() && ade.is_none() { None } else { Some(KeyAuthorizations {
            namespaces: ans.as_ref().map(mk_vec),
            data_elements: ade.as_ref().map(|v| { let mut it = v.iter(); let mut m = NonEmptyMap::new(name(*it.next().unwrap()), NonEmptyVec::new("e0".to_string())); for i in it { m.insert(name(*i), NonEmptyVec::new("e0".to_string())); } m }) }) };
        let dki = DeviceKeyInfo { device_key: world::cose_key_of(&pki.ds_key), key_authorizations: auth, key_info: None };
        let r = Mdoc::builder().doc_type("d".into()).namespaces(nss).validity_info(world::validity_now()).digest_algorithm(DigestAlgorithm::SHA256)
            .device_key_info(dki).prepare(coset::iana::Algorithm::ES256);
        let f = |o: &Option<Vec<usize>>| match o { None => "none".to_string(), Some(v) => csv(v.iter().map(|x| x.to_string()).collect()) };
        let outcome = if r.is_ok() { "accepted" } else { "refused" };
        ctx.emit.corr("refusal", format!("c09.refuse {} {} {}", csv(sizes.iter().map(|x| x.to_string()).collect()), f(&ans), f(&ade)), outcome.into());
        ctx.emit.line("spec", "spec:refusal", format!("spec.c09.refusal {} {} {} {}", csv(sizes.iter().map(|x| x.to_string()).collect()), f(&ans), f(&ade), outcome), "true".into(),
            serde_json::json!({"namespace_sizes": sizes, "authorised_namespaces": ans.as_ref().map(|v| v.iter().map(|i| name(*i)).collect::<Vec<_>>()),
                               "authorised_data_elements_in": ade.as_ref().map(|v| v.iter().map(|i| name(*i)).collect::<Vec<_>>()), "outcome": outcome}));
    }
}
